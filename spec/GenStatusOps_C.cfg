INIT Init
NEXT GenNext
CONSTANTS
 Cap = 1
 Ops <- OpsC
CHECK_DEADLOCK FALSE
