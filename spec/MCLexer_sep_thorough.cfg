SPECIFICATION Spec
CONSTANT N = 5
CONSTANT AlphaSet <- A_sep
CONSTANT Which <- W_sep
INVARIANT Lemmas
CHECK_DEADLOCK FALSE
