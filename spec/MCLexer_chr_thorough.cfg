SPECIFICATION Spec
CONSTANT N = 8
CONSTANT AlphaSet <- A_chr
CONSTANT Which <- W_chr
INVARIANT Lemmas
CHECK_DEADLOCK FALSE
