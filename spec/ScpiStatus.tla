----------------------------- MODULE ScpiStatus -----------------------------
(***************************************************************************)
(* IEEE 488.2 / SCPI-99 status reporting of scpi-parser, intended          *)
(* behaviour: ten registers, the error/event queue behind the status byte, *)
(* summary propagation, MSS and the service request announcement, the      *)
(* error-class -> standard-event bit map, and the command handlers of      *)
(* ieee488.c / minimal.c that read or write this state.                    *)
(*                                                                         *)
(* Registers are sets of bit indices (0..15).  Every operation is a tuple  *)
(* <<kind, ...>>; Effect gives the new registers, queue and the numeric    *)
(* response, Apply adds the recomputed status byte and the required        *)
(* service request.  The same operators are used by the model-checking     *)
(* configurations (MCStatus), by the transition validator of              *)
(* implementation state graphs and random walks (TVStatus) and by the      *)
(* composition with the parser.                                            *)
(***************************************************************************)
EXTENDS Integers, FiniteSets, Sequences, TLC

CONSTANTS Cap,      \* capacity of the error queue (>= 1)
          Ops       \* the operation alphabet of a model-checking run

EventRegs  == {"ESR", "OPER", "QUES"}
EnableRegs == {"ESE", "OPERE", "QUESE"}
CondRegs   == {"OPERC", "QUESC"}
Regs       == EventRegs \cup EnableRegs \cup CondRegs \cup {"SRE"}
EventOf(c)  == IF c = "OPERC" THEN "OPER" ELSE "QUES"

Bits(n)  == {i \in 0..15 : (n \div (2^i)) % 2 = 1}
ToInt(S) == LET f[i \in 0..16] == IF i = 16 THEN 0 ELSE (IF i \in S THEN 2^i ELSE 0) + f[i + 1] IN f[0]

\* standard event status register bits
OPC == 0  REQ == 1  QER == 2  DER == 3  EER == 4  CER == 5  URQ == 6  PON == 7
QueueOverflow == 0 - 350

(* C12: the standard-event bit of an error code's class; {} when the code has none *)
ClassBits(code) ==
  IF code <= 0 - 100 /\ code >= 0 - 199 THEN {CER}
  ELSE IF code <= 0 - 200 /\ code >= 0 - 299 THEN {EER}
  ELSE IF code <= 0 - 300 /\ code >= 0 - 399 THEN {DER}
  ELSE IF code >= 1 /\ code <= 32767 THEN {DER}
  ELSE IF code <= 0 - 400 /\ code >= 0 - 499 THEN {QER}
  ELSE IF code <= 0 - 500 /\ code >= 0 - 599 THEN {PON}
  ELSE IF code <= 0 - 600 /\ code >= 0 - 699 THEN {URQ}
  ELSE IF code <= 0 - 700 /\ code >= 0 - 799 THEN {REQ}
  ELSE IF code <= 0 - 800 /\ code >= 0 - 899 THEN {OPC}
  ELSE {}

(* C11: the status byte as a function of what is behind it *)
Summary(r, n) == (IF r["ESR"]  \cap r["ESE"]   # {} THEN {5} ELSE {})
            \cup (IF r["OPER"] \cap r["OPERE"] # {} THEN {7} ELSE {})
            \cup (IF r["QUES"] \cap r["QUESE"] # {} THEN {3} ELSE {})
            \cup (IF n > 0 THEN {2} ELSE {})
WithMss(s, sre) == IF s \cap (sre \ {6}) # {} THEN s \cup {6} ELSE s
NewStb(r, n)    == WithMss(Summary(r, n), r["SRE"])

(* the bounded FIFO with overflow marker (C10 gives it in full, with texts) *)
QPush(qq, code, cap) == IF Len(qq) < cap THEN Append(qq, code)
                        ELSE Append(SubSeq(qq, 1, cap - 1), QueueOverflow)
QOverflows(qq, cap)  == Len(qq) >= cap

(* writing the MSS position of the status byte itself has no effect: bit 6 is a function of the rest *)
WriteReg(r, n, v) ==
  IF n = "STB" THEN r ELSE
  IF n \in CondRegs THEN [r EXCEPT ![n] = v, ![EventOf(n)] = @ \cup (v \ r[n])]   \* 0->1 latches
  ELSE [r EXCEPT ![n] = v]

NoOut == <<>>
(* Effect(r, qq, op, cap) = [reg, q, out]; out is the numeric response (a sequence of integers) *)
Effect(r, qq, op, cap) ==
  LET k == op[1] IN
  IF k = "set"          THEN [reg |-> WriteReg(r, op[2], op[3]), q |-> qq, out |-> NoOut]
  ELSE IF k = "setbits" THEN [reg |-> IF op[2] = "STB" THEN r ELSE WriteReg(r, op[2], r[op[2]] \cup op[3]), q |-> qq, out |-> NoOut]
  ELSE IF k = "clrbits" THEN [reg |-> IF op[2] = "STB" THEN r ELSE WriteReg(r, op[2], r[op[2]] \ op[3]), q |-> qq, out |-> NoOut]
  ELSE IF k = "push"    THEN [reg |-> [r EXCEPT !["ESR"] = @ \cup ClassBits(op[2]) \cup (IF QOverflows(qq, cap) THEN {DER} ELSE {})],
                              q |-> QPush(qq, op[2], cap), out |-> NoOut]
  ELSE IF k = "pop"     THEN [reg |-> r, q |-> IF qq = <<>> THEN qq ELSE Tail(qq), out |-> <<IF qq = <<>> THEN 0 ELSE Head(qq)>>]
  ELSE IF k = "clear"   THEN [reg |-> r, q |-> <<>>, out |-> NoOut]
  ELSE IF k = "count"   THEN [reg |-> r, q |-> qq, out |-> <<Len(qq)>>]
  ELSE \* k = "cmd": a command of the library's own table, op[2] its name, op[3] its argument (bit set) if any
  LET c == op[2] IN
  IF c = "*CLS"      THEN [reg |-> [r EXCEPT !["ESR"] = {}, !["OPER"] = {}, !["QUES"] = {}], q |-> <<>>, out |-> NoOut]
  ELSE IF c = "*ESR?" THEN [reg |-> [r EXCEPT !["ESR"] = {}], q |-> qq, out |-> <<ToInt(r["ESR"])>>]
  ELSE IF c = "*ESE"  THEN [reg |-> [r EXCEPT !["ESE"] = op[3]], q |-> qq, out |-> NoOut]
  ELSE IF c = "*ESE?" THEN [reg |-> r, q |-> qq, out |-> <<ToInt(r["ESE"])>>]
  ELSE IF c = "*SRE"  THEN [reg |-> [r EXCEPT !["SRE"] = op[3]], q |-> qq, out |-> NoOut]
  ELSE IF c = "*SRE?" THEN [reg |-> r, q |-> qq, out |-> <<ToInt(r["SRE"])>>]
  ELSE IF c = "*STB?" THEN [reg |-> r, q |-> qq, out |-> <<ToInt(NewStb(r, Len(qq)))>>]
  ELSE IF c = "*OPC"  THEN [reg |-> [r EXCEPT !["ESR"] = @ \cup {OPC}], q |-> qq, out |-> NoOut]
  ELSE IF c = "*OPC?" THEN [reg |-> r, q |-> qq, out |-> <<1>>]
  ELSE IF c = "*TST?" THEN [reg |-> r, q |-> qq, out |-> <<0>>]
  ELSE IF c = "*WAI"  THEN [reg |-> r, q |-> qq, out |-> NoOut]
  ELSE IF c = "STAT:QUES?"      THEN [reg |-> [r EXCEPT !["QUES"] = {}], q |-> qq, out |-> <<ToInt(r["QUES"])>>]
  ELSE IF c = "STAT:QUES:ENAB"  THEN [reg |-> [r EXCEPT !["QUESE"] = op[3]], q |-> qq, out |-> NoOut]
  ELSE IF c = "STAT:QUES:ENAB?" THEN [reg |-> r, q |-> qq, out |-> <<ToInt(r["QUESE"])>>]
  ELSE IF c = "STAT:QUES:COND?" THEN [reg |-> r, q |-> qq, out |-> <<ToInt(r["QUESC"])>>]
  ELSE IF c = "STAT:OPER?"      THEN [reg |-> [r EXCEPT !["OPER"] = {}], q |-> qq, out |-> <<ToInt(r["OPER"])>>]
  ELSE IF c = "STAT:OPER:ENAB"  THEN [reg |-> [r EXCEPT !["OPERE"] = op[3]], q |-> qq, out |-> NoOut]
  ELSE IF c = "STAT:OPER:ENAB?" THEN [reg |-> r, q |-> qq, out |-> <<ToInt(r["OPERE"])>>]
  ELSE IF c = "STAT:OPER:COND?" THEN [reg |-> r, q |-> qq, out |-> <<ToInt(r["OPERC"])>>]
  ELSE IF c = "STAT:PRES"       THEN [reg |-> [r EXCEPT !["QUES"] = {}], q |-> qq, out |-> NoOut]
  ELSE IF c = "SYST:ERR?"       THEN [reg |-> r, q |-> IF qq = <<>> THEN qq ELSE Tail(qq), out |-> <<IF qq = <<>> THEN 0 ELSE Head(qq)>>]
  ELSE IF c = "SYST:ERR:COUN?"  THEN [reg |-> r, q |-> qq, out |-> <<Len(qq)>>]
  ELSE [reg |-> r, q |-> qq, out |-> NoOut]

(* One operation: new registers and queue, status byte recomputed, service request on MSS rise *)
Apply(r, qq, sb, op, cap) ==
  LET e  == Effect(r, qq, op, cap)
      s2 == NewStb(e.reg, Len(e.q))
  IN [reg |-> e.reg, q |-> e.q, stb |-> s2, out |-> e.out,
      srq |-> IF 6 \in s2 /\ 6 \notin sb THEN <<s2>> ELSE <<>>]   \* required; more are allowed while MSS is 1

-----------------------------------------------------------------------------
VARIABLES reg, q, stb,       \* abstract state
          srq, out, lastOp   \* history of the last step (hidden by View)
vars == <<reg, q, stb, srq, out, lastOp>>
View == <<reg, q, stb>>

Init == /\ reg = [n \in Regs |-> {}] /\ q = <<>> /\ stb = {}
        /\ srq = <<>> /\ out = NoOut /\ lastOp = <<"init">>

Do(op) == LET a == Apply(reg, q, stb, op, Cap) IN
          /\ reg' = a.reg /\ q' = a.q /\ stb' = a.stb /\ srq' = a.srq /\ out' = a.out /\ lastOp' = op

Next == \E op \in Ops : Do(op)
Spec == Init /\ [][Next]_vars

-----------------------------------------------------------------------------
(* C11 *)
StbCoherent ==
  /\ (5 \in stb <=> reg["ESR"]  \cap reg["ESE"]   # {})
  /\ (7 \in stb <=> reg["OPER"] \cap reg["OPERE"] # {})
  /\ (3 \in stb <=> reg["QUES"] \cap reg["QUESE"] # {})
  /\ (2 \in stb <=> Len(q) > 0)
  /\ (6 \in stb <=> (stb \ {6}) \cap (reg["SRE"] \ {6}) # {})
  /\ stb \subseteq {2, 3, 5, 6, 7}
QueueBounded == Len(q) <= Cap

(* C12 *)
ClearsEvent(op, n) ==      \* the operations defined to clear bits of event register n
  \/ op[1] \in {"set", "clrbits"} /\ op[2] = n
  \/ op[1] = "cmd" /\ op[2] = "*CLS"
  \/ op[1] = "cmd" /\ n = "ESR"  /\ op[2] = "*ESR?"
  \/ op[1] = "cmd" /\ n = "QUES" /\ op[2] \in {"STAT:QUES?", "STAT:PRES"}
  \/ op[1] = "cmd" /\ n = "OPER" /\ op[2] = "STAT:OPER?"
Sticky    == [][\A n \in EventRegs : (reg[n] \ reg'[n] # {}) => ClearsEvent(lastOp', n)]_vars
Latch     == [][\A c \in CondRegs : (reg'[c] \ reg[c]) \subseteq reg'[EventOf(c)]]_vars
PushSetsClassBit ==
  [][lastOp'[1] = "push" =>
       /\ ClassBits(lastOp'[2]) \subseteq reg'["ESR"]
       /\ reg'["ESR"] \ reg["ESR"] \subseteq ClassBits(lastOp'[2]) \cup ClassBits(QueueOverflow)
       /\ (q'[Len(q')] = QueueOverflow => DER \in reg'["ESR"])]_vars
SrqOnRise == [][(6 \notin stb /\ 6 \in stb') => (srq' # <<>> /\ srq'[Len(srq')] = stb')]_vars
NoSrqWhileClear == \A i \in 1..Len(srq) : 6 \in srq[i] /\ 6 \in stb
FifoOrder == [][lastOp'[1] = "pop" => (out' = <<IF q = <<>> THEN 0 ELSE q[1]>> /\ q' = IF q = <<>> THEN q ELSE Tail(q))]_vars
=============================================================================
