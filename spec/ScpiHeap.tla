------------------------------ MODULE ScpiHeap ------------------------------
(***************************************************************************)
(* C20: error texts in the allocation-free build (caller-supplied static   *)
(* heap instead of malloc).  Two layers.                                   *)
(*                                                                         *)
(* Layer (a) - the abstract store.  The error queue is a FIFO of entries   *)
(* (code, text) in which "text or nothing" holds by definition: a push     *)
(* stores either exactly its text or no text (whether there is room is the *)
(* allocator's business), a push onto a full queue replaces the newest     *)
(* entry by -350 without text, and once the queue is empty the store is as *)
(* good as new: a push of any text shorter than the heap must be stored.   *)
(* No text is represented by the empty text.                               *)
(*                                                                         *)
(* Layer (b) - the ring algorithm of utils.c (write cursor wr, free count, *)
(* data[], strings split at the end of the array, rollback of the cursor   *)
(* on overflow) as operators Strndup, Free, Parts, composed into           *)
(* BPush/BPop/BClear the way error.c and minimal.c compose them.           *)
(* This is the one place where the model is meant to mirror the code.      *)
(*                                                                         *)
(* TLC checks on (b): TextOrNothing, NoOverlap, ReusableWhenEmpty,         *)
(* InBounds, the accounting lemmas NoLeak / Contiguous, and Refines:       *)
(* every (b) step is the (a) step of the same operation under Abs.         *)
(* All operators take the heap size N / the capacity explicitly so that    *)
(* the transition validator (TVHeap) can use them line by line.            *)
(***************************************************************************)
EXTENDS Integers, Sequences, FiniteSets, TLC

CONSTANTS Sizes,    \* heap sizes of a model-checking run
          Caps,     \* queue capacities of a model-checking run
          Codes     \* error codes pushed in a model-checking run

NoPtr    == 0 - 1
NoText   == <<>>
Overflow == 0 - 350
LetterA  == 97
LetterB  == 98

(* three texts per length: all a, all b, alternating *)
Shape(k, n) == [i \in 1..n |-> IF k = 1 THEN LetterA ELSE IF k = 2 THEN LetterB
                               ELSE IF i % 2 = 1 THEN LetterA ELSE LetterB]
Texts(N) == {Shape(k, n) : k \in 1..3, n \in 0..N}

Min(S) == CHOOSE x \in S : \A y \in S : x <= y
Front(s) == SubSeq(s, 1, Len(s) - 1)

----------------------------------------------------------------------------
(* Layer (a): abstract store.  aq is a sequence of [code, txt].            *)
Entry(c, t) == [code |-> c, txt |-> t]

(* the set of queues a push may produce *)
APush(aq, cp, N, c, t) ==
  IF Len(aq) >= cp THEN {Append(Front(aq), Entry(Overflow, NoText))}
  ELSE IF aq = <<>> /\ Len(t) < N THEN {<<Entry(c, t)>>}               \* completely reusable
  ELSE {Append(aq, Entry(c, t)), Append(aq, Entry(c, NoText))}          \* intact or not at all
APop(aq)   == IF aq = <<>> THEN [q |-> <<>>, out |-> Entry(0, NoText)]
              ELSE [q |-> Tail(aq), out |-> Head(aq)]
AClear(aq) == <<>>

----------------------------------------------------------------------------
(* Layer (b): ring heap.  h = [data, wr, count, oob]; data : 0..N-1 -> byte *)
(* oob records a write index outside 0..N-1.                               *)
EmptyHeap(N) == [data |-> [i \in 0..(N - 1) |-> 0], wr |-> 0, count |-> N, oob |-> FALSE]

(* strnlen(&d[from], max); callers guarantee from + max <= N *)
RECURSIVE Scan(_, _, _, _)
Scan(d, from, max, k) == IF k = max \/ d[from + k] = 0 THEN k ELSE Scan(d, from, max, k + 1)
StrnLen(d, from, max) == Scan(d, from, max, 0)

(* scpiheap_strndup: [ptr, h] *)
Strndup(h, N, s) ==
  LET d == h.data  w == h.wr  c == h.count
      len == Len(s) + 1                                   \* with the terminating NUL
      rem == N - w
      src(i) == IF i <= Len(s) THEN s[i] ELSE 0           \* 1-based byte i of s followed by NUL
  IN
  IF N = 0 \/ d[w] # 0 \/ Len(s) = 0 \/ len > c THEN [ptr |-> NoPtr, h |-> h]
  ELSE LET wraps == len >= rem
           d1   == IF wraps THEN [i \in 0..(N - 1) |-> IF i >= w THEN src(i - w + 1) ELSE d[i]] ELSE d
           len2 == IF wraps THEN len - rem ELSE len
           off  == IF wraps THEN rem ELSE 0
           w1   == IF wraps THEN 0 ELSE w
           c1   == IF wraps THEN c - rem ELSE c
           d2   == [i \in 0..(N - 1) |-> IF i >= w1 /\ i < w1 + len2 THEN src(off + i - w1 + 1) ELSE d1[i]]
           w2   == w1 + len2
           nul  == IF w2 > 0 THEN w2 - 1 ELSE N - 1       \* "ensure NUL at the end"
           d3   == [i \in 0..(N - 1) |-> IF i = nul THEN 0 ELSE d2[i]]
       IN [ptr |-> w,
           h |-> [data |-> d3, wr |-> w2, count |-> c1 - len2, oob |-> h.oob \/ w1 + len2 > N \/ nul >= N]]

(* scpiheap_get_parts on a pointer whose first byte is not NUL *)
HasText(d, s) == s # NoPtr /\ d[s] # 0
Parts(d, N, s) ==
  LET l1 == StrnLen(d, s, N - s) IN
  IF s + l1 - 1 = N - 1 THEN [len1 |-> l1, split |-> TRUE, len2 |-> StrnLen(d, 0, N)]
  ELSE [len1 |-> l1, split |-> FALSE, len2 |-> 0]
(* the text SYST:ERR? prints for the pointer (parser.c SCPI_ResultError) *)
ReadBack(d, N, s) ==
  IF ~HasText(d, s) THEN NoText
  ELSE LET p == Parts(d, N, s) IN
       [i \in 1..(p.len1 + p.len2) |-> IF i <= p.len1 THEN d[s + i - 1] ELSE d[i - p.len1 - 1]]
(* the array cells a live string owns, its NUL included *)
Cells(d, N, s) ==
  IF ~HasText(d, s) THEN {}
  ELSE LET p == Parts(d, N, s) IN
       IF p.split THEN s..(N - 1) \cup 0..p.len2 ELSE s..(s + p.len1)

(* scpiheap_free *)
Free(h, N, s, rollback) ==
  IF ~HasText(h.data, s) THEN h
  ELSE LET p  == Parts(h.data, N, s)
           l0 == IF p.split THEN p.len1 ELSE p.len1 + 1
           l1 == IF p.split THEN p.len2 + 1 ELSE 0
           d1 == [i \in 0..(N - 1) |-> IF (i >= s /\ i < s + l0) \/ i < l1 THEN 0 ELSE h.data[i]]
           c1 == h.count + l0 + l1
           rb == l0 + l1
           w1 == IF c1 = N THEN 0
                 ELSE IF rollback THEN (IF rb > h.wr THEN h.wr + N - rb ELSE h.wr - rb)
                 ELSE h.wr
       IN [data |-> d1, wr |-> w1, count |-> c1, oob |-> h.oob \/ s + l0 > N \/ l1 > N]

(* queue of the implementation: st = [h, q], q a sequence of [code, ptr, txt];  *)
(* txt is the ghost copy of the text that was stored (NoText when none was)     *)
QEntry(c, p, t) == [code |-> c, ptr |-> p, txt |-> t]

(* error.c SCPI_ErrorAddInternal: duplicate first, roll back twice on overflow *)
BPush(st, cp, N, c, t) ==
  LET a == Strndup(st.h, N, t) IN
  IF Len(st.q) < cp
  THEN [h |-> a.h, q |-> Append(st.q, QEntry(c, a.ptr, IF a.ptr = NoPtr THEN NoText ELSE t))]
  ELSE LET f1   == Free(a.h, N, a.ptr, TRUE)
           last == st.q[Len(st.q)]
           f2   == Free(f1, N, last.ptr, TRUE)
       IN [h |-> f2, q |-> Append(Front(st.q), QEntry(Overflow, NoPtr, NoText))]
(* minimal.c SCPI_SystemErrorNextQ: pop, print, free without rollback *)
BPop(st, N) ==
  IF st.q = <<>> THEN st
  ELSE [h |-> Free(st.h, N, st.q[1].ptr, FALSE), q |-> Tail(st.q)]
(* error.c SCPI_ErrorClear: free oldest first *)
RECURSIVE BClear(_, _)
BClear(st, N) == IF st.q = <<>> THEN st ELSE BClear(BPop(st, N), N)

(* projection (b) -> (a): what SYST:ERR? would report for every entry *)
AbsOf(st, N) == [i \in 1..Len(st.q) |-> Entry(st.q[i].code, ReadBack(st.h.data, N, st.q[i].ptr))]

(* state predicates of (b), usable on any [h, q] *)
TextOrNothingOf(st, N) ==
  \A i \in 1..Len(st.q) : st.q[i].ptr = NoPtr \/ ReadBack(st.h.data, N, st.q[i].ptr) = st.q[i].txt
NoOverlapOf(st, N) ==
  \A i, j \in 1..Len(st.q) : i < j => Cells(st.h.data, N, st.q[i].ptr) \cap Cells(st.h.data, N, st.q[j].ptr) = {}
InBoundsOf(st, N) ==
  /\ ~st.h.oob /\ st.h.wr >= 0 /\ st.h.wr < N /\ st.h.count >= 0 /\ st.h.count <= N
  /\ \A i \in 1..Len(st.q) : st.q[i].ptr = NoPtr \/ (st.q[i].ptr >= 0 /\ st.q[i].ptr < N)
ReusableWhenEmptyOf(st, N) ==
  st.q = <<>> => st.h.count = N /\ st.h.wr = 0 /\ \A i \in 0..(N - 1) : st.h.data[i] = 0
Owned(st, N) == UNION {Cells(st.h.data, N, st.q[i].ptr) : i \in 1..Len(st.q)}
(* accounting: count is exactly the number of cells no live string owns, and those are zero *)
NoLeakOf(st, N) ==
  LET own == Owned(st, N) IN
  /\ st.h.count = N - Cardinality(own)
  /\ \A i \in (0..(N - 1)) \ own : st.h.data[i] = 0
(* the live strings tile, in queue order, the ring segment that ends at wr *)
ContiguousOf(st, N) ==
  LET I == {i \in 1..Len(st.q) : HasText(st.h.data, st.q[i].ptr)}
      End(i) == (st.q[i].ptr + Cardinality(Cells(st.h.data, N, st.q[i].ptr))) % N
  IN IF I = {} THEN st.h.wr = 0
     ELSE \A i \in I : LET J == {j \in I : j > i} IN
                        IF J = {} THEN End(i) = st.h.wr ELSE End(i) = st.q[Min(J)].ptr
LayoutOk(st, N) ==
  InBoundsOf(st, N) /\ TextOrNothingOf(st, N) /\ NoOverlapOf(st, N) /\ ReusableWhenEmptyOf(st, N)
  /\ NoLeakOf(st, N) /\ ContiguousOf(st, N)

----------------------------------------------------------------------------
(* the state machine that TLC explores; last is a ghost (the operation of the last step), *)
(* hidden from the state graph by VIEW                                                    *)
VARIABLES size, cap, data, wr, count, oob, q, last
vars == <<size, cap, data, wr, count, oob, q, last>>
View == <<size, cap, data, wr, count, oob, q>>

St == [h |-> [data |-> data, wr |-> wr, count |-> count, oob |-> oob], q |-> q]
Becomes(st) == /\ data' = st.h.data /\ wr' = st.h.wr /\ count' = st.h.count /\ oob' = st.h.oob
               /\ q' = st.q /\ UNCHANGED <<size, cap>>

Init == /\ size \in Sizes /\ cap \in Caps /\ last = <<"init">>
        /\ data = EmptyHeap(size).data /\ wr = 0 /\ count = size /\ oob = FALSE /\ q = <<>>
Push(c, t) == Becomes(BPush(St, cap, size, c, t)) /\ last' = <<"push", c, t>>
Pop        == Becomes(BPop(St, size)) /\ last' = <<"pop">>
Clear      == Becomes(BClear(St, size)) /\ last' = <<"clear">>
Next == (\E c \in Codes, t \in Texts(size) : Push(c, t)) \/ Pop \/ Clear
Spec == Init /\ [][Next]_vars

TextOrNothing     == TextOrNothingOf(St, size)
NoOverlap         == NoOverlapOf(St, size)
InBounds          == InBoundsOf(St, size)
ReusableWhenEmpty == ReusableWhenEmptyOf(St, size)
NoLeak            == NoLeakOf(St, size)
Contiguous        == ContiguousOf(St, size)
QueueBounded      == Len(q) <= cap

Abs == AbsOf(St, size)
(* one step of layer (a) for operation o from abstract queue a to abstract queue b *)
AStep(a, b, cp, N, o) ==
  IF o[1] = "push" THEN b \in APush(a, cp, N, o[2], o[3])
  ELSE IF o[1] = "pop" THEN b = APop(a).q
  ELSE o[1] = "clear" /\ b = AClear(a)
(* (b) refines (a): every step of the ring algorithm is the abstract step of the same operation *)
Refines == [][AStep(Abs, Abs', cap, size, last')]_vars
=============================================================================
