SPECIFICATION Spec
CONSTANT N = 5
CONSTANT AlphaSet <- A_dec
CONSTANT Which <- W_dec
INVARIANT Lemmas
CHECK_DEADLOCK FALSE
