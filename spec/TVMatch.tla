------------------------------ MODULE TVMatch ------------------------------
(* C03, V: every recorded call of the real matcher {pb: pattern bytes, hb:   *)
(* header bytes, r: verdict without number array, rn: verdict with number    *)
(* array, n: the numbers it reported with default -1} must be what the       *)
(* property demands.  One initial state per recorded line.  Only lines whose *)
(* pattern is in the supported grammar and satisfies the side condition are  *)
(* judged (the others are reported as UNJUDGED).  Also used by the replay    *)
(* command of the check.                                                     *)
EXTENDS ScpiMatch, TLC, Json, IOUtils

T == ndJsonDeserialize(IOEnv.TRACE)
DefaultMark == 0 - 1
VARIABLES l, phase
vars == <<l, phase>>
Init == l \in 1..Len(T) /\ phase = 0
Next == phase = 0 /\ phase' = 1 /\ l' = l
Spec == Init /\ [][Next]_vars

Judged == WellFormedText(T[l].pb) /\ Len(T[l].hb) > 0
Acc  == AcceptsText(T[l].pb, T[l].hb)
Nums == NumbersText(T[l].pb, T[l].hb, DefaultMark)
Diff == (IF (T[l].r = 1) # Acc THEN {"accept"} ELSE {})
        \cup (IF (T[l].rn = 1) # Acc THEN {"accept-with-numbers"} ELSE {})
        \cup (IF Acc /\ T[l].rn = 1 /\ T[l].n # Nums THEN {"numbers"} ELSE {})
Conforms == phase = 1 =>
              IF Judged THEN Diff = {} \/ PrintT(<<"MISMATCH", l, Diff, IF Acc THEN <<1>> \o Nums ELSE <<>>>>)
              ELSE PrintT(<<"UNJUDGED", l>>)
=============================================================================
