SPECIFICATION Spec
CONSTANT N = 4
CONSTANT AlphaSet <- A_unit2
CONSTANT Which <- W_unit
INVARIANT Lemmas
CHECK_DEADLOCK FALSE
