------------------------------ MODULE ScpiDigits ------------------------------
(* Natural numbers as digit sequences (DESIGN 3.1).                         *)
(* A number is a sequence of digits, MOST significant first, in a radix B   *)
(* that is passed as an argument (2 <= B <= 65536).  <<0>> and <<>> are     *)
(* zero; arguments may carry leading zeros, DNorm removes them.  TLC's      *)
(* integers are 32 bit: every intermediate value below stays < 2^31 as long *)
(* as the small operand m satisfies (m - 1) * B + B - 1 < 2^31, i.e.        *)
(* m <= 32767 for radix 65536.  64-bit values cross the JSON boundary as    *)
(* four 16-bit limbs <<l3, l2, l1, l0>> = a radix-65536 digit sequence.     *)
(* Used by ScpiFormat (C14, C15); meant to be reused by C07 / C16.          *)
EXTENDS Integers, Sequences

LimbRadix == 65536

Min2(a, b) == IF a < b THEN a ELSE b
Max2(a, b) == IF a > b THEN a ELSE b

RECURSIVE Pow(_, _)
Pow(b, k) == IF k = 0 THEN 1 ELSE b * Pow(b, k - 1)          \* only for results < 2^31

Zeros(n) == [i \in 1..n |-> 0]

DIsZero(d) == \A i \in 1..Len(d) : d[i] = 0

RECURSIVE DNorm(_)
DNorm(d) == IF d = <<>> THEN <<0>>
            ELSE IF Len(d) = 1 THEN d
            ELSE IF Head(d) = 0 THEN DNorm(Tail(d)) ELSE d

\* pad on the left to n digits (n >= Len(d))
DPad(d, n) == Zeros(n - Len(d)) \o d

IsDigits(d, B) == \A i \in 1..Len(d) : d[i] \in 0..(B - 1)

\* three-way comparison of the values: -1, 0, 1
RECURSIVE DCmpR(_, _, _)
DCmpR(a, b, i) == IF i > Len(a) THEN 0
                  ELSE IF a[i] < b[i] THEN 0 - 1
                  ELSE IF a[i] > b[i] THEN 1
                  ELSE DCmpR(a, b, i + 1)
DCmp(x, y) == LET a == DNorm(x)  b == DNorm(y) IN
              IF Len(a) < Len(b) THEN 0 - 1
              ELSE IF Len(a) > Len(b) THEN 1
              ELSE DCmpR(a, b, 1)
DEq(x, y) == DNorm(x) = DNorm(y)
DLess(x, y) == DCmp(x, y) < 0
DLeq(x, y) == DCmp(x, y) <= 0

\* x + y
RECURSIVE DAddR(_, _, _, _, _, _)
DAddR(a, b, B, i, c, acc) == IF i = 0 THEN (IF c = 0 THEN acc ELSE <<c>> \o acc)
                             ELSE LET s == a[i] + b[i] + c IN DAddR(a, b, B, i - 1, s \div B, <<s % B>> \o acc)
DAdd(x, y, B) == LET n == Max2(Len(x), Len(y)) IN DNorm(DAddR(DPad(x, n), DPad(y, n), B, n, 0, <<>>))

\* x - y for x >= y
RECURSIVE DSubR(_, _, _, _, _, _)
DSubR(a, b, B, i, c, acc) == IF i = 0 THEN acc
                             ELSE LET s == a[i] - b[i] - c IN
                                  IF s < 0 THEN DSubR(a, b, B, i - 1, 1, <<s + B>> \o acc)
                                  ELSE DSubR(a, b, B, i - 1, 0, <<s>> \o acc)
DSub(x, y, B) == LET n == Max2(Len(x), Len(y)) IN DNorm(DSubR(DPad(x, n), DPad(y, n), B, n, 0, <<>>))

\* x * m, small m
RECURSIVE DMulR(_, _, _, _, _, _)
DMulR(a, m, B, i, c, acc) == IF i = 0 THEN (IF c = 0 THEN acc ELSE <<c>> \o acc)
                             ELSE LET s == a[i] * m + c IN DMulR(a, m, B, i - 1, s \div B, <<s % B>> \o acc)
DMulSmall(x, m, B) == DNorm(DMulR(x, m, B, Len(x), 0, <<>>))

\* long division by a small m: [q |-> quotient (normalised), r |-> remainder]
RECURSIVE DDivR(_, _, _, _, _, _)
DDivR(d, m, B, i, r, q) == IF i > Len(d) THEN [q |-> DNorm(q), r |-> r]
                           ELSE LET cur == r * B + d[i] IN DDivR(d, m, B, i + 1, cur % m, Append(q, cur \div m))
DDivSmall(d, m, B) == DDivR(d, m, B, 1, 0, <<>>)

\* the digits of the value of d (radix B) in radix b, by repeated division; canonical: no leading zeros, zero is <<0>>
RECURSIVE DConvR(_, _, _, _)
DConvR(d, B, b, acc) == IF DIsZero(d) THEN acc
                        ELSE LET x == DDivSmall(d, b, B) IN DConvR(x.q, B, b, <<x.r>> \o acc)
DConvert(d, B, b) == IF DIsZero(d) THEN <<0>> ELSE DConvR(d, B, b, <<>>)

\* the same digits, several at a time: divide by b^k (k digits per long division) and expand each remainder.
\* MCFormat checks DConvertFast = DConvert (lemma FastIsSlow) - DConvert stays the definition.
ChunkDigits(b) == IF b = 2 THEN 12 ELSE IF b = 8 THEN 4 ELSE IF b = 10 THEN 4 ELSE IF b = 16 THEN 3 ELSE 1
RECURSIVE DFixedR(_, _, _, _)
DFixedR(n, b, k, acc) == IF k = 0 THEN acc ELSE DFixedR(n \div b, b, k - 1, <<n % b>> \o acc)    \* exactly k digits of n
RECURSIVE DConvFastR(_, _, _, _, _, _)
DConvFastR(d, B, b, k, m, acc) == IF DIsZero(d) THEN acc
                                  ELSE LET x == DDivSmall(d, m, B) IN DConvFastR(x.q, B, b, k, m, DFixedR(x.r, b, k, <<>>) \o acc)
DConvertFast(d, B, b) == LET k == ChunkDigits(b) IN DNorm(DConvFastR(d, B, b, k, Pow(b, k), <<>>))

\* small naturals <-> digit sequences
RECURSIVE DFromNatR(_, _, _)
DFromNatR(n, B, acc) == IF n = 0 THEN acc ELSE DFromNatR(n \div B, B, <<n % B>> \o acc)
DFromNat(n, B) == IF n = 0 THEN <<0>> ELSE DFromNatR(n, B, <<>>)
RECURSIVE DToNatR(_, _, _, _)
DToNatR(d, B, i, acc) == IF i > Len(d) THEN acc ELSE DToNatR(d, B, i + 1, acc * B + d[i])
DToNat(d, B) == DToNatR(d, B, 1, 0)                           \* only when the value is < 2^31

\* 2^w as limbs, and two's complement arithmetic on w-bit words held in limbs
Pow2Limbs(w) == <<Pow(2, w % 16)>> \o Zeros(w \div 16)
LimbsNegative(v, w) == DCmp(v, Pow2Limbs(w - 1)) >= 0          \* sign bit of the w-bit word set
LimbsNegate(v, w) == IF DIsZero(v) THEN <<0>> ELSE DSub(Pow2Limbs(w), v, LimbRadix)   \* (2^w - v) mod 2^w
LimbsInWord(v, w) == IsDigits(v, LimbRadix) /\ DLess(v, Pow2Limbs(w))
=============================================================================
