------------------------------ MODULE TVLexer ------------------------------
(* Validation of what the real token recognisers reported (C13).  Every line of the trace   *)
(* is one byte string with the results {ret, type, offset, len, cursor} of a set of           *)
(* recognisers in several embeddings, recorded by harness/drv_lexer.c.  One state per line;   *)
(* Conforms evaluates ScpiLexer on the recorded bytes and prints                              *)
(*    <<"MISMATCH", line, embedding, recogniser, label>>                                      *)
(* for every result that the specification does not allow.  label names the set of known      *)
(* deviations (DESIGN.md 5.4) under which the result becomes exactly what the specification   *)
(* prescribes, or "unexplained".  Exact where the token syntax decides, relational for the    *)
(* documented INCOMPLETE header forms, for a block cut by the end of input and for units      *)
(* that are not well formed.                                                                  *)
EXTENDS ScpiLexer, TLC, Json, IOUtils

T == ndJsonDeserialize(IOEnv.TRACE)
VARIABLE l
Init == l \in 1..Len(T)
Next == UNCHANGED l
Spec == Init /\ [][Next]_l

TN(c) == IF c >= 0 /\ c <= 26 THEN TypeNames[c + 1] ELSE "GARBAGE"
TermN(c) == IF c >= 0 /\ c <= 2 THEN TermNames[c + 1] ELSE "GARBAGE"

(* o = <<ret, type, off, len, cur>>, p = 1-based cursor before the call *)
ObsTok(o) == <<o[1], TN(o[2]), o[3], o[4], o[5]>>
ExactTok(t, p) == <<t.next - p, t.type, t.start - 1, t.len, t.next - 1>>
Nothing(o, p) == o[1] = 0 /\ TN(o[2]) = "UNKNOWN" /\ o[4] = 0 /\ o[5] = p - 1
JudgeTok(t, o, p) == IF t.type = "UNKNOWN" THEN Nothing(o, p) ELSE ObsTok(o) = ExactTok(t, p)

JudgeHeader(b, p, o) ==
  LET h == LexHeader(b, p)
      s == LexHeaderStrict(b, p) IN
  IF h.type \notin IncompleteHeaderTypes THEN JudgeTok(h, o, p)
  ELSE \/ Nothing(o, p)
       \/ s.len > 0 /\ ObsTok(o) = ExactTok(s, p)
       \/ /\ TN(o[2]) \in IncompleteHeaderTypes /\ o[3] = p - 1 /\ o[4] >= 1 /\ o[4] <= h.len
          /\ o[1] = o[4] /\ o[5] = p - 1 + o[4] /\ G_HeaderPrefix(SubSeq(b, p, p + o[4] - 1))

JudgeBlock(b, p, o) ==
  LET t == LexBlock(b, p) IN
  IF t.type = "INCOMPLETE" THEN Nothing(o, p) \/ (o[1] = 0 /\ TN(o[2]) = "UNKNOWN" /\ o[4] = 0 /\ o[5] = Len(b))
  ELSE JudgeTok(t, o, p)

Unc(dev, n) == IF "decimal-ws-uncounted" \in dev THEN n ELSE 0

JudgePD(b, p, o, dev) ==
  LET d == ProgramDataX(b, p, dev)
      p0 == SkipWhile(b, p, WS)
      failed == TN(o[2]) = "UNKNOWN" /\ o[4] = 0 /\ o[5] >= p - 1 /\ o[5] <= p0 - 1 /\ o[1] = o[5] - (p - 1) IN
  IF d.type = "UNKNOWN" THEN failed
  ELSE IF d.type = "INCOMPLETE" THEN failed \/ (TN(o[2]) = "UNKNOWN" /\ o[4] = 0 /\ o[5] = Len(b) /\ o[1] >= 0 /\ o[1] <= Len(b) - (p - 1))
  ELSE ObsTok(o) = <<d.next - p - Unc(dev, UncountedWs(b, d)), d.type, d.start - 1, d.len, d.next - 1>>

(* o = <<ret, type, off, len, cur, nparams>> *)
JudgeAPD(b, p, o, dev) ==
  LET dl == DataListX(b, p, <<>>, dev) IN
  IF dl.ok THEN LET n == dl.next - p - Unc(dev, SumUncounted(b, dl.items, 1)) IN
       <<o[1], TN(o[2]), o[3], o[4], o[5], o[6]>> = <<n, "ALL", p - 1, n, dl.next - 1, Len(dl.items)>>
  ELSE /\ o[1] = 0 /\ TN(o[2]) = "UNKNOWN" /\ o[4] = 0 /\ o[5] >= p - 1 /\ o[5] <= Len(b)
       \* the count of a list that is not valid: negative once an element was consumed and a later one fails
       \* (that is what makes the parser refuse the unit); 0 or -1 when no element was consumed at all
       /\ IF dl.items = <<>> THEN o[6] \in {0, -1} ELSE o[6] < 0

(* o = <<ret, htype, hoff, hlen, dtype, doff, dlen, nparams, termination>> *)
JudgeUnit(b, p, o, dev) ==
  LET u == DetectUnitX(b, p, dev) IN
  /\ o[1] >= 0 /\ o[1] <= Len(b) - (p - 1)
  /\ IF u.accepted THEN
       /\ o[1] = u.next - p /\ TermN(o[9]) = u.term
       /\ <<TN(o[2]), o[3], o[4]>> = <<u.header.type, u.header.start - 1, u.header.len>>
       /\ IF u.hasData
          THEN <<TN(o[5]), o[6], o[7], o[8]>> = <<"ALL", u.dataStart - 1, u.dataEnd - u.dataStart - Unc(dev, SumUncounted(b, u.items, 1)), Len(u.items)>>
          ELSE TN(o[5]) = "UNKNOWN" /\ o[7] = 0 /\ o[8] \in {0, -1}
     ELSE \* not well formed: never "complete header with a valid parameter count", except that a list whose
          \* FIRST element is cut by the end of input (no element consumed) may count 0 or -1
          /\ \/ ~(TN(o[2]) \in CompleteHeaderTypes /\ o[8] >= 0)
             \/ (u.header.type \in CompleteHeaderTypes /\ u.valid /\ u.items = <<>> /\ u.incomplete /\ o[8] = 0)
          /\ (TN(o[2]) \in CompleteHeaderTypes \cup IncompleteHeaderTypes => o[3] >= p - 1 /\ o[4] >= 0 /\ o[3] + o[4] <= p - 1 + o[1])

Judge(id, b, p, o, dev) ==
  CASE id = 0 -> JudgeTok(LexWS(b, p), o, p)
    [] id = 1 -> JudgeHeader(b, p, o)
    [] id = 2 -> JudgeTok(LexCharData(b, p), o, p)
    [] id = 3 -> JudgeTok(LexDecimal(b, p), o, p)
    [] id = 4 -> JudgeTok(LexSuffixX(b, p, dev), o, p)
    [] id = 5 -> JudgeTok(LexNondecimal(b, p), o, p)
    [] id = 6 -> JudgeTok(LexString(b, p), o, p)
    [] id = 7 -> JudgeBlock(b, p, o)
    [] id = 8 -> JudgeTok(LexExpr(b, p), o, p)
    [] id = 9 -> JudgeTok(LexComma(b, p), o, p)
    [] id = 10 -> JudgeTok(LexSemicolon(b, p), o, p)
    [] id = 11 -> JudgeTok(LexColon(b, p), o, p)
    [] id = 12 -> JudgeTok(LexNewLine(b, p), o, p)
    [] id = 13 -> JudgeTok(LexSpecific(b, p, 64), o, p)
    [] id = 14 -> JudgePD(b, p, o, dev)
    [] id = 15 -> JudgeAPD(b, p, o, dev)
    [] id = 16 -> JudgeUnit(b, p, o, dev)

D1 == "suffix-bare-slash"
D2 == "decimal-ws-uncounted"
Label(id, b, p, o) ==
  IF Judge(id, b, p, o, {}) THEN "ok"
  ELSE IF Judge(id, b, p, o, {D1}) THEN D1
  ELSE IF Judge(id, b, p, o, {D2}) THEN D2
  ELSE IF Judge(id, b, p, o, {D1, D2}) THEN D1 \o "+" \o D2
  ELSE "unexplained"

Conforms ==
  LET rec == T[l] IN
  \A i \in 1..Len(rec.r) : \A k \in 1..Len(rec.k) :
     LET row == rec.r[i]
         lab == Label(rec.k[k], rec.b, row[2] + 1, row[3][k]) IN
     lab = "ok" \/ PrintT(<<"MISMATCH", l, row[1], rec.k[k], lab>>)
=============================================================================
