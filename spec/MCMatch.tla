------------------------------- MODULE MCMatch -------------------------------
(* C03, M: TLC checks the design of the matcher against the declarative      *)
(* property on every enumerated pattern (one state per pattern):             *)
(*   AlgoEqualsSpec   for every well-formed pattern the single left-to-right *)
(*                    keyword walk (MatchAlgo) accepts exactly the headers   *)
(*                    of the pattern's language (Accepts) and reports the    *)
(*                    numeric suffixes the property prescribes (Numbers);    *)
(*   UniqueSelection  for a well-formed pattern at most one selection of     *)
(*                    keywords spells a header, so Numbers is a function;    *)
(*   RoundTrip        ParsePattern inverts PatternText;                      *)
(*   CommonSane       a common pattern accepts its own text in both cases    *)
(*                    and nothing with a leading colon.                      *)
(*   SpellingsAccepted  every spelling the case generator calls accepted is  *)
(*                    accepted by the property (a check of MatchCases).      *)
(* All are conjuncts of the single invariant Checked.  For the patterns that *)
(* violate the side condition it counts how many have a header on which the  *)
(* walk and the property disagree about acceptance (the condition is needed, *)
(* not merely convenient).                                                   *)
EXTENDS MatchCases, TLC, IOUtils

CONSTANTS Mode,      \* "lex": patterns over the lexicon, "shipped": the frozen list
          MaxKw,     \* lexicon patterns of 1..MaxKw keywords
          ProductN   \* additionally all headers of up to ProductN mnemonics over Vocab (0: none)

Part   == atoi(IOEnv.PART)
NParts == atoi(IOEnv.NPARTS)
DefaultMark == 0 - 1

VARIABLES pat
ProdHdrs == IF ProductN > 0 THEN ProductHeaders(ProductN) ELSE {}

Init == \/ /\ Mode = "lex"
           /\ \E n \in 1..MaxKw : \E k \in LexPatterns(n) : \E q \in BOOLEAN :
                /\ PartOf(k, q, NParts) = Part
                /\ pat = [kws |-> k, query |-> q, common |-> FALSE, text |-> PatternText(k, q)]
        \/ /\ Mode = "shipped"
           /\ \E i \in 1..Len(Shipped) :
                /\ i % NParts = Part
                /\ SupportedPattern(Shipped[i])
                /\ pat = [kws |-> ParsePattern(Shipped[i]).kws, query |-> ParsePattern(Shipped[i]).query,
                          common |-> ParsePattern(Shipped[i]).common, text |-> Shipped[i]]
Next == UNCHANGED pat
Spec == Init /\ [][Next]_pat

Hdrs == IF pat.common THEN CommonCasesOf(pat.text)
        ELSE CasesOf(pat.kws, pat.query, IF Mode = "lex" THEN LexShortForms ELSE {}) \cup ProdHdrs
WF == ~pat.common /\ WellFormedPattern(pat.kws)

Agree(h) == LET a == Accepts(pat.kws, pat.query, h)
                m == MatchAlgo(pat.kws, pat.query, h, DefaultMark)
            IN /\ m.ok = a
               /\ a => /\ m.nums = Numbers(pat.kws, pat.query, h, DefaultMark)
                       /\ Cardinality(GoodSelections(pat.kws, pat.query, h)) = 1      \* UniqueSelection
AcceptAgree(h) == MatchAlgo(pat.kws, pat.query, h, DefaultMark).ok = Accepts(pat.kws, pat.query, h)
SpellingsAccepted == \A sp \in SpellSeqs(pat.kws, 1, TRUE) :
                        Accepts(pat.kws, pat.query, Join(sp) \o (IF pat.query THEN <<QMARK>> ELSE <<>>))
RoundTrip  == /\ ParsePattern(pat.text).kws = pat.kws /\ ParsePattern(pat.text).query = pat.query
              /\ ParsePattern(pat.text).common = pat.common
              /\ (~pat.common => PatternText(pat.kws, pat.query) = pat.text)
              /\ SupportedPattern(pat.text)
(* one invariant so that the header set of a pattern is built once *)
Checked ==
  LET H == Hdrs IN
  /\ RoundTrip
  /\ IF pat.common THEN                                                     \* CommonSane
        /\ AcceptsText(pat.text, pat.text) /\ AcceptsText(pat.text, LoSeq(pat.text))
        /\ \A h \in H : AcceptsText(pat.text, h) => (h[1] = STAR /\ Len(h) = Len(pat.text))
        /\ FirstMatch(<<pat.text>>, pat.text) = 1 /\ FirstMatch(<<pat.text>>, <<COLON>> \o pat.text) = 0
        /\ PrintT(<<"COMMON", Cardinality(H), Cardinality({h \in H : AcceptsText(pat.text, h)})>>)
     ELSE IF WF THEN
        /\ \A h \in H : Agree(h)                                             \* AlgoEqualsSpec, UniqueSelection
        /\ SpellingsAccepted
        /\ PrintT(<<"WELLFORMED", Cardinality(H)>>)
     ELSE PrintT(<<"ILLFORMED", IF \A h \in H : AcceptAgree(h) THEN 0 ELSE 1>>)   \* side condition needed?
=============================================================================
