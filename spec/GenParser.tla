------------------------------ MODULE GenParser ------------------------------
(* Scenario enumeration for the parser checks.  Every initial state is one   *)
(* scenario (command table, handler scripts, buffer size, input chunks);     *)
(* TLC checks the lemmas below on the specification for every scenario and   *)
(* writes the scenario as one ndjson line, which the driver then executes on *)
(* the real library (TVParser validates what it did).                        *)
EXTENDS ScpiParser, ParserVocab, Json, IOUtils

CONSTANTS MaxUnits, MaxSig, MaxItems, WsVariants, KindIdx, ItemIdx, NParts, Part
VARIABLE sc
LF == <<10>>
Sc(t, s, b, ch, meta) == [table |-> t, scripts |-> s, buf |-> b, mode |-> "I", chunks |-> ch, meta |-> meta]
Pick(seq, idx) == [i \in 1..Len(idx) |-> seq[idx[i]]]
Seqs(S, n) == UNION {[1..k -> S] : k \in 0..n}
NESeqs(S, n) == UNION {[1..k -> S] : k \in 1..n}
RECURSIVE FoldSum(_)
FoldSum(c) == IF c = <<>> THEN 0 ELSE Head(c) + FoldSum(Tail(c))
PrefSum(c, i) == FoldSum(SubSeq(c, 1, i))

(* C02: 1..MaxUnits headers of the vocabulary joined by ';' *)
InitC02 == \E us \in NESeqs(1..Len(C02Hdrs), MaxUnits) :
   /\ us[1] % NParts = Part
   /\ sc = Sc(C02Table, C02Scripts, 256, <<JoinWith(59, Pick(C02Hdrs, us)) \o LF>>, [hdrs |-> Pick(C02Hdrs, us)])

(* C05: a handler signature against a parameter list *)
Sep(w) == IF w = 0 THEN <<44>> ELSE IF w = 1 THEN <<32, 44, 32>> ELSE <<9, 44>>
Lead(w) == IF w = 2 THEN <<32, 32>> ELSE <<32>>
RECURSIVE JoinSeq(_, _)
JoinSeq(sep, ss) == IF ss = <<>> THEN <<>> ELSE IF Len(ss) = 1 THEN ss[1] ELSE ss[1] \o sep \o JoinSeq(sep, Tail(ss))
CmdPat == <<67, 77, 68>>
InitC05 == \E sig \in Seqs((KindIdx \cap (1..Len(C05Kinds))) \X BOOLEAN, MaxSig), its \in Seqs(1..Len(C05Items), MaxItems), w \in WsVariants, tail \in 0..Len(C05Bad), fl \in BOOLEAN :
   /\ (fl => tail > 0)           \* malformed tails are also executed by a zero-length call instead of a terminator
   /\ (Len(sig) + Len(its) + w) % NParts = Part
   /\ (tail > 0 => w = 0 /\ Len(sig) <= 1 /\ Len(its) <= 1)
   /\ LET ops == [i \in 1..Len(sig) |-> <<"p", C05Kinds[sig[i][1]], sig[i][2]>>]
          lst == Pick(C05Items, its) \o (IF tail > 0 THEN <<C05Bad[tail]>> ELSE <<>>)
          msg == CmdPat \o (IF lst = <<>> THEN <<>> ELSE Lead(w) \o JoinSeq(Sep(w), lst)) \o (IF w = 1 /\ lst # <<>> THEN <<32>> ELSE <<>>) \o LF
      IN sc = Sc(<<<<CmdPat, 1>>>>, <<<<1, 1, 1, ops>>>>, 256, IF fl THEN <<SubSeq(msg, 1, Len(msg) - 1), <<>>>> ELSE <<msg>>, [hdrs |-> <<CmdPat>>])

(* C05, array readers: [one reader] SCPI_ParamArray<kind>(n, mandatory) [one reader] against lists of 0..MaxItems items *)
ArrKindsP == <<"i32", "u32", "i64", "u64", "flt", "dbl">>
InitC05a == \E k \in KindIdx \cap (1..Len(ArrKindsP)), n \in 0..3, m \in BOOLEAN, pre \in 0..MaxSig, post \in 0..MaxSig, st \in BOOLEAN,
               its \in Seqs(ItemIdx \cap (1..Len(C05Items)), MaxItems), tail \in 0..Len(C05Bad) :
   /\ (k + n + Len(its)) % NParts = Part
   /\ (tail > 0 => Len(its) <= 1 /\ pre = 0 /\ post = 0)
   /\ LET one(x) == IF x = 0 THEN <<>> ELSE <<<<"p", IF x = 1 THEN "i32" ELSE "text", x = 1>>>>
          ops == one(pre) \o <<<<"pa", ArrKindsP[k], n, m>>>> \o one(post)
          lst == Pick(C05Items, its) \o (IF tail > 0 THEN <<C05Bad[tail]>> ELSE <<>>)
          msg == CmdPat \o (IF lst = <<>> THEN <<>> ELSE <<32>> \o JoinSeq(<<44>>, lst)) \o LF
      IN sc = Sc(<<<<CmdPat, 1>>>>, <<<<1, 1, IF st THEN 1 ELSE 0, ops>>>>, 256, <<msg>>, [hdrs |-> <<CmdPat>>])

(* C05, several units in one message: the accounting of one unit must not depend on errors of earlier units *)
InitC05m == \E us \in NESeqs(1..Len(C05mUnits), MaxUnits) :
   /\ us[1] % NParts = Part
   /\ sc = Sc(C05mTable, C05mScripts, 256, <<JoinWith(59, Pick(C05mUnits, us)) \o LF>>, [hdrs |-> <<>>])

(* C06: messages of scripted units, after nothing / a responding message / a failing message *)
Prevs == << <<>>, <<81, 49, 63, 10>>, <<67, 69, 10>>, <<81, 49, 63, 59, 81, 48, 63, 10>>, <<81, 80, 63, 10>> >>   \* none, "Q1?\n", "CE\n", "Q1?;Q0?\n", "QP?\n" (leaves a block unfinished)
InitC06 == \E us \in NESeqs(1..Len(C06Hdrs), MaxUnits), pv \in 1..5, fl \in BOOLEAN :      \* fl: ended by a zero-length call instead of a terminator
   /\ us[1] % NParts = Part /\ (fl => pv = 1 /\ Len(us) <= 2) /\ (pv >= 4 => Len(us) <= 2)
   /\ LET body == JoinWith(59, Pick(C06Hdrs, us))
          tailc == IF fl THEN <<body, <<>>>> ELSE <<body \o LF>> IN
      sc = Sc(C06Table, C06Scripts, 256, IF pv = 1 THEN tailc ELSE <<Prevs[pv]>> \o tailc, [hdrs |-> Pick(C06Hdrs, us)])

(* C08 / C09: streams of messages (units with blocks / strings holding terminators, relative headers, junk) *)
Msgs1 == { C08Units[u] \o C08Terms[t] : u \in 1..Len(C08Units), t \in 1..Len(C08Terms) }
Msgs2 == { C08Units[u] \o <<59>> \o C08Units[v] \o LF : u \in 1..Len(C08Units), v \in 1..Len(C08Units) }
InitC08 == \/ \E m \in Msgs1 \cup Msgs2 : Part = 0 /\ sc = Sc(C08Table, C08Scripts, 64, <<m>>, [hdrs |-> <<>>])
           \/ \E u \in 1..Len(C08Units), t \in 1..Len(C08Terms), m2 \in Msgs1 :
                 /\ MaxUnits >= 2 /\ u % NParts = Part
                 /\ sc = Sc(C08Table, C08Scripts, 64, <<C08Units[u] \o C08Terms[t] \o m2>>, [hdrs |-> <<>>])

(* C17: binary / ASCII arrays of every element size in both byte orders, blocks around header-length changes, *)
(* streamed blocks in every split, over-length data at every point, header-only calls for large lengths      *)
ArrPat == [s \in {1, 2, 4, 8} |-> << [i \in 1..s |-> 0], [i \in 1..s |-> i], [i \in 1..s |-> 256 - i], [i \in 1..s |-> IF i = 1 THEN 128 ELSE 0] >>]
ArrKinds == [s \in {1, 2, 4, 8} |-> IF s = 1 THEN <<"au8", "ai8">> ELSE IF s = 2 THEN <<"au16", "ai16">>
                                   ELSE IF s = 4 THEN <<"au32", "ai32", "aflt">> ELSE <<"au64", "ai64", "adbl">>]
QArr == <<65, 82, 82, 63>>      \* "ARR?"
ScArr(ops) == Sc(<<<<QArr, 1>>>>, <<<<1, 1, 0, ops>>>>, 256, <<QArr \o LF>>, [hdrs |-> <<QArr>>])
BlkData(n) == [i \in 1..n |-> IF i % 7 = 0 THEN 10 ELSE IF i % 5 = 0 THEN 59 ELSE (i * 37) % 256]
Compositions(n) == IF n = 0 THEN {<<>>} ELSE { c \in UNION {[1..k -> 1..n] : k \in 1..n} : FoldSum(c) = n }
BigLens == {9, 10, 11, 99, 100, 101, 999, 1000, 9999, 10000, 99999, 100000, 999999, 1000000, 9999999, 10000000, 99999999, 100000000, 999999999}
Deep == MaxSig >= 2        \* the thorough tier
LongLens == IF Deep THEN {7, 8, 9, 16, 17, 31, 32, 33, 64, 100, 255, 300} ELSE {7, 8, 9, 16, 17}
BlkLens == {0, 1, 2, 9, 10, 11, 99, 100, 101, 255} \cup (IF Deep THEN {256, 300, 999, 1000, 1001, 9999, 10000} ELSE {})
InitC17 ==
  \/ \E s \in {1, 2, 4, 8}, fmt \in 0..2, n \in 0..MaxUnits, k \in 1..3 : \E es \in [1..n -> 1..4] :
        /\ k <= Len(ArrKinds[s]) /\ (fmt = 0 => s <= 2) /\ Part = (s + fmt + n) % NParts
        /\ sc = ScArr(<< <<"r", ArrKinds[s][k], fmt, n, [i \in 1..n |-> ArrPat[s][es[i]]]>>, <<"r", "i32", 7>> >>)
  \/ \E s \in {1, 2, 4, 8}, fmt \in 1..2, n \in LongLens, k \in 1..3 :      \* longer arrays (batching, alignment)
        /\ Part = (s + fmt + n) % NParts /\ k <= Len(ArrKinds[s]) /\ (Deep \/ k = 1)
        /\ sc = ScArr(<< <<"r", ArrKinds[s][k], fmt, n, [i \in 1..n |-> [j \in 1..s |-> (37 * i + 11 * j) % 256]]>>, <<"r", "i32", 7>> >>)   \* every element different
  \/ \E n \in {255, 256, 257} : Part = n % NParts /\      \* more result items than a byte counts
        sc = ScArr(<< <<"r", "au8", 0, n, [i \in 1..n |-> <<i % 10>>]>>, <<"r", "i32", 7>> >>)
  \/ \E n \in BlkLens : Part = n % NParts /\ sc = ScArr(<< <<"r", "blk", BlkData(n)>>, <<"r", "i32", 7>> >>)
  \/ \E n \in 1..(IF Deep THEN 6 ELSE 4) : \E c \in Compositions(n) : Part = n % NParts /\
        sc = ScArr(<<<<"bh", n>>>> \o [i \in 1..Len(c) |-> <<"bd", SubSeq(BlkData(n), PrefSum(c, i - 1) + 1, PrefSum(c, i))>>] \o << <<"r", "i32", 7>> >>)
  \/ \E n \in 0..3, k \in 0..3 : k <= n /\ Part = (n + k) % NParts /\           \* k bytes sent, then one byte too many, then the rest
        sc = ScArr(<< <<"bh", n>>, <<"bd", SubSeq(BlkData(n), 1, k)>>, <<"bd", [i \in 1..(n - k + 1) |-> 66]>>, <<"bd", SubSeq(BlkData(n), k + 1, n)>>, <<"r", "i32", 7>> >>)
  \/ \E n \in 1..3, k \in 0..2, m \in 0..3, two \in BOOLEAN :      \* a unit leaves a block unfinished; the next unit sends data without a header
        /\ k < n /\ Part = (n + k + m) % NParts
        /\ LET QRaw == <<82, 65, 87, 63>> IN
           sc = Sc(<<<<QArr, 1>>, <<QRaw, 2>>>>,
                   << <<1, 1, 0, <<<<"bh", n>>, <<"bd", SubSeq(BlkData(n), 1, k)>>>>>>, <<2, 1, 0, <<<<"bd", [i \in 1..m |-> 119 + i]>>, <<"r", "i32", 7>>>>>> >>,
                   256, IF two THEN <<QArr \o LF, QRaw \o LF>> ELSE <<QArr \o <<59>> \o QRaw \o LF>>, [hdrs |-> <<>>])
  \/ \E n \in 1..3, m \in 1..3, k \in 1..3 :      \* a block (or a binary array) sent in one call is complete: data that follows it is refused
        /\ Part = (n + m + k) % NParts
        /\ sc = ScArr(<< IF k = 1 THEN <<"r", "blk", BlkData(n)>> ELSE <<"r", "au8", k - 1, n, [i \in 1..n |-> <<64 + i>>]>>,
                          <<"bd", [i \in 1..m |-> 119 + i]>>, <<"r", "i32", 7>> >>)
  \/ \E n \in 1..2, w \in 1..2 : Part = (n + w) % NParts /\     \* refused twice; refused after the handler reported something else
        sc = ScArr(<< <<"bh", n>> >> \o (IF w = 1 THEN <<>> ELSE << <<"e", 110>> >>) \o
                   << <<"bd", [i \in 1..(n + 1) |-> 66]>>, <<"bd", [i \in 1..(n + 2) |-> 67]>>, <<"bd", BlkData(n)>>, <<"r", "i32", 7>> >>)
  \/ \E n \in BigLens : Part = n % NParts /\ sc = ScArr(<< <<"bh", n>> >>)
  \/ Part = 0 /\ sc = ScArr(<< <<"r", "blk", [i \in 1..66000 |-> (i * 7) % 251]>>, <<"r", "i32", 7>> >>)     \* a block longer than 65535 bytes, with its data
(* C01: every byte string up to MaxUnits + 1 bytes over one representative per character class, bare and as the data of a header, *)
(* handled by commands that apply every decoding / expression / result API to what they get                                      *)
C01Alpha == <<65, 49, 48, 35, 34, 39, 40, 41, 44, 59, 58, 42, 63, 32, 10, 13, 46, 45, 69, 0, 128, 64, 47, 72, 66>>
C01Table == << <<<<88>>, 1>>, <<<<88, 63>>, 2>>, <<<<42, 67>>, 3>>, <<<<65, 58, 65>>, 4>> >>       \* X  X?  *C  A:A
C01Scripts == << <<1, 1, 0, <<<<"x">>, <<"x">>, <<"x">>>>>>, <<2, 1, 0, <<<<"x">>, <<"r", "i32", 1>>>>>>, <<3, 0, 0, <<>>>>, <<4, 1, 1, <<<<"p", "num", TRUE>>, <<"p", "text", FALSE>>>>>> >>
InitC01 == \E s \in Seqs(1..Len(C01Alpha), MaxUnits + 1), pre \in 0..2 :
   /\ (Len(s) + pre) % NParts = Part
   /\ LET body == Pick(C01Alpha, s)
          stream == (IF pre = 0 THEN <<>> ELSE IF pre = 1 THEN <<88, 32>> ELSE <<88, 63, 32>>) \o body IN
      sc = Sc(C01Table, C01Scripts, 16, <<stream, <<>>>>, [hdrs |-> <<>>])
(* C01: a block that announces more bytes than arrive, at different offsets, executed by a zero-length call *)
InitC01b == \E n \in 1..7, k \in 0..6, pre \in 1..4 :
   /\ k < n /\ (n + k + pre) % NParts = Part
   /\ LET p == IF pre = 1 THEN <<88, 32>> ELSE IF pre = 2 THEN <<88, 63, 32>> ELSE IF pre = 3 THEN <<88, 32, 49, 44>> ELSE <<88, 32, 49, 50, 51, 52, 53, 44, 32>>
          stream == p \o <<35, 49, 48 + n>> \o [i \in 1..k |-> 96 + i] IN
      sc = Sc(C01Table, C01Scripts, 16, <<stream, <<>>>>, [hdrs |-> <<>>])
Next == UNCHANGED sc
SpecC01 == InitC01 /\ [][Next]_sc
SpecC01b == InitC01b /\ [][Next]_sc
SpecC17 == InitC17 /\ [][Next]_sc
SpecC02 == InitC02 /\ [][Next]_sc
SpecC05 == InitC05 /\ [][Next]_sc
SpecC05m == InitC05m /\ [][Next]_sc
SpecC05a == InitC05a /\ [][Next]_sc
SpecC06 == InitC06 /\ [][Next]_sc
SpecC08 == InitC08 /\ [][Next]_sc

-----------------------------------------------------------------------------
TableR   == [i \in 1..Len(sc.table) |-> [pat |-> sc.table[i][1], tag |-> sc.table[i][2]]]
TagsR    == {sc.scripts[i][1] : i \in 1..Len(sc.scripts)}
ScriptsR == [t \in TagsR |-> LET i == CHOOSE i \in 1..Len(sc.scripts) : sc.scripts[i][1] = t IN
                             [ops |-> sc.scripts[i][4], ret |-> sc.scripts[i][2] = 1, stop |-> sc.scripts[i][3] = 1]]
ChoicesR == <<[name |-> <<66, 85, 83>>, tag |-> 5], [name |-> <<73, 77, 77, 101, 100, 105, 97, 116, 101>>, tag |-> 6],
              [name |-> <<69, 88, 84, 101, 114, 110, 97, 108>>, tag |-> 7]>>
LastMsg == LET ne == {i \in 1..Len(sc.chunks) : sc.chunks[i] # <<>>} IN IF ne = {} THEN <<>> ELSE sc.chunks[CHOOSE i \in ne : \A j \in ne : j <= i]
R == RunMsg(TableR, ScriptsR, ChoicesR, LastMsg)

(* lemmas on the specification, checked for every enumerated scenario *)
\* L_Path: the path threaded through the unit loop equals the declarative effective-header list of the message text
\* L_Units: one log entry per unit; the return value tells whether an error was queued; -113 once per undefined unit
\* L_Frame: a terminator and one flush iff some unit responded
Lemmas == LET r == R IN
  /\ (~r.weird /\ sc.meta.hdrs # <<>> /\ Len(sc.meta.hdrs) = Len(r.log)) =>
             [i \in 1..Len(r.log) |-> r.log[i].eff] = EffectiveList(sc.meta.hdrs, <<>>)
  /\ ~r.weird => /\ (sc.meta.hdrs # <<>> => Len(r.log) = Len(sc.meta.hdrs))
                 /\ r.ret = (r.errs = <<>>)
                 /\ Cardinality({i \in 1..Len(r.log) : r.log[i].tag = 0}) = Cardinality({i \in 1..Len(r.errs) : r.errs[i] = 0 - 113})
  /\ (r.out = <<>>) = (r.nresp = 0) /\ r.flush = (IF r.nresp = 0 THEN 0 ELSE 1)
  /\ (r.out # <<>> => SubSeq(r.out, Len(r.out) - 1, Len(r.out)) = NL)
\* unit detection always makes progress (no hang), inside the message
L_Progress == \A p \in 1..Len(LastMsg) : LET u == DetectUnit(LastMsg, p) IN u.next > p /\ u.next <= Len(LastMsg) + 1
\* C08: cutting the stream anywhere yields the same messages and remainder as giving it whole
RECURSIVE Feed(_, _, _)
Feed(pend, chunks, acc) == IF chunks = <<>> THEN [msgs |-> acc, rest |-> pend]
                           ELSE LET s == SplitMsgs(pend \o Head(chunks), <<>>) IN Feed(s.rest, Tail(chunks), acc \o s.msgs)
CrLfSplit(b, k) == b[k] = 13 /\ b[k + 1] = 10     \* a CR/LF pair cut in the middle: the LF alone is an empty message
L_Chunk == LET whole == Feed(<<>>, <<LastMsg>>, <<>>) IN
           \A k \in 1..(Len(LastMsg) - 1) :
              LET cut == Feed(<<>>, <<SubSeq(LastMsg, 1, k), SubSeq(LastMsg, k + 1, Len(LastMsg))>>, <<>>) IN
              Flatten(cut.msgs) \o cut.rest = LastMsg /\ (CrLfSplit(LastMsg, k) \/ (cut.msgs = whole.msgs /\ cut.rest = whole.rest))

Emit == Serialize(ToJson(sc) \o "\n", IOEnv.OUT, [format |-> "TXT", charset |-> "UTF-8", openOptions |-> <<"WRITE", "CREATE", "APPEND">>]).exitValue = 0
=============================================================================
