---------------------------- MODULE ScpiErrQueue ----------------------------
(***************************************************************************)
(* The error/event queue (C10) and the response of the error query (C18).  *)
(*                                                                         *)
(* An entry is [code, has, text, id]: has = a device-dependent text is     *)
(* stored with the error, text = its bytes, id = the allocation that holds *)
(* it (0 = none).  The queue is a FIFO of capacity cap; a push onto a full *)
(* queue replaces the newest entry by -350 without text.  The queue owns   *)
(* the allocations of its entries: each is released exactly once - when    *)
(* the entry is popped and consumed, cleared, or displaced by overflow.    *)
(* Pure operators first (used by the validators with recorded arguments),  *)
(* then the state machine that TLC model-checks.                           *)
(***************************************************************************)
EXTENDS Integers, Sequences, FiniteSets, TLC, ScpiErrTable

QueueOverflow == 0 - 350
NoEntry   == [code |-> 0, has |-> FALSE, text |-> <<>>, id |-> 0]
Marker    == [code |-> QueueOverflow, has |-> FALSE, text |-> <<>>, id |-> 0]
Ent(c, stored, t, i) == [code |-> c, has |-> stored, text |-> IF stored THEN t ELSE <<>>, id |-> IF stored THEN i ELSE 0]
IdsOf(qq) == {qq[i].id : i \in {j \in 1..Len(qq) : qq[j].has}}

(* push: stored = the text was given, the build supports texts and storing it succeeded *)
PushQ(qq, cap, c, stored, t, i) ==
  IF Len(qq) < cap THEN [q |-> Append(qq, Ent(c, stored, t, i)), frees |-> {}, overflow |-> FALSE]
  ELSE [q |-> Append(SubSeq(qq, 1, cap - 1), Marker),
        frees |-> (IF stored THEN {i} ELSE {}) \cup (IF qq[Len(qq)].has THEN {qq[Len(qq)].id} ELSE {}),
        overflow |-> TRUE]
(* pop + consume (the caller releases the text it was handed; SYST:ERR? does exactly that) *)
PopQ(qq) == IF qq = <<>> THEN [q |-> qq, res |-> NoEntry, frees |-> {}]
            ELSE [q |-> Tail(qq), res |-> Head(qq), frees |-> IF Head(qq).has THEN {Head(qq).id} ELSE {}]
ClearQ(qq) == [q |-> <<>>, frees |-> IdsOf(qq)]

-----------------------------------------------------------------------------
(* C18: <code>,"<description>[;<text>]" - content cut to `limit` escaped characters *)
DQ == 34
RECURSIVE DecStr(_)
DecStr(n) == IF n < 10 THEN <<48 + n>> ELSE DecStr(n \div 10) \o <<48 + (n % 10)>>
Dec(n) == IF n < 0 THEN <<45>> \o DecStr(0 - n) ELSE DecStr(n)
EscLen(s) == Len(s) + Cardinality({i \in 1..Len(s) : s[i] = DQ})
RECURSIVE Esc(_)
Esc(s) == IF s = <<>> THEN <<>> ELSE (IF Head(s) = DQ THEN <<DQ, DQ>> ELSE <<Head(s)>>) \o Esc(Tail(s))
(* longest prefix whose escaped length does not exceed limit *)
CutLen(s, limit) == LET ok == {k \in 0..Len(s) : EscLen(SubSeq(s, 1, k)) <= limit} IN
                    CHOOSE k \in ok : \A j \in ok : j <= k
Cut(s, limit) == SubSeq(s, 1, CutLen(s, limit))
Content(desc, has, t, withSemi) == IF has /\ (t # <<>> \/ withSemi) THEN desc \o <<59>> \o t ELSE desc
ErrResponse(code, has, t, limit, withSemi) ==
  Dec(code) \o <<44, DQ>> \o Esc(Cut(Content(Desc(code), has, t, withSemi), limit)) \o <<DQ>>
(* an empty text may or may not produce the ';' - the statement does not decide it *)
ResponseOk(outb, code, has, t, limit) ==
  \/ outb = ErrResponse(code, has, t, limit, TRUE)
  \/ (t = <<>> /\ outb = ErrResponse(code, has, t, limit, FALSE))

(* lemmas about the response, model-checked on small limits (MCErrResp) *)
RECURSIVE Unesc(_)
Unesc(s) == IF s = <<>> THEN <<>>
            ELSE IF Head(s) = DQ /\ Len(s) >= 2 /\ s[2] = DQ THEN <<DQ>> \o Unesc(Tail(Tail(s)))
            ELSE <<Head(s)>> \o Unesc(Tail(s))
RECURSIVE WellQuoted(_)      \* every double quote inside the string body is doubled
WellQuoted(s) == IF s = <<>> THEN TRUE
                 ELSE IF Head(s) = DQ THEN Len(s) >= 2 /\ s[2] = DQ /\ WellQuoted(Tail(Tail(s)))
                 ELSE WellQuoted(Tail(s))
IsPrefixOf(a, b) == Len(a) <= Len(b) /\ SubSeq(b, 1, Len(a)) = a
ResponseLemma(full, limit) ==
  LET c == Cut(full, limit) e == Esc(c) IN
  /\ Len(e) <= limit /\ Len(e) = EscLen(c)
  /\ WellQuoted(e) /\ Unesc(e) = c /\ IsPrefixOf(c, full)
  /\ (c # full => EscLen(SubSeq(full, 1, Len(c) + 1)) > limit)        \* cut as late as the limit allows

-----------------------------------------------------------------------------
(* State machine for model checking: every history of pushes (with / without text, storing may fail), *)
(* pops, error queries, clears and counts.                                                           *)
CONSTANTS Cap, Codes, Texts
VARIABLES q, live, lastRes, lastFrees, lastOp
qvars == <<q, live, lastRes, lastFrees, lastOp>>

QInit == q = <<>> /\ live = {} /\ lastRes = NoEntry /\ lastFrees = {} /\ lastOp = "init"
FreshId == CHOOSE i \in 1..(Cap + 2) : i \notin live

DoPush(c, hasInfo, t, allocOk) ==
  LET stored == hasInfo /\ allocOk
      r == PushQ(q, Cap, c, stored, t, FreshId)
      liveMid == IF stored THEN live \cup {FreshId} ELSE live IN
  /\ q' = r.q
  /\ Assert(r.frees \subseteq liveMid, "release of an allocation that is not live (double free)")
  /\ live' = liveMid \ r.frees /\ lastFrees' = r.frees /\ lastRes' = NoEntry /\ lastOp' = "push"
DoPop == LET r == PopQ(q) IN
  /\ q' = r.q /\ Assert(r.frees \subseteq live, "double free") /\ live' = live \ r.frees
  /\ lastFrees' = r.frees /\ lastRes' = r.res /\ lastOp' = "pop"
DoClear == LET r == ClearQ(q) IN
  /\ q' = r.q /\ Assert(r.frees \subseteq live, "double free") /\ live' = live \ r.frees
  /\ lastFrees' = r.frees /\ lastRes' = NoEntry /\ lastOp' = "clear"
QNext == \/ \E c \in Codes, t \in Texts, h \in BOOLEAN, a \in BOOLEAN : DoPush(c, h, t, a)
         \/ DoPop \/ DoClear
QSpec == QInit /\ [][QNext]_qvars

Bounded     == Len(q) <= Cap
Ownership   == live = IdsOf(q)                            \* no leak; nothing released is still referenced
DistinctIds == \A i, j \in 1..Len(q) : (i # j /\ q[i].has /\ q[j].has) => q[i].id # q[j].id
TextsIntact == \A i \in 1..Len(q) : q[i].has => q[i].text \in Texts
OverflowMarks == [][(lastOp' = "push" /\ Len(q) = Cap) => (q'[Cap] = Marker /\ SubSeq(q', 1, Cap - 1) = SubSeq(q, 1, Cap - 1))]_qvars
PopIsOldest == [][lastOp' = "pop" => (IF q = <<>> THEN lastRes' = NoEntry /\ q' = q ELSE lastRes' = Head(q) /\ q' = Tail(q))]_qvars
ReleasedOnce == [][lastFrees' \cap live' = {} /\ lastFrees' \cap IdsOf(q') = {}]_qvars
=============================================================================
