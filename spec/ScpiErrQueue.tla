---------------------------- MODULE ScpiErrQueue ----------------------------
(***************************************************************************)
(* The error/event queue (C10) and the response of the error query (C18).  *)
(*                                                                         *)
(* An entry is [code, has, text, id]: has = a device-dependent text is     *)
(* stored with the error, text = its bytes, id = the allocation that holds *)
(* it (0 = none).  The queue is a FIFO of capacity cap; a push onto a full *)
(* queue replaces the newest entry by -350 without text.  The queue owns   *)
(* the allocations of its entries: each is released exactly once - when    *)
(* the entry is popped and consumed, cleared, or displaced by overflow.    *)
(* Pure operators first (used by the validators with recorded arguments),  *)
(* then the state machine that TLC model-checks.                           *)
(***************************************************************************)
EXTENDS ScpiErrQueueCore, ScpiErrTable

(* entries, PushQ / PopQ / ClearQ and the state machine: ScpiErrQueueCore *)

-----------------------------------------------------------------------------
(* C18: <code>,"<description>[;<text>]" - content cut to `limit` escaped characters *)
DQ == 34
RECURSIVE DecStr(_)
DecStr(n) == IF n < 10 THEN <<48 + n>> ELSE DecStr(n \div 10) \o <<48 + (n % 10)>>
Dec(n) == IF n < 0 THEN <<45>> \o DecStr(0 - n) ELSE DecStr(n)
EscLen(s) == Len(s) + Cardinality({i \in 1..Len(s) : s[i] = DQ})
RECURSIVE Esc(_)
Esc(s) == IF s = <<>> THEN <<>> ELSE (IF Head(s) = DQ THEN <<DQ, DQ>> ELSE <<Head(s)>>) \o Esc(Tail(s))
(* longest prefix whose escaped length does not exceed limit *)
CutLen(s, limit) == LET ok == {k \in 0..Len(s) : EscLen(SubSeq(s, 1, k)) <= limit} IN
                    CHOOSE k \in ok : \A j \in ok : j <= k
Cut(s, limit) == SubSeq(s, 1, CutLen(s, limit))
Content(desc, has, t, withSemi) == IF has /\ (t # <<>> \/ withSemi) THEN desc \o <<59>> \o t ELSE desc
ErrResponse(code, has, t, limit, withSemi) ==
  Dec(code) \o <<44, DQ>> \o Esc(Cut(Content(Desc(code), has, t, withSemi), limit)) \o <<DQ>>
(* an empty text may or may not produce the ';' - the statement does not decide it *)
ResponseOk(outb, code, has, t, limit) ==
  \/ outb = ErrResponse(code, has, t, limit, TRUE)
  \/ (t = <<>> /\ outb = ErrResponse(code, has, t, limit, FALSE))

(* lemmas about the response, model-checked on small limits (MCErrResp) *)
RECURSIVE Unesc(_)
Unesc(s) == IF s = <<>> THEN <<>>
            ELSE IF Head(s) = DQ /\ Len(s) >= 2 /\ s[2] = DQ THEN <<DQ>> \o Unesc(Tail(Tail(s)))
            ELSE <<Head(s)>> \o Unesc(Tail(s))
RECURSIVE WellQuoted(_)      \* every double quote inside the string body is doubled
WellQuoted(s) == IF s = <<>> THEN TRUE
                 ELSE IF Head(s) = DQ THEN Len(s) >= 2 /\ s[2] = DQ /\ WellQuoted(Tail(Tail(s)))
                 ELSE WellQuoted(Tail(s))
IsPrefixOf(a, b) == Len(a) <= Len(b) /\ SubSeq(b, 1, Len(a)) = a
ResponseLemma(full, limit) ==
  LET c == Cut(full, limit) e == Esc(c) IN
  /\ Len(e) <= limit /\ Len(e) = EscLen(c)
  /\ WellQuoted(e) /\ Unesc(e) = c /\ IsPrefixOf(c, full)
  /\ (c # full => EscLen(SubSeq(full, 1, Len(c) + 1)) > limit)        \* cut as late as the limit allows

=============================================================================
