--------------------------- MODULE MCStatusNested ---------------------------
(* Model-checking alphabets of ScpiStatusNested: alphabet A of MCStatus (standard event group, SRE, queue) *)
(* together with pushes that are drained by the error callback.                                          *)
EXTENDS MCStatus, ScpiStatusNested
NestedN == { <<k, c>> : k \in NestedKinds, c \in {0 - 800, 0 - 100, 1} }
OpsN == SetOps({"ESR", "ESE"}, {0, 5}) \cup SetOps({"SRE"}, {2, 5, 6})
        \cup Cmd0({"*CLS", "*ESR?", "*STB?"}) \cup Cmd1s({"*ESE"}, {0, 5}) \cup Cmd1s({"*SRE"}, {2, 5})
        \cup PushOps({0 - 800, 0 - 100}) \cup {<<"pop">>, <<"clear">>}
\* operations under a re-entering service-request handler: register writes, pushes, the commands that can raise MSS
SrqS == { <<k>> \o o : k \in SrqKinds, o \in SetOps({"ESR", "ESE"}, {0, 5}) \cup SetOps({"SRE"}, {2, 5}) \cup PushOps({0 - 800, 0 - 100})
                                             \cup Cmd1s({"*ESE"}, {0, 5}) \cup Cmd1s({"*SRE"}, {2, 5}) \cup Cmd0({"*OPC"}) }
=============================================================================
