---------------------- MODULE ScpiStatusNestedProofs ----------------------
(* Machine-checked (TLAPS): the status byte stays coherent with the state   *)
(* behind it also when the error callback re-enters the library - for every *)
(* alphabet, all register values and every queue capacity.                  *)
EXTENDS ScpiStatusNested, TLAPS

Coherent(r, n, s) ==
  /\ (5 \in s <=> r["ESR"]  \cap r["ESE"]   # {})
  /\ (7 \in s <=> r["OPER"] \cap r["OPERE"] # {})
  /\ (3 \in s <=> r["QUES"] \cap r["QUESE"] # {})
  /\ (2 \in s <=> n > 0)
  /\ (6 \in s <=> (s \ {6}) \cap (r["SRE"] \ {6}) # {})
  /\ s \subseteq {2, 3, 5, 6, 7}

LEMMA NewStbCoherent == \A r, n : Coherent(r, n, NewStb(r, n))
  BY DEF Coherent, NewStb, WithMss, Summary

LEMMA ApplyShape == \A r, qq, sb, op, cap :
         LET a == Apply(r, qq, sb, op, cap) IN a.stb = NewStb(a.reg, Len(a.q))
  BY DEF Apply

LEMMA ApplyNestedShape == \A r, qq, sb, op, cap :
         LET a == ApplyNested(r, qq, sb, op, cap) IN a.stb = NewStb(a.reg, Len(a.q))
  BY ApplyShape DEF ApplyNested

LEMMA ApplyNestedSrq == \A r, qq, sb, op, cap :
         LET a == ApplyNested(r, qq, sb, op, cap) IN
           /\ (6 \in a.stb /\ 6 \notin sb) => a.srq = <<a.stb>>
           /\ a.srq = <<>> \/ (a.srq = <<a.stb>> /\ 6 \in a.stb)
  BY DEF ApplyNested

THEOREM NestedStbCoherent == SpecN => []StbCoherent
<1>1. Init => StbCoherent
  <2> SUFFICES ASSUME Init PROVE StbCoherent
    OBVIOUS
  <2>1. /\ "ESR" \in Regs /\ "ESE" \in Regs /\ "OPER" \in Regs /\ "OPERE" \in Regs
        /\ "QUES" \in Regs /\ "QUESE" \in Regs /\ "SRE" \in Regs
    BY DEF Regs, EventRegs, EnableRegs, CondRegs
  <2>2. /\ reg["ESR"] = {} /\ reg["OPER"] = {} /\ reg["QUES"] = {} /\ stb = {} /\ q = <<>>
    BY <2>1 DEF Init
  <2>3. Len(q) = 0
    BY <2>2
  <2> QED BY <2>2, <2>3 DEF StbCoherent
<1>2. StbCoherent /\ [NextN]_vars => StbCoherent'
  <2> SUFFICES ASSUME StbCoherent, [NextN]_vars PROVE StbCoherent'
    OBVIOUS
  <2>1. CASE UNCHANGED vars
    BY <2>1 DEF vars, StbCoherent
  <2>2. CASE Next
    <3>1. PICK op \in Ops : Do(op)
      BY <2>2 DEF Next
    <3>2. stb' = NewStb(reg', Len(q'))
      BY <3>1, ApplyShape DEF Do
    <3>3. Coherent(reg', Len(q'), stb')
      BY <3>2, NewStbCoherent
    <3> QED BY <3>3 DEF Coherent, StbCoherent
  <2>3. CASE \E op \in NestedOps : DoN(op)
    <3>1. PICK op \in NestedOps : DoN(op)
      BY <2>3
    <3>2. stb' = NewStb(reg', Len(q'))
      BY <3>1, ApplyNestedShape DEF DoN
    <3>3. Coherent(reg', Len(q'), stb')
      BY <3>2, NewStbCoherent
    <3> QED BY <3>3 DEF Coherent, StbCoherent
  <2> QED BY <2>1, <2>2, <2>3 DEF NextN
<1> QED BY <1>1, <1>2, PTL DEF SpecN

(* a rise of MSS over a nested step is announced with the final status byte *)
THEOREM NestedSrqOnRise == SpecN => SrqOnRise
<1>1. [NextN]_vars => ((6 \notin stb /\ 6 \in stb') => (srq' # <<>> /\ srq'[Len(srq')] = stb')) \/ UNCHANGED vars
  <2> SUFFICES ASSUME [NextN]_vars, ~UNCHANGED vars, 6 \notin stb, 6 \in stb' PROVE srq' # <<>> /\ srq'[Len(srq')] = stb'
    OBVIOUS
  <2>1. CASE Next
    <3>1. PICK op \in Ops : Do(op)
      BY <2>1 DEF Next
    <3>2. srq' = <<stb'>>
      BY <3>1 DEF Do, Apply
    <3> QED BY <3>2
  <2>2. CASE \E op \in NestedOps : DoN(op)
    <3>1. PICK op \in NestedOps : DoN(op)
      BY <2>2
    <3>2. srq' = <<stb'>>
      BY <3>1, ApplyNestedSrq DEF DoN
    <3> QED BY <3>2
  <2> QED BY <2>1, <2>2 DEF NextN
<1> QED BY <1>1, PTL DEF SpecN, SrqOnRise
=============================================================================
