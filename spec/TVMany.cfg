SPECIFICATION Spec
INVARIANT Conforms
CHECK_DEADLOCK FALSE
