------------------------------ MODULE MCLexer ------------------------------
(* M part of C13: on every byte string up to length N over the class alphabet AlphaSet, and at *)
(* every position of it, each recogniser of ScpiLexer equals the longest prefix of its         *)
(* declarative grammar, its cursor / extent stay inside the input, the program-data            *)
(* alternatives exclude each other, and a string is a well-formed unit exactly when the        *)
(* detector accepts all of it.  Strings are built by appending one byte per step, so TLC       *)
(* workers share the enumeration.                                                              *)
EXTENDS ScpiLexer, TLC
CONSTANTS N, AlphaSet, Which
VARIABLE buf
Init == buf = <<>>
Next == Len(buf) < N /\ \E c \in AlphaSet : buf' = Append(buf, c)
Spec == Init /\ [][Next]_buf
On(k) == k \in Which
Lemmas ==
  /\ \A p \in 1..(Len(buf) + 1) :
       /\ On("ws") => L_WS(buf, p)
       /\ On("hdr") => L_Header(buf, p)
       /\ On("chr") => L_Char(buf, p)
       /\ On("dec") => L_Decimal(buf, p)
       /\ On("suf") => L_Suffix(buf, p)
       /\ On("ndc") => L_Nondecimal(buf, p)
       /\ On("str") => L_String(buf, p)
       /\ On("blk") => L_Block(buf, p)
       /\ On("exp") => L_Expr(buf, p)
       /\ On("sep") => L_Seps(buf, p)
       /\ On("pd") => L_ProgramData(buf, p)
       /\ On("unitat") => L_UnitAt(buf, p)
  /\ On("unit") => L_Unit(buf)
  /\ On("list") => L_DataList(buf)
  /\ On("sufstrict") => (G_SuffixStrict(buf) => G_Suffix(buf))
(* class alphabets (one representative of every class the recogniser distinguishes + an outsider) *)
A_ws  == {32, 9, 65, 10}
A_hdr == {42, 58, 63, 65, 49, 95, 32}
A_chr == {65, 49, 95, 32}
A_dec == {49, 43, 46, 69, 32, 65, 197}
A_suf == {47, 65, 45, 49, 46, 32}
A_ndc == {35, 72, 81, 66, 49, 50, 55, 56, 57, 65, 71, 0, 200, 209}
A_str == {34, 39, 65, 128}
A_blk == {35, 48, 49, 50, 65}
A_exp == {40, 41, 65, 34, 10}
A_sep == {44, 59, 58, 13, 10, 65}
A_pd  == {65, 49, 35, 72, 34, 40, 41, 44, 46, 47, 32, 69}
A_unit == {65, 49, 35, 34, 40, 41, 44, 59, 58, 42, 63, 32, 10}
A_unit2 == {65, 49, 69, 46, 47, 45, 44, 59, 32, 13, 10, 39}
A_unit3 == {65, 49, 69, 46, 32, 47}
W_ws == {"ws"}
W_hdr == {"hdr"}
W_chr == {"chr"}
W_dec == {"dec"}
W_suf == {"suf", "sufstrict"}
W_ndc == {"ndc"}
W_str == {"str"}
W_blk == {"blk"}
W_exp == {"exp"}
W_sep == {"sep"}
W_pd == {"pd", "list"}
W_unit == {"unit", "unitat"}
W_all == {"ws", "hdr", "chr", "dec", "suf", "ndc", "str", "blk", "exp", "sep", "pd", "unitat", "unit", "list", "sufstrict"}
=============================================================================
