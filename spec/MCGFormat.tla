----------------------------- MODULE MCGFormat -----------------------------
(* M part of C16: internal consistency of ScpiGFormat on ALL decimal         *)
(* expansions with at most MaxLen digits (MaxLenHigh digits for precisions   *)
(* above PSplit; first digit non-zero, trailing zeros included), exponents   *)
(* Exps, precisions Precs, both signs (negative values up to NegLen digits)  *)
(* and zero.  The expansions are grown digit by digit so that TLC's workers  *)
(* share the enumeration; every state is one (value, precision) pair.        *)
EXTENDS Integers, Sequences, FiniteSets, TLC
CONSTANTS MaxLen, NegLen, PSplit, MaxLenHigh, Exps, Precs
VARIABLES d, e, P, neg
G == INSTANCE ScpiGFormat
ExpsFull == (0 - 8)..8
ExpsSix == {0 - 5, 4}
vars == <<d, e, P, neg>>
Init == /\ d \in {<<k>> : k \in 0..9}
        /\ e \in (IF d = <<0>> THEN {0} ELSE Exps)
        /\ P \in Precs
        /\ neg \in {0, 1}
Next == /\ d # <<0>> /\ Len(d) < (IF neg = 1 THEN NegLen ELSE IF P > PSplit THEN MaxLenHigh ELSE MaxLen)
        /\ \E k \in 0..9 : d' = Append(d, k)
        /\ UNCHANGED <<e, P, neg>>
Spec == Init /\ [][Next]_vars

v == [d |-> d, e |-> e]

(* the text reads back as a number of the same sign *)
Reparses(text, p) == p.ok /\ p.neg = neg
(* ... within half a unit of the last requested digit (hence also within one unit) *)
HalfUnit(text, p) == G!WithinHalf(p.m, v, P) /\ G!WithinUnits(p.m, v, P, 1)
(* ... formatting what was read gives the same text again *)
Idempotent(text, p) == G!GFormat(p.neg, p.m, P) = text
(* ... no digit but trailing zeros is dropped, and no more than P are written *)
KeepsDigits(text, p) == G!NoDigitLost(p, v, P) /\ p.shown <= P
(* ... no trailing zero in the mantissa *)
Stripped(text, p) == \/ G!IsZ(p.m)
                     \/ p.last >= 0 /\ ~p.hasExp          \* integer in fixed style: zeros before the point are digits
                     \/ p.shown = Len(p.m.d)
(* ... exponent style exactly when the decimal exponent of the rounded value is < -4 or >= P; two exponent digits at least *)
Style(text, p) == /\ p.hasExp <=> (~G!IsZ(p.m) /\ G!UseExpStyle(p.m.e, P))
                  /\ p.hasExp => p.expDigits >= 2
(* rounding is monotone in the value: appending a digit never lowers the result *)
Monotone == Len(d) > 1 /\ d # <<0>> =>
              LET w == [d |-> SubSeq(d, 1, Len(d) - 1), e |-> e]
              IN G!CmpM(G!RoundP(w, P), G!RoundP(v, P)) <= 0

Holds(name, b) == b \/ (PrintT(<<"LEMMA-FAILED", name, d, e, P, neg>>) /\ FALSE)
(* one invariant so that the text and its parse are computed once per state; a failing lemma is named in the output *)
Lemmas == LET text == G!GFormat(neg, v, P)
              p == G!Parse(text)
          IN /\ Holds("Reparses", Reparses(text, p))
             /\ Holds("HalfUnit", HalfUnit(text, p))
             /\ Holds("Idempotent", Idempotent(text, p))
             /\ Holds("KeepsDigits", KeepsDigits(text, p))
             /\ Holds("Stripped", Stripped(text, p))
             /\ Holds("Style", Style(text, p))
             /\ Holds("Monotone", Monotone)
=============================================================================
