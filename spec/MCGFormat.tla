----------------------------- MODULE MCGFormat -----------------------------
(* M part of C16: internal consistency of ScpiGFormat on ALL decimal         *)
(* expansions with at most MaxLen digits (first digit non-zero, trailing     *)
(* zeros included), exponents EMin..EMax, precisions 1..PMax, both signs,    *)
(* and zero.  The expansions are grown digit by digit so that TLC's workers  *)
(* share the enumeration; every state is one (value, precision) pair.        *)
EXTENDS Integers, Sequences, FiniteSets, TLC
CONSTANTS MaxLen, EMin, EMax, PMax
VARIABLES d, e, P, neg
G == INSTANCE ScpiGFormat
EMinDef == 0 - 8
vars == <<d, e, P, neg>>
Init == /\ d \in {<<k>> : k \in 0..9}
        /\ e \in (IF d = <<0>> THEN {0} ELSE EMin..EMax)
        /\ P \in 1..PMax
        /\ neg \in {0, 1}
Next == /\ d # <<0>> /\ Len(d) < MaxLen
        /\ \E k \in 0..9 : d' = Append(d, k)
        /\ UNCHANGED <<e, P, neg>>
Spec == Init /\ [][Next]_vars

v == [d |-> d, e |-> e]
text == G!GFormat(neg, v, P)
p == G!Parse(text)

(* the text reads back as a number of the same sign *)
Reparses == p.ok /\ p.neg = neg
(* ... within half a unit of the last requested digit (hence also within one unit) *)
HalfUnit == G!WithinHalf(p.m, v, P) /\ G!WithinUnits(p.m, v, P, 1)
(* ... formatting what was read gives the same text again *)
Idempotent == G!GFormat(p.neg, p.m, P) = text
(* ... no digit but trailing zeros is dropped, and no more than P are written *)
KeepsDigits == G!NoDigitLost(p, v, P) /\ p.shown <= P
(* ... no trailing zero in the mantissa, no bare point *)
Stripped == \/ G!IsZ(p.m)
            \/ p.last >= 0 /\ ~p.hasExp          \* integer in fixed style: zeros before the point are digits
            \/ p.shown = Len(p.m.d)
(* ... exponent style exactly when the decimal exponent of the rounded value is < -4 or >= P; two exponent digits at least *)
Style == /\ p.hasExp <=> (~G!IsZ(p.m) /\ G!UseExpStyle(p.m.e, P))
         /\ p.hasExp => p.expDigits >= 2
(* the result is a nearest P-digit number: no neighbour on the P-digit grid is strictly closer; checked through *)
(* the half-unit bound above.  Rounding is monotone in the value: appending a digit never lowers the result.    *)
Monotone == Len(d) > 1 /\ d # <<0>> =>
              LET w == [d |-> SubSeq(d, 1, Len(d) - 1), e |-> e]
                  a == G!RoundP(w, P)
                  b == G!RoundP(v, P)
              IN G!CmpM(a, b) <= 0
=============================================================================
