---------------------------- MODULE MCInputLoop ----------------------------
(* Model checking of ScpiInputLoop: every chunk sequence from a small       *)
(* vocabulary (headers, separators, terminators, a block holding a line      *)
(* feed, an open string, junk, the zero-length call) into a buffer of Cap    *)
(* bytes.  Invariants: the pending bytes always fit, cursors stay inside     *)
(* the message.  Liveness (weak fairness of the internal actions): every     *)
(* input call returns.                                                       *)
EXTENDS ScpiInputLoop
CONSTANT Cap
Chunks == { <<65, 59>>, <<66, 10>>, <<66, 32, 35, 49, 50, 10>>, <<97, 10>>, <<34, 120>>, <<64>>, <<10>>, <<>>, <<65, 58, 66, 59, 66>>, <<13>> }   \* "A;" "B\n" "B #12\n" "a\n" "\"x" "@" "\n" "" "A:B;B" "\r"
Table == PreTable(<<[pat |-> <<65>>, tag |-> 1], [pat |-> <<66>>, tag |-> 2], [pat |-> <<65, 58, 66>>, tag |-> 3]>>)
Internal == \/ Overrun \/ ParseBegin \/ UnitEnd \/ UnitInvalid \/ ParseEnd
            \/ UnitBeginAuto(Table)
            \/ (\E n \in 0..Cap : InputEnd(n))
Next == (\E c \in Chunks : InputBegin(c, Cap)) \/ Internal
Spec == LInit /\ [][Next]_lvars /\ WF_lvars(Internal)
TypeOK == /\ phase \in {"idle", "input", "msg", "unit", "lost"}
          /\ Len(pend) < Cap /\ Len(rest) < Cap
          /\ pos >= 1 /\ pos <= Len(cur) + 1 /\ nxt <= Len(cur) + 1
Returns == (phase = "input") ~> (phase = "idle")
PathEmptyAtMessageStart == [][(phase = "input" /\ phase' = "msg") => prev' = <<>>]_lvars
=============================================================================
