SPECIFICATION Spec
CONSTANTS
 Mode = "shipped"
 MaxKw = 0
 ProductN = 0
INVARIANT Checked
CHECK_DEADLOCK FALSE
