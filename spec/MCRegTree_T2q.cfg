SPECIFICATION TSpec
CONSTANTS
 TOps <- OpsT2q
INVARIANT TreeCoherent
INVARIANT MssCoherent
INVARIANT RisesHaveMss
PROPERTY FilterLatch
PROPERTY EventSticky
PROPERTY RiseAnnounced
PROPERTY MasksOnlyWritten
PROPERTY StandardAgreement
VIEW TView
CHECK_DEADLOCK FALSE
