------------------------- MODULE ScpiStatusProofs -------------------------
(* Machine-checked (TLAPS) proof that the status byte of ScpiStatus is       *)
(* coherent with the registers behind it in every reachable state, for       *)
(* every operation alphabet, all 16-bit register values and any queue        *)
(* capacity - TLC checks the same invariant on bounded alphabets only.       *)
EXTENDS ScpiStatus, TLAPS

Coherent(r, n, s) ==
  /\ (5 \in s <=> r["ESR"]  \cap r["ESE"]   # {})
  /\ (7 \in s <=> r["OPER"] \cap r["OPERE"] # {})
  /\ (3 \in s <=> r["QUES"] \cap r["QUESE"] # {})
  /\ (2 \in s <=> n > 0)
  /\ (6 \in s <=> (s \ {6}) \cap (r["SRE"] \ {6}) # {})
  /\ s \subseteq {2, 3, 5, 6, 7}

LEMMA NewStbCoherent == \A r, n : Coherent(r, n, NewStb(r, n))
  BY DEF Coherent, NewStb, WithMss, Summary

LEMMA ApplyShape == \A r, qq, sb, op, cap :
         LET a == Apply(r, qq, sb, op, cap) IN a.stb = NewStb(a.reg, Len(a.q))
  BY DEF Apply

THEOREM StbCoherentInvariant == Spec => []StbCoherent
<1>1. Init => StbCoherent
  <2> SUFFICES ASSUME Init PROVE StbCoherent
    OBVIOUS
  <2>1. /\ "ESR" \in Regs /\ "ESE" \in Regs /\ "OPER" \in Regs /\ "OPERE" \in Regs
        /\ "QUES" \in Regs /\ "QUESE" \in Regs /\ "SRE" \in Regs
    BY DEF Regs, EventRegs, EnableRegs, CondRegs
  <2>2. /\ reg["ESR"] = {} /\ reg["OPER"] = {} /\ reg["QUES"] = {} /\ stb = {} /\ q = <<>>
    BY <2>1 DEF Init
  <2>3. Len(q) = 0
    BY <2>2
  <2> QED BY <2>2, <2>3 DEF StbCoherent
<1>2. StbCoherent /\ [Next]_vars => StbCoherent'
  <2> SUFFICES ASSUME StbCoherent, [Next]_vars PROVE StbCoherent'
    OBVIOUS
  <2>1. CASE UNCHANGED vars
    BY <2>1 DEF vars, StbCoherent
  <2>2. CASE Next
    <3>1. PICK op \in Ops : Do(op)
      BY <2>2 DEF Next
    <3>2. stb' = NewStb(reg', Len(q'))
      BY <3>1, ApplyShape DEF Do
    <3>3. Coherent(reg', Len(q'), stb')
      BY <3>2, NewStbCoherent
    <3> QED BY <3>3 DEF Coherent, StbCoherent
  <2> QED BY <2>1, <2>2
<1> QED BY <1>1, <1>2, PTL DEF Spec
(* C12: a rise of MSS is announced with the new status byte; nothing is announced while MSS is clear *)
LEMMA ApplySrq == \A r, qq, sb, op, cap :
         LET a == Apply(r, qq, sb, op, cap) IN
           /\ (6 \in a.stb /\ 6 \notin sb) => a.srq = <<a.stb>>
           /\ a.srq = <<>> \/ (a.srq = <<a.stb>> /\ 6 \in a.stb)
  BY DEF Apply

THEOREM SrqOnRiseHolds == Spec => SrqOnRise
<1>1. [Next]_vars => ((6 \notin stb /\ 6 \in stb') => (srq' # <<>> /\ srq'[Len(srq')] = stb')) \/ UNCHANGED vars
  <2> SUFFICES ASSUME [Next]_vars, ~UNCHANGED vars, 6 \notin stb, 6 \in stb' PROVE srq' # <<>> /\ srq'[Len(srq')] = stb'
    OBVIOUS
  <2>1. PICK op \in Ops : Do(op)
    BY DEF Next
  <2>2. srq' = <<stb'>>
    BY <2>1, ApplySrq DEF Do
  <2> QED BY <2>2
<1> QED BY <1>1, PTL DEF Spec, SrqOnRise

THEOREM NoSrqWhileClearHolds == Spec => []NoSrqWhileClear
<1>1. Init => NoSrqWhileClear
  BY DEF Init, NoSrqWhileClear
<1>2. NoSrqWhileClear /\ [Next]_vars => NoSrqWhileClear'
  <2> SUFFICES ASSUME NoSrqWhileClear, [Next]_vars PROVE NoSrqWhileClear'
    OBVIOUS
  <2>1. CASE UNCHANGED vars
    BY <2>1 DEF vars, NoSrqWhileClear
  <2>2. CASE Next
    <3>1. PICK op \in Ops : Do(op)
      BY <2>2 DEF Next
    <3>2. srq' = <<>> \/ (srq' = <<stb'>> /\ 6 \in stb')
      BY <3>1, ApplySrq DEF Do
    <3> QED BY <3>2 DEF NoSrqWhileClear
  <2> QED BY <2>1, <2>2
<1> QED BY <1>1, <1>2, PTL DEF Spec
(* C10 / C11: the queue never holds more than its capacity *)
LEMMA QPushBounded == \A qq, code, cap : (cap \in Nat /\ cap >= 1 /\ qq \in Seq(Int) /\ code \in Int /\ Len(qq) <= cap)
                          => (QPush(qq, code, cap) \in Seq(Int) /\ Len(QPush(qq, code, cap)) <= cap)
  <1> SUFFICES ASSUME NEW qq, NEW code, NEW cap, cap \in Nat, cap >= 1, qq \in Seq(Int), code \in Int, Len(qq) <= cap
               PROVE QPush(qq, code, cap) \in Seq(Int) /\ Len(QPush(qq, code, cap)) <= cap
    OBVIOUS
  <1>1. CASE Len(qq) < cap
    BY <1>1 DEF QPush
  <1>2. CASE ~(Len(qq) < cap)
    <2>1. SubSeq(qq, 1, cap - 1) \in Seq(Int) /\ Len(SubSeq(qq, 1, cap - 1)) = cap - 1
      BY <1>2
    <2>2. QueueOverflow \in Int
      BY DEF QueueOverflow
    <2> QED BY <1>2, <2>1, <2>2 DEF QPush
  <1> QED BY <1>1, <1>2
LEMMA EffectQ == \A r, qq, op, cap :
         (cap \in Nat /\ cap >= 1 /\ qq \in Seq(Int) /\ Len(qq) <= cap /\ (op[1] = "push" => op[2] \in Int))
         => (Effect(r, qq, op, cap).q \in Seq(Int) /\ Len(Effect(r, qq, op, cap).q) <= cap)
  <1> SUFFICES ASSUME NEW r, NEW qq, NEW op, NEW cap, cap \in Nat, cap >= 1, qq \in Seq(Int), Len(qq) <= cap, op[1] = "push" => op[2] \in Int
               PROVE Effect(r, qq, op, cap).q \in Seq(Int) /\ Len(Effect(r, qq, op, cap).q) <= cap
    OBVIOUS
  <1>1. (QPush(qq, op[2], cap) \in Seq(Int) /\ Len(QPush(qq, op[2], cap)) <= cap) \/ op[1] # "push"
    BY QPushBounded
  <1>2. (IF qq = <<>> THEN qq ELSE Tail(qq)) \in Seq(Int) /\ Len(IF qq = <<>> THEN qq ELSE Tail(qq)) <= cap
    OBVIOUS
  <1>3. <<>> \in Seq(Int) /\ Len(<<>>) <= cap
    OBVIOUS
  <1> DEFINE E == Effect(r, qq, op, cap)
             TL == IF qq = <<>> THEN qq ELSE Tail(qq)
  <1>4. CASE op[1] \in {"set", "setbits", "clrbits", "count"}
    <2>1. E.q = qq
      BY <1>4 DEF Effect
    <2> QED BY <2>1
  <1>5. CASE op[1] = "push"
    <2>1. E.q = QPush(qq, op[2], cap)
      BY <1>5 DEF Effect
    <2> QED BY <2>1, <1>1, <1>5
  <1>6. CASE op[1] = "pop"
    <2>1. E.q = TL
      BY <1>6 DEF Effect
    <2> QED BY <2>1, <1>2
  <1>7. CASE op[1] = "clear"
    <2>1. E.q = <<>>
      BY <1>7 DEF Effect
    <2> QED BY <2>1, <1>3
  <1>8. CASE op[1] \notin {"set", "setbits", "clrbits", "count", "push", "pop", "clear"}
    <2>1. CASE op[2] = "*CLS"
      <3>1. E.q = <<>>
        BY <1>8, <2>1 DEF Effect
      <3> QED BY <3>1, <1>3
    <2>2. CASE op[2] = "SYST:ERR?"
      <3>1. E.q = TL
        BY <1>8, <2>2 DEF Effect
      <3> QED BY <3>1, <1>2
    <2>3. CASE op[2] \notin {"*CLS", "SYST:ERR?"}
      <3>1. E.q = qq
        BY <1>8, <2>3 DEF Effect
      <3> QED BY <3>1
    <2> QED BY <2>1, <2>2, <2>3
  <1> QED BY <1>4, <1>5, <1>6, <1>7, <1>8

ASSUME CapPositive == Cap \in Nat /\ Cap >= 1
ASSUME OpsTyped == \A op \in Ops : op[1] = "push" => op[2] \in Int

QInv == q \in Seq(Int) /\ Len(q) <= Cap
THEOREM QueueBoundedHolds == Spec => []QueueBounded
<1>1. Init => QInv
  BY CapPositive DEF Init, QInv
<1>2. QInv /\ [Next]_vars => QInv'
  <2> SUFFICES ASSUME QInv, [Next]_vars PROVE QInv'
    OBVIOUS
  <2>1. CASE UNCHANGED vars
    BY <2>1 DEF vars, QInv
  <2>2. CASE Next
    <3>1. PICK op \in Ops : Do(op)
      BY <2>2 DEF Next
    <3>2. q' = Effect(reg, q, op, Cap).q
      BY <3>1 DEF Do, Apply
    <3> QED BY <3>2, EffectQ, CapPositive, OpsTyped DEF QInv
  <2> QED BY <2>1, <2>2
<1>3. QInv => QueueBounded
  BY DEF QInv, QueueBounded
<1> QED BY <1>1, <1>2, <1>3, PTL DEF Spec
=============================================================================
