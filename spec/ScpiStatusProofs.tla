------------------------- MODULE ScpiStatusProofs -------------------------
(* Machine-checked (TLAPS) proof that the status byte of ScpiStatus is       *)
(* coherent with the registers behind it in every reachable state, for       *)
(* every operation alphabet, all 16-bit register values and any queue        *)
(* capacity - TLC checks the same invariant on bounded alphabets only.       *)
EXTENDS ScpiStatus, TLAPS

Coherent(r, n, s) ==
  /\ (5 \in s <=> r["ESR"]  \cap r["ESE"]   # {})
  /\ (7 \in s <=> r["OPER"] \cap r["OPERE"] # {})
  /\ (3 \in s <=> r["QUES"] \cap r["QUESE"] # {})
  /\ (2 \in s <=> n > 0)
  /\ (6 \in s <=> (s \ {6}) \cap (r["SRE"] \ {6}) # {})
  /\ s \subseteq {2, 3, 5, 6, 7}

LEMMA NewStbCoherent == \A r, n : Coherent(r, n, NewStb(r, n))
  BY DEF Coherent, NewStb, WithMss, Summary

LEMMA ApplyShape == \A r, qq, sb, op, cap :
         LET a == Apply(r, qq, sb, op, cap) IN a.stb = NewStb(a.reg, Len(a.q))
  BY DEF Apply

THEOREM StbCoherentInvariant == Spec => []StbCoherent
<1>1. Init => StbCoherent
  <2> SUFFICES ASSUME Init PROVE StbCoherent
    OBVIOUS
  <2>1. /\ "ESR" \in Regs /\ "ESE" \in Regs /\ "OPER" \in Regs /\ "OPERE" \in Regs
        /\ "QUES" \in Regs /\ "QUESE" \in Regs /\ "SRE" \in Regs
    BY DEF Regs, EventRegs, EnableRegs, CondRegs
  <2>2. /\ reg["ESR"] = {} /\ reg["OPER"] = {} /\ reg["QUES"] = {} /\ stb = {} /\ q = <<>>
    BY <2>1 DEF Init
  <2>3. Len(q) = 0
    BY <2>2
  <2> QED BY <2>2, <2>3 DEF StbCoherent
<1>2. StbCoherent /\ [Next]_vars => StbCoherent'
  <2> SUFFICES ASSUME StbCoherent, [Next]_vars PROVE StbCoherent'
    OBVIOUS
  <2>1. CASE UNCHANGED vars
    BY <2>1 DEF vars, StbCoherent
  <2>2. CASE Next
    <3>1. PICK op \in Ops : Do(op)
      BY <2>2 DEF Next
    <3>2. stb' = NewStb(reg', Len(q'))
      BY <3>1, ApplyShape DEF Do
    <3>3. Coherent(reg', Len(q'), stb')
      BY <3>2, NewStbCoherent
    <3> QED BY <3>3 DEF Coherent, StbCoherent
  <2> QED BY <2>1, <2>2
<1> QED BY <1>1, <1>2, PTL DEF Spec
(* C12: a rise of MSS is announced with the new status byte; nothing is announced while MSS is clear *)
LEMMA ApplySrq == \A r, qq, sb, op, cap :
         LET a == Apply(r, qq, sb, op, cap) IN
           /\ (6 \in a.stb /\ 6 \notin sb) => a.srq = <<a.stb>>
           /\ a.srq = <<>> \/ (a.srq = <<a.stb>> /\ 6 \in a.stb)
  BY DEF Apply

THEOREM SrqOnRiseHolds == Spec => SrqOnRise
<1>1. [Next]_vars => ((6 \notin stb /\ 6 \in stb') => (srq' # <<>> /\ srq'[Len(srq')] = stb')) \/ UNCHANGED vars
  <2> SUFFICES ASSUME [Next]_vars, ~UNCHANGED vars, 6 \notin stb, 6 \in stb' PROVE srq' # <<>> /\ srq'[Len(srq')] = stb'
    OBVIOUS
  <2>1. PICK op \in Ops : Do(op)
    BY DEF Next
  <2>2. srq' = <<stb'>>
    BY <2>1, ApplySrq DEF Do
  <2> QED BY <2>2
<1> QED BY <1>1, PTL DEF Spec, SrqOnRise

THEOREM NoSrqWhileClearHolds == Spec => []NoSrqWhileClear
<1>1. Init => NoSrqWhileClear
  BY DEF Init, NoSrqWhileClear
<1>2. NoSrqWhileClear /\ [Next]_vars => NoSrqWhileClear'
  <2> SUFFICES ASSUME NoSrqWhileClear, [Next]_vars PROVE NoSrqWhileClear'
    OBVIOUS
  <2>1. CASE UNCHANGED vars
    BY <2>1 DEF vars, NoSrqWhileClear
  <2>2. CASE Next
    <3>1. PICK op \in Ops : Do(op)
      BY <2>2 DEF Next
    <3>2. srq' = <<>> \/ (srq' = <<stb'>> /\ 6 \in stb')
      BY <3>1, ApplySrq DEF Do
    <3> QED BY <3>2 DEF NoSrqWhileClear
  <2> QED BY <2>1, <2>2
<1> QED BY <1>1, <1>2, PTL DEF Spec
(* C10 / C11: the queue never holds more than its capacity *)
LEMMA QPushBounded == \A qq, code, cap : (cap \in Nat /\ cap >= 1 /\ qq \in Seq(Int) /\ code \in Int /\ Len(qq) <= cap)
                          => (QPush(qq, code, cap) \in Seq(Int) /\ Len(QPush(qq, code, cap)) <= cap)
  <1> SUFFICES ASSUME NEW qq, NEW code, NEW cap, cap \in Nat, cap >= 1, qq \in Seq(Int), code \in Int, Len(qq) <= cap
               PROVE QPush(qq, code, cap) \in Seq(Int) /\ Len(QPush(qq, code, cap)) <= cap
    OBVIOUS
  <1>1. CASE Len(qq) < cap
    BY <1>1 DEF QPush
  <1>2. CASE ~(Len(qq) < cap)
    <2>1. SubSeq(qq, 1, cap - 1) \in Seq(Int) /\ Len(SubSeq(qq, 1, cap - 1)) = cap - 1
      BY <1>2
    <2>2. QueueOverflow \in Int
      BY DEF QueueOverflow
    <2> QED BY <1>2, <2>1, <2>2 DEF QPush
  <1> QED BY <1>1, <1>2
LEMMA EffectQ == \A r, qq, op, cap :
         (cap \in Nat /\ cap >= 1 /\ qq \in Seq(Int) /\ Len(qq) <= cap /\ (op[1] = "push" => op[2] \in Int))
         => (Effect(r, qq, op, cap).q \in Seq(Int) /\ Len(Effect(r, qq, op, cap).q) <= cap)
  <1> SUFFICES ASSUME NEW r, NEW qq, NEW op, NEW cap, cap \in Nat, cap >= 1, qq \in Seq(Int), Len(qq) <= cap, op[1] = "push" => op[2] \in Int
               PROVE Effect(r, qq, op, cap).q \in Seq(Int) /\ Len(Effect(r, qq, op, cap).q) <= cap
    OBVIOUS
  <1>1. (QPush(qq, op[2], cap) \in Seq(Int) /\ Len(QPush(qq, op[2], cap)) <= cap) \/ op[1] # "push"
    BY QPushBounded
  <1>2. (IF qq = <<>> THEN qq ELSE Tail(qq)) \in Seq(Int) /\ Len(IF qq = <<>> THEN qq ELSE Tail(qq)) <= cap
    OBVIOUS
  <1>3. <<>> \in Seq(Int) /\ Len(<<>>) <= cap
    OBVIOUS
  <1> DEFINE E == Effect(r, qq, op, cap)
             TL == IF qq = <<>> THEN qq ELSE Tail(qq)
  <1>4. CASE op[1] \in {"set", "setbits", "clrbits", "count"}
    <2>1. E.q = qq
      BY <1>4 DEF Effect
    <2> QED BY <2>1
  <1>5. CASE op[1] = "push"
    <2>1. E.q = QPush(qq, op[2], cap)
      BY <1>5 DEF Effect
    <2> QED BY <2>1, <1>1, <1>5
  <1>6. CASE op[1] = "pop"
    <2>1. E.q = TL
      BY <1>6 DEF Effect
    <2> QED BY <2>1, <1>2
  <1>7. CASE op[1] = "clear"
    <2>1. E.q = <<>>
      BY <1>7 DEF Effect
    <2> QED BY <2>1, <1>3
  <1>8. CASE op[1] \notin {"set", "setbits", "clrbits", "count", "push", "pop", "clear"}
    <2>1. CASE op[2] = "*CLS"
      <3>1. E.q = <<>>
        BY <1>8, <2>1 DEF Effect
      <3> QED BY <3>1, <1>3
    <2>2. CASE op[2] = "SYST:ERR?"
      <3>1. E.q = TL
        BY <1>8, <2>2 DEF Effect
      <3> QED BY <3>1, <1>2
    <2>3. CASE op[2] \notin {"*CLS", "SYST:ERR?"}
      <3>1. E.q = qq
        BY <1>8, <2>3 DEF Effect
      <3> QED BY <3>1
    <2> QED BY <2>1, <2>2, <2>3
  <1> QED BY <1>4, <1>5, <1>6, <1>7, <1>8

ASSUME CapPositive == Cap \in Nat /\ Cap >= 1
ASSUME OpsTyped == \A op \in Ops : op[1] = "push" => op[2] \in Int

QInv == q \in Seq(Int) /\ Len(q) <= Cap
THEOREM QueueBoundedHolds == Spec => []QueueBounded
<1>1. Init => QInv
  BY CapPositive DEF Init, QInv
<1>2. QInv /\ [Next]_vars => QInv'
  <2> SUFFICES ASSUME QInv, [Next]_vars PROVE QInv'
    OBVIOUS
  <2>1. CASE UNCHANGED vars
    BY <2>1 DEF vars, QInv
  <2>2. CASE Next
    <3>1. PICK op \in Ops : Do(op)
      BY <2>2 DEF Next
    <3>2. q' = Effect(reg, q, op, Cap).q
      BY <3>1 DEF Do, Apply
    <3> QED BY <3>2, EffectQ, CapPositive, OpsTyped DEF QInv
  <2> QED BY <2>1, <2>2
<1>3. QInv => QueueBounded
  BY DEF QInv, QueueBounded
<1> QED BY <1>1, <1>2, <1>3, PTL DEF Spec
(* C12: a 0-to-1 change of a condition register bit is latched in the event register of the same group; *)
(* nothing but a register write changes a condition register                                           *)
DomInv == DOMAIN reg = Regs

LEMMA WriteRegShape == \A r, n, v : (DOMAIN r = Regs) =>
         /\ DOMAIN WriteReg(r, n, v) = Regs
         /\ \A c \in CondRegs : (WriteReg(r, n, v)[c] \ r[c]) \subseteq WriteReg(r, n, v)[EventOf(c)]
  <1> SUFFICES ASSUME NEW r, NEW n, NEW v, DOMAIN r = Regs
               PROVE /\ DOMAIN WriteReg(r, n, v) = Regs
                     /\ \A c \in CondRegs : (WriteReg(r, n, v)[c] \ r[c]) \subseteq WriteReg(r, n, v)[EventOf(c)]
    OBVIOUS
  <1>0. /\ CondRegs \subseteq Regs /\ EventRegs \subseteq Regs /\ CondRegs \cap EventRegs = {}
        /\ \A c \in CondRegs : EventOf(c) \in EventRegs
    BY DEF Regs, CondRegs, EventRegs, EnableRegs, EventOf
  <1>1. CASE n = "STB"
    BY <1>1 DEF WriteReg
  <1>2. CASE n # "STB" /\ n \in CondRegs
    <2>1. WriteReg(r, n, v) = [r EXCEPT ![n] = v, ![EventOf(n)] = @ \cup (v \ r[n])]
      BY <1>2 DEF WriteReg
    <2>2. n \in Regs /\ EventOf(n) \in Regs /\ EventOf(n) # n
      BY <1>0, <1>2
    <2>3. WriteReg(r, n, v)[n] = v /\ WriteReg(r, n, v)[EventOf(n)] = r[EventOf(n)] \cup (v \ r[n])
      BY <2>1, <2>2
    <2>4. \A c \in CondRegs : c # n => WriteReg(r, n, v)[c] = r[c]
      BY <2>1, <2>2, <1>0, <1>2
    <2> QED BY <2>1, <2>3, <2>4, <1>0
  <1>3. CASE n # "STB" /\ n \notin CondRegs
    <2>1. WriteReg(r, n, v) = [r EXCEPT ![n] = v]
      BY <1>3 DEF WriteReg
    <2>2. \A c \in CondRegs : WriteReg(r, n, v)[c] = r[c]
      BY <2>1, <1>3, <1>0
    <2> QED BY <2>1, <2>2
  <1> QED BY <1>1, <1>2, <1>3
LEMMA EffectCond == \A r, qq, op, cap : (DOMAIN r = Regs) =>
         /\ DOMAIN Effect(r, qq, op, cap).reg = Regs
         /\ \A c \in CondRegs : (Effect(r, qq, op, cap).reg[c] \ r[c]) \subseteq Effect(r, qq, op, cap).reg[EventOf(c)]
  <1> SUFFICES ASSUME NEW r, NEW qq, NEW op, NEW cap, DOMAIN r = Regs
               PROVE /\ DOMAIN Effect(r, qq, op, cap).reg = Regs
                     /\ \A c \in CondRegs : (Effect(r, qq, op, cap).reg[c] \ r[c]) \subseteq Effect(r, qq, op, cap).reg[EventOf(c)]
    OBVIOUS
  <1> DEFINE E == Effect(r, qq, op, cap)
  <1>0. /\ CondRegs \subseteq Regs /\ "ESR" \in Regs /\ "ESE" \in Regs /\ "SRE" \in Regs /\ "QUES" \in Regs /\ "OPER" \in Regs
        /\ "QUESE" \in Regs /\ "OPERE" \in Regs
        /\ \A c \in CondRegs : c \notin {"ESR", "ESE", "SRE", "QUES", "OPER", "QUESE", "OPERE"}
    BY DEF Regs, CondRegs, EventRegs, EnableRegs
  <1>1. CASE op[1] = "set"
    <2>1. E.reg = WriteReg(r, op[2], op[3])
      BY <1>1 DEF Effect
    <2> QED BY <2>1, WriteRegShape
  <1>2. CASE op[1] = "setbits"
    <2>1. E.reg = r \/ E.reg = WriteReg(r, op[2], r[op[2]] \cup op[3])
      BY <1>2 DEF Effect
    <2> QED BY <2>1, WriteRegShape
  <1>3. CASE op[1] = "clrbits"
    <2>1. E.reg = r \/ E.reg = WriteReg(r, op[2], r[op[2]] \ op[3])
      BY <1>3 DEF Effect
    <2> QED BY <2>1, WriteRegShape
  <1>4. CASE op[1] = "push"
    <2>1. E.reg = [r EXCEPT !["ESR"] = @ \cup ClassBits(op[2]) \cup (IF QOverflows(qq, cap) THEN {DER} ELSE {})]
      BY <1>4 DEF Effect
    <2> QED BY <2>1, <1>0
  <1>5. CASE op[1] \in {"pop", "clear", "count"}
    <2>1. E.reg = r
      BY <1>5 DEF Effect
    <2> QED BY <2>1
  <1>6. CASE op[1] \notin {"set", "setbits", "clrbits", "push", "pop", "clear", "count"}
    <2>1. \E n \in {"ESR", "ESE", "SRE", "QUES", "OPER", "QUESE", "OPERE"}, v \in {{}, op[3], r["ESR"] \cup {OPC}} :
             E.reg = r \/ E.reg = [r EXCEPT ![n] = v] \/ E.reg = [r EXCEPT !["ESR"] = {}, !["OPER"] = {}, !["QUES"] = {}]
      BY <1>6 DEF Effect
    <2> QED BY <2>1, <1>0
  <1> QED BY <1>1, <1>2, <1>3, <1>4, <1>5, <1>6

THEOREM LatchHolds == Spec => Latch
<1>1. Init => DomInv
  BY DEF Init, DomInv
<1>2. DomInv /\ [Next]_vars => DomInv' /\ (\A c \in CondRegs : (reg'[c] \ reg[c]) \subseteq reg'[EventOf(c)])
  <2> SUFFICES ASSUME DomInv, [Next]_vars PROVE DomInv' /\ (\A c \in CondRegs : (reg'[c] \ reg[c]) \subseteq reg'[EventOf(c)])
    OBVIOUS
  <2>1. CASE UNCHANGED vars
    BY <2>1 DEF vars, DomInv
  <2>2. CASE Next
    <3>1. PICK op \in Ops : Do(op)
      BY <2>2 DEF Next
    <3>2. reg' = Effect(reg, q, op, Cap).reg
      BY <3>1 DEF Do, Apply
    <3> QED BY <3>2, EffectCond DEF DomInv
  <2> QED BY <2>1, <2>2
<1> QED BY <1>1, <1>2, PTL DEF Spec, Latch
(* C12: a queued error sets the standard-event bit of its class, and nothing else but the marker's bit on overflow *)
THEOREM PushSetsClassBitHolds == Spec => PushSetsClassBit
<1> DEFINE P == lastOp'[1] = "push" =>
                  /\ ClassBits(lastOp'[2]) \subseteq reg'["ESR"]
                  /\ reg'["ESR"] \ reg["ESR"] \subseteq ClassBits(lastOp'[2]) \cup ClassBits(QueueOverflow)
                  /\ (q'[Len(q')] = QueueOverflow => DER \in reg'["ESR"])
<1>1. Init => DomInv /\ QInv
  BY CapPositive DEF Init, DomInv, QInv
<1>2. DomInv /\ QInv /\ [Next]_vars => DomInv' /\ QInv' /\ (P \/ UNCHANGED vars)
  <2> SUFFICES ASSUME DomInv, QInv, [Next]_vars, ~UNCHANGED vars PROVE DomInv' /\ QInv' /\ P
    BY DEF vars, DomInv, QInv
  <2>1. PICK op \in Ops : Do(op)
    BY DEF Next
  <2>2. reg' = Effect(reg, q, op, Cap).reg /\ q' = Effect(reg, q, op, Cap).q /\ lastOp' = op
    BY <2>1 DEF Do, Apply
  <2>3. DomInv' /\ QInv'
    BY <2>2, EffectCond, EffectQ, CapPositive, OpsTyped DEF DomInv, QInv
  <2>4. ASSUME op[1] = "push" PROVE P
    <3>1. reg' = [reg EXCEPT !["ESR"] = @ \cup ClassBits(op[2]) \cup (IF QOverflows(q, Cap) THEN {DER} ELSE {})]
      BY <2>2, <2>4 DEF Effect
    <3>2. q' = QPush(q, op[2], Cap)
      BY <2>2, <2>4 DEF Effect
    <3>3. "ESR" \in Regs
      BY DEF Regs, EventRegs
    <3>4. reg'["ESR"] = reg["ESR"] \cup ClassBits(op[2]) \cup (IF QOverflows(q, Cap) THEN {DER} ELSE {})
      BY <3>1, <3>3 DEF DomInv
    <3>5. ClassBits(QueueOverflow) = {DER}
      BY DEF ClassBits, QueueOverflow, DER, CER, EER, QER, PON, URQ, REQ, OPC
    <3>6. q'[Len(q')] = QueueOverflow => DER \in reg'["ESR"]
      <4>1. CASE Len(q) < Cap
        <5>1. q' = Append(q, op[2]) /\ q'[Len(q')] = op[2]
          BY <3>2, <4>1 DEF QPush, QInv
        <5>2. op[2] = QueueOverflow => DER \in ClassBits(op[2])
          BY <3>5
        <5> QED BY <5>1, <5>2, <3>4
      <4>2. CASE ~(Len(q) < Cap)
        BY <4>2, <3>4, CapPositive DEF QOverflows, QInv
      <4> QED BY <4>1, <4>2
    <3> QED BY <2>2, <3>4, <3>5, <3>6
  <2>5. ASSUME op[1] # "push" PROVE P
    BY <2>2, <2>5
  <2> QED BY <2>3, <2>4, <2>5
<1> QED BY <1>1, <1>2, PTL DEF Spec, PushSetsClassBit
(* C12: event bits stay set until an operation defined to clear them *)
OpKinds == {"set", "setbits", "clrbits", "push", "pop", "clear", "count", "cmd"}
LEMMA EffectSticky == \A r, qq, op, cap, n : (DOMAIN r = Regs /\ n \in EventRegs /\ op[1] \in OpKinds /\ r[n] \ Effect(r, qq, op, cap).reg[n] # {})
                         => ClearsEvent(op, n)
  <1> SUFFICES ASSUME NEW r, NEW qq, NEW op, NEW cap, NEW n, DOMAIN r = Regs, n \in EventRegs, op[1] \in OpKinds, r[n] \ Effect(r, qq, op, cap).reg[n] # {}
               PROVE ClearsEvent(op, n)
    OBVIOUS
  <1>K. op[1] \notin {"set", "setbits", "clrbits", "push", "pop", "clear", "count"} => op[1] = "cmd"
    BY DEF OpKinds
  <1> DEFINE E == Effect(r, qq, op, cap)
  <1>0. /\ EventRegs \subseteq Regs /\ CondRegs \subseteq Regs /\ EnableRegs \subseteq Regs /\ "SRE" \in Regs
        /\ EventRegs = {"ESR", "OPER", "QUES"} /\ EventRegs \cap CondRegs = {} /\ "STB" \notin Regs
        /\ \A c \in CondRegs : EventOf(c) \in EventRegs
    BY DEF Regs, CondRegs, EventRegs, EnableRegs, EventOf
  <1>W. \A m, v : WriteReg(r, m, v)[n] = r[n] \/ m = n \/ r[n] \subseteq WriteReg(r, m, v)[n]
    <2> TAKE m, v
    <2>1. CASE m = "STB"
      BY <2>1 DEF WriteReg
    <2>2. CASE m # "STB" /\ m \in CondRegs
      <3>1. WriteReg(r, m, v) = [r EXCEPT ![m] = v, ![EventOf(m)] = @ \cup (v \ r[m])]
        BY <2>2 DEF WriteReg
      <3>2. m \in Regs /\ EventOf(m) \in Regs /\ m # n
        BY <1>0, <2>2
      <3>3. CASE EventOf(m) = n
        BY <3>1, <3>2, <3>3, <1>0
      <3>4. CASE EventOf(m) # n
        BY <3>1, <3>2, <3>4, <1>0
      <3> QED BY <3>3, <3>4
    <2>3. CASE m # "STB" /\ m \notin CondRegs
      <3>1. WriteReg(r, m, v) = [r EXCEPT ![m] = v]
        BY <2>3 DEF WriteReg
      <3> QED BY <3>1, <1>0
    <2> QED BY <2>1, <2>2, <2>3
  <1>1. CASE op[1] = "set"
    <2>1. E.reg = WriteReg(r, op[2], op[3])
      BY <1>1 DEF Effect
    <2> QED BY <2>1, <1>W, <1>1 DEF ClearsEvent
  <1>2. CASE op[1] = "setbits"
    <2>1. E.reg = r \/ E.reg = WriteReg(r, op[2], r[op[2]] \cup op[3])
      BY <1>2 DEF Effect
    <2>2. op[2] = n => r[n] \subseteq WriteReg(r, op[2], r[op[2]] \cup op[3])[n]
      <3>1. n # "STB" /\ n \notin CondRegs /\ n \in Regs
        BY <1>0
      <3> QED BY <3>1 DEF WriteReg
    <2> QED BY <2>1, <2>2, <1>W
  <1>3. CASE op[1] = "clrbits"
    <2>1. E.reg = r \/ E.reg = WriteReg(r, op[2], r[op[2]] \ op[3])
      BY <1>3 DEF Effect
    <2> QED BY <2>1, <1>W, <1>3 DEF ClearsEvent
  <1>4. CASE op[1] = "push"
    <2>1. E.reg = [r EXCEPT !["ESR"] = @ \cup ClassBits(op[2]) \cup (IF QOverflows(qq, cap) THEN {DER} ELSE {})]
      BY <1>4 DEF Effect
    <2> QED BY <2>1, <1>0
  <1>5. CASE op[1] \in {"pop", "clear", "count"}
    <2>1. E.reg = r
      BY <1>5 DEF Effect
    <2> QED BY <2>1
  <1>6. CASE op[1] \notin {"set", "setbits", "clrbits", "push", "pop", "clear", "count"}
    <2>1. CASE op[2] = "*CLS"
      BY <1>6, <1>K, <2>1 DEF ClearsEvent
    <2>2. CASE op[2] = "*ESR?"
      <3>1. E.reg = [r EXCEPT !["ESR"] = {}]
        BY <1>6, <2>2 DEF Effect
      <3> QED BY <3>1, <1>0, <1>6, <1>K, <2>2 DEF ClearsEvent
    <2>3. CASE op[2] \in {"STAT:QUES?", "STAT:PRES"}
      <3>1. E.reg = [r EXCEPT !["QUES"] = {}]
        BY <1>6, <2>3 DEF Effect
      <3> QED BY <3>1, <1>0, <1>6, <1>K, <2>3 DEF ClearsEvent
    <2>4. CASE op[2] = "STAT:OPER?"
      <3>1. E.reg = [r EXCEPT !["OPER"] = {}]
        BY <1>6, <2>4 DEF Effect
      <3> QED BY <3>1, <1>0, <1>6, <1>K, <2>4 DEF ClearsEvent
    <2>5. CASE op[2] \notin {"*CLS", "*ESR?", "STAT:QUES?", "STAT:PRES", "STAT:OPER?"}
      <3>1. \E m \in {"ESE", "SRE", "QUESE", "OPERE"} : E.reg = r \/ E.reg = [r EXCEPT ![m] = op[3]] \/ E.reg = [r EXCEPT !["ESR"] = @ \cup {OPC}]
        BY <1>6, <2>5 DEF Effect
      <3> QED BY <3>1, <1>0
    <2> QED BY <2>1, <2>2, <2>3, <2>4, <2>5
  <1> QED BY <1>1, <1>2, <1>3, <1>4, <1>5, <1>6

ASSUME OpsKinded == \A op \in Ops : op[1] \in OpKinds
THEOREM StickyHolds == Spec => Sticky
<1>1. Init => DomInv
  BY DEF Init, DomInv
<1>2. DomInv /\ [Next]_vars => DomInv' /\ ((\A n \in EventRegs : (reg[n] \ reg'[n] # {}) => ClearsEvent(lastOp', n)) \/ UNCHANGED vars)
  <2> SUFFICES ASSUME DomInv, [Next]_vars, ~UNCHANGED vars PROVE DomInv' /\ (\A n \in EventRegs : (reg[n] \ reg'[n] # {}) => ClearsEvent(lastOp', n))
    BY DEF vars, DomInv
  <2>1. PICK op \in Ops : Do(op)
    BY DEF Next
  <2>2. reg' = Effect(reg, q, op, Cap).reg /\ lastOp' = op
    BY <2>1 DEF Do, Apply
  <2> QED BY <2>2, EffectCond, EffectSticky, OpsKinded DEF DomInv
<1> QED BY <1>1, <1>2, PTL DEF Spec, Sticky
=============================================================================
