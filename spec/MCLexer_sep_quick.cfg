SPECIFICATION Spec
CONSTANT N = 4
CONSTANT AlphaSet <- A_sep
CONSTANT Which <- W_sep
INVARIANT Lemmas
CHECK_DEADLOCK FALSE
