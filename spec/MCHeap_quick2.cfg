SPECIFICATION Spec
CONSTANTS
 Sizes = {2, 3, 4}
 Caps = {1, 2, 3}
 Codes <- TwoCodes
 MaxOps = 100
INVARIANT TextOrNothing
INVARIANT NoOverlap
INVARIANT InBounds
INVARIANT ReusableWhenEmpty
INVARIANT NoLeak
INVARIANT Contiguous
INVARIANT QueueBounded
PROPERTY Refines
VIEW View
CHECK_DEADLOCK FALSE
