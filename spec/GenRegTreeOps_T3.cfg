INIT TInit
NEXT GenNext
CONSTANTS
 TOps <- OpsT3
CHECK_DEADLOCK FALSE
