SPECIFICATION Spec
CONSTANT N = 5
CONSTANT AlphaSet <- A_unit
CONSTANT Which <- W_unit
INVARIANT Lemmas
CHECK_DEADLOCK FALSE
