INIT InitStr
NEXT Next
CONSTANTS
 LimbBase = 65536
 MaxLen = 8
 MaxN = 0
 Alphabet <- AlphaC
 DigitSet <- DigitsQ
 WsSet <- WsQ
INVARIANT GrammarScannerAgree
INVARIANT MaximalMunch
INVARIANT NormalForm
INVARIANT CutLemma
INVARIANT SplitLemma
INVARIANT DeviationLemma
CHECK_DEADLOCK FALSE
