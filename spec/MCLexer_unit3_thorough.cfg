SPECIFICATION Spec
CONSTANT N = 7
CONSTANT AlphaSet <- A_unit3
CONSTANT Which <- W_unit
INVARIANT Lemmas
CHECK_DEADLOCK FALSE
