SPECIFICATION Spec
CONSTANT N = 7
CONSTANT AlphaSet <- A_exp
CONSTANT Which <- W_exp
INVARIANT Lemmas
CHECK_DEADLOCK FALSE
