SPECIFICATION Spec
CONSTANT Big = TRUE
INVARIANT LongOk
INVARIANT Emit
CHECK_DEADLOCK FALSE
