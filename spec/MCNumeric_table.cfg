INIT InitOne
NEXT Next
CONSTANTS
 LimbBase = 65536
 MaxLen = 6
 MaxN = 0
 Alphabet <- AlphaA
 DigitSet <- DigitsQ
 WsSet <- WsQ
INVARIANT TableWellFormed
INVARIANT PrefixCoherent
INVARIANT SpecialsWellFormed
CHECK_DEADLOCK FALSE
