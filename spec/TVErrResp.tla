------------------------------ MODULE TVErrResp ------------------------------
(* C18: every recorded response of the error query must be the response the   *)
(* specification composes from code, description table and text, cut at 255   *)
(* escaped characters, and the entry must have been consumed.                  *)
EXTENDS Integers, Sequences, FiniteSets, TLC, Json, IOUtils
T == ndJsonDeserialize(IOEnv.TRACE)
VARIABLES l
Q == INSTANCE ScpiErrQueue WITH Cap <- 1, Codes <- {}, Texts <- {}, q <- <<>>, live <- {}, lastRes <- 0, lastFrees <- {}, lastOp <- ""
Init == l \in 1..Len(T)
Next == UNCHANGED l
Spec == Init /\ [][Next]_l
Rec == T[l]
Body == SubSeq(Rec.out, 1, Len(Rec.out) - 2)
HasText == Rec.has = 1 /\ Rec.info = 1
Diff == (IF Len(Rec.out) >= 2 /\ SubSeq(Rec.out, Len(Rec.out) - 1, Len(Rec.out)) = <<13, 10>> THEN {} ELSE {"terminator"})
   \cup (IF Q!ResponseOk(Body, Rec.code, HasText, IF HasText THEN Rec.text ELSE <<>>, 255) THEN {} ELSE {"response"})
   \cup (IF Rec.cnt = 0 THEN {} ELSE {"entry-not-consumed"})
Conforms == Diff = {} \/ PrintT(<<"MISMATCH", l, Diff>>)
=============================================================================
