SPECIFICATION Spec
CONSTANT N = 5
CONSTANT AlphaSet <- A_hdr
CONSTANT Which <- W_hdr
INVARIANT Lemmas
CHECK_DEADLOCK FALSE
