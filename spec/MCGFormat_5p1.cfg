SPECIFICATION Spec
CONSTANTS
 MaxLen = 5
 NegLen = 2
 PSplit = 6
 MaxLenHigh = 5
 Exps <- ExpsFull
 Precs = {1}
INVARIANT Lemmas
CHECK_DEADLOCK FALSE
