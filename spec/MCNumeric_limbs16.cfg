INIT InitLandmark
NEXT Next
CONSTANTS
 LimbBase = 65536
 MaxLen = 6
 MaxN = 0
 Alphabet <- AlphaA
 DigitSet <- DigitsQ
 WsSet <- WsQ
INVARIANT Limb16Lemmas
CHECK_DEADLOCK FALSE
