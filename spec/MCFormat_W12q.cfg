SPECIFICATION Spec
CONSTANTS
 W = 12
 Bases = {10}
 Signs = {TRUE}
 MaxLen = 14
INVARIANT AlgoCorrect
INVARIANT AlgoSafe
INVARIANT AlgoBounded
INVARIANT ImpliesBuffer
INVARIANT CanonShape
INVARIANT FastIsSlow
CHECK_DEADLOCK FALSE
