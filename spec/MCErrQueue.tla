----------------------------- MODULE MCErrQueue -----------------------------
EXTENDS ScpiErrQueue
CodesDef == {0 - 100, 0 - 200, 5}
TextsDef == {<<>>, <<97>>, <<98, 34>>}
(* C18 lemmas on a small limit: every text over {a, ", ;} up to MaxLen against limits 0..MaxLimit *)
CONSTANTS MaxLen, MaxLimit
VARIABLES full, limit
RInit == QInit /\ \E n \in 0..MaxLen : \E s \in [1..n -> {97, 34, 59}] : \E k \in 0..MaxLimit : full = s /\ limit = k
RNext == UNCHANGED <<full, limit, q, live, lastRes, lastFrees, lastOp>>
RSpec == RInit /\ [][RNext]_<<full, limit, q, live, lastRes, lastFrees, lastOp>>
QSpecMC == (QInit /\ full = <<>> /\ limit = 0) /\ [][QNext /\ UNCHANGED <<full, limit>>]_<<full, limit, q, live, lastRes, lastFrees, lastOp>>
RespLemma == ResponseLemma(full, limit)
RespString == LET r == <<DQ>> \o Esc(Cut(full, limit)) \o <<DQ>> IN
              r[1] = DQ /\ r[Len(r)] = DQ /\ WellQuoted(SubSeq(r, 2, Len(r) - 1))
=============================================================================
