INIT InitStr
NEXT Next
CONSTANTS
 LimbBase = 65536
 MaxLen = 6
 MaxN = 0
 Alphabet <- AlphaA
 DigitSet <- DigitsQ
 WsSet <- WsQ
INVARIANT GrammarScannerAgree
INVARIANT MaximalMunch
INVARIANT NormalForm
INVARIANT CutLemma
INVARIANT SplitLemma
INVARIANT DeviationLemma
CHECK_DEADLOCK FALSE
