-------------------------------- MODULE Scpi --------------------------------
(***************************************************************************)
(* "A minimal instrument": the composition of the message layer            *)
(* (ScpiParser) with the status registers and the error queue (ScpiStatus) *)
(* through the command handlers the library ships in ieee488.c and         *)
(* minimal.c (ScpiLibTable).  One program message is one step: its units   *)
(* are executed in order on the status state, every error the parser or a  *)
(* handler raises is queued and classified, queries contribute result      *)
(* items, and the response is framed as ScpiParser prescribes.  This is    *)
(* the module in which the properties meet: C02 (lookup), C05 (parameter   *)
(* errors), C06 (framing), C10-C12 (queue, status byte, classification,    *)
(* service request) and C18 (error query) on one state.                    *)
(***************************************************************************)
EXTENDS ScpiParser, ScpiLibTable
S == INSTANCE ScpiStatus WITH Cap <- 1, Ops <- {}, reg <- 0, q <- 0, stb <- 0, srq <- 0, out <- 0, lastOp <- 0
E == INSTANCE ScpiErrTable

(* status state: [reg, q (codes), stb]; srq = announcements required so far in this message *)
ApplyOp(st, op, cap) ==
  LET a == S!Apply(st.reg, st.q, st.stb, op, cap) IN
  [reg |-> a.reg, q |-> a.q, stb |-> a.stb, srq |-> st.srq \o a.srq, last |-> a.out]
RECURSIVE PushAll(_, _, _)
PushAll(st, errs, cap) == IF errs = <<>> THEN st ELSE PushAll(ApplyOp(st, <<"push", Head(errs)>>, cap), Tail(errs), cap)

IdnItems == << <<77, 70>>, <<77, 68>>, <<48>>, <<49>> >>            \* MF, MD, 0, 1 (the driver's identification)
Version  == <<49, 57, 57, 57, 46, 48>>                               \* 1999.0
ErrItem(code) == Dec(code) \o <<44, 34>> \o E!Desc(code) \o <<34>>   \* builds without device-dependent text

(* one unit of a library command: e = table row, toks = items of its parameter list *)
LibUnit(e, msg, toks, st, cap) ==
  IF e.arg THEN
     IF toks = <<>> THEN [st |-> PushAll(st, <<0 - 109>>, cap), items |-> <<>>, errs |-> <<0 - 109>>]
     ELSE LET tk == toks[1] text == Slice(msg, tk.start, tk.len)
              oc == ReaderOutcome("i32", tk, text, <<>>) IN
          IF oc # 0 THEN [st |-> PushAll(st, <<oc>>, cap), items |-> <<>>, errs |-> <<oc>>]
          ELSE LET v == IntValue(text) % 65536
                   s1 == ApplyOp(st, <<"cmd", e.op, S!Bits(v)>>, cap)
                   more == IF Len(toks) > 1 THEN <<0 - 108>> ELSE <<>> IN
               [st |-> PushAll(s1, more, cap), items |-> <<>>, errs |-> more]
  ELSE LET s1 == ApplyOp(st, <<"cmd", e.op>>, cap)
           items == IF e.op = "*IDN?" THEN IdnItems
                    ELSE IF e.op = "SYST:VERS?" THEN <<Version>>
                    ELSE IF e.op = "SYST:ERR?" THEN <<ErrItem(s1.last[1])>>
                    ELSE IF s1.last = <<>> THEN <<>> ELSE <<Dec(s1.last[1])>>
           more == IF toks # <<>> THEN <<0 - 108>> ELSE <<>> IN
       [st |-> PushAll(s1, more, cap), items |-> items, errs |-> more]

LibPT == PreTable([i \in 1..Len(LibTable) |-> [pat |-> LibTable[i].pat, tag |-> i]])
RECURSIVE LibUnits(_, _, _, _, _, _)
LibUnits(msg, pos, prev, st, cap, acc) ==
  IF pos > Len(msg) \/ acc.weird THEN [acc EXCEPT !.st = st] ELSE
  LET u == DetectUnit(msg, pos) IN
  IF ~u.valid \/ (u.header.len > 0 /\ ~u.accepted) \/ u.incomplete THEN [acc EXCEPT !.weird = TRUE, !.st = st]
  ELSE IF u.header.len = 0 THEN LibUnits(msg, u.next, prev, st, cap, acc)
  ELSE LET hdr == Slice(msg, u.header.start, u.header.len)
           eff == Effective(prev, hdr)
           k   == FirstMatch(LibPT, eff) IN
       IF k = 0 THEN LibUnits(msg, u.next, eff, PushAll(st, <<0 - 113>>, cap), cap, [acc EXCEPT !.errs = Append(@, 0 - 113)])
       ELSE LET r == LibUnit(LibTable[k], msg, u.items, st, cap) IN
            LibUnits(msg, u.next, eff, r.st, cap,
                     [acc EXCEPT !.errs = @ \o r.errs, !.units = IF r.items = <<>> THEN @ ELSE Append(@, r.items)])

(* one program message on status state st0 = [reg, q, stb] *)
RunLibMsg(st0, msg, cap) ==
  LET a == LibUnits(msg, 1, <<>>, [reg |-> st0.reg, q |-> st0.q, stb |-> st0.stb, srq |-> <<>>, last |-> <<>>], cap,
                    [units |-> <<>>, errs |-> <<>>, weird |-> FALSE, st |-> <<>>]) IN
  [reg |-> a.st.reg, q |-> a.st.q, stb |-> a.st.stb, srq |-> a.st.srq, out |-> Framing(a.units), errs |-> a.errs,
   ret |-> a.errs = <<>>, weird |-> a.weird]
=============================================================================
