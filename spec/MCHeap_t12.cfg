SPECIFICATION Spec
CONSTANTS
 Sizes = {7, 8, 9, 10, 11, 12}
 Caps = {1, 2}
 Codes <- OneCode
 MaxOps = 100
INVARIANT TextOrNothing
INVARIANT NoOverlap
INVARIANT InBounds
INVARIANT ReusableWhenEmpty
INVARIANT NoLeak
INVARIANT Contiguous
INVARIANT QueueBounded
PROPERTY Refines
VIEW View
CHECK_DEADLOCK FALSE
