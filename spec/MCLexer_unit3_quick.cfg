SPECIFICATION Spec
CONSTANT N = 6
CONSTANT AlphaSet <- A_unit3
CONSTANT Which <- W_unit
INVARIANT Lemmas
CHECK_DEADLOCK FALSE
