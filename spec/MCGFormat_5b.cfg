SPECIFICATION Spec
CONSTANTS
 MaxLen = 5
 NegLen = 2
 Exps <- ExpsFull
 Precs <- PrecsHigh
INVARIANT Lemmas
CHECK_DEADLOCK FALSE
