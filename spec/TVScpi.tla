------------------------------- MODULE TVScpi -------------------------------
(* Validation of recorded executions of a minimal instrument (real library,  *)
(* full command table of ieee488.c / minimal.c) against the composition      *)
(* Scpi.tla: one record per program message {cap, from-state, message,       *)
(* to-state, output bytes, error callbacks, service requests, return value}. *)
EXTENDS Scpi, Json, IOUtils
T == ndJsonDeserialize(IOEnv.TRACE)
VARIABLE l
Init == l \in 1..Len(T)
Next == UNCHANGED l
Spec == Init /\ [][Next]_l
Rec == T[l]
RegIdx == [SRE |-> 2, ESR |-> 3, ESE |-> 4, OPER |-> 5, OPERE |-> 6, OPERC |-> 7, QUES |-> 8, QUESE |-> 9, QUESC |-> 10]
RegsOf(s) == [n \in S!Regs |-> IF n = "SRE" THEN S!Bits(s.r[RegIdx[n]]) \ {6} ELSE S!Bits(s.r[RegIdx[n]])]
From == [reg |-> RegsOf(Rec.f), q |-> Rec.f.q, stb |-> S!Bits(Rec.f.r[1])]
FromOk == From.stb = S!NewStb(From.reg, Len(From.q)) /\ Len(From.q) <= Rec.cap
R == RunLibMsg(From, Rec.msg, Rec.cap)
SreOut == \E i \in 1..(Len(Rec.msg) - 4) : SubSeq(Rec.msg, i, i + 4) = <<42, 83, 82, 69, 63>>     \* "*SRE?" prints bit 6 as stored
Diff == LET r == R IN
  IF r.weird THEN (IF \E i \in 1..Len(Rec.errs) : Rec.errs[i] <= 0 - 100 /\ Rec.errs[i] >= 0 - 199 THEN {} ELSE {"malformed-without-command-error"})
  ELSE {n \in S!Regs : [r.reg EXCEPT !["SRE"] = @ \ {6}][n] # RegsOf(Rec.t)[n]}
       \cup (IF r.q = Rec.t.q THEN {} ELSE {"queue"})
       \cup (IF r.stb = S!Bits(Rec.t.r[1]) THEN {} ELSE {"STB"})
       \cup (IF SreOut \/ r.out = Rec.out THEN {} ELSE {"out"})
       \cup (IF r.errs = SelectSeq(Rec.errs, LAMBDA c : c # 0 - 350) THEN {} ELSE {"errs"})
       \cup (IF r.ret = (Rec.ret = 1) THEN {} ELSE {"ret"})
       \cup (IF r.srq # <<>> /\ Rec.srq = <<>> THEN {"srq-missing"} ELSE {})
       \cup (IF \E i \in 1..Len(Rec.srq) : 6 \notin S!Bits(Rec.srq[i]) THEN {"srq-without-mss"} ELSE {})
Conforms == IF FromOk THEN Diff = {} \/ PrintT(<<"MISMATCH", l, Diff>>) ELSE PrintT(<<"UNJUDGED", l>>)
=============================================================================
