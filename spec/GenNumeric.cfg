INIT Init
NEXT Next
CONSTANTS
 LimbBase = 65536
INVARIANT Emit
CHECK_DEADLOCK FALSE
