SPECIFICATION Spec
CONSTANTS
 Mode = "lex"
 MaxKw = 2
 ProductN = 2
INVARIANT Checked
CHECK_DEADLOCK FALSE
