SPECIFICATION Spec
CONSTANT N = 4
CONSTANT AlphaSet <- A_ndc
CONSTANT Which <- W_ndc
INVARIANT Lemmas
CHECK_DEADLOCK FALSE
