SPECIFICATION Spec
INVARIANT Accepted
CHECK_DEADLOCK FALSE
