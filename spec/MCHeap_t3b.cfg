SPECIFICATION Spec
CONSTANTS
 Sizes = {9, 10}
 Caps = {3}
 Codes <- OneCode
 MaxOps = 100
INVARIANT TextOrNothing
INVARIANT NoOverlap
INVARIANT InBounds
INVARIANT ReusableWhenEmpty
INVARIANT NoLeak
INVARIANT Contiguous
INVARIANT QueueBounded
PROPERTY Refines
VIEW View
CHECK_DEADLOCK FALSE
