------------------------------ MODULE MCFormat ------------------------------
(* C14, part M: the digit-extraction design of ScpiFormat (descending        *)
(* divisor, leading-zero skip, guarded stores) run as a state machine on a   *)
(* W-bit word model; TLC checks for EVERY W-bit value, base, signedness and  *)
(* buffer length that its result is what ToStrContract demands of the        *)
(* canonical text computed independently by repeated division (CanonDigits), *)
(* that no step touches a byte outside the buffer, and that it terminates    *)
(* within the step bound.  Also the lemma that ToStrContract implies the     *)
(* C15 BufferContract and completeness.                                      *)
EXTENDS ScpiFormat, TLC
CONSTANTS W, Bases, Signs, MaxLen
VARIABLE st

Off == 1
Fill == 170
Before(len) == [i \in 1..(Off + len + 2) |-> Fill]

Init == \E v \in 0..(Pow(2, W) - 1), base \in Bases, signed \in Signs, len \in 0..MaxLen :
           st = AlgoInit(v, W, base, signed, len, Off, Before(len))
Next == ~AlgoDone(st) /\ st' = AlgoStep(st)
Spec == Init /\ [][Next]_st

Canon(s) == CanonDigits(DFromNat(s.v, LimbRadix), W, s.b, s.signed)

AlgoCorrect == AlgoDone(st) => ToStrContract(Canon(st), st.len, AlgoRet(st), Off, Before(st.len), st.mem)
AlgoSafe == BeyondUnchanged(st.len, Off, Before(st.len), st.mem) /\ FrontUnchanged(Off, Before(st.len), st.mem)
AlgoBounded == st.steps <= 2 * W + 3 /\ (st.pc \in {"skip", "emit"} => st.x > 0)
ImpliesBuffer == AlgoDone(st) => /\ BufferContract("int", Canon(st), st.len, AlgoRet(st), Off, Before(st.len), st.mem)
                                 /\ Complete(Canon(st), st.len, AlgoRet(st))
\* the canonical text itself: characters 0-9 A-F or a leading '-', no leading zero, value preserved
CanonShape == st.pc = "start" =>
              LET c == Canon(st)
                  body == IF c[1] = MinusChar THEN Tail(c) ELSE c IN
              /\ Len(body) >= 1
              /\ \A i \in 1..Len(body) : body[i] \in (48..57) \cup (65..70)
              /\ (Len(body) > 1 => body[1] # 48)
              /\ (c[1] = MinusChar => st.signed /\ st.b = 10 /\ st.v >= Pow(2, W - 1))
              /\ LET val == DToNat([i \in 1..Len(body) |-> IF body[i] < 58 THEN body[i] - 48 ELSE body[i] - 55], st.b) IN
                 IF c[1] = MinusChar THEN val = Pow(2, W) - st.v ELSE val = st.v
\* the canonical text uses the chunked conversion; the plain repeated division is its definition
FastIsSlow == st.pc = "start" => /\ DConvertFast(DFromNat(st.v, LimbRadix), LimbRadix, st.b) = DConvert(DFromNat(st.v, LimbRadix), LimbRadix, st.b)
                                 /\ LET big == <<st.v, 65535 - st.v, st.v * 7 % 65536, st.len * 4099 + st.v>> IN
                                    DConvertFast(big, LimbRadix, st.b) = DConvert(big, LimbRadix, st.b)
=============================================================================
