----------------------------- MODULE GenLexLong -----------------------------
(* Grammar-generated long tokens for C13.  Every case is a token built from the productions of   *)
(* IEEE 488.2 section 7 (pieces below) followed by a context; LongOk states that the token is in *)
(* the declarative grammar AND that the longest-prefix recogniser takes exactly the token when   *)
(* nothing follows; Emit writes the case for harness/drv_lexer.c (the real code is then judged   *)
(* by TVLexer).  Byte strings are literal tuples because TLC cannot index TLA+ strings.          *)
EXTENDS ScpiLexer, TLC, Json, IOUtils
CONSTANT Big
Mnems == {<<65>>,
    <<65, 66, 67, 68, 69, 70, 71, 72, 73, 74, 75, 76>>,
    <<97, 49, 95, 122, 57>>,
    <<90, 90, 90, 90, 90, 90, 90, 90, 90, 90, 90, 90, 90, 90, 90, 90, 90, 90, 90, 90>>}

Ints == {<<>>,
    <<48>>,
    <<49, 50, 51, 52, 53, 54, 55, 56, 57, 48, 49, 50, 51, 52, 53, 54, 55, 56, 57, 48, 49, 50, 51, 52, 53>>}

Fracs == {<<>>,
    <<46>>,
    <<46, 53>>,
    <<46, 48, 48, 48, 48, 48, 48, 48, 48, 48, 48, 48, 48, 48, 48, 48, 48, 48, 48, 48, 48, 49>>}

Exps == {<<>>,
    <<69, 53>>,
    <<101, 45, 49, 50>>,
    <<32, 69, 32, 43, 51, 48, 56>>,
    <<32, 32, 69, 32, 32, 45, 48>>}

Units == {<<86>>,
    <<79, 72, 77>>,
    <<83, 50>>,
    <<77, 45, 49>>}

UTails == {<<>>,
    <<47, 83>>,
    <<46, 77, 45, 50, 47, 83, 50>>,
    <<47, 72, 90, 46, 86, 51, 46, 65, 45, 49>>}

Nondecs == {<<35, 72, 48, 49, 50, 51, 52, 53, 54, 55, 56, 57, 97, 98, 99, 100, 101, 102, 65, 66, 67, 68, 69, 70>>,
    <<35, 81, 48, 49, 50, 51, 52, 53, 54, 55, 48, 49, 50>>,
    <<35, 66, 49, 48, 49, 48, 49, 48, 49, 48, 49, 48, 49, 48, 49, 48, 49, 48, 49, 48, 49, 48, 49, 48, 49, 48, 49, 48, 49, 48, 49, 48, 49, 48, 49, 48>>,
    <<35, 104, 70>>,
    <<35, 113, 55>>,
    <<35, 98, 49>>}

DBodies == {<<>>,
    <<97, 98, 99>>,
    <<34, 34>>,
    <<97, 34, 34, 98, 34, 34>>,
    <<105, 116, 39, 115>>,
    <<108, 105, 110, 101, 49, 10, 108, 105, 110, 101, 50, 44, 32, 120, 59, 32, 121, 32, 32, 35, 40, 122, 41>>,
    <<32, 32, 32, 32, 32, 32, 32, 32, 32, 32, 32, 32, 32, 32, 32, 32, 32, 32, 32, 32, 32, 32, 32, 32, 32, 32, 32, 32, 32, 32>>}

SBodies == {<<>>,
    <<97, 98, 99>>,
    <<39, 39>>,
    <<97, 39, 39, 98, 39, 39>>,
    <<115, 97, 121, 32, 34, 104, 105, 34>>,
    <<108, 105, 110, 101, 49, 13, 10, 108, 105, 110, 101, 50, 44, 32, 120, 59, 32, 121>>}

Blocks == {<<35, 49, 48>>,
    <<35, 49, 49, 120>>,
    <<35, 49, 57, 10, 59, 34, 39, 40, 44, 41, 35, 128>>,
    <<35, 50, 49, 48, 48, 49, 50, 51, 52, 53, 54, 55, 56, 57>>,
    <<35, 50, 49, 51, 65, 44, 66, 59, 67, 10, 68, 0, 69, 255, 70, 32, 34>>,
    <<35, 51, 48, 52, 48, 120, 120, 120, 120, 120, 120, 120, 120, 120, 120, 120, 120, 120, 120, 120, 120, 120, 120, 120, 120, 120, 120, 120, 120, 120, 120, 120, 120, 120, 120, 120, 120, 120, 120, 120, 120, 120, 120, 120, 120>>,
    <<35, 57, 48, 48, 48, 48, 48, 48, 48, 48, 51, 97, 10, 98>>}

Exprs == {<<40, 41>>,
    <<40, 49, 44, 50, 44, 51, 41>>,
    <<40, 64, 49, 58, 51, 44, 53, 41>>,
    <<40, 49, 58, 50, 44, 51, 58, 52, 32, 53, 32, 65, 41>>,
    <<40, 49, 44, 49, 44, 49, 44, 49, 44, 49, 44, 49, 44, 49, 44, 49, 44, 49, 44, 49, 44, 49, 44, 49, 44, 49, 44, 49, 44, 49, 44, 49, 44, 49, 44, 49, 44, 49, 44, 49, 44, 49, 44, 49, 44, 49, 44, 49, 44, 49, 44, 57, 41>>}
RelaxedSuffixes == {<<86, 45>>, <<86, 47>>, <<86, 47, 45, 46>>, <<79, 72, 77, 46, 46, 83>>, <<47, 65, 45, 46, 45, 49>>}

Signs == {<<>>, <<43>>, <<45>>}
Quest == {<<>>, <<63>>}
Colon == <<58>>
Headers ==
  {<<42>> \o m \o q : m \in Mnems, q \in Quest}
  \cup {lead \o m \o q : lead \in {<<>>, Colon}, m \in Mnems, q \in Quest}
  \cup {lead \o m1 \o Colon \o m2 \o q : lead \in {<<>>, Colon}, m1 \in Mnems, m2 \in Mnems, q \in Quest}
  \cup {lead \o m1 \o Colon \o m2 \o Colon \o m1 \o Colon \o m2 \o q : lead \in {<<>>, Colon}, m1 \in Mnems, m2 \in Mnems, q \in Quest}
Decimals == {s \o i \o f \o e : s \in Signs, i \in Ints, f \in Fracs, e \in Exps} \ {s \o f \o e : s \in Signs, f \in {<<>>, <<46>>}, e \in Exps}
Suffixes == {sl \o u \o t : sl \in {<<>>, <<47>>}, u \in Units, t \in UTails}
Strings == {<<34>> \o x \o <<34>> : x \in DBodies} \cup {<<39>> \o x \o <<39>> : x \in SBodies}
DecSuffixes == {d \o w \o u : d \in {<<49>>, <<45, 46, 53, 69, 51>>, <<49, 32, 69, 50>>}, w \in {<<>>, <<32>>, <<32, 9, 32>>}, u \in {<<86>>, <<47, 83>>, <<75, 72, 90>>, <<77, 45, 49, 46, 83>>}}
Datas == {<<35, 72, 70, 102>>, <<35, 98, 49, 48>>} \cup {<<65>>, <<77, 65, 88>>} \cup {<<49>>, <<45, 49, 46, 53, 101, 51>>}
         \cup {<<49, 32, 86>>, <<45, 46, 53, 69, 51, 32, 9, 32, 77, 45, 49, 46, 83>>, <<49, 32, 69, 50, 47, 83>>}
         \cup {<<34, 97, 44, 98, 34>>, <<39, 39, 39, 39>>} \cup {<<35, 49, 50, 44, 59>>} \cup {<<40, 64, 49, 44, 50, 41>>}
DSeps == {<<44>>, <<32, 44, 32>>}
Terms == {<<>>, <<59>>, <<10>>, <<13, 10>>, <<32, 59>>}
Units3 == {h \o <<32>> \o d1 \o s \o d2 \o t : h \in {<<65, 58, 66>>, <<42, 73, 68, 78, 63>>}, d1 \in Datas, s \in DSeps, d2 \in Datas, t \in Terms}
UnitsBig == {h \o <<32>> \o d1 \o <<44>> \o d2 \o <<44>> \o d3 \o t : h \in {<<58, 83, 58, 84, 63>>}, d1 \in Datas, d2 \in Datas, d3 \in Datas, t \in {<<10>>}}

(* very long tokens: runs of 255, 256, 257 and 512 characters in every place where the grammar repeats a character class *)
(* (a counter of one byte does not count them)                                                                        *)
Run(n, ch) == [i \in 1..n |-> ch]
VL == {255, 256, 257, 512}
VLDecimals == {Run(n, 55) : n \in VL} \cup {<<49, 46>> \o Run(n, 48) \o <<49>> : n \in VL}
              \cup {<<49, 69>> \o Run(n, 48) \o <<51>> : n \in VL} \cup {<<45>> \o Run(256, 48) \o <<46, 53, 32, 101, 32, 45>> \o Run(256, 48)}
VLNondecs  == {<<35, 72>> \o Run(n, 70) : n \in VL} \cup {<<35, 66>> \o Run(256, 49), <<35, 81>> \o Run(256, 55)}
VLStrings  == {<<34>> \o Run(n, 97) \o <<34>> : n \in VL} \cup {<<39>> \o Run(256, 34) \o <<39>>}
VLHeaders  == {Run(n, 65) \o <<63>> : n \in VL} \cup {<<58>> \o Run(256, 90) \o <<58>> \o Run(256, 57 + 8)}
VLExprs    == {<<40>> \o Run(n, 49) \o <<41>> : n \in VL}
VLBlocks   == {<<35, 51, 50, 53, 54>> \o Run(256, 120), <<35, 51, 53, 49, 50>> \o Run(512, 0)}
VLSuffixes == {Run(256, 86), <<86, 47>> \o Run(256, 83)}
(* units with 127 .. 257 parameters (the parameter count of a unit is a number like any other) *)
ParamList(n) == [i \in 1..(2 * n - 1) |-> IF i % 2 = 1 THEN 49 ELSE 44]
VLUnits    == {<<65, 32>> \o ParamList(n) \o <<10>> : n \in {127, 128, 129, 255, 256, 257}}

Cases == {<<"ldec", x>> : x \in VLDecimals} \cup {<<"lndc", x>> : x \in VLNondecs} \cup {<<"lstr", x>> : x \in VLStrings}
         \cup {<<"lhdr", x>> : x \in VLHeaders} \cup {<<"lexp", x>> : x \in VLExprs} \cup {<<"lblk", x>> : x \in VLBlocks}
         \cup {<<"lsuf", x>> : x \in VLSuffixes} \cup {<<"lunit", x>> : x \in VLUnits}
         \cup {<<"lhdr", x>> : x \in Headers} \cup {<<"ldec", x>> : x \in Decimals} \cup {<<"lsuf", x>> : x \in Suffixes \cup RelaxedSuffixes}
         \cup {<<"lndc", x>> : x \in Nondecs} \cup {<<"lstr", x>> : x \in Strings} \cup {<<"lblk", x>> : x \in Blocks}
         \cup {<<"lexp", x>> : x \in Exprs} \cup {<<"lunit", x>> : x \in Units3 \cup (IF Big THEN UnitsBig ELSE {})}
Contexts == {<<>>, <<32>>, <<44>>, <<59>>, <<10>>, <<65>>, <<49>>, <<34>>, <<46>>, <<63>>}

VARIABLES c, ctx
Init == c \in Cases /\ ctx \in (IF c[1] = "lunit" THEN {<<>>} ELSE Contexts)
Next == UNCHANGED <<c, ctx>>
Spec == Init /\ [][Next]_<<c, ctx>>

Whole(t, s) == t.next = Len(s) + 1 /\ t.type # "UNKNOWN"
LongOk == LET g == c[1]  s == c[2] IN
  CASE g = "lhdr" -> G_Header(s) /\ Whole(LexHeader(s, 1), s) /\ LexHeader(s, 1).type = HeaderType(s) /\ LexHeaderStrict(s, 1) = LexHeader(s, 1)
    [] g = "ldec" -> G_Decimal(s) /\ Whole(LexDecimal(s, 1), s)
    [] g = "lsuf" -> G_Suffix(s) /\ Whole(LexSuffix(s, 1), s) /\ (G_SuffixStrict(s) = (s \notin RelaxedSuffixes))
    [] g = "lndc" -> G_Nondecimal(s) /\ Whole(LexNondecimal(s, 1), s)
    [] g = "lstr" -> G_String(s) /\ Whole(LexString(s, 1), s)
    [] g = "lblk" -> G_Block(s) /\ Whole(LexBlock(s, 1), s) /\ LexBlock(s, 1).type = "BLOCK"
    [] g = "lexp" -> G_Expr(s) /\ Whole(LexExpr(s, 1), s)
    [] g = "lunit" -> (Len(s) <= (IF Big THEN 20 ELSE 16) => G_Unit(s)) /\ DetectUnit(s, 1).accepted /\ DetectUnit(s, 1).next = Len(s) + 1
Emit == Serialize(ToJson([g |-> c[1], b |-> c[2] \o ctx]) \o "\n", IOEnv.OUT,
                  [format |-> "TXT", charset |-> "UTF-8", openOptions |-> <<"WRITE", "CREATE", "APPEND">>]).exitValue = 0
=============================================================================
