INIT InitShape
NEXT Next
CONSTANTS
 LimbBase = 65536
 MaxLen = 2
 MaxN = 0
 Alphabet <- AlphaA
 DigitSet <- DigitsQ
 WsSet <- WsQ
INVARIANT ShapeLemmas
INVARIANT ShapeSplit
CHECK_DEADLOCK FALSE
