SPECIFICATION Spec
CONSTANT N = 6
CONSTANT AlphaSet <- A_chr
CONSTANT Which <- W_chr
INVARIANT Lemmas
CHECK_DEADLOCK FALSE
