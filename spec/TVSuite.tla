------------------------------ MODULE TVSuite ------------------------------
(* Validation of hook traces recorded from the repository's own, unmodified  *)
(* test programs.  The orchestrator groups the events of each executed       *)
(* message (parse_begin .. parse_end) into one record: message text before   *)
(* in-place header composition, command table, per unit the effective header *)
(* the library looked up, the table index it chose and the bytes written     *)
(* while the unit ran, bytes written after the last unit, flushes, queued    *)
(* error codes, result, registers and queue length at the end.  Records of   *)
(* kind "push" hold one error push.  Every record is held against the        *)
(* specification: C02 (effective headers, first match), C05 (result value,   *)
(* -113 per undefined unit), C06 (separator / terminator / flush shape),     *)
(* C11 (status byte coherence at the end of the message), C12 (class bit).   *)
EXTENDS ScpiParser, Json, IOUtils
St == INSTANCE ScpiStatus WITH Cap <- 1, Ops <- {}, reg <- 0, q <- 0, stb <- 0, srq <- 0, out <- 0, lastOp <- 0
T == ndJsonDeserialize(IOEnv.TRACE)
VARIABLE l
Init == l \in 1..Len(T)
Next == UNCHANGED l
Spec == Init /\ [][Next]_l
Rec == T[l]

RECURSIVE HW(_, _, _, _, _)
HW(pt, msg, pos, prev, acc) ==
  IF pos > Len(msg) THEN [units |-> acc, weird |-> FALSE] ELSE
  LET u == DetectUnit(msg, pos) IN
  IF ~u.valid \/ (u.header.len > 0 /\ ~u.accepted) \/ u.incomplete THEN [units |-> acc, weird |-> TRUE]
  ELSE IF u.header.len = 0 THEN HW(pt, msg, u.next, prev, acc)
  ELSE LET hdr == Slice(msg, u.header.start, u.header.len)
           eff == Effective(prev, hdr) IN
       HW(pt, msg, u.next, eff, Append(acc, [eff |-> eff, idx |-> FirstMatch(pt, eff) - 1]))

PT == PreTable([i \in 1..Len(Rec.table) |-> [pat |-> Rec.table[i], tag |-> i]])
Walk == HW(PT, Rec.msg, 1, <<>>, <<>>)
Responding == {i \in 1..Len(Rec.units) : Rec.units[i].w # <<>>}
OnlyQueriesWrite == \A i \in Responding : Rec.units[i].hdr[Len(Rec.units[i].hdr)] = 63
RegsOf(r) == [n \in St!Regs |-> St!Bits(r[CASE n = "SRE" -> 2 [] n = "ESR" -> 3 [] n = "ESE" -> 4 [] n = "OPER" -> 5 [] n = "OPERE" -> 6
                                            [] n = "OPERC" -> 7 [] n = "QUES" -> 8 [] n = "QUESE" -> 9 [] n = "QUESC" -> 10])]
MsgDiff ==
  LET w == Walk n == Len(w.units) IN
     (IF Len(Rec.units) < n \/ (~w.weird /\ Len(Rec.units) # n) THEN {"C02:unit-count"}
      ELSE UNION { (IF Rec.units[i].hdr = w.units[i].eff THEN {} ELSE {"C02:effective-header"})
              \cup (IF Rec.units[i].idx = w.units[i].idx THEN {} ELSE {"C02:first-match"}) : i \in 1..n })
  \cup (IF (Rec.res = 1) = (Rec.errs = <<>>) THEN {} ELSE {"C05:result-vs-errors"})
  \cup (IF ~w.weird /\ Cardinality({i \in 1..Len(Rec.units) : Rec.units[i].idx < 0}) # Cardinality({i \in 1..Len(Rec.errs) : Rec.errs[i] = 0 - 113})
        THEN {"C02:undefined-header-errors"} ELSE {})
  \cup (IF w.weird /\ ~\E i \in 1..Len(Rec.errs) : Rec.errs[i] <= 0 - 100 /\ Rec.errs[i] >= 0 - 199 THEN {"C05:malformed-without-command-error"} ELSE {})
  \cup (IF ~OnlyQueriesWrite THEN {}
        ELSE (IF \A i \in Responding : (Rec.units[i].w[1] = 59) = (\E j \in Responding : j < i) THEN {} ELSE {"C06:separator"})
        \cup (IF Rec.tail = (IF Responding = {} THEN <<>> ELSE NL) THEN {} ELSE {"C06:terminator"})
        \cup (IF Rec.flush = (IF Responding = {} THEN 0 ELSE 1) THEN {} ELSE {"C06:flush"}))
  \cup (IF Rec.tainted = 1 \/ St!Bits(Rec.regs[1]) = St!NewStb(RegsOf(Rec.regs), Rec.qn) THEN {} ELSE {"C11:status-byte"})
PushDiff ==
  (IF St!ClassBits(Rec.code) \subseteq St!Bits(Rec.esr_after) THEN {} ELSE {"C12:class-bit"})
  \cup (IF Rec.qn_before >= Rec.qsize /\ St!DER \notin St!Bits(Rec.esr_after) THEN {"C12:overflow-der"} ELSE {})
  \cup (IF St!Bits(Rec.esr_after) \ St!Bits(Rec.esr_before) \subseteq St!ClassBits(Rec.code) \cup {St!DER} THEN {} ELSE {"C12:foreign-bit"})
Diff == IF Rec.k = "msg" THEN MsgDiff ELSE PushDiff
Conforms == Diff = {} \/ PrintT(<<"MISMATCH", l, Diff>>)
=============================================================================
