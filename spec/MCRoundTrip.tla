----------------------------- MODULE MCRoundTrip -----------------------------
(* C07 on the specification: for a W-bit word model, every value in every     *)
(* base, formatted canonically with its base prefix, is exactly one program-  *)
(* data token of the lexer specification whose digits denote the value again; *)
(* every text over a small alphabet with both quotes, quoted with doubling,   *)
(* is one string token that unquotes to the text; every block with header is  *)
(* one block token holding the data.                                          *)
EXTENDS ScpiParser
F == INSTANCE ScpiFormat
CONSTANTS W, MaxText
VARIABLES kind, val, base, sg, txt
vars == <<kind, val, base, sg, txt>>
Init == \/ /\ kind = "int" /\ val \in 0..(2^W - 1) /\ base \in {2, 8, 10, 16} /\ sg \in BOOLEAN /\ (sg => base = 10) /\ txt = <<>>
        \/ /\ kind = "text" /\ \E n \in 0..MaxText : txt \in [1..n -> {97, 34, 39, 32, 59}] /\ val = 0 /\ base = 10 /\ sg = FALSE
        \/ /\ kind = "block" /\ \E n \in 0..12 : txt = [i \in 1..n |-> IF i % 3 = 0 THEN 10 ELSE IF i % 4 = 0 THEN 59 ELSE 64 + i]
           /\ val = 0 /\ base = 10 /\ sg = FALSE
Next == UNCHANGED vars
Spec == Init /\ [][Next]_vars
Prefix(b) == IF b = 16 THEN <<35, 72>> ELSE IF b = 8 THEN <<35, 81>> ELSE IF b = 2 THEN <<35, 66>> ELSE <<>>
Limbs == <<val>>
DigitVal(c) == IF c >= 65 THEN c - 55 ELSE c - 48
RECURSIVE Denote(_, _, _)
Denote(ds, b, acc) == IF ds = <<>> THEN acc ELSE Denote(Tail(ds), b, acc * b + DigitVal(Head(ds)))
Text == Prefix(base) \o F!CanonDigits(Limbs, W, base, sg)
IntRoundTrip == kind = "int" =>
   LET d == ProgramData(Text, 1)
       body == IF base = 10 THEN Text ELSE SubSeq(Text, 3, Len(Text))
       neg == body[1] = 45
       mag == Denote(IF neg THEN Tail(body) ELSE body, base, 0) IN
   /\ d.next = Len(Text) + 1
   /\ d.type = (IF base = 16 THEN "HEXNUM" ELSE IF base = 8 THEN "OCTNUM" ELSE IF base = 2 THEN "BINNUM" ELSE "DECIMAL")
   /\ (IF neg THEN 2^W - mag ELSE mag) = val
   /\ (neg => sg /\ val >= 2^(W - 1))
TextRoundTrip == kind = "text" =>
   LET q == <<34>> \o EscDq(txt) \o <<34>> d == ProgramData(q, 1) IN
   d.type = "DQUOTE" /\ d.next = Len(q) + 1 /\ Unquote(q, 34) = txt
BlockRoundTrip == kind = "block" =>
   LET q == BlockHeader(Len(txt)) \o txt d == ProgramData(q, 1) IN
   d.type = "BLOCK" /\ d.next = Len(q) + 1 /\ Slice(q, d.start, d.len) = txt
=============================================================================
