----------------------------- MODULE ScpiMatch -----------------------------
(***************************************************************************)
(* The short/long-form pattern language of SCPI command headers (C03),     *)
(* intended behaviour.                                                     *)
(*                                                                         *)
(* All texts are sequences of byte values.  A pattern is a list of keyword *)
(* records [name, opt, num] plus a query flag; ParsePattern obtains them   *)
(* from the pattern text as it is written in a command table.              *)
(*                                                                         *)
(*   Accepts / Numbers        the property, declaratively: a header is     *)
(*                            accepted iff SOME selection of keywords that *)
(*                            contains every mandatory one spells it.      *)
(*   WellFormedPattern        the side condition of the property.          *)
(*   MatchAlgo                the design of the matcher: ONE left-to-right *)
(*                            walk over the keywords that never goes back; *)
(*                            MCMatch checks it equal to Accepts/Numbers   *)
(*                            for every well-formed pattern.               *)
(*   AcceptsText, NumbersText, FirstMatch   the same on pattern texts and  *)
(*                            command tables (used by the parser spec).    *)
(***************************************************************************)
EXTENDS Integers, Sequences, FiniteSets

IsUpper(c) == c \in 65..90
IsLower(c) == c \in 97..122
IsDigit(c) == c \in 48..57
IsAlpha(c) == IsUpper(c) \/ IsLower(c)
Up(c) == IF IsLower(c) THEN c - 32 ELSE c
Lo(c) == IF IsUpper(c) THEN c + 32 ELSE c
UpSeq(s) == [i \in 1..Len(s) |-> Up(s[i])]
LoSeq(s) == [i \in 1..Len(s) |-> Lo(s[i])]

COLON == 58   QMARK == 63   STAR == 42   HASH == 35   LBRACK == 91   RBRACK == 93

(* keyword record: [name : Seq(Byte), opt : BOOLEAN, num : BOOLEAN]        *)
(* short form = the upper-case prefix of the name as written               *)
ShortLen(name) == LET low == {i \in 1..Len(name) : IsLower(name[i])} IN
                  IF low = {} THEN Len(name) ELSE (CHOOSE i \in low : \A j \in low : i <= j) - 1
ShortForm(name) == SubSeq(name, 1, ShortLen(name))
LongForm(name)  == UpSeq(name)

RECURSIVE SplitOn(_, _)
SplitOn(s, c) == LET idx == {i \in 1..Len(s) : s[i] = c} IN
   IF idx = {} THEN <<s>>
   ELSE LET k == CHOOSE i \in idx : \A j \in idx : i <= j
        IN <<SubSeq(s, 1, k - 1)>> \o SplitOn(SubSeq(s, k + 1, Len(s)), c)
AllDigits(s) == \A i \in 1..Len(s) : IsDigit(s[i])

(* does mnemonic m spell keyword k?  result: <<matches, digits>>           *)
Spells(m, k) ==
  LET u == UpSeq(m)
      try(f) == /\ Len(u) >= Len(f) /\ SubSeq(u, 1, Len(f)) = f
                /\ (IF k.num THEN AllDigits(SubSeq(u, Len(f) + 1, Len(u))) ELSE Len(u) = Len(f))
      L == LongForm(k.name)
      S == UpSeq(ShortForm(k.name))
  IN IF try(L) THEN <<TRUE, SubSeq(u, Len(L) + 1, Len(u))>>
     ELSE IF try(S) THEN <<TRUE, SubSeq(u, Len(S) + 1, Len(u))>>
     ELSE <<FALSE, <<>>>>

(* all strictly increasing selections of n keyword indices that contain every mandatory keyword *)
SortedSeq(S) == [i \in 1..Cardinality(S) |-> CHOOSE x \in S : Cardinality({y \in S : y < x}) = i - 1]
Mandatory(kws) == {j \in 1..Len(kws) : ~kws[j].opt}
Selections(kws, n) == { SortedSeq(S) : S \in {T \in SUBSET (1..Len(kws)) : Cardinality(T) = n /\ Mandatory(kws) \subseteq T} }

Body(hdr) == \* strip '?' and one leading colon
  LET h1 == IF Len(hdr) > 0 /\ hdr[Len(hdr)] = QMARK THEN SubSeq(hdr, 1, Len(hdr) - 1) ELSE hdr
  IN IF Len(h1) > 0 /\ h1[1] = COLON THEN SubSeq(h1, 2, Len(h1)) ELSE h1
Mnemonics(hdr) == SplitOn(Body(hdr), COLON)
GoodSel(kws, ms, sel) == \A i \in 1..Len(ms) : Spells(ms[i], kws[sel[i]])[1]

(* the selections that spell hdr *)
GoodSelections(kws, query, hdr) ==
  IF ~(Len(hdr) > 0 /\ (query <=> hdr[Len(hdr)] = QMARK)) THEN {}
  ELSE LET ms == Mnemonics(hdr) IN
       IF Len(ms) > Len(kws) THEN {}
       ELSE {sel \in Selections(kws, Len(ms)) : GoodSel(kws, ms, sel)}

(* C03, acceptance *)
Accepts(kws, query, hdr) == GoodSelections(kws, query, hdr) # {}

(* C03, numeric suffixes: one entry per numeric keyword, in keyword order *)
RECURSIVE DigitsValue(_)
DigitsValue(ds) == IF ds = <<>> THEN 0 ELSE 10 * DigitsValue(SubSeq(ds, 1, Len(ds) - 1)) + (ds[Len(ds)] - 48)
(* a suffix of ten or more digits need not fit the 32-bit slot: its value is not constrained (BigSuffix = "any"), *)
(* acceptance and the other suffixes are                                                                        *)
BigSuffix == 0 - 2
SuffixValue(ds) == IF Len(ds) > 9 THEN BigSuffix ELSE DigitsValue(ds)
NumIdx(kws) == SortedSeq({j \in 1..Len(kws) : kws[j].num})
NumbersOf(kws, ms, sel, default) ==
  LET ni == NumIdx(kws) IN
  [t \in 1..Len(ni) |->
     LET pos == {i \in 1..Len(sel) : sel[i] = ni[t]} IN
     IF pos = {} THEN default                                      \* keyword skipped
     ELSE LET ds == Spells(ms[CHOOSE i \in pos : TRUE], kws[ni[t]])[2] IN
          IF ds = <<>> THEN default ELSE SuffixValue(ds)]          \* suffix left out / given
NumberVectors(kws, query, hdr, default) ==
  {NumbersOf(kws, Mnemonics(hdr), sel, default) : sel \in GoodSelections(kws, query, hdr)}
Numbers(kws, query, hdr, default) ==      \* defined for accepted headers; <<>> otherwise
  LET vs == NumberVectors(kws, query, hdr, default) IN IF vs = {} THEN <<>> ELSE CHOOSE v \in vs : TRUE

-----------------------------------------------------------------------------
(* The side condition: no optional keyword can be mistaken for a keyword   *)
(* that may follow it.  Keyword j may stand where the optional keyword i   *)
(* is expected when everything strictly between them is optional; the two  *)
(* can be mistaken when some mnemonic spells both (then the longer of the  *)
(* two forms involved spells the other keyword).                           *)
KwForms(k) == {UpSeq(ShortForm(k.name)), LongForm(k.name)}
Confusable(a, b) == \/ \E f \in KwForms(a) : Spells(f, b)[1]
                    \/ \E f \in KwForms(b) : Spells(f, a)[1]
MayFollow(kws, i, j) == i < j /\ \A x \in (i + 1)..(j - 1) : kws[x].opt
WellFormedPattern(kws) ==
  \A i \in 1..Len(kws) : kws[i].opt =>
     \A j \in (i + 1)..Len(kws) : MayFollow(kws, i, j) => ~Confusable(kws[i], kws[j])

(* keyword names of the supported grammar: upper-case letters then lower-case letters *)
GoodName(name) == /\ ShortLen(name) >= 1 /\ IsUpper(name[1])
                  /\ \A i \in 1..Len(name) : IF i <= ShortLen(name) THEN IsUpper(name[i]) \/ IsDigit(name[i]) \/ name[i] = 95      \* digits and '_' may be part of the short form (IP4address, CH_Bank)
                                                ELSE IsLower(name[i])

-----------------------------------------------------------------------------
(* The design of the matcher: walk the keywords once, left to right.  At   *)
(* keyword i with the next mnemonic m: take i if m spells it; otherwise    *)
(* skip i if it is optional, fail if it is mandatory.  When the mnemonics  *)
(* are used up, every remaining keyword must be optional.  No going back.  *)
RECURSIVE Walk(_, _, _, _, _)
Walk(kws, ms, i, t, taken) ==     \* taken: sequence of <<keyword index, digits>>
  IF t > Len(ms) THEN [ok |-> \A j \in i..Len(kws) : kws[j].opt, taken |-> taken]
  ELSE IF i > Len(kws) THEN [ok |-> FALSE, taken |-> taken]
  ELSE LET s == Spells(ms[t], kws[i]) IN
       IF s[1] THEN Walk(kws, ms, i + 1, t + 1, Append(taken, <<i, s[2]>>))
       ELSE IF kws[i].opt THEN Walk(kws, ms, i + 1, t, taken)
       ELSE [ok |-> FALSE, taken |-> taken]
MatchAlgo(kws, query, hdr, default) ==
  IF ~(Len(hdr) > 0 /\ (query <=> hdr[Len(hdr)] = QMARK)) THEN [ok |-> FALSE, nums |-> <<>>]
  ELSE LET w  == Walk(kws, Mnemonics(hdr), 1, 1, <<>>)
           ni == NumIdx(kws)
       IN IF ~w.ok THEN [ok |-> FALSE, nums |-> <<>>]
          ELSE [ok |-> TRUE,
                nums |-> [t \in 1..Len(ni) |->
                           LET pos == {x \in 1..Len(w.taken) : w.taken[x][1] = ni[t]} IN
                           IF pos = {} THEN default
                           ELSE LET ds == w.taken[CHOOSE x \in pos : TRUE][2] IN
                                IF ds = <<>> THEN default ELSE SuffixValue(ds)]]

-----------------------------------------------------------------------------
(* pattern text <-> keyword list *)
RECURSIVE Render(_, _)
Render(kws, i) == IF i > Len(kws) THEN <<>> ELSE
   LET k == kws[i] IN
   (IF k.opt THEN <<LBRACK>> ELSE <<>>) \o (IF i > 1 \/ k.opt THEN <<COLON>> ELSE <<>>) \o k.name
   \o (IF k.num THEN <<HASH>> ELSE <<>>) \o (IF k.opt THEN <<RBRACK>> ELSE <<>>) \o Render(kws, i + 1)
PatternText(kws, query) == Render(kws, 1) \o (IF query THEN <<QMARK>> ELSE <<>>)

FirstIdx(s, cs) == LET idx == {i \in 1..Len(s) : s[i] \in cs} IN
                   IF idx = {} THEN 0 ELSE CHOOSE i \in idx : \A j \in idx : i <= j
MkKw(word, opt) == IF word # <<>> /\ word[Len(word)] = HASH
                   THEN [name |-> SubSeq(word, 1, Len(word) - 1), opt |-> opt, num |-> TRUE]
                   ELSE [name |-> word, opt |-> opt, num |-> FALSE]
RECURSIVE ParseKws(_)
ParseKws(s) ==
  IF s = <<>> THEN <<>>
  ELSE IF s[1] = LBRACK THEN
     LET close == FirstIdx(s, {RBRACK})
         stop  == IF close = 0 THEN Len(s) + 1 ELSE close
         inner == SubSeq(s, 2, stop - 1)
         word  == IF inner # <<>> /\ inner[1] = COLON THEN Tail(inner) ELSE inner
     IN <<MkKw(word, TRUE)>> \o ParseKws(SubSeq(s, stop + 1, Len(s)))
  ELSE
     LET s1   == IF s[1] = COLON THEN Tail(s) ELSE s
         stop == FirstIdx(s1, {COLON, LBRACK})
         word == IF stop = 0 THEN s1 ELSE SubSeq(s1, 1, stop - 1)
     IN <<MkKw(word, FALSE)>> \o ParseKws(IF stop = 0 THEN <<>> ELSE SubSeq(s1, stop, Len(s1)))
(* ParsePattern(text) = [kws, query, common]; a common pattern has one keyword, its mnemonic with the star *)
ParsePattern(text) ==
  LET query == Len(text) > 0 /\ text[Len(text)] = QMARK
      body  == IF query THEN SubSeq(text, 1, Len(text) - 1) ELSE text
  IN IF Len(text) > 0 /\ text[1] = STAR
     THEN [kws |-> <<[name |-> body, opt |-> FALSE, num |-> FALSE]>>, query |-> query, common |-> TRUE]
     ELSE [kws |-> ParseKws(body), query |-> query, common |-> FALSE]

(* the pattern texts the property speaks about *)
SupportedPattern(text) ==
  LET p == ParsePattern(text) IN
  IF p.common THEN Len(p.kws[1].name) >= 2 /\ \A i \in 2..Len(p.kws[1].name) : IsUpper(p.kws[1].name[i]) \/ IsDigit(p.kws[1].name[i])
  ELSE /\ p.kws # <<>>
       /\ \A i \in 1..Len(p.kws) : GoodName(p.kws[i].name)
       /\ \E i \in 1..Len(p.kws) : ~p.kws[i].opt
       /\ PatternText(p.kws, p.query) = text
WellFormedText(text) == LET p == ParsePattern(text) IN
                        SupportedPattern(text) /\ (p.common \/ WellFormedPattern(p.kws))

(* common (star) patterns accept exactly their mnemonic, in either case, without leading colon *)
AcceptsText(text, hdr) ==
  LET p == ParsePattern(text) IN
  IF p.common THEN UpSeq(hdr) = UpSeq(text) ELSE Accepts(p.kws, p.query, hdr)
NumbersText(text, hdr, default) ==
  LET p == ParsePattern(text) IN
  IF p.common THEN <<>> ELSE Numbers(p.kws, p.query, hdr, default)

(* the command a header selects in a table (sequence of pattern texts): index of the first accepting pattern, 0 if none *)
FirstMatch(table, hdr) ==
  LET hits == {i \in 1..Len(table) : AcceptsText(table[i], hdr)} IN
  IF hits = {} THEN 0 ELSE CHOOSE i \in hits : \A j \in hits : i <= j
=============================================================================
