---------------------------- MODULE GenRegTreeOps ----------------------------
(* Emits the operation alphabet of a register-tree model-checking           *)
(* configuration, so that the implementation is explored over the same one. *)
EXTENDS MCRegTree, Json, IOUtils, SequencesExt
OpJ(o) == IF Len(o) = 3 THEN <<o[1], o[2], ToInt(o[3])>> ELSE o
ASSUME ndJsonSerialize(IOEnv.OUT, [i \in 1..Cardinality(TOps) |-> OpJ(SetToSeq(TOps)[i])])
GenNext == FALSE /\ UNCHANGED tvars
=============================================================================
