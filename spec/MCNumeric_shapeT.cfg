INIT InitShape
NEXT Next
CONSTANTS
 LimbBase = 65536
 MaxLen = 2
 MaxN = 0
 Alphabet <- AlphaA
 DigitSet <- DigitsT
 WsSet <- WsT
INVARIANT ShapeLemmas
INVARIANT ShapeSplit
CHECK_DEADLOCK FALSE
