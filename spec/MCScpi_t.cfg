SPECIFICATION Spec
CONSTANTS
 Cap = 2
 MaxUnits = 2
 UnitIdx = {1, 2, 4, 5, 6, 7, 8, 9, 12, 14}
INVARIANT StbCoherent
INVARIANT QueueBounded
INVARIANT Framed
INVARIANT SrqIffRise
VIEW View
CHECK_DEADLOCK FALSE
