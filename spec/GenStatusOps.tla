---------------------------- MODULE GenStatusOps ----------------------------
(* Emits the operation alphabet of a model-checking configuration so that  *)
(* the exploration of the implementation uses exactly the same alphabet.   *)
EXTENDS MCStatus, Json, IOUtils, SequencesExt
OpJ(o) == IF Len(o) = 3 THEN <<o[1], o[2], ToInt(o[3])>> ELSE o
ASSUME ndJsonSerialize(IOEnv.OUT, [i \in 1..Cardinality(Ops) |-> OpJ(SetToSeq(Ops)[i])])
GenNext == FALSE /\ UNCHANGED vars
=============================================================================
