----------------------------- MODULE MatchCases -----------------------------
(* Case spaces of C03, shared by the model-checking run (MCMatch) and the   *)
(* case generator (GenMatch): the enumerated patterns (keyword lexicon x    *)
(* mandatory/optional x plain/numeric x query flag, and the shipped list)   *)
(* and, per pattern, the header neighbourhood: every accepted spelling and  *)
(* every single mutation of a base spelling (short/long form, one digit).   *)
EXTENDS ScpiMatch, MatchShipped, SequencesExt

K1 == <<65, 66, 67, 100>>    \* ABCd
K2 == <<65, 66, 99, 100>>    \* ABcd   same long form as K1, shorter short form
K3 == <<69, 70, 103, 104>>   \* EFgh
K4 == <<88, 89>>             \* XY     short = long
LexSeq == <<K1, K2, K3, K4>>
Lex == {LexSeq[i] : i \in 1..Len(LexSeq)}
KwSet == [name : Lex, opt : BOOLEAN, num : BOOLEAN]
LexPatterns(n) == {kws \in [1..n -> KwSet] : \E i \in 1..n : ~kws[i].opt}

LexIdx(name) == CHOOSE i \in 1..Len(LexSeq) : LexSeq[i] = name
KwCode(k) == 4 * (LexIdx(k.name) - 1) + (IF k.opt THEN 2 ELSE 0) + (IF k.num THEN 1 ELSE 0)
RECURSIVE PatCode(_, _)
PatCode(kws, i) == IF i > Len(kws) THEN 0 ELSE KwCode(kws[i]) + 1 + 17 * PatCode(kws, i + 1)
PartOf(kws, query, nparts) == (2 * PatCode(kws, 1) + (IF query THEN 1 ELSE 0)) % nparts

-----------------------------------------------------------------------------
ZED == 90                                   \* a letter no keyword of the lexicon contains
Digits1(i) == <<48 + i>>
Digits2(i) == <<48 + i, 48 + ((i + 5) % 10)>>
DigitsZ(i) == <<48, 48 + i>>                \* leading zero
DigitsBig == <<51, 48, 48, 48, 48, 48, 48, 48, 48, 48>>      \* 3000000000: more than a 32-bit slot holds

(* the accepted upper-case spellings of keyword k when it is the i-th keyword of its pattern *)
Forms(k, i) == LET S == UpSeq(ShortForm(k.name))
                   L == LongForm(k.name)
               IN {S, L} \cup (IF k.num THEN {S \o Digits1(i), L \o Digits2(i), S \o DigitsZ(i), S \o DigitsBig} ELSE {})

(* near misses of keyword k: one letter less / more than a form, digits where they do not belong, other words, nothing *)
NearMiss(k, i, others) ==
  LET S == UpSeq(ShortForm(k.name))
      L == LongForm(k.name)
  IN {SubSeq(S, 1, Len(S) - 1), S \o <<ZED>>, L \o <<ZED>>, <<>>, S \o <<35>>}      \* 35: the '#' of the pattern syntax is no header character
     \cup (IF Len(L) > Len(S) THEN {SubSeq(L, 1, Len(S) + 1), SubSeq(L, 1, Len(L) - 1)} ELSE {})
     \cup (IF k.num THEN {S \o Digits1(i) \o <<ZED>>, L \o <<ZED>> \o Digits1(i), <<49>> \o S}
           ELSE {S \o <<49>>, L \o <<50, 51>>})
     \cup others

(* the spellings that are mutated: short or long form, a suffix only as one digit on the short form *)
BaseForms(k, i) == LET S == UpSeq(ShortForm(k.name))
                       L == LongForm(k.name)
                   IN {S, L} \cup (IF k.num THEN {S \o Digits1(i)} ELSE {})

(* spellings: sequences of <<keyword index, mnemonic>>; all = TRUE: every accepted form, FALSE: base forms *)
RECURSIVE SpellSeqs(_, _, _)
SpellSeqs(kws, i, all) ==
  IF i > Len(kws) THEN {<<>>}
  ELSE LET rest == SpellSeqs(kws, i + 1, all)
           with == {<< <<i, f>> >> \o r : f \in (IF all THEN Forms(kws[i], i) ELSE BaseForms(kws[i], i)), r \in rest}
       IN IF kws[i].opt THEN with \cup rest ELSE with

MutantsAt(sp, kws, others) ==
  LET n == Len(sp) IN
  UNION {{[sp EXCEPT ![i] = <<sp[i][1], x>>] : x \in NearMiss(kws[sp[i][1]], sp[i][1], others)} : i \in 1..n}
  \cup {SubSeq(sp, 1, i - 1) \o SubSeq(sp, i + 1, n) : i \in 1..n}                 \* one mnemonic dropped
  \cup {SubSeq(sp, 1, i) \o SubSeq(sp, i, n) : i \in 1..n}                         \* duplicated
  \cup {[sp EXCEPT ![i] = sp[i + 1], ![i + 1] = sp[i]] : i \in 1..(n - 1)}         \* neighbours swapped
  \cup {Append(sp, <<0, w>>) : w \in others \cup {<<>>}}                           \* one mnemonic too many / trailing colon
  \cup {<< <<0, w>> >> \o sp : w \in others}

RECURSIVE Join(_)
Join(ms) == IF ms = <<>> THEN <<>> ELSE IF Len(ms) = 1 THEN ms[1][2] ELSE ms[1][2] \o <<COLON>> \o Join(Tail(ms))
Mixed(b) == [i \in 1..Len(b) |-> IF i % 2 = 0 THEN Lo(b[i]) ELSE b[i]]

OtherWords(kws, extra) == UNION {KwForms(kws[i]) : i \in 1..Len(kws)} \cup extra \cup {<<81, 81>>}

(* the headers tried against pattern (kws, query) *)
CasesOf(kws, query, extra) ==
  LET others == OtherWords(kws, extra)
      good == {Join(sp) : sp \in SpellSeqs(kws, 1, TRUE)}
      bad  == UNION {{Join(m) : m \in MutantsAt(sp, kws, others)} : sp \in SpellSeqs(kws, 1, FALSE)}
      q    == IF query THEN <<QMARK>> ELSE <<>>
      nq   == IF query THEN <<>> ELSE <<QMARK>>
  IN (UNION {{b \o q, <<COLON>> \o b \o q, b \o nq, <<COLON>> \o LoSeq(b) \o nq, LoSeq(b) \o q, <<COLON>> \o LoSeq(b) \o q,
              Mixed(b) \o q, <<COLON, COLON>> \o b \o q, <<COLON, STAR>> \o b \o q, <<STAR>> \o b \o q} : b \in good}
      \cup UNION {{b \o q, <<COLON>> \o LoSeq(b) \o q} : b \in bad}) \ {<<>>}

(* the headers tried against a common (star) pattern *)
CommonCasesOf(text) ==
  LET p  == ParsePattern(text)
      m  == p.kws[1].name
      q  == IF p.query THEN <<QMARK>> ELSE <<>>
      nq == IF p.query THEN <<>> ELSE <<QMARK>>
      bs == {m, LoSeq(m), Mixed(m), Tail(m), SubSeq(m, 1, Len(m) - 1), m \o <<ZED>>, m \o <<49>>, <<STAR>>,
             m \o <<COLON>> \o Tail(m), <<STAR>> \o m, <<STAR, 81, 81>>}
  IN UNION {{b \o q, b \o nq, <<COLON>> \o b \o q, <<COLON>> \o LoSeq(b) \o nq} : b \in bs}

CasesOfText(text) == LET p == ParsePattern(text) IN
                     IF p.common THEN CommonCasesOf(text) ELSE CasesOf(p.kws, p.query, {})

LexShortForms == {UpSeq(ShortForm(LexSeq[i])) : i \in 1..Len(LexSeq)}

(* full product for the model-checking run: every header of up to n mnemonics over a vocabulary *)
Vocab == UNION {{UpSeq(ShortForm(k)), LongForm(k), UpSeq(ShortForm(k)) \o <<49>>, LongForm(k) \o <<49, 50>>,
                 LongForm(k) \o <<ZED>>, SubSeq(k, 1, ShortLen(k) - 1)} : k \in Lex} \cup {<<97, 98, 99>>}
RECURSIVE JoinPlain(_)
JoinPlain(ms) == IF Len(ms) = 1 THEN ms[1] ELSE ms[1] \o <<COLON>> \o JoinPlain(Tail(ms))
ProductHeaders(n) == {(IF c THEN <<COLON>> ELSE <<>>) \o JoinPlain(ms) \o (IF q THEN <<QMARK>> ELSE <<>>) :
                        ms \in UNION {[1..x -> Vocab] : x \in 1..n}, c \in BOOLEAN, q \in BOOLEAN} \ {<<>>}
=============================================================================
