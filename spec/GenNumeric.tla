----------------------------- MODULE GenNumeric -----------------------------
(***************************************************************************)
(* R binding of C04: TLC enumerates parameter texts group by group and     *)
(* writes, for every text, the record ScpiNumeric!Expect (literal bytes,   *)
(* normalised literal, exact denotation, reader kinds, expected integer    *)
(* limbs / unit / multiplier / tag) as one ndjson line to IOEnv.OUT.       *)
(* harness/drv_numeric.c executes every line on the real library.          *)
(* Environment: OUT file; GROUPS = "d" (the big group of decimal shapes,   *)
(* partitioned over processes by PART / NPARTS) or "x" (all other groups:  *)
(* l long runs, w white-space kinds, m landmarks, i integer limits,         *)
(* n nondecimal, u units,                                                  *)
(* s specials); TIER quick|thorough; SEED for pseudo-random digit runs.    *)
(***************************************************************************)
EXTENDS ScpiNumeric, Json, IOUtils
VARIABLES grp, x
vars == <<grp, x>>

Part     == atoi(IOEnv.PART)
NParts   == atoi(IOEnv.NPARTS)
Seed     == atoi(IOEnv.SEED) % 65521
Thorough == IOEnv.TIER = "thorough"

NeStrings(A, n) == UNION {[1..k -> A] : k \in 1..n}
Strings(A, n)   == UNION {[1..k -> A] : k \in 0..n}
D4    == {48, 49, 57, 53}
Signs == {<<>>, <<43>>, <<45>>}
B(ds) == [i \in 1..Len(ds) |-> ds[i] + 48]                 \* digit values -> bytes
RECURSIVE SumW(_, _, _)
SumW(s, i, acc) == IF i > Len(s) THEN acc ELSE SumW(s, i + 1, (acc * 31 + s[i]) % 10007)
Mine(a, b) == (SumW(b, 1, SumW(a, 1, 7) + 1) % 1009) % NParts = Part

-----------------------------------------------------------------------------
(* d: every sign / point / exponent / white-space placement with digit strings over {0,1,9,5} *)
WsQ == {<<>>, <<32>>}
WsT == {<<>>, <<32>>, <<9, 32>>}
EdQ == {<<49>>, <<48, 53>>, <<49, 57>>}
EdT == {<<49>>, <<48, 53>>, <<49, 57>>, <<48>>}
MaxD == IF Thorough THEN 3 ELSE 2
InitDec ==
  /\ grp = "d"
  /\ \E ip \in Strings(D4, MaxD), fp \in Strings(D4, MaxD) :
       /\ Len(ip) + Len(fp) > 0 /\ (Len(ip) <= 2 \/ Len(fp) <= 2) /\ Mine(ip, fp)
       /\ \E sg \in Signs, pt \in BOOLEAN :
            /\ (fp # <<>> => pt) /\ (ip = <<>> => pt)
            /\ LET m == MkShape(sg, ip, pt, fp)
                   small == Len(ip) <= 2 /\ Len(fp) <= 2
                   wss == IF Thorough /\ small THEN WsT ELSE WsQ
                   eds == IF Thorough /\ small THEN EdT ELSE EdQ
               IN \/ x = m
                  \/ \E ws1 \in wss, e \in ExpCh, ws2 \in wss, esg \in Signs, ed \in eds : x = WithExp(m, ws1, e, ws2, esg, ed)

(* l: long digit runs 1..25 in every mantissa position *)
RECURSIVE Lehmer(_, _)
Lehmer(v, k) == IF k = 0 THEN v ELSE Lehmer((v * 75) % 65537, k - 1)
RndRun(n, j) == LET v0 == ((Seed + 131 * n + 977 * j) % 65521) + 1
                IN [i \in 1..n |-> 48 + (Lehmer(v0, i) % 10)]
Run(n, pat) == IF pat = 1 THEN [i \in 1..n |-> 57]
               ELSE IF pat = 2 THEN [i \in 1..n |-> IF i = 1 THEN 49 ELSE 48]
               ELSE IF pat = 3 THEN [i \in 1..n |-> IF i = 1 \/ i = n THEN 49 ELSE 48]
               ELSE IF pat = 4 THEN [i \in 1..n |-> 48 + (i % 10)]
               ELSE IF pat = 5 THEN [i \in 1..n |-> IF i = n THEN 53 ELSE 48]
               ELSE RndRun(n, pat)
NPat == IF Thorough THEN 12 ELSE 8
LongExps(m) == {m, WithExp(m, <<>>, 101, <<>>, <<45>>, <<51>>), WithExp(m, <<>>, 69, <<>>, <<43>>, <<51, 48>>),
                WithExp(m, <<32>>, 69, <<32>>, <<>>, <<50>>)}
InitLong ==
  /\ grp = "l"
  /\ \E n \in 1..25, pat \in 1..NPat, place \in 1..6, sg \in {<<>>, <<45>>} :
       LET r == Run(n, pat)
           m == IF place = 1 THEN MkShape(sg, r, FALSE, <<>>)
                ELSE IF place = 2 THEN MkShape(sg, r, TRUE, <<>>)
                ELSE IF place = 3 THEN MkShape(sg, <<>>, TRUE, r)
                ELSE IF place = 4 THEN MkShape(sg, r, TRUE, RndRun(1, pat + n))
                ELSE IF place = 5 THEN MkShape(sg, r, TRUE, RndRun(n, pat + 40))
                ELSE MkShape(sg, <<49>>, TRUE, r)
       IN x \in LongExps(m)
(* long exponent digit strings: leading zeros up to 25 digits *)
InitLongExp ==
  /\ grp = "l"
  /\ \E n \in 1..25, last \in {48, 50}, esg \in Signs, ws \in WsQ :
       x = WithExp(MkShape(<<>>, <<49, 53>>, FALSE, <<>>), ws, 69, <<>>, esg, [i \in 1..n |-> IF i = n THEN last ELSE 48])

(* w: kinds of white space (tab, several) in both exponent positions *)
WsKinds == {<<>>, <<9>>, <<32, 32>>, <<32, 9>>}
InitWsKinds ==
  /\ grp = "w"
  /\ \E m \in {MkShape(<<>>, <<50>>, FALSE, <<>>), MkShape(<<45>>, <<49>>, TRUE, <<50, 53>>), MkShape(<<>>, <<>>, TRUE, <<53>>)},
        ws1 \in WsKinds, e \in ExpCh, ws2 \in WsKinds, esg \in Signs, ed \in {<<50>>, <<49, 48>>} :
        x = WithExp(m, ws1, e, ws2, esg, ed)

(* m: landmarks of binary floating point (ties, largest / smallest finite, subnormal, overflow) *)
Lm(sg, ip, fp, esg, ed) == IF ed = <<>> THEN MkShape(sg, B(ip), fp # <<>>, B(fp))
                           ELSE WithExp(MkShape(sg, B(ip), fp # <<>>, B(fp)), <<>>, 69, <<>>, esg, B(ed))
Landmarks == {
  Lm(<<>>, <<9,0,0,7,1,9,9,2,5,4,7,4,0,9,9,2>>, <<>>, <<>>, <<>>),              \* 2^53
  Lm(<<>>, <<9,0,0,7,1,9,9,2,5,4,7,4,0,9,9,3>>, <<>>, <<>>, <<>>),              \* 2^53 + 1: tie
  Lm(<<>>, <<9,0,0,7,1,9,9,2,5,4,7,4,0,9,9,3>>, <<0,0,0,0,0,0,0,0,1>>, <<>>, <<>>),  \* just above the tie
  Lm(<<>>, <<9,0,0,7,1,9,9,2,5,4,7,4,0,9,9,5>>, <<>>, <<>>, <<>>),
  Lm(<<>>, <<1,6,7,7,7,2,1,7>>, <<>>, <<>>, <<>>),                              \* 2^24 + 1: float tie
  Lm(<<>>, <<1,6,7,7,7,2,1,7>>, <<0,0,0,0,0,0,0,0,0,0,0,0,0,0,1>>, <<>>, <<>>),  \* float: double rounding trap
  Lm(<<>>, <<1,6,7,7,7,2,1,9>>, <<>>, <<>>, <<>>),
  Lm(<<>>, <<0>>, <<1>>, <<>>, <<>>), Lm(<<>>, <<0>>, <<3>>, <<>>, <<>>), Lm(<<45>>, <<0>>, <<>>, <<>>, <<>>),
  Lm(<<>>, <<1>>, <<7,9,7,6,9,3,1,3,4,8,6,2,3,1,5,7>>, <<>>, <<3,0,8>>),         \* DBL_MAX
  Lm(<<>>, <<1>>, <<7,9,7,6,9,3,1,3,4,8,6,2,3,1,5,8,0,8>>, <<>>, <<3,0,8>>),     \* rounds to DBL_MAX
  Lm(<<>>, <<1>>, <<7,9,7,6,9,3,1,3,4,8,6,2,3,1,5,9>>, <<>>, <<3,0,8>>),         \* overflows
  Lm(<<>>, <<2>>, <<2,2,5,0,7,3,8,5,8,5,0,7,2,0,1,4>>, <<45>>, <<3,0,8>>),       \* DBL_MIN
  Lm(<<>>, <<2>>, <<2,2,5,0,7,3,8,5,8,5,0,7,2,0,1,1>>, <<45>>, <<3,0,8>>),       \* largest subnormal region
  Lm(<<>>, <<4>>, <<9>>, <<45>>, <<3,2,4>>), Lm(<<>>, <<2>>, <<4>>, <<45>>, <<3,2,4>>), Lm(<<>>, <<2>>, <<5>>, <<45>>, <<3,2,4>>),
  Lm(<<>>, <<1>>, <<>>, <<>>, <<3,0,9>>), Lm(<<45>>, <<1>>, <<>>, <<>>, <<4,0,0>>), Lm(<<>>, <<1>>, <<>>, <<45>>, <<4,0,0>>),
  Lm(<<>>, <<3>>, <<4,0,2,8,2,3,5>>, <<>>, <<3,8>>), Lm(<<>>, <<3>>, <<4,0,2,8,2,3,6>>, <<>>, <<3,8>>),   \* FLT_MAX
  Lm(<<>>, <<3>>, <<4,0,2,8,2,3,5,6,7,7,9,7,3,3,6,6,1,6,3,7,5>>, <<>>, <<3,8>>),  \* FLT_MAX + half ulp region
  Lm(<<>>, <<1>>, <<1,7,5,4,9,4,3,5>>, <<45>>, <<3,8>>), Lm(<<>>, <<1>>, <<4>>, <<45>>, <<4,5>>), Lm(<<>>, <<7>>, <<>>, <<45>>, <<4,6>>),
  Lm(<<>>, <<1>>, <<0,0,0,0,0,0,0,5,9,6,0,4,6,4,4,7,7,5,3,9,0,6,2,5>>, <<>>, <<>>),  \* 1 + 2^-24: float tie, 25 digits
  Lm(<<>>, <<1>>, <<0,0,0,0,0,0,1,1,9,2,0,9,2,8,9,5,5,0,7,8,1,2,5>>, <<>>, <<>>),    \* 1 + 2^-23
  Lm(<<>>, <<1,2,3,4,5,6,7,8,9,0,1,2,3,4,5,6,7,8,9,0>>, <<1,2,3,4,5>>, <<>>, <<>>),
  Lm(<<>>, <<>>, <<0,0,0,0,0,0,0,0,0,0,0,0,0,0,0,0,0,0,0,0,0,0,0,0,1>>, <<>>, <<2,5>>),
  Lm(<<>>, <<1,0,0,0,0,0,0,0,0,0,0,0,0,0,0,0,0,0,0,0,0,0,0,0,0>>, <<>>, <<45>>, <<2,4>>),
  \* literals longer than any fixed conversion buffer (63, 64, 65 and 80 characters)
  Lm(<<>>, <<1>> \o [i \in 1..62 |-> 0], <<>>, <<>>, <<>>), Lm(<<>>, <<1>> \o [i \in 1..63 |-> 0], <<>>, <<>>, <<>>),
  Lm(<<>>, <<1>> \o [i \in 1..64 |-> 0], <<>>, <<>>, <<>>), Lm(<<>>, <<7>> \o [i \in 1..79 |-> (i * 3) % 10], <<>>, <<>>, <<>>),
  Lm(<<>>, <<0>>, [i \in 1..62 |-> 0] \o <<2,5>>, <<>>, <<7,0>>), Lm(<<>>, <<1,2>>, [i \in 1..58 |-> (i * 7) % 10], <<45>>, <<5>>) }
(* long literals with white space around the exponent: 60..68 characters once the blanks are removed (the conversion buffer holds 64) *)
LongWs == { WithExp(MkShape(<<>>, <<49>>, TRUE, [i \in 1..n |-> 48 + ((i * 7) % 10)]), <<32>>, 69, <<32>>, <<43>>, <<48, 51>>) : n \in 54..62 }
          \cup { WithExp(MkShape(<<>>, [i \in 1..n |-> 48 + ((i * 3 + 1) % 10)], FALSE, <<>>), <<32, 32>>, 101, <<>>, <<45>>, <<50>>) : n \in 58..64 }
InitLandmark == grp = "m" /\ \E m \in Landmarks \cup LongWs, sg \in Signs : x = [m EXCEPT !.sg = IF m.sg = <<>> THEN sg ELSE m.sg]

(* i: decimal integer literals around the limits of the four integer types *)
Boundaries == LET ks == {7, 8, 15, 16, 31, 32, 63, 64} IN
              UNION {{N!Pred(N!Pred(N!Pow2(k))), N!Pred(N!Pow2(k)), N!Pow2(k), N!Succ(N!Pow2(k))} : k \in ks}
Zeros(n) == [i \in 1..n |-> 48]
InitInt == /\ grp = "i"
           /\ \E b \in Boundaries \cup {<<>>, <<1>>, <<2>>}, sg \in Signs, z \in {0, 1, 3} :
                 x = MkShape(sg, Zeros(z) \o B(N!DigitsOf(b, 10)), FALSE, <<>>)

(* n: nondecimal literals: every digit count up to one beyond 64 bits, all-ones, powers of two +- 1, *)
(* the type limits in every base, both letter cases; all short literals                              *)
HexByte(v, up) == IF v < 10 THEN 48 + v ELSE (IF up THEN 55 ELSE 87) + v
NdLit(letter, ds, up) == <<35, letter>> \o [i \in 1..Len(ds) |-> HexByte(ds[i], up)]
MaxDigits(b) == IF b = 16 THEN 17 ELSE IF b = 8 THEN 23 ELSE 65
TopDigit(b)  == b - 1
NdPatterns(b) == UNION {{ [i \in 1..n |-> TopDigit(b)],
                          [i \in 1..n |-> IF i = 1 THEN 1 ELSE 0],
                          [i \in 1..n |-> IF i = 1 \/ i = n THEN 1 ELSE 0],
                          [i \in 1..n |-> IF i = 1 THEN 1 ELSE TopDigit(b)],
                          [i \in 1..n |-> (i * 7 + Seed) % b] } : n \in 1..MaxDigits(b)}
                 \cup {N!DigitsOf(v, b) : v \in Boundaries}
                 \cup {<<0, 0>> \o N!DigitsOf(v, b) : v \in {N!Pow2(31), N!Pred(N!Pow2(32)), N!Pred(N!Pow2(64))}}
NdShort(b) == IF b = 16 THEN NeStrings(0..15, 2) ELSE IF b = 8 THEN NeStrings(0..7, 2) ELSE NeStrings(0..1, 5)
InitNondec == /\ grp = "n"
              /\ \E letter \in {72, 104, 81, 113, 66, 98}, up \in BOOLEAN :
                   \E ds \in NdPatterns(BaseOfLetter(letter)) \cup NdShort(BaseOfLetter(letter)) :
                     /\ (BaseOfLetter(letter) # 16 => up)        \* digit case only matters for hex
                     /\ x = NdLit(letter, ds, up)

(* u: every unit-table row x {upper, lower, mixed} x {without, with separating white space} x literals *)
Mixed(s) == [i \in 1..Len(s) |-> IF i % 2 = 1 THEN ToLower(s[i]) ELSE ToUpper(s[i])]
Mixed2(s) == [i \in 1..Len(s) |-> IF i % 2 = 0 THEN ToLower(s[i]) ELSE ToUpper(s[i])]
UnitNumbers == LET one == MkShape(<<>>, <<49>>, FALSE, <<>>) IN
               { one, MkShape(<<45>>, <<50>>, TRUE, <<53>>), MkShape(<<>>, <<>>, TRUE, <<53>>),
                 WithExp(MkShape(<<43>>, <<51>>, TRUE, <<>>), <<>>, 69, <<>>, <<45>>, <<50>>),
                 WithExp(MkShape(<<>>, <<49>>, TRUE, <<53>>), <<32>>, 69, <<32>>, <<>>, <<51>>),
                 WithExp(MkShape(<<>>, <<55>>, FALSE, <<>>), <<>>, 101, <<>>, <<>>, <<51>>) }
              \cup (IF Thorough THEN { MkShape(<<>>, <<49, 50, 51, 52, 53, 54, 55, 56, 57>>, TRUE, <<48, 49>>),
                                       WithExp(MkShape(<<>>, <<57>>, TRUE, <<57, 57>>), <<>>, 69, <<>>, <<43>>, <<49, 50>>),
                                       MkShape(<<>>, <<48>>, FALSE, <<>>), MkShape(<<>>, <<51>>, FALSE, <<>>),
                                       MkShape(<<>>, <<54, 48>>, FALSE, <<>>), MkShape(<<>>, <<48>>, TRUE, <<49>>) } ELSE {})
UnitSeps == IF Thorough THEN {<<>>, <<32>>, <<9>>, <<32, 32>>} ELSE {<<>>, <<32>>}
InitUnit == /\ grp = "u"
            /\ \E i \in 1..Len(UnitRows), cs \in 1..4, sep \in UnitSeps, num \in UnitNumbers :
                 LET nm == UnitRows[i].name
                     suf == IF cs = 1 THEN nm ELSE IF cs = 2 THEN LowerSeq(nm) ELSE IF cs = 3 THEN Mixed(nm) ELSE Mixed2(nm)
                 IN /\ (cs = 4 => Len(nm) > 1)
                    /\ x = Build(num) \o sep \o suf

(* s: every special mnemonic in short and long form, three letter cases *)
InitSpecial == /\ grp = "s"
               /\ \E i \in 1..Len(SpecialRows), long \in BOOLEAN, cs \in 1..3 :
                    LET f == IF long THEN LongForm(SpecialRows[i].pat) ELSE ShortForm(SpecialRows[i].pat)
                    IN x = IF cs = 1 THEN f ELSE IF cs = 2 THEN LowerSeq(f) ELSE Mixed(f)

Init == \/ (IOEnv.GROUPS = "d" /\ InitDec)
        \/ (IOEnv.GROUPS = "x" /\ (InitLong \/ InitLongExp \/ InitWsKinds \/ InitLandmark \/ InitInt \/ InitNondec \/ InitUnit \/ InitSpecial))
Next == UNCHANGED vars

Lit == IF grp \in {"d", "l", "w", "m", "i"} THEN Build(x) ELSE x
Emit == Serialize(ToJson(Expect(Lit) @@ [grp |-> grp]) \o "\n", IOEnv.OUT,
                  [format |-> "TXT", charset |-> "UTF-8", openOptions |-> <<"WRITE", "CREATE", "APPEND">>]).exitValue = 0
=============================================================================
