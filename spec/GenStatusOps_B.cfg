INIT Init
NEXT GenNext
CONSTANTS
 Cap = 1
 Ops <- OpsB
CHECK_DEADLOCK FALSE
