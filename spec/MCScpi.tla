------------------------------- MODULE MCScpi -------------------------------
(* Model checking of the composition Scpi.tla: every history of program      *)
(* messages of 1..MaxUnits units over a small vocabulary of library commands *)
(* (enable / service-request-enable setters, clearing queries, *CLS, *OPC,   *)
(* the error query, an undefined header, a setter without its parameter, a   *)
(* relative header), interleaved with condition-register changes and error   *)
(* pushes by the application.  Checked: the status byte is coherent after    *)
(* every message (C11), the queue stays bounded (C10), a service request is  *)
(* required exactly when MSS rises (C12), the response is empty iff no       *)
(* query responded and ends in one terminator (C06), the return value tells  *)
(* whether the message raised an error (C05).                                *)
EXTENDS Scpi
CONSTANTS Cap, MaxUnits, UnitIdx
VARIABLES reg, q, stb, lastOut, lastErrs, lastRet, lastSrq, mssBefore
vars == <<reg, q, stb, lastOut, lastErrs, lastRet, lastSrq, mssBefore>>
Msgs == { JoinWith(59, [i \in 1..Len(us) |-> MCUnits[us[i]]]) \o <<10>> : us \in UNION {[1..n -> UnitIdx] : n \in 1..MaxUnits} }
Init == /\ reg = [n \in S!Regs |-> {}] /\ q = <<>> /\ stb = {}
        /\ lastOut = <<>> /\ lastErrs = <<>> /\ lastRet = TRUE /\ lastSrq = <<>> /\ mssBefore = FALSE
Message(m) == LET r == RunLibMsg([reg |-> reg, q |-> q, stb |-> stb], m, Cap) IN
   /\ ~r.weird
   /\ reg' = r.reg /\ q' = r.q /\ stb' = r.stb /\ lastOut' = r.out /\ lastErrs' = r.errs /\ lastRet' = r.ret /\ lastSrq' = r.srq
   /\ mssBefore' = (6 \in stb)
Env(op) == LET a == S!Apply(reg, q, stb, op, Cap) IN
   /\ reg' = a.reg /\ q' = a.q /\ stb' = a.stb /\ lastOut' = <<>> /\ lastErrs' = <<>> /\ lastRet' = TRUE /\ lastSrq' = a.srq
   /\ mssBefore' = (6 \in stb)
EnvOps == {<<"set", "QUESC", {3}>>, <<"set", "QUESC", {}>>, <<"push", 0 - 222>>, <<"push", 5>>}
Next == (\E m \in Msgs : Message(m)) \/ (\E op \in EnvOps : Env(op))
Spec == Init /\ [][Next]_vars
StbCoherent == stb = S!NewStb(reg, Len(q))
QueueBounded == Len(q) <= Cap
Framed == /\ (lastOut # <<>> => SubSeq(lastOut, Len(lastOut) - 1, Len(lastOut)) = NL)
          /\ lastRet = (lastErrs = <<>>)
SrqIffRise == (6 \in stb /\ ~mssBefore) => lastSrq # <<>>
View == <<reg, q, stb>>
=============================================================================
