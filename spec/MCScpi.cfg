SPECIFICATION Spec
CONSTANTS
 Cap = 1
 MaxUnits = 1
 UnitIdx = {1, 2, 4, 6, 7, 8, 12}
INVARIANT StbCoherent
INVARIANT QueueBounded
INVARIANT Framed
INVARIANT SrqIffRise
VIEW View
CHECK_DEADLOCK FALSE
