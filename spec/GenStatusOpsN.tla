---------------------------- MODULE GenStatusOpsN ----------------------------
(* Emits the alphabet of MCStatusNested_N (plain and nested operations) for the exploration of the implementation *)
EXTENDS MCStatusNested, Json, IOUtils, SequencesExt
OpJ0(o) == IF Len(o) = 3 THEN <<o[1], o[2], ToInt(o[3])>> ELSE o
OpJ(o) == IF o[1] \in SrqKinds THEN <<o[1]>> \o OpJ0(InnerOf(o)) ELSE OpJ0(o)
All == Ops \cup NestedOps \cup SrqOps
ASSUME ndJsonSerialize(IOEnv.OUT, [i \in 1..Cardinality(All) |-> OpJ(SetToSeq(All)[i])])
GenNext == FALSE /\ UNCHANGED vars
=============================================================================
