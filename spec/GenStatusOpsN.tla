---------------------------- MODULE GenStatusOpsN ----------------------------
(* Emits the alphabet of MCStatusNested_N (plain and nested operations) for the exploration of the implementation *)
EXTENDS MCStatusNested, Json, IOUtils, SequencesExt
OpJ(o) == IF Len(o) = 3 THEN <<o[1], o[2], ToInt(o[3])>> ELSE o
All == Ops \cup NestedOps
ASSUME ndJsonSerialize(IOEnv.OUT, [i \in 1..Cardinality(All) |-> OpJ(SetToSeq(All)[i])])
GenNext == FALSE /\ UNCHANGED vars
=============================================================================
