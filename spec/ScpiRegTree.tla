---------------------------- MODULE ScpiRegTree ----------------------------
(***************************************************************************)
(* The generic status-register tree of scpi-parser (SCPI_RegSet and what   *)
(* stands on it), of which the ten standard registers of ScpiStatus are    *)
(* one instance and a USE_CUSTOM_REGISTERS build adds further groups.      *)
(*                                                                         *)
(* A group has an event register and optionally an enable mask, a          *)
(* condition register, a positive and a negative transition filter, and a  *)
(* parent: one bit of another register (the status byte, or the condition  *)
(* register of another group) that summarises the group.  Writing          *)
(*   - a condition register latches the filtered transitions in the event  *)
(*     register (without any filter register: the positive transitions),   *)
(*   - an event or enable register re-evaluates the summary               *)
(*     (event /\ enable # 0; without an enable register every bit counts)  *)
(*     and writes it to the parent bit - which is again a register write,  *)
(*     so a change runs up the tree,                                       *)
(*   - a filter register stores it,                                        *)
(*   - the status byte or the service request enable register recomputes   *)
(*     MSS (bit 6), and a rise of MSS must be announced.                   *)
(* A write that does not change the register does nothing.                 *)
(*                                                                         *)
(* Registers are sets of bit indices; the tree is a table                  *)
(* (ScpiRegTreeTable, generated together with the user configuration the   *)
(* library is compiled with).                                              *)
(***************************************************************************)
EXTENDS Integers, Sequences, FiniteSets, TLC, ScpiRegTreeTable

CONSTANT TOps       \* operation alphabet of a model-checking run

AllBits == 0..15
Names   == {RegOrder[i] : i \in DOMAIN RegOrder}
Groups  == {GroupOrder[i] : i \in DOMAIN GroupOrder}
Bits(n)  == {i \in 0..15 : (n \div (2^i)) % 2 = 1}
ToInt(S) == LET f[i \in 0..16] == IF i = 16 THEN 0 ELSE (IF i \in S THEN 2^i ELSE 0) + f[i + 1] IN f[0]

WithMss(stb, sre) == IF (stb \ {6}) \cap (sre \ {6}) # {} THEN stb \cup {6} ELSE stb \ {6}

EnableOf(r, g) == IF GroupDef[g].enable = NONE THEN AllBits ELSE r[GroupDef[g].enable]
SummaryOf(r, g) == r[GroupDef[g].event] \cap EnableOf(r, g) # {}
PosFilter(r, g) == LET G == GroupDef[g] IN
                   IF G.ptr = NONE /\ G.ntr = NONE THEN AllBits ELSE IF G.ptr = NONE THEN {} ELSE r[G.ptr]
NegFilter(r, g) == IF GroupDef[g].ntr = NONE THEN {} ELSE r[GroupDef[g].ntr]

(* Write(r, n, v) = [reg, rises]: the registers after SCPI_RegSet(n, v) and the status bytes at which MSS rose *)
RECURSIVE Write(_, _, _)
Write(r, n, v) ==
  IF r[n] = v THEN [reg |-> r, rises |-> <<>>] ELSE
  LET g  == GroupOf[n]
      G  == GroupDef[g]
      c  == Class[n]
      r1 == [r EXCEPT ![n] = v]
  IN
  IF c \in {"STB", "SRE"} THEN
       LET s2 == WithMss(r1["STB"], r1["SRE"]) IN
       [reg |-> [r1 EXCEPT !["STB"] = s2], rises |-> IF 6 \in s2 /\ 6 \notin r["STB"] THEN <<s2>> ELSE <<>>]
  ELSE IF c \in {"PTR", "NTR"} THEN [reg |-> r1, rises |-> <<>>]
  ELSE IF c = "COND" THEN
       Write(r1, G.event, r[G.event] \cup ((v \ r[n]) \cap PosFilter(r, g)) \cup ((r[n] \ v) \cap NegFilter(r, g)))
  ELSE \* "EVEN" or "ENAB": the summary goes to the parent bit
       IF G.parent = NONE THEN [reg |-> r1, rises |-> <<>>]
       ELSE Write(r1, G.parent, IF SummaryOf(r1, g) THEN r1[G.parent] \cup {G.pbit} ELSE r1[G.parent] \ {G.pbit})

(* *CLS: every event register except the status byte is written 0, group by group *)
RECURSIVE ClsFrom(_, _)
ClsFrom(r, i) ==
  IF i > Len(GroupOrder) THEN [reg |-> r, rises |-> <<>>]
  ELSE LET e == GroupDef[GroupOrder[i]].event
           w == IF e = "STB" THEN [reg |-> r, rises |-> <<>>] ELSE Write(r, e, {})
           rest == ClsFrom(w.reg, i + 1)
       IN [reg |-> rest.reg, rises |-> w.rises \o rest.rises]

TEffect(r, op) ==
  IF op[1] = "set" THEN Write(r, op[2], op[3])
  ELSE IF op[1] = "setbits" THEN Write(r, op[2], r[op[2]] \cup op[3])
  ELSE IF op[1] = "clrbits" THEN Write(r, op[2], r[op[2]] \ op[3])
  ELSE IF op[1] = "cls" THEN      \* the error queue (empty throughout this model) is cleared first: bit 2 goes
       LET w == Write(r, "STB", r["STB"] \ {2})
           c == ClsFrom(w.reg, 1)
       IN [reg |-> c.reg, rises |-> w.rises \o c.rises]
  ELSE [reg |-> r, rises |-> <<>>]

-----------------------------------------------------------------------------
VARIABLES reg, rises, lastOp
tvars == <<reg, rises, lastOp>>
TView == reg

TInit == reg = [n \in Names |-> {}] /\ rises = <<>> /\ lastOp = <<"init">>
TDo(op) == LET e == TEffect(reg, op) IN reg' = e.reg /\ rises' = e.rises /\ lastOp' = op
TNext == \E op \in TOps : TDo(op)
TSpec == TInit /\ [][TNext]_tvars

-----------------------------------------------------------------------------
(* the generalisation of C11: every summary bit equals the summary of the group below it, at every level;     *)
(* holds as long as the application writes summary bits only through the groups (the model alphabets do)      *)
TreeCoherent == \A g \in Groups : LET G == GroupDef[g] IN
                  G.parent # NONE => ((G.pbit \in reg[G.parent]) <=> SummaryOf(reg, g))
MssCoherent  == 6 \in reg["STB"] <=> (reg["STB"] \ {6}) \cap (reg["SRE"] \ {6}) # {}
RisesHaveMss == \A i \in 1..Len(rises) : 6 \in rises[i]

(* the generalisation of C12: transitions pass the filters into the event register, and only they do *)
Simple(op) == op[1] \in {"set", "setbits", "clrbits"}
FilterLatch ==
  [][Simple(lastOp') => \A g \in Groups : LET G == GroupDef[g] IN
       G.cond # NONE /\ lastOp'[2] # G.event =>
         /\ ((reg'[G.cond] \ reg[G.cond]) \cap PosFilter(reg, g)) \subseteq reg'[G.event]
         /\ ((reg[G.cond] \ reg'[G.cond]) \cap NegFilter(reg, g)) \subseteq reg'[G.event]
         /\ (reg'[G.event] \ reg[G.event]) \subseteq
              ((reg'[G.cond] \ reg[G.cond]) \cap PosFilter(reg, g)) \cup ((reg[G.cond] \ reg'[G.cond]) \cap NegFilter(reg, g))]_tvars
EventSticky ==
  [][\A g \in Groups \ {"GSTB"} : LET e == GroupDef[g].event IN
       (reg[e] \ reg'[e] # {}) => (lastOp'[1] = "cls" \/ (lastOp'[1] \in {"set", "clrbits"} /\ lastOp'[2] = e))]_tvars
RiseAnnounced == [][(6 \notin reg["STB"] /\ 6 \in reg'["STB"]) => rises' # <<>>]_tvars
(* filters and enables are never changed by the tree itself *)
MasksOnlyWritten ==
  [][\A n \in Names : Class[n] \in {"ENAB", "PTR", "NTR", "SRE"} /\ reg'[n] # reg[n] => (Simple(lastOp') /\ lastOp'[2] = n)]_tvars
=============================================================================
