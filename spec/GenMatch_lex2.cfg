SPECIFICATION Spec
CONSTANTS
 Mode = "lex"
 MaxKw = 2
 ProductN = 0
INVARIANT Emit
CHECK_DEADLOCK FALSE
