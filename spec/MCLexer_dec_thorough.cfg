SPECIFICATION Spec
CONSTANT N = 6
CONSTANT AlphaSet <- A_dec
CONSTANT Which <- W_dec
INVARIANT Lemmas
CHECK_DEADLOCK FALSE
