------------------------------ MODULE MCBuffer ------------------------------
(* C15, part M: design-level models of the writers behind the buffer-filling *)
(* APIs, checked against BufferContract for every text length and every      *)
(* buffer length of a small space.  The intended designs must conform (the   *)
(* contract is not over-strict); the two defective designs that section 7 of *)
(* DESIGN.md describes must be rejected exactly when their trigger predicate *)
(* holds (the contract is not vacuous and the trigger labels used by the     *)
(* check are the exact ones).                                                *)
EXTENDS ScpiFormat, TLC
CONSTANTS MaxText, MaxLen
VARIABLES writer, num, unit, len

Off == 2
Fill == 170
Post == 3
Before(n) == [i \in 1..(Off + n + Post) |-> Fill]
Text(n, first) == [i \in 1..n |-> first + i]               \* n distinct non-NUL bytes

\* ---- primitive stores on a window
RECURSIVE PokeSeq(_, _, _, _, _)
PokeSeq(mem, k, text, i, n) == IF i > n THEN mem ELSE PokeSeq(Poke(mem, Off, k + i - 1, text[i]), k, text, i + 1, n)
Put(mem, k, text, n) == PokeSeq(mem, k, text, 1, n)         \* first n bytes of text at index k
RECURSIVE StrlenR(_, _)
StrlenR(mem, k) == IF k > WinHi(mem, Off) \/ At(mem, Off, k) = NUL THEN k ELSE StrlenR(mem, k + 1)
Strlen(mem) == StrlenR(mem, 0)                              \* reads on until a NUL (or the end of the window)
\* strncat(dst, src, n): at most n bytes of src behind the existing string, then ALWAYS a NUL
Strncat(mem, src, n) == LET s == Strlen(mem)  c == Min2(n, Len(src)) IN Poke(Put(mem, s, src, c), Off, s + c, NUL)

\* ---- intended designs
\* snprintf-like (SCPI_FloatToStr / SCPI_DoubleToStr): at most len - 1 characters and a NUL; nothing when len = 0
Snprintf(full, n, mem) == IF n = 0 THEN [ret |-> 0, mem |-> mem]
                          ELSE LET c == Min2(Len(full), n - 1) IN [ret |-> c, mem |-> Poke(Put(mem, 0, full, c), Off, c, NUL)]
\* integer formatters: as many characters as fit, a NUL if a byte remains
IntFmt(full, n, mem) == LET c == Min2(Len(full), n) IN
                        [ret |-> c, mem |-> IF c < n THEN Poke(Put(mem, 0, full, c), Off, c, NUL) ELSE Put(mem, 0, full, c)]
\* strncpy + forced terminator (SCPI_dtostre, special-number names): pads the whole buffer with NUL
RECURSIVE PadNul(_, _, _)
PadNul(mem, k, n) == IF k >= n THEN mem ELSE PadNul(Poke(mem, Off, k, NUL), k + 1, n)
StrncpyNul(full, n, mem) == IF n = 0 THEN [ret |-> 0, mem |-> mem]
                            ELSE LET c == Min2(Len(full), n) IN
                                 [ret |-> Min2(Len(full), n - 1), mem |-> Poke(PadNul(Put(mem, 0, full, c), c, n), Off, n - 1, NUL)]
\* number, blank, unit (SCPI_NumberToStr); bound(n, r) is the strncat limit used for the unit
NumCat(nm, un, n, mem, slack) ==
    IF n = 0 THEN [ret |-> 0, mem |-> mem]
    ELSE LET a == Snprintf(nm, n, mem)  r == a.ret IN
         IF r + 1 < n /\ un # <<>>
         THEN LET b == Strncat(a.mem, <<32>>, n - r)
                  c == IF r + 2 < n THEN Strncat(b, un, n - r - slack) ELSE b IN
              [ret |-> Strlen(c), mem |-> c]
         ELSE a
\* quoted-text copy that stops while a byte remains for the NUL
CopyText(full, n, mem) == Snprintf(full, n, mem)

\* ---- defective designs (DESIGN.md section 7)
\* D7: the unit is appended with limit len - result - 1: the NUL of strncat lands on index len
D7Trigger(numlen, unitlen, n) == unitlen > 0 /\ numlen + 2 < n /\ unitlen >= n - numlen - 1
\* D8a: length 0 and the length is taken with strlen from a buffer nothing was written to
StrlenOfUnwritten(full, n, mem) == IF n = 0 THEN [ret |-> Strlen(mem), mem |-> mem] ELSE Snprintf(full, n, mem)
\* D8b: length 0 and the forced terminator is stored at index len - 1 = -1
TerminatorAtMinus1(full, n, mem) == IF n = 0 THEN [ret |-> 0, mem |-> Poke(mem, Off, 0 - 1, NUL)] ELSE StrncpyNul(full, n, mem)

Writers == {"snprintf", "intfmt", "strncpy", "numcat", "copytext", "numcat-d7", "strlen-unwritten", "terminator-at-minus-1"}
Full == IF writer \in {"numcat", "numcat-d7"} /\ unit # <<>> THEN num \o <<32>> \o unit ELSE num
Result == CASE writer = "snprintf" -> Snprintf(Full, len, Before(len))
            [] writer = "intfmt" -> IntFmt(Full, len, Before(len))
            [] writer = "strncpy" -> StrncpyNul(Full, len, Before(len))
            [] writer = "numcat" -> NumCat(num, unit, len, Before(len), 2)
            [] writer = "copytext" -> CopyText(Full, len, Before(len))
            [] writer = "numcat-d7" -> NumCat(num, unit, len, Before(len), 1)
            [] writer = "strlen-unwritten" -> StrlenOfUnwritten(Full, len, Before(len))
            [] writer = "terminator-at-minus-1" -> TerminatorAtMinus1(Full, len, Before(len))
Failed == BufferClauses(writer, Full, len, Result.ret, Off, Before(len), Result.mem)

vars == <<writer, num, unit, len>>
Init == /\ writer \in Writers
        /\ num \in {Text(n, 48) : n \in 0..MaxText}
        /\ unit \in {Text(n, 64) : n \in 0..MaxText}
        /\ len \in 0..MaxLen
        /\ (writer \notin {"numcat", "numcat-d7"} => unit = <<>>)
        /\ (writer \in {"numcat", "numcat-d7"} => num # <<>>)
Next == FALSE /\ UNCHANGED vars
Spec == Init /\ [][Next]_vars

GoodConform == writer \in {"snprintf", "intfmt", "strncpy", "numcat", "copytext"} => Failed = {}
GoodComplete == writer \in {"snprintf", "strncpy", "numcat", "copytext", "intfmt"} => Complete(Full, len, Result.ret)
D7Exact == writer = "numcat-d7" => IF D7Trigger(Len(num), Len(unit), len) THEN Failed = {"beyond"} ELSE Failed = {}
D8aExact == writer = "strlen-unwritten" => IF len = 0 THEN Failed = {"ret>len", "prefix"} \/ Failed = {"ret>len"} ELSE Failed = {}
D8bExact == writer = "terminator-at-minus-1" => IF len = 0 THEN Failed = {"front"} ELSE Failed = {}
=============================================================================
