SPECIFICATION Spec
CONSTANTS
 Mode = "shipped"
 MaxKw = 0
 ProductN = 0
INVARIANT Emit
CHECK_DEADLOCK FALSE
