INIT InitStr
NEXT Next
CONSTANTS
 LimbBase = 65536
 MaxLen = 6
 MaxN = 0
 Alphabet <- AlphaA
 DigitSet <- DigitsQ
 WsSet <- WsQ
INVARIANT NC_StopAtBlankHarmless
CHECK_DEADLOCK FALSE
