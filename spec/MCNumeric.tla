----------------------------- MODULE MCNumeric -----------------------------
(***************************************************************************)
(* M part of C04: lemmas of ScpiNumeric checked by TLC on bounded spaces.  *)
(* One state per object (string / shape / number); the invariants are the  *)
(* lemmas.  Configurations:                                                *)
(*   MCNumeric_str*.cfg    all byte strings over a small alphabet           *)
(*   MCNumeric_shape*.cfg  all shapes of the generative grammar in a bound  *)
(*   MCNumeric_limbs.cfg   small-width model of the limb arithmetic, LB = 4 *)
(*   MCNumeric_limbs16.cfg the same operators with 16-bit limbs on landmarks*)
(*   MCNumeric_table.cfg   lemmas of the frozen unit / special tables       *)
(***************************************************************************)
EXTENDS ScpiNumeric
CONSTANTS MaxLen, MaxN
VARIABLE x
Next == UNCHANGED x

Max(S) == CHOOSE m \in S : \A k \in S : k <= m
Strings(A, n) == UNION {[1..k -> A] : k \in 0..n}
NeStrings(A, n) == UNION {[1..k -> A] : k \in 1..n}

-----------------------------------------------------------------------------
(* all strings over an alphabet *)
AlphaA == {43, 45, 49, 46, 32, 69}          \* + - 1 . blank E
AlphaB == {43, 48, 46, 9, 101, 86}          \* + 0 . tab e V   (V: a suffix letter)
AlphaC == {45, 49, 46, 32, 69}              \* thorough: longer strings over - 1 . blank E
CONSTANT Alphabet
InitStr == x \in Strings(Alphabet, MaxLen)

Prefixes(s) == {n \in 1..Len(s) : IsDecimal(SubSeq(s, 1, n))}
GrammarScannerAgree == IsDecimal(x) <=> (x # <<>> /\ Scan(x).len = Len(x))
MaximalMunch        == Scan(x).len = Max({0} \cup Prefixes(x))
NormalForm == IsDecimal(x) =>
                LET nx == Normalised(x) IN
                /\ IsDecimal(nx)
                /\ Denote(nx) = Denote(x)
                /\ Normalised(nx) = nx
                /\ (HasExpWs(x) <=> nx # x)
                /\ ~HasExpWs(nx)
CutLemma   == (IsDecimal(x) /\ HasExpWs(x)) =>
                LET c == CutAtMantissa(x) IN
                /\ IsDecimal(c) /\ ~HasExpWs(c) /\ Len(c) < Len(x) /\ SubSeq(x, 1, Len(c)) = c
                /\ x[Len(c) + 1] \in WS \cup ExpCh
                /\ Parse(c).hasExp = FALSE
(* the named deviation (D5): a conversion without the white space rule sees exactly the mantissa,   *)
(* and differs from the literal's denotation only under the trigger HasExpWs                      *)
DeviationLemma == IsDecimal(x) =>
                LET k == ScanNoWs(x).len IN
                /\ (k = Len(x) <=> ~HasExpWs(x))
                /\ (HasExpWs(x) => SubSeq(x, 1, k) = CutAtMantissa(x))
                /\ (~HasExpWs(x) => Denote(SubSeq(x, 1, k)) = Denote(x))
(* negative control, expected to be VIOLATED: "stopping at the first blank does not change the value" *)
NC_StopAtBlankHarmless == IsDecimal(x) => Canon(Denote(SubSeq(x, 1, ScanNoWs(x).len))) = Canon(Denote(x))
SplitLemma == LET sp == Split(x) IN
                /\ sp.num \o sp.sep \o sp.suffix = x
                /\ (sp.num # <<>> => IsDecimal(sp.num))
                /\ Len(sp.num) = Max({0} \cup Prefixes(x))
                /\ AllIn(sp.sep, 1, Len(sp.sep), WS)
                /\ (sp.suffix # <<>> => sp.suffix[1] \notin WS)

-----------------------------------------------------------------------------
(* all shapes within a bound *)
CONSTANTS DigitSet, WsSet
DigitsQ == {48, 57}                                    \* 0 9
DigitsT == {48, 49, 57}                                \* 0 1 9
WsQ == {<<>>, <<32>>}
WsT == {<<>>, <<32>>, <<9>>, <<32, 9>>}
Signs == {<<>>, <<43>>, <<45>>}
DS(n) == NeStrings(DigitSet, n)
DS0(n) == Strings(DigitSet, n)
InitShape == \E sg \in Signs, ip \in DS0(MaxLen), fp \in DS0(MaxLen), pt \in BOOLEAN :
               /\ Len(ip) + Len(fp) > 0 /\ (fp # <<>> => pt)
               /\ \/ x = MkShape(sg, ip, pt, fp)
                  \/ \E ws1 \in WsSet, e \in ExpCh, ws2 \in WsSet, esg \in Signs, ed \in {<<49>>, <<48, 57>>} :
                        x = WithExp(MkShape(sg, ip, pt, fp), ws1, e, ws2, esg, ed)
ShapeLemmas ==
  LET l == Build(x)
      p == Parse(l)
      nl == Normalised(l)
  IN /\ ValidShape(x)
     /\ IsDecimal(l)
     /\ p.len = Len(l)
     /\ p.ip = x.ip /\ p.fp = x.fp /\ p.point = x.pt /\ p.hasExp = x.hasExp
     /\ p.ws1 = x.ws1 /\ p.ws2 = x.ws2 /\ p.ed = x.ed
     /\ p.neg = (x.sg = <<45>>) /\ p.signed = (x.sg # <<>>)
     /\ p.eneg = (x.esg = <<45>>) /\ p.esigned = (x.esg # <<>>)
     /\ Denote(l) = DenoteShape(x)
     /\ nl = Build([x EXCEPT !.ws1 = <<>>, !.ws2 = <<>>])
     /\ Denote(nl) = Denote(l) /\ Canon(Denote(nl)) = Canon(Denote(l))
     /\ Normalised(nl) = nl
     /\ (HasExpWs(l) <=> (x.ws1 \o x.ws2 # <<>>))
     /\ (HasExpWs(l) => CutAtMantissa(l) = Build(MkShape(x.sg, x.ip, x.pt, x.fp)))
     /\ (IsIntegerLiteral(l) <=> (~x.pt /\ ~x.hasExp))
(* a suffix of the table, with or without a blank, splits off again (EV starts with an exponent letter) *)
SuffixSamples == {<<86>>, <<69, 86>>, <<109, 79, 104, 77>>}          \* V  EV  mOhM
ShapeSplit == \A suf \in SuffixSamples, sep \in {<<>>, <<32>>, <<9, 32>>} :
                LET l == Build(x)
                    sp == Split(l \o sep \o suf)
                    d == Decode(l \o sep \o suf)
                IN sp.num = l /\ sp.sep = sep /\ sp.suffix = suf /\ d.class = "unit" /\ d.den = Denote(l)

-----------------------------------------------------------------------------
(* small-width model of the limb arithmetic (LimbBase = 4: "32 bit" = 2 limbs = 4 bits, "64 bit" = 8 bits) *)
InitNum == x \in [n : 0..MaxN, neg : BOOLEAN]
RECURSIVE Horner(_, _, _)
Horner(ds, base, acc) == IF ds = <<>> THEN acc ELSE Horner(Tail(ds), base, acc * base + Head(ds))
RECURSIVE IPow(_, _)
IPow(b, k) == IF k = 0 THEN 1 ELSE b * IPow(b, k - 1)
LimbLemmas ==
  LET n == x.n
      a == N!NatOfInt(n)
  IN /\ N!IsNat(a) /\ N!IntOfNat(a) = n
     /\ \A base \in {2, 8, 10, 16} :
          LET ds == N!DigitsOf(a, base) IN
          /\ Horner(ds, base, 0) = n /\ (Len(ds) > 1 => ds[1] # 0)
          /\ N!NatOfDigits(ds, base) = a
          /\ N!NatOfDigits(<<0, 0>> \o ds, base) = a
          /\ N!DivSmall(a, base).q = N!NatOfInt(n \div base) /\ N!DivSmall(a, base).r = n % base
     /\ \A m \in {1, 2, 8, 10, 16}, c \in {0, 1, 9, 15} : N!Trim(N!MulAdd(a, m, c)) = N!NatOfInt(n * m + c)
     /\ N!Succ(a) = N!NatOfInt(n + 1) /\ (n > 0 => N!Pred(a) = N!NatOfInt(n - 1))
     /\ \A W \in {2, 4} :
          LET full == IPow(LimbBase, W)
              v == IF x.neg THEN 0 - n ELSE n
              k == IF W = 2 THEN "I32" ELSE "I64"
              u == IF W = 2 THEN "U32" ELSE "U64"
          IN /\ N!FitsSigned(x.neg, a, W) <=> (v >= 0 - (full \div 2) /\ v <= (full \div 2) - 1)
             /\ N!FitsUnsigned(x.neg, a, W) <=> (v >= 0 /\ v <= full - 1)
             /\ InRange(k, x.neg, a) = N!FitsSigned(x.neg, a, W)
             /\ InRange(u, x.neg, a) = N!FitsUnsigned(x.neg, a, W)
             /\ (N!FitsSigned(x.neg, a, W) => /\ Len(IntExpect(k, x.neg, a)) = W
                                              /\ N!IntOfNat(IntExpect(k, x.neg, a)) = (IF v < 0 THEN full + v ELSE v))
             /\ (~N!FitsSigned(x.neg, a, W) => IntExpect(k, x.neg, a) = <<>>)
             /\ (N!FitsUnsigned(x.neg, a, W) => N!IntOfNat(IntExpect(u, x.neg, a)) = n)
OrderLemma == \A y \in 0..MaxN : /\ N!NatLess(N!NatOfInt(x.n), N!NatOfInt(y)) <=> (x.n < y)
                                 /\ N!NatLeq(N!NatOfInt(x.n), N!NatOfInt(y)) <=> (x.n <= y)
Pow2Lemma  == x.n <= 12 => N!Pow2(x.n) = N!NatOfInt(IPow(2, x.n))

(* the same operators with 16-bit limbs on landmark values that still fit TLC's integers *)
Landmarks == {0, 1, 9, 10, 255, 256, 32767, 32768, 65535, 65536, 65537, 99999, 16777215, 16777216, 16777217,
              1073741823, 1073741824, 1999999999, 2147483646, 2147483647}
InitLandmark == x \in [n : Landmarks, neg : BOOLEAN]
Limb16Lemmas ==
  LET n == x.n
      a == N!NatOfInt(n)
  IN /\ N!IsNat(a)
     /\ \A base \in {2, 8, 10, 16} : /\ Horner(N!DigitsOf(a, base), base, 0) = n
                                     /\ N!NatOfDigits(N!DigitsOf(a, base), base) = a
     /\ InRange("I32", x.neg, a) /\ InRange("I64", x.neg, a)
     /\ (InRange("U32", x.neg, a) <=> (~x.neg \/ n = 0))
     /\ IntExpect("I32", FALSE, a) = N!Pad(a, 2)
     /\ (x.neg /\ n > 0) => /\ IntExpect("I64", TRUE, a)[3] = 65535 /\ IntExpect("I64", TRUE, a)[4] = 65535
                            /\ SubSeq(IntExpect("I64", TRUE, a), 1, 2) = IntExpect("I32", TRUE, a)
     /\ ~InRange("I32", FALSE, N!Pow2(31)) /\ InRange("I32", TRUE, N!Pow2(31)) /\ ~InRange("I32", TRUE, N!Succ(N!Pow2(31)))
     /\ InRange("U32", FALSE, N!Pred(N!Pow2(32))) /\ ~InRange("U32", FALSE, N!Pow2(32))
     /\ ~InRange("I64", FALSE, N!Pow2(63)) /\ InRange("I64", TRUE, N!Pow2(63)) /\ InRange("I64", FALSE, N!Pred(N!Pow2(63)))
     /\ InRange("U64", FALSE, N!Pred(N!Pow2(64))) /\ ~InRange("U64", FALSE, N!Pow2(64))
     /\ IntExpect("I32", TRUE, N!Pow2(31)) = <<0, 32768>>
     /\ IntExpect("I64", TRUE, <<1>>) = <<65535, 65535, 65535, 65535>>
     /\ N!DigitsOf(N!Pred(N!Pow2(64)), 10) = <<1,8,4,4,6,7,4,4,0,7,3,7,0,9,5,5,1,6,1,5>>
     /\ N!DigitsOf(N!Pow2(63), 10) = <<9,2,2,3,3,7,2,0,3,6,8,5,4,7,7,5,8,0,8>>
     /\ N!DigitsOf(N!Pow2(31), 8) = <<2,0,0,0,0,0,0,0,0,0,0>>

-----------------------------------------------------------------------------
(* lemmas of the frozen tables (one state) *)
InitOne == x = 0
(* IEEE 488.2 table 7-2 prefixes; M is mega in front of OHM and HZ, milli elsewhere *)
PrefixRows == << <<<<69, 88>>, 18>>, <<<<80, 69>>, 15>>, <<<<84>>, 12>>, <<<<71>>, 9>>, <<<<77, 65>>, 6>>, <<<<75>>, 3>>,
                 <<<<77>>, 0 - 3>>, <<<<85>>, 0 - 6>>, <<<<78>>, 0 - 9>>, <<<<80>>, 0 - 12>>, <<<<70>>, 0 - 15>>, <<<<65>>, 0 - 18>> >>
IsPrefixOf(p, s) == Len(p) < Len(s) /\ SubSeq(s, 1, Len(p)) = p
TableWellFormed ==
  /\ \A i \in 1..Len(UnitRows) : LET r == UnitRows[i] IN
        /\ r.name # <<>> /\ AllIn(r.name, 1, Len(r.name), Upper) /\ r.n >= 1 /\ r.d >= 1
        /\ (r.e # 0 => r.n = 1 /\ r.d = 1)
        /\ UnitIdx(r.name) = {i} /\ UnitIdx(LowerSeq(r.name)) = {i}
        (* attached without white space the suffix still splits off whole *)
        /\ Split(<<49>> \o r.name).suffix = r.name /\ Split(<<49, 46>> \o LowerSeq(r.name)).suffix = LowerSeq(r.name)
        /\ Decode(<<49, 32>> \o r.name).class = "unit" /\ Decode(<<49, 32>> \o r.name).row = r
PrefixCoherent ==
  \A i, j \in 1..Len(UnitRows), k \in 1..Len(PrefixRows) :
     LET r == UnitRows[i]
         b == UnitRows[j]
         p == PrefixRows[k]
     IN (r.unit = b.unit /\ r.name = p[1] \o b.name /\ r.n = 1 /\ r.d = 1 /\ b.n = 1 /\ b.d = 1) =>
          r.e = b.e + (IF p[1] = <<77>> /\ b.name \in {<<79, 72, 77>>, <<72, 90>>} THEN 6 ELSE p[2])
SpecialsWellFormed ==
  \A i \in 1..Len(SpecialRows) : LET r == SpecialRows[i] IN
     /\ ShortForm(r.pat) # <<>> /\ SubSeq(LongForm(r.pat), 1, Len(ShortForm(r.pat))) = ShortForm(r.pat)
     /\ AllIn(r.pat, Len(ShortForm(r.pat)) + 1, Len(r.pat), Lower)
     /\ SpecialIdx(ShortForm(r.pat)) = {i} /\ SpecialIdx(LowerSeq(r.pat)) = {i}
     /\ Decode(LongForm(r.pat)).class = "special" /\ Decode(LowerSeq(ShortForm(r.pat))).tag = r.tag
     (* one letter less or more than a form is not that mnemonic *)
     /\ i \notin SpecialIdx(SubSeq(LongForm(r.pat), 1, Len(r.pat) - 1)) \/ Len(ShortForm(r.pat)) = Len(r.pat) - 1
     /\ i \notin SpecialIdx(LongForm(r.pat) \o <<88>>)
=============================================================================
