SPECIFICATION Spec
CONSTANTS
 Mode = "lex"
 MaxKw = 3
 ProductN = 0
INVARIANT Emit
CHECK_DEADLOCK FALSE
