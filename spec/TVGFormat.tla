----------------------------- MODULE TVGFormat -----------------------------
(* V part of C16: every line of the trace is one value formatted by the     *)
(* real library (harness/drv_gfmt.c):                                        *)
(*   k "d"|"f", cfg "printf"|"dtostre", c "fin"|"nan"|"inf", neg,            *)
(*   d, e   exact decimal expansion of |value| (glibc "%.1100e", trusted)    *)
(*   ts     SCPI_DoubleToStr / SCPI_FloatToStr        (15 / 6 digits)        *)
(*   tr     SCPI_ResultDouble / SCPI_ResultFloat      (15 / 6 digits)        *)
(*   tp     dtostre build: SCPI_dtostre at precision 1..15                   *)
(* printf build:  ts = tr = GFormat(value, 15 | 6)   (and, as a consequence  *)
(*                checked separately, within half a unit)                    *)
(* dtostre build: every text is a decimal number of the value's sign,        *)
(*                Within one unit of its P-th digit and NoDigitLost          *)
(* both builds:   nan / inf / -inf for the non-finite values.                *)
(* One initial state per line; the judgement is made on the successor so     *)
(* that TLC's workers share it.  A line that does not conform prints         *)
(*   <<"MISMATCH", l, what, text, P, X, grade>>      once per finding        *)
(* what  "text" | "half" | "spelling" | "malformed" | "sign" | "within" |    *)
(*       "lost";  text "ts" | "tr" | "tp";  X = decimal exponent of the      *)
(* value correctly rounded to P digits;  grade = least k in {2, 3, 9} with   *)
(* |text - value| <= k units, 0 if none (only for "within").                 *)
EXTENDS Integers, Sequences, FiniteSets, TLC, Json, IOUtils
T == ndJsonDeserialize(IOEnv.TRACE)
VARIABLES l, phase
G == INSTANCE ScpiGFormat
vars == <<l, phase>>
Init == l \in 1..Len(T) /\ phase = 0
Next == phase = 0 /\ phase' = 1 /\ l' = l
Spec == Init /\ [][Next]_vars

Prec(r) == IF r.k = "d" THEN 15 ELSE 6
Val(r) == [d |-> r.d, e |-> r.e]

Grade(m, v, P) == IF G!WithinUnits(m, v, P, 2) THEN 2 ELSE IF G!WithinUnits(m, v, P, 3) THEN 3
                  ELSE IF G!WithinUnits(m, v, P, 9) THEN 9 ELSE 0

(* printf build: the promised text, exactly *)
ExactDiff(r, name, t) ==
  LET v == Val(r)
      P == Prec(r)
      X == G!RoundP(v, P).e
      p == G!Parse(t)
  IN (IF t = G!GFormat(r.neg, v, P) THEN {} ELSE {<<"text", name, P, X, 0>>})
     \cup (IF p.ok /\ G!WithinHalf(p.m, v, P) THEN {} ELSE {<<"half", name, P, X, 0>>})

(* dtostre build: the relational promise *)
RelDiff(r, name, t, P) ==
  LET v == Val(r)
      X == G!RoundP(v, P).e
      p == G!Parse(t)
  IN IF ~p.ok THEN {<<"malformed", name, P, X, 0>>}
     ELSE (IF G!IsZ(p.m) \/ p.neg = r.neg THEN {} ELSE {<<"sign", name, P, X, 0>>})
          \cup (IF G!WithinUnits(p.m, v, P, 1) THEN {} ELSE {<<"within", name, P, X, Grade(p.m, v, P)>>})
          \cup (IF G!NoDigitLost(p, v, P) THEN {} ELSE {<<"lost", name, P, X, 0>>})

(* the same value as a later item of a response, written while a second, independent context formats numbers *)
(* of its own in every write ("tr2"), and through SCPI_NumberToStr ("tn"), where recorded                     *)
More(r) == (IF "tr2" \in DOMAIN r THEN {<<"tr2", r.tr2, Prec(r)>>} ELSE {}) \cup (IF "tn" \in DOMAIN r THEN {<<"tn", r.tn, Prec(r)>>} ELSE {})
           \cup (IF "tsx" \in DOMAIN r THEN {<<"tsx", r.tsx, Prec(r)>>} ELSE {})       \* helper with a buffer the text fills exactly
           \cup (IF "tsb" \in DOMAIN r THEN {<<"tsb", r.tsb, Prec(r)>>} ELSE {})       \* helper with a 256-byte buffer

Diff(r) ==
  IF r.c # "fin"
  THEN UNION {IF G!SpecialOk(r.c, r.neg, x[2]) THEN {} ELSE {<<"spelling", x[1], x[3], 0, 0>>} :
              x \in {<<"ts", r.ts, Prec(r)>>, <<"tr", r.tr, Prec(r)>>} \cup More(r)
                    \cup (IF "tp" \in DOMAIN r THEN {<<"tp", r.tp[i], i>> : i \in 1..Len(r.tp)} ELSE {})}
  ELSE IF r.cfg = "printf"
  THEN ExactDiff(r, "ts", r.ts) \cup ExactDiff(r, "tr", r.tr) \cup UNION {ExactDiff(r, x[1], x[2]) : x \in More(r)}
  ELSE RelDiff(r, "ts", r.ts, Prec(r)) \cup RelDiff(r, "tr", r.tr, Prec(r)) \cup UNION {RelDiff(r, x[1], x[2], Prec(r)) : x \in More(r)}
       \cup (IF "tp" \in DOMAIN r THEN UNION {RelDiff(r, "tp", r.tp[i], i) : i \in 1..Len(r.tp)} ELSE {})

(* one short line per finding (TLC wraps long values) *)
Conforms == phase = 1 => \A x \in Diff(T[l]) : PrintT(<<"MISMATCH", l, x[1], x[2], x[3], x[4], x[5]>>)
=============================================================================
