SPECIFICATION Spec
CONSTANTS
 W = 8
 Bases = {2, 8, 10, 16, 7}
 Signs = {TRUE, FALSE}
 MaxLen = 10
INVARIANT AlgoCorrect
INVARIANT AlgoSafe
INVARIANT AlgoBounded
INVARIANT ImpliesBuffer
INVARIANT CanonShape
INVARIANT FastIsSlow
CHECK_DEADLOCK FALSE
