SPECIFICATION Spec
CONSTANT N = 7
CONSTANT AlphaSet <- A_str
CONSTANT Which <- W_str
INVARIANT Lemmas
CHECK_DEADLOCK FALSE
