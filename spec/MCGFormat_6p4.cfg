SPECIFICATION Spec
CONSTANTS
 MaxLen = 6
 NegLen = 2
 PSplit = 6
 MaxLenHigh = 6
 Exps <- ExpsSix
 Precs = {4}
INVARIANT Lemmas
CHECK_DEADLOCK FALSE
