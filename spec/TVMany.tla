------------------------------ MODULE TVMany ------------------------------
(* The counting view of the framing rule (C06) for responses too large to  *)
(* compare byte by byte: a message whose units answer n_1 .. n_k >= 1       *)
(* one-digit items writes n_1 + .. + n_k digits, (n_1 - 1) + .. + (n_k - 1) *)
(* commas, k - 1 semicolons, one terminator and is flushed once - whatever  *)
(* the numbers are (tens of thousands of items: every counter the library   *)
(* keeps per unit is passed).  One state per recorded message.              *)
EXTENDS Integers, Sequences, TLC, Json, IOUtils

T == ndJsonDeserialize(IOEnv.TRACE)
VARIABLE l
Init == l \in 1..Len(T)
Next == UNCHANGED l
Spec == Init /\ [][Next]_l

RECURSIVE Sum(_)
Sum(s) == IF s = <<>> THEN 0 ELSE Head(s) + Sum(Tail(s))
Expected(units) == [digits |-> Sum(units), commas |-> Sum(units) - Len(units), semis |-> Len(units) - 1, cr |-> 1, lf |-> 1, flush |-> 1,
                    len |-> Sum(units) + (Sum(units) - Len(units)) + (Len(units) - 1) + 2]
Diff(r) == LET e == Expected(r.units) IN
           {k \in {"digits", "commas", "semis", "cr", "lf", "flush", "len"} : r[k] # e[k]}
           \cup (IF r.other = 0 THEN {} ELSE {"other-bytes"}) \cup (IF r.errs = 0 THEN {} ELSE {"errors"})
Conforms == LET d == Diff(T[l]) IN d = {} \/ PrintT(<<"MISMATCH", l, d>>)
=============================================================================
