SPECIFICATION Spec
CONSTANT N = 5
CONSTANT AlphaSet <- A_ndc
CONSTANT Which <- W_ndc
INVARIANT Lemmas
CHECK_DEADLOCK FALSE
