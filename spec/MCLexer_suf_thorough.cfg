SPECIFICATION Spec
CONSTANT N = 6
CONSTANT AlphaSet <- A_suf
CONSTANT Which <- W_suf
INVARIANT Lemmas
CHECK_DEADLOCK FALSE
