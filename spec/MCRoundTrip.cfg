SPECIFICATION Spec
CONSTANTS
 W = 10
 MaxText = 5
INVARIANT IntRoundTrip
INVARIANT TextRoundTrip
INVARIANT BlockRoundTrip
CHECK_DEADLOCK FALSE
