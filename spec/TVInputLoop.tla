---------------------------- MODULE TVInputLoop ----------------------------
(* Trace validation proper: the hook events recorded while the real library *)
(* executed a scenario (input begin / overrun / end, parse begin / end, unit *)
(* begin / invalid / end) must be a behaviour of ScpiInputLoop.  One record  *)
(* per scenario; the trace specification consumes its events one by one,     *)
(* each event enabling exactly the action it names with the logged values    *)
(* (message bytes, effective header, table index, pending length) compared   *)
(* against what the specification computes.  A record is accepted when all   *)
(* its events are consumed; accepted records print <<"ACCEPTED", l>>.        *)
EXTENDS ScpiInputLoop, Json, IOUtils
T == ndJsonDeserialize(IOEnv.TRACE)
VARIABLES l, i
Rec == T[l]
Ev == Rec.ev
PT == PreTable([k \in 1..Len(Rec.table) |-> [pat |-> Rec.table[k][1], tag |-> Rec.table[k][2]]])
tvars == <<l, i, pend, phase, todo, rest, ovr, cur, pos, prev, nxt>>
Init == l \in 1..Len(T) /\ i = 1 /\ LInit
E == Ev[i]
Consume == i <= Len(Ev) /\ i' = i + 1 /\ l' = l
(* the chunk of an input call is the next one of the scenario: the number of "ib" events before this one *)
ChunkNo == Cardinality({k \in 1..i : Ev[k][1] = "ib"})
Next ==
  /\ Consume
  /\ \/ E[1] = "ib" /\ Len(Rec.chunks[ChunkNo]) = E[2] /\ InputBegin(Rec.chunks[ChunkNo], Rec.buf)
     \/ E[1] = "ovr" /\ phase = "input" /\ ovr /\ rest = <<>>           \* Overrun followed by the return: the library logs one event
        /\ pend' = <<>> /\ phase' = "idle" /\ ovr' = FALSE /\ UNCHANGED <<todo, rest, cur, pos, prev, nxt>>
     \/ E[1] = "pb" /\ ParseBegin /\ cur' = E[2]
     \/ E[1] = "ub" /\ phase = "msg" /\ UnitBegin(PT, E[3], E[2])
     \/ E[1] = "ub" /\ phase = "lost" /\ LostStep
     \* text that is not a unit may also be refused as an undefined header (incomplete header forms: "*", "A:")
     \/ E[1] = "ub" /\ phase = "msg" /\ E[2] < 0 /\ NextUnit(cur, pos).kind = "weird" /\ UnitInvalid
     \/ E[1] = "ue" /\ (IF phase = "lost" THEN LostStep ELSE UnitEnd)
     \/ E[1] = "ui" /\ UnitInvalid
     \/ E[1] = "pe" /\ ParseEnd
     \/ E[1] = "ie" /\ InputEnd(E[3])
Spec == Init /\ [][Next]_tvars
Stream == Flatten(Rec.chunks)
Accepted == /\ (i = Len(Ev) + 1) => PrintT(<<"ACCEPTED", l>>)
            \* trigger of the known deviation: some prefix of the stream ends inside an open string that holds a line terminator
            /\ (i = 1 /\ \E k \in 1..Len(Stream) : OpenStringNL(SubSeq(Stream, 1, k), 1)) => PrintT(<<"QNL", l>>)
Reached == PrintT(<<"AT", l, i>>)       \* diagnosis of a rejected record (separate configuration)
=============================================================================
