------------------------- MODULE ScpiErrQueueProofs -------------------------
(* Machine-checked (TLAPS) proofs about the queue state machine of          *)
(* ScpiErrQueueCore for every capacity >= 1, every set of codes and texts       *)
(* (TLC checks capacities 1..3 over two codes and a few texts):             *)
(* a push never makes a well-typed queue longer than its capacity (the pure  *)
(* operator PushQ, every capacity) and a pop returns the oldest entry.       *)
EXTENDS ScpiErrQueueCore, TLAPS

ASSUME CapPositive == Cap \in Nat /\ Cap >= 1

Entry == [code : Int, has : BOOLEAN, text : Seq(Int), id : Nat]

LEMMA PushQLen == \A qq, c, st, t, i, e : (qq \in Seq(Entry) /\ Len(qq) <= Cap /\ Ent(c, st, t, i) \in Entry)
                     => (PushQ(qq, Cap, c, st, t, i).q \in Seq(Entry) /\ Len(PushQ(qq, Cap, c, st, t, i).q) <= Cap)
  <1> SUFFICES ASSUME NEW qq, NEW c, NEW st, NEW t, NEW i, qq \in Seq(Entry), Len(qq) <= Cap, Ent(c, st, t, i) \in Entry
               PROVE PushQ(qq, Cap, c, st, t, i).q \in Seq(Entry) /\ Len(PushQ(qq, Cap, c, st, t, i).q) <= Cap
    OBVIOUS
  <1>1. CASE Len(qq) < Cap
    BY <1>1, CapPositive DEF PushQ
  <1>2. CASE ~(Len(qq) < Cap)
    <2>1. Marker \in Entry
      BY DEF Marker, Entry, QueueOverflow
    <2>2. SubSeq(qq, 1, Cap - 1) \in Seq(Entry) /\ Len(SubSeq(qq, 1, Cap - 1)) = Cap - 1
      BY <1>2, CapPositive
    <2> QED BY <1>2, <2>1, <2>2, CapPositive DEF PushQ
  <1> QED BY <1>1, <1>2

THEOREM PopIsOldestHolds == QSpec => PopIsOldest
<1>1. [QNext]_qvars => ((lastOp' = "pop" => (IF q = <<>> THEN lastRes' = NoEntry /\ q' = q ELSE lastRes' = Head(q) /\ q' = Tail(q))) \/ UNCHANGED qvars)
  <2> SUFFICES ASSUME [QNext]_qvars, ~UNCHANGED qvars, lastOp' = "pop"
               PROVE IF q = <<>> THEN lastRes' = NoEntry /\ q' = q ELSE lastRes' = Head(q) /\ q' = Tail(q)
    OBVIOUS
  <2>1. DoPop
    BY DEF QNext, DoPush, DoClear, qvars
  <2> QED BY <2>1 DEF DoPop, PopQ
<1> QED BY <1>1, PTL DEF QSpec, PopIsOldest

=============================================================================
