SPECIFICATION SpecS
CONSTANTS
 Cap = 2
 Ops <- OpsN
 NestedOps <- NestedN
 SrqOps <- SrqS
INVARIANT StbCoherent
INVARIANT QueueBounded
PROPERTY RiseAnnouncedS
PROPERTY SecondRiseS
PROPERTY FifoOrder
VIEW View
CHECK_DEADLOCK FALSE
