INIT Init
NEXT GenNext
CONSTANTS
 Cap = 1
 Ops <- OpsE
CHECK_DEADLOCK FALSE
