------------------------------ MODULE TVFormat ------------------------------
(* C14 / C15, binding (V): every call drv_format made into the real library *)
(* - one ndjson line each: inputs, stated buffer length, returned length,   *)
(* the bytes found in the buffer and the canary bytes found in front of and *)
(* behind it - is judged against ScpiFormat.  One initial state per line;   *)
(* one step computes the set of contract clauses the line fails.  Conforms  *)
(* prints MISMATCH for every failing line and stays TRUE, so one TLC run    *)
(* reports all of them.                                                      *)
(*   c = 14, integer formatter : ToStrContract against CanonDigits(v, ...)   *)
(*   c = 15, integer formatter : BufferContract against CanonDigits(v, ...)  *)
(*   c = 15, copy              : BufferContract against Unquote(src)         *)
(*   c = 15, other, mode f     : the full-text call into a large buffer is   *)
(*                               judged against its own text                 *)
(*   c = 15, other             : BufferContract against the full text f      *)
(*   integer records, mode x   : the driver's reference text ref must equal  *)
(*                               CanonDigits (clause refmodel: a failure is  *)
(*                               a defect of the check, not of the library)  *)
(*   crash records             : the call did not return (sanitizer abort,   *)
(*                               signal, watchdog): always a mismatch        *)
(* NOTE lines: Complete (a text that fits is delivered whole) is reported    *)
(* apart, C15's statement does not demand it.                                *)
EXTENDS ScpiFormat, TLC, Json, IOUtils

T == ndJsonDeserialize(IOEnv.TRACE)
VARIABLES l, phase, diff, note
vars == <<l, phase, diff, note>>

IsCrash(r) == "crash" \in DOMAIN r
IsInt(r) == "w" \in DOMAIN r
Off(r) == Len(r.pre)
\* the bytes drv_format puts around the buffer before the call (canary(k, salt) in drv_format.c) and inside it
CanaryAt(k, salt) == 128 + (((k + 64) * 29 + salt) % 128)
InsideFill == 170
Before(r) == [i \in 1..(Len(r.pre) + r.n + Len(r.post)) |->
                LET k == i - 1 - Len(r.pre) IN IF k < 0 \/ k >= r.n THEN CanaryAt(k, r.k) ELSE InsideFill]
After(r) == r.pre \o r.o \o [i \in 1..(r.n - Len(r.o)) |-> DontCare] \o r.post

RECURSIVE UpToNul(_, _, _)
UpToNul(o, i, acc) == IF i > Len(o) \/ o[i] = NUL THEN acc ELSE UpToNul(o, i + 1, Append(acc, o[i]))
Full(r) == IF IsInt(r) THEN CanonDigits(r.v, r.w, r.b, r.s = 1)
           ELSE IF r.a = "copy" THEN Unquote(r.src)
           ELSE IF r.m = "f" THEN UpToNul(r.o, 1, <<>>)
           ELSE r.f

Exact14(r) == IsInt(r) /\ r.c = 14
\* the driver's own reference formatter (used to pick lengths and by the 2^32 sweep) must agree with CanonDigits
RefOk(r) == IsInt(r) /\ r.m = "x" => r.ref = Full(r)
Clauses(r) == IF IsCrash(r) THEN {"crash"}
              ELSE IF Exact14(r) THEN ToStrClauses(Full(r), r.n, r.r, Off(r), Before(r), After(r))
                                      \cup (IF RefOk(r) THEN {} ELSE {"refmodel"})
              ELSE IF r.a = "copyfail"       \* a copy that fails: only "nothing outside the buffer is written" is demanded
                   THEN (IF BeyondUnchanged(r.n, Off(r), Before(r), After(r)) THEN {} ELSE {"beyond"})
                        \cup (IF FrontUnchanged(Off(r), Before(r), After(r)) THEN {} ELSE {"front"})
                        \cup (IF r.ok = 1 THEN {} ELSE {"notcalled"})
              ELSE BufferClauses(r.a, Full(r), r.n, r.r, Off(r), Before(r), After(r))
                   \cup (IF r.ok = 1 THEN {} ELSE {"notcalled"})
Notes(r) == IF IsCrash(r) \/ Exact14(r) \/ r.a = "copyfail" \/ Complete(Full(r), r.n, r.r) THEN {} ELSE {"incomplete"}

Init == l \in 1..Len(T) /\ phase = 0 /\ diff = {} /\ note = {}
Next == /\ phase = 0 /\ phase' = 1 /\ l' = l
        /\ diff' = Clauses(T[l]) /\ note' = Notes(T[l])
Spec == Init /\ [][Next]_vars

Conforms == phase = 1 => /\ (diff = {} \/ PrintT(<<"MISMATCH", l, diff>>))
                         /\ (note = {} \/ PrintT(<<"NOTE", l, note>>))
=============================================================================
