SPECIFICATION Spec
CONSTANTS
 Sizes = {7, 8}
 Caps = {3}
 Codes <- OneCode
 MaxOps = 100
INVARIANT TextOrNothing
INVARIANT NoOverlap
INVARIANT InBounds
INVARIANT ReusableWhenEmpty
INVARIANT NoLeak
INVARIANT Contiguous
INVARIANT QueueBounded
PROPERTY Refines
CHECK_DEADLOCK FALSE
