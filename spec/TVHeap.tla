------------------------------ MODULE TVHeap ------------------------------
(* Transition validation for C20: every transition recorded from the real  *)
(* allocation-free build (exhaustive exploration of its state graph,       *)
(* random long histories, replayed paths) is judged                         *)
(*  - against layer (a) of ScpiHeap on the recorded projections (queue as   *)
(*    read back through get_parts, SYST:ERR? output): a disagreement is a   *)
(*    MISMATCH (the property is broken);                                    *)
(*  - against layer (b): the ring algorithm takes the same operation from   *)
(*    the recorded layout (wr, count, data, pointers); a different layout   *)
(*    afterwards is a LAYOUT note (conformance only).  Layer (b) is judged  *)
(*    only from layouts that satisfy its own invariants (else UNJUDGED).    *)
(* One initial state per line; phase 0 -> 1 takes the specification step.   *)
EXTENDS Integers, Sequences, FiniteSets, TLC, Json, IOUtils

T == ndJsonDeserialize(IOEnv.TRACE)
VARIABLES l, phase, size, cap, data, wr, count, oob, q, last
H == INSTANCE ScpiHeap WITH Sizes <- {}, Caps <- {}, Codes <- {}
vars == <<l, phase, size, cap, data, wr, count, oob, q, last>>

DataOf(rec, N) == [i \in 0..(N - 1) |-> rec.data[i + 1]]
QOf(rec)       == [i \in 1..Len(rec.q) |-> H!QEntry(rec.q[i][1], rec.q[i][3], rec.q[i][2])]
StOf(rec, N)   == [h |-> [data |-> DataOf(rec, N), wr |-> rec.wr, count |-> rec.count, oob |-> FALSE], q |-> QOf(rec)]
AbsRec(rec)    == [i \in 1..Len(rec.q) |-> H!Entry(rec.q[i][1], rec.q[i][2])]

WellFormed(rec, N, cp) ==
  /\ Len(rec.data) = N /\ rec.wr \in 0..(N - 1) /\ rec.count \in 0..N /\ Len(rec.q) <= cp
  /\ \A i \in 1..Len(rec.q) : rec.q[i][3] \in (0 - 1)..(N - 1)
FromOk == WellFormed(T[l].f, T[l].size, T[l].cap) /\ H!LayoutOk(StOf(T[l].f, T[l].size), T[l].size)

OpOf(o) == IF o[1] = "push" THEN <<"push", o[2], o[3]>> ELSE IF o[1] = "clear" THEN <<"clear">> ELSE <<"pop">>

Init == /\ l \in 1..Len(T) /\ phase = 0 /\ last = <<"from">>
        /\ size = T[l].size /\ cap = T[l].cap /\ oob = FALSE
        /\ IF WellFormed(T[l].f, T[l].size, T[l].cap)
           THEN /\ data = DataOf(T[l].f, T[l].size) /\ wr = T[l].f.wr /\ count = T[l].f.count /\ q = QOf(T[l].f)
           ELSE /\ data = <<>> /\ wr = 0 /\ count = 0 /\ q = <<>>
Next == /\ phase = 0 /\ phase' = 1 /\ l' = l
        /\ IF FromOk
           THEN LET o == OpOf(T[l].op) IN
                IF o[1] = "push" THEN H!Push(o[2], o[3]) ELSE IF o[1] = "clear" THEN H!Clear ELSE H!Pop
           ELSE UNCHANGED <<size, cap, data, wr, count, oob, q, last>>
Spec == Init /\ [][Next]_vars

(* ---- layer (a): judged on the recorded projections only ---- *)
Quote == 34  Semi == 59
PopOutOk(rec, e) ==
  IF rec.op[1] = "pop2" THEN rec.out = e.txt
  ELSE \/ rec.out = rec.pre \o <<Quote, 13, 10>> /\ e.txt = <<>>
       \/ rec.out = rec.pre \o <<Semi>> \o e.txt \o <<Quote, 13, 10>>
DiffA(rec) ==
  LET af == AbsRec(rec.f)  at == AbsRec(rec.t)  N == rec.size  cp == rec.cap  o == OpOf(rec.op) IN
  IF Len(af) > cp THEN {}                 \* consequence of an earlier bad step
  ELSE IF H!AStep(af, at, cp, N, o) THEN
       IF o[1] = "pop" THEN LET e == H!APop(af).out IN
            (IF rec.oc = e.code THEN {} ELSE {"pop-code"}) \cup (IF PopOutOk(rec, e) THEN {} ELSE {"pop-text"})
       ELSE {}
  ELSE IF o[1] = "push" THEN
       IF Len(af) >= cp THEN {"overflow-behaviour"}
       ELSE IF Len(at) # Len(af) + 1 THEN {"fifo-behaviour"}
       ELSE LET e == at[Len(at)] IN
            (IF SubSeq(at, 1, Len(af)) = af THEN {} ELSE {"older-entry-changed"})
            \cup (IF e.code = o[2] THEN {} ELSE {"code-changed"})
            \cup (IF e.txt \in {o[3], <<>>} THEN {} ELSE {"text-not-intact"})
            \cup (IF af = <<>> /\ Len(o[3]) < N /\ e.txt = <<>> /\ o[3] # <<>> THEN {"not-reusable-when-empty"} ELSE {})
  ELSE IF o[1] = "pop" THEN
       (IF af # <<>> /\ Len(at) = Len(af) - 1 /\ \E i \in 1..Len(at) : at[i].code = af[i + 1].code /\ at[i].txt # af[i + 1].txt
        THEN {"older-entry-changed"} ELSE {"fifo-behaviour"})
  ELSE {"clear-behaviour"}

(* ---- layer (b): layout after the step ---- *)
DiffB(rec) ==
  (IF wr = rec.t.wr THEN {} ELSE {"wr"}) \cup (IF count = rec.t.count THEN {} ELSE {"count"})
  \cup (IF Len(rec.t.data) = size /\ data = DataOf(rec.t, size) THEN {} ELSE {"data"})
  \cup (IF Len(q) = Len(rec.t.q) /\ \A i \in 1..Len(q) : q[i].ptr = rec.t.q[i][3] THEN {} ELSE {"ptr"})
  \cup (IF oob THEN {"oob"} ELSE {})

Conforms == phase = 1 =>
   /\ LET d == DiffA(T[l]) IN d = {} \/ PrintT(<<"MISMATCH", l, d>>)
   /\ IF last = <<"from">> THEN PrintT(<<"UNJUDGED", l>>)
      ELSE LET d == DiffB(T[l]) IN d = {} \/ PrintT(<<"LAYOUT", l, d>>)
=============================================================================
