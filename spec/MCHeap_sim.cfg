SPECIFICATION Spec
CONSTANTS
 Sizes = {12, 13, 14, 15, 16}
 Caps = {4}
 Codes <- TwoCodes
 MaxOps = 100
INVARIANT TextOrNothing
INVARIANT NoOverlap
INVARIANT InBounds
INVARIANT ReusableWhenEmpty
INVARIANT NoLeak
INVARIANT Contiguous
INVARIANT QueueBounded
PROPERTY Refines
CHECK_DEADLOCK FALSE
