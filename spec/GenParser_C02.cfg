SPECIFICATION SpecC02
CONSTANTS
 MaxUnits = 2
 MaxSig = 1
 MaxItems = 2
 WsVariants = {0, 1, 2}
 KindIdx = {1,2,3,4,5,6,7,8,9,10,11}
 NParts = 1
 Part = 0
INVARIANT Lemmas
INVARIANT L_Progress

INVARIANT Emit
CHECK_DEADLOCK FALSE
