SPECIFICATION SpecC02
CONSTANTS
 MaxUnits = 2
 MaxSig = 1
 MaxItems = 2
 WsVariants = {0, 1, 2}
 NParts = 1
 Part = 0
INVARIANT Lemmas
INVARIANT L_Progress

INVARIANT Emit
CHECK_DEADLOCK FALSE
