INIT TInit
NEXT GenNext
CONSTANTS
 TOps <- OpsT4
CHECK_DEADLOCK FALSE
