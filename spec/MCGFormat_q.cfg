SPECIFICATION Spec
CONSTANTS
 MaxLen = 4
 NegLen = 2
 PSplit = 3
 MaxLenHigh = 3
 Exps <- ExpsFull
 Precs <- PrecsFull
INVARIANT Lemmas
CHECK_DEADLOCK FALSE
