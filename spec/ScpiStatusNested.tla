------------------------- MODULE ScpiStatusNested -------------------------
(***************************************************************************)
(* ScpiStatus with an application whose error callback re-enters the       *)
(* library: a logger that takes errors out of the queue (SCPI_ErrorPop) or *)
(* empties it (SCPI_ErrorClear) while they are being announced.            *)
(*                                                                         *)
(* The library announces a queued error once, and an overflow a second     *)
(* time (as -350).  What the callback does in each announcement and the    *)
(* push itself are one step of the instrument, and its result is that of   *)
(* the operations in sequence: the status byte is a function of the state  *)
(* behind it, so nothing of the intermediate states may survive - in       *)
(* particular not an "error available" bit that the library sets after     *)
(* the callback has already emptied the queue.                             *)
(***************************************************************************)
EXTENDS ScpiStatus

CONSTANT NestedOps      \* <<"pushpop", code>> / <<"pushclr", code>> of a model-checking run

NestedKinds == {"pushpop", "pushclr"}
InnerOp(op) == IF op[1] = "pushpop" THEN <<"pop">> ELSE <<"clear">>
Announcements(qq, cap) == IF QOverflows(qq, cap) THEN 2 ELSE 1

ApplyNested(r, qq, sb, op, cap) ==
  LET a  == Apply(r, qq, sb, <<"push", op[2]>>, cap)
      b  == Apply(a.reg, a.q, a.stb, InnerOp(op), cap)
      c  == IF Announcements(qq, cap) = 2 THEN Apply(b.reg, b.q, b.stb, InnerOp(op), cap) ELSE b
  IN [reg |-> c.reg, q |-> c.q, stb |-> c.stb, out |-> NoOut,
      srq |-> IF 6 \in c.stb /\ 6 \notin sb THEN <<c.stb>> ELSE <<>>]   \* required; a passing rise in between may be announced too


DoN(op) == LET a == ApplyNested(reg, q, stb, op, Cap) IN
           /\ reg' = a.reg /\ q' = a.q /\ stb' = a.stb /\ srq' = a.srq /\ out' = a.out /\ lastOp' = op
NextN == Next \/ \E op \in NestedOps : DoN(op)
SpecN == Init /\ [][NextN]_vars

-----------------------------------------------------------------------------
(* The service-request handler (the control callback) may re-enter the library too.  Two handlers are modelled; each acts    *)
(* once, at the announcement of a rise of MSS:                                                                              *)
(*   srqclr - it services the request by clearing the event registers whose summary bits it was shown;                      *)
(*   srqpp  - it takes the oldest error out of the queue and reports a device error (-300) of its own, which may raise      *)
(*            MSS again - and that rise has to be announced like any other.                                                 *)
(* <<kind>> \o op is the operation op under such a handler: op, then (if MSS rose) what the handler does, in sequence.       *)
(* srq lists the announcements that are required; others may be made while MSS is 1.  The binding leaves out one case in    *)
(* which the order of two writes inside one library call is visible: srqclr around a push onto a full queue (the overflow   *)
(* bit is recorded after the handler has run).                                                                              *)
CONSTANT SrqOps
SrqKinds == {"srqclr", "srqpp"}
InnerOf(op) == SubSeq(op, 2, Len(op))
NamedEvents(s) == (IF 5 \in s THEN {"ESR"} ELSE {}) \cup (IF 7 \in s THEN {"OPER"} ELSE {}) \cup (IF 3 \in s THEN {"QUES"} ELSE {})
ClearNamed(r, s) == [n \in DOMAIN r |-> IF n \in NamedEvents(s) THEN {} ELSE r[n]]
ApplySrq(r, qq, sb, op, cap) ==
  LET a == Apply(r, qq, sb, InnerOf(op), cap) IN
  IF a.srq = <<>> THEN a
  ELSE IF op[1] = "srqclr"
       THEN LET r2 == ClearNamed(a.reg, a.stb) IN
            [reg |-> r2, q |-> a.q, stb |-> NewStb(r2, Len(a.q)), out |-> a.out, srq |-> a.srq]
       ELSE LET b == Apply(a.reg, a.q, a.stb, <<"pop">>, cap)
                c == Apply(b.reg, b.q, b.stb, <<"push", 0 - 300>>, cap)
            IN [reg |-> c.reg, q |-> c.q, stb |-> c.stb, out |-> a.out, srq |-> a.srq \o c.srq]

ApplyAny(r, qq, sb, op, cap) == IF op[1] \in NestedKinds THEN ApplyNested(r, qq, sb, op, cap)
                                ELSE IF op[1] \in {"srqclr", "srqpp"} THEN ApplySrq(r, qq, sb, op, cap)
                                ELSE Apply(r, qq, sb, op, cap)

DoS(op) == LET a == ApplySrq(reg, q, stb, op, Cap) IN
           /\ reg' = a.reg /\ q' = a.q /\ stb' = a.stb /\ srq' = a.srq /\ out' = a.out /\ lastOp' = op
NextS == NextN \/ \E op \in SrqOps : DoS(op)
SpecS == Init /\ [][NextS]_vars
(* every rise of MSS over a step is announced at least once (what the last announcement shows is the handler's business) *)
RiseAnnouncedS == [][(6 \notin stb /\ 6 \in stb') => srq' # <<>>]_vars
(* under srqpp a second rise inside the step needs a second announcement *)
SecondRiseS == [][lastOp'[1] = "srqpp" /\ Len(srq') = 2 => 6 \in stb']_vars

(* the class bit of an error is recorded even when the error itself is taken out at once *)
NestedSetsClassBit ==
  [][lastOp'[1] \in NestedKinds =>
       /\ ClassBits(lastOp'[2]) \subseteq reg'["ESR"]
       /\ reg'["ESR"] \ reg["ESR"] \subseteq ClassBits(lastOp'[2]) \cup ClassBits(QueueOverflow)
       /\ (lastOp'[1] = "pushclr" => q' = <<>>)
       /\ (lastOp'[1] = "pushpop" => Len(q') = IF Len(q) >= Cap THEN Cap - 2 ELSE Len(q))
       /\ (lastOp'[1] = "pushpop" /\ Len(q) < Cap /\ q # <<>> => q' = Append(Tail(q), lastOp'[2]))]_vars
=============================================================================
