------------------------- MODULE ScpiStatusNested -------------------------
(***************************************************************************)
(* ScpiStatus with an application whose error callback re-enters the       *)
(* library: a logger that takes errors out of the queue (SCPI_ErrorPop) or *)
(* empties it (SCPI_ErrorClear) while they are being announced.            *)
(*                                                                         *)
(* The library announces a queued error once, and an overflow a second     *)
(* time (as -350).  What the callback does in each announcement and the    *)
(* push itself are one step of the instrument, and its result is that of   *)
(* the operations in sequence: the status byte is a function of the state  *)
(* behind it, so nothing of the intermediate states may survive - in       *)
(* particular not an "error available" bit that the library sets after     *)
(* the callback has already emptied the queue.                             *)
(***************************************************************************)
EXTENDS ScpiStatus

CONSTANT NestedOps      \* <<"pushpop", code>> / <<"pushclr", code>> of a model-checking run

NestedKinds == {"pushpop", "pushclr"}
InnerOp(op) == IF op[1] = "pushpop" THEN <<"pop">> ELSE <<"clear">>
Announcements(qq, cap) == IF QOverflows(qq, cap) THEN 2 ELSE 1

ApplyNested(r, qq, sb, op, cap) ==
  LET a  == Apply(r, qq, sb, <<"push", op[2]>>, cap)
      b  == Apply(a.reg, a.q, a.stb, InnerOp(op), cap)
      c  == IF Announcements(qq, cap) = 2 THEN Apply(b.reg, b.q, b.stb, InnerOp(op), cap) ELSE b
  IN [reg |-> c.reg, q |-> c.q, stb |-> c.stb, out |-> NoOut,
      srq |-> IF 6 \in c.stb /\ 6 \notin sb THEN <<c.stb>> ELSE <<>>]   \* required; a passing rise in between may be announced too

ApplyAny(r, qq, sb, op, cap) == IF op[1] \in NestedKinds THEN ApplyNested(r, qq, sb, op, cap) ELSE Apply(r, qq, sb, op, cap)

DoN(op) == LET a == ApplyNested(reg, q, stb, op, Cap) IN
           /\ reg' = a.reg /\ q' = a.q /\ stb' = a.stb /\ srq' = a.srq /\ out' = a.out /\ lastOp' = op
NextN == Next \/ \E op \in NestedOps : DoN(op)
SpecN == Init /\ [][NextN]_vars

(* the class bit of an error is recorded even when the error itself is taken out at once *)
NestedSetsClassBit ==
  [][lastOp'[1] \in NestedKinds =>
       /\ ClassBits(lastOp'[2]) \subseteq reg'["ESR"]
       /\ reg'["ESR"] \ reg["ESR"] \subseteq ClassBits(lastOp'[2]) \cup ClassBits(QueueOverflow)
       /\ (lastOp'[1] = "pushclr" => q' = <<>>)
       /\ (lastOp'[1] = "pushpop" => Len(q') = IF Len(q) >= Cap THEN Cap - 2 ELSE Len(q))
       /\ (lastOp'[1] = "pushpop" /\ Len(q) < Cap /\ q # <<>> => q' = Append(Tail(q), lastOp'[2]))]_vars
=============================================================================
