SPECIFICATION Spec
CONSTANT Big = FALSE
INVARIANT LongOk
INVARIANT Emit
CHECK_DEADLOCK FALSE
