SPECIFICATION Spec
INVARIANT Reached
CHECK_DEADLOCK FALSE
