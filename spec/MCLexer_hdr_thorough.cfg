SPECIFICATION Spec
CONSTANT N = 6
CONSTANT AlphaSet <- A_hdr
CONSTANT Which <- W_hdr
INVARIANT Lemmas
CHECK_DEADLOCK FALSE
