SPECIFICATION Spec
CONSTANTS
 Cap = 1
 Ops <- OpsG
INVARIANT StbCoherent
INVARIANT QueueBounded
INVARIANT NoSrqWhileClear
PROPERTY Sticky
PROPERTY Latch
PROPERTY PushSetsClassBit
PROPERTY SrqOnRise
PROPERTY FifoOrder
VIEW View
CHECK_DEADLOCK FALSE
