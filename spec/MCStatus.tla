----------------------------- MODULE MCStatus -----------------------------
(* Bounded operation alphabets for model checking ScpiStatus (C11, C12).  *)
(* Each alphabet restricts written values to subsets of representative    *)
(* bits per register: bit 6 (MSS/RQS position, must be ignored in SRE),    *)
(* a bit above 8, and the bits that connect the groups (ESR class bits,    *)
(* summary bits 2,3,5,7 in SRE).                                           *)
EXTENDS ScpiStatus

WriteOps(names, bits) == { <<k, n, v>> : k \in {"set", "setbits", "clrbits"}, n \in names, v \in SUBSET bits }
SetOps(names, bits)   == { <<"set", n, v>> : n \in names, v \in SUBSET bits }
Cmd0(names)           == { <<"cmd", c>> : c \in names }
Cmd1(names, bits)     == { <<"cmd", c, v>> : c \in names, v \in SUBSET bits }
PushOps(codes)        == { <<"push", c>> : c \in codes }
QueueOps              == { <<"pop">>, <<"clear">>, <<"count">>, <<"cmd", "SYST:ERR?">>, <<"cmd", "SYST:ERR:COUN?">> }

Single(bits) == {{}} \cup {{b} : b \in bits}
BitOps(names, bits) == { <<k, n, {b}>> : k \in {"setbits", "clrbits"}, n \in names, b \in bits }
Cmd1s(names, bits)  == { <<"cmd", c, v>> : c \in names, v \in Single(bits) }

\* quick alphabets (each <= 10^5 transitions of the implementation)
\* A: standard event group + SRE + queue
OpsA == SetOps({"ESR", "ESE"}, {0, 6}) \cup BitOps({"ESR", "ESE"}, {0, 6}) \cup SetOps({"SRE"}, {2, 5, 6})
        \cup Cmd0({"*CLS", "*ESR?", "*OPC", "*STB?", "*ESE?", "*SRE?"}) \cup Cmd1s({"*ESE"}, {0, 6}) \cup Cmd1s({"*SRE"}, {2, 5, 6})
        \cup PushOps({0 - 800, 1, 0}) \cup QueueOps \cup {<<"setbits", "STB", {6}>>, <<"clrbits", "STB", {6}>>}
\* B: questionable group with condition register + SRE + a little of the standard event group
OpsB == SetOps({"QUES", "QUESE", "QUESC"}, {0, 9}) \cup BitOps({"QUES", "QUESC"}, {0, 9}) \cup SetOps({"SRE"}, {3, 6}) \cup SetOps({"ESR", "ESE"}, {0})
        \cup Cmd0({"*CLS", "STAT:QUES?", "STAT:PRES", "STAT:QUES:COND?", "STAT:QUES:ENAB?", "*ESR?"}) \cup Cmd1s({"STAT:QUES:ENAB"}, {0, 9})
        \cup PushOps({0 - 800}) \cup {<<"pop">>}
\* C: operation + questionable groups
OpsC == SetOps({"OPER", "OPERE", "OPERC"}, {0, 9}) \cup SetOps({"QUES", "QUESE", "QUESC"}, {9}) \cup BitOps({"OPER", "OPERC"}, {0, 9}) \cup SetOps({"SRE"}, {3, 7})
        \cup Cmd0({"*CLS", "STAT:OPER?", "STAT:QUES?", "STAT:PRES", "STAT:OPER:COND?", "STAT:OPER:ENAB?"}) \cup Cmd1s({"STAT:OPER:ENAB"}, {0, 9})
\* thorough alphabets
\* D: all nine registers, two bits each, five summary-relevant SRE bits, queue
OpsD == SetOps({"OPER", "OPERE", "OPERC", "QUES", "QUESE", "QUESC"}, {0, 6}) \cup SetOps({"ESR", "ESE"}, {0}) \cup SetOps({"SRE"}, {2, 3, 5, 6, 7})
        \cup Cmd0({"*CLS", "*ESR?", "*OPC", "STAT:OPER?", "STAT:QUES?", "STAT:PRES"})
        \cup PushOps({0 - 800}) \cup {<<"pop">>, <<"clear">>}
\* E: three representative bits incl. one above 8 on the two SCPI groups
OpsE == SetOps({"OPER", "OPERE", "OPERC", "QUES", "QUESE", "QUESC"}, {0, 6, 9}) \cup SetOps({"SRE"}, {3, 6, 7})
        \cup Cmd0({"*CLS", "STAT:OPER?", "STAT:QUES?", "STAT:PRES"})
\* F: standard event group with all write kinds and four error classes, queue of two
OpsF == WriteOps({"ESR", "ESE"}, {0, 6}) \cup SetOps({"SRE"}, {2, 5, 6})
        \cup Cmd0({"*CLS", "*ESR?", "*OPC", "*STB?", "*ESE?", "*SRE?"}) \cup Cmd1({"*ESE"}, {0, 6}) \cup Cmd1({"*SRE"}, {2, 5, 6})
        \cup PushOps({0 - 800, 0 - 600, 0 - 100, 1}) \cup QueueOps
\* G: three bits on the questionable group
OpsG == WriteOps({"QUES", "QUESE", "QUESC"}, {0, 6, 9}) \cup SetOps({"SRE"}, {3, 5, 6}) \cup SetOps({"ESR", "ESE"}, {0})
        \cup Cmd0({"*CLS", "STAT:QUES?", "STAT:PRES", "*ESR?"}) \cup Cmd1({"STAT:QUES:ENAB"}, {0, 6, 9})
=============================================================================
