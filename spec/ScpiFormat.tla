------------------------------ MODULE ScpiFormat ------------------------------
(* C14 / C15: what the formatting and copying functions that fill a caller-  *)
(* supplied buffer must do.  Intended behaviour (the property statements),   *)
(* not a transliteration of utils.c / units.c / parser.c.                    *)
(*                                                                            *)
(* Texts are sequences of byte values.  A memory window is a sequence of      *)
(* byte values together with an offset `off`: buffer index k (0-based, k may  *)
(* be negative = in front of the buffer) is window element off + k + 1.  A    *)
(* window may hold DontCare for bytes INSIDE the buffer that were not          *)
(* recorded (nothing constrains them); it must hold real values outside.      *)
(* No variables here: the module is extended / instantiated by MCFormat,      *)
(* TVFormat and (later) the C07 / C16 checks.                                 *)
EXTENDS Integers, Sequences, ScpiDigits

NUL == 0
MinusChar == 45
QuoteS == 39
QuoteD == 34
DontCare == 0 - 1

\* ---------------------------------------------------------------- windows
At(mem, off, k) == mem[off + k + 1]
WinLo(off) == 0 - off
WinHi(mem, off) == Len(mem) - off - 1
Poke(mem, off, k, c) == [mem EXCEPT ![off + k + 1] = c]
Changed(off, before, after) == {k \in WinLo(off)..WinHi(after, off) : At(after, off, k) # At(before, off, k)}
\* nothing at or behind index len, nothing in front of the buffer
BeyondUnchanged(len, off, before, after) == \A k \in Changed(off, before, after) : k < len
FrontUnchanged(off, before, after) == \A k \in Changed(off, before, after) : k >= 0
\* bytes [0, n) of the buffer are the first n bytes of text
HasPrefix(text, n, off, after) == /\ n <= Len(text)
                                  /\ n <= WinHi(after, off) + 1
                                  /\ \A k \in 0..(n - 1) : At(after, off, k) = text[k + 1]
NulAt(k, off, after) == k <= WinHi(after, off) /\ At(after, off, k) = NUL

\* ---------------------------------------------------------------- (a) C14: canonical text of an integer
DigitChar(d) == IF d < 10 THEN 48 + d ELSE 55 + d               \* 0-9, A-F (upper case)
EffBase(b) == IF b \in {2, 8, 16} THEN b ELSE 10                \* any other base means 10
Chars(ds) == [i \in 1..Len(ds) |-> DigitChar(ds[i])]

\* v: the w-bit word as limbs (radix 65536, most significant first); signed: read it as two's complement.
\* Upper case, no leading zeros, '-' only for negative signed decimals (the most negative value included:
\* its magnitude 2^(w-1) is representable as an unsigned w-bit number).
CanonDigits(v, w, base, signed) ==
    LET b == EffBase(base) IN
    IF signed /\ b = 10 /\ LimbsNegative(v, w)
    THEN <<MinusChar>> \o Chars(DConvertFast(LimbsNegate(v, w), LimbRadix, 10))
    ELSE Chars(DConvertFast(v, LimbRadix, b))

\* The contract of the integer formatters, as the set of clauses that FAIL (empty = conforms).
\*  ret     the return value is the number of characters produced = min(|canon|, len)
\*  digits  the characters produced are the leading characters of the canonical text
\*  nul     a terminating NUL follows whenever a byte remains for it
\*  beyond / front   nothing outside [0, len) is touched
ToStrClauses(canon, len, ret, off, before, after) ==
    LET n == Min2(Len(canon), len) IN
       (IF ret = n THEN {} ELSE {"ret"})
    \cup (IF HasPrefix(canon, n, off, after) THEN {} ELSE {"digits"})
    \cup (IF n < len => NulAt(n, off, after) THEN {} ELSE {"nul"})
    \cup (IF BeyondUnchanged(len, off, before, after) THEN {} ELSE {"beyond"})
    \cup (IF FrontUnchanged(off, before, after) THEN {} ELSE {"front"})
ToStrContract(canon, len, ret, off, before, after) == ToStrClauses(canon, len, ret, off, before, after) = {}

\* ---------------------------------------------------------------- (b) the library's design of digit extraction
\* "descending divisor, leading-zero skip, every store guarded by pos < len" on a w-bit word model.
\* A state is a record; AlgoStep is a function on states, so MCFormat can run it as a state machine and
\* other modules can run it to completion with AlgoRun.  Arithmetic is on naturals < 2^w.
RECURSIVE TopDivisorR(_, _, _)
TopDivisorR(b, limit, x) == IF x * b > limit THEN x ELSE TopDivisorR(b, limit, x * b)
TopDivisor(b, w) == TopDivisorR(b, Pow(2, w) - 1, 1)            \* the largest power of b that is a w-bit number

AlgoAddChar(s, c) == IF s.pos < s.len THEN [s EXCEPT !.mem = Poke(s.mem, s.off, s.pos, c), !.pos = s.pos + 1] ELSE s

AlgoInit(v, w, base, signed, len, off, before) ==
    [pc |-> "start", v |-> v, w |-> w, b |-> EffBase(base), signed |-> signed, len |-> len, off |-> off,
     uval |-> v, x |-> 0, pos |-> 0, mem |-> before, steps |-> 0]

AlgoStep(s0) ==
    LET s == [s0 EXCEPT !.steps = s0.steps + 1] IN
    CASE s.pc = "start" ->
           IF s.uval = 0 THEN [AlgoAddChar(s, 48) EXCEPT !.pc = "term"]
           ELSE LET t == [s EXCEPT !.x = TopDivisor(s.b, s.w), !.pc = "skip"] IN
                IF s.signed /\ s.b = 10 /\ s.v >= Pow(2, s.w - 1)
                THEN AlgoAddChar([t EXCEPT !.uval = (Pow(2, s.w) - s.v) % Pow(2, s.w)], MinusChar)
                ELSE t
      [] s.pc = "skip" ->
           IF s.uval \div s.x = 0 THEN [s EXCEPT !.x = s.x \div s.b] ELSE [s EXCEPT !.pc = "emit"]
      [] s.pc = "emit" ->
           LET digit == s.uval \div s.x
               t == AlgoAddChar(s, DigitChar(digit))
               u == [t EXCEPT !.uval = s.uval - digit * s.x, !.x = s.x \div s.b] IN
           IF u.x # 0 /\ u.pos < u.len THEN u ELSE [u EXCEPT !.pc = "term"]
      [] s.pc = "term" ->
           [(IF s.pos < s.len THEN [s EXCEPT !.mem = Poke(s.mem, s.off, s.pos, NUL)] ELSE s) EXCEPT !.pc = "done"]
      [] OTHER -> s0
AlgoDone(s) == s.pc = "done"
AlgoRet(s) == s.pos
RECURSIVE AlgoRun(_)
AlgoRun(s) == IF AlgoDone(s) THEN s ELSE AlgoRun(AlgoStep(s))

\* ---------------------------------------------------------------- (c) C15: the buffer contract
\* full: the complete text the function would produce given room; len: the size the caller stated;
\* ret: the length the function reports.  The set of clauses that FAIL:
\*  beyond / front  bytes at index >= len (or in front of the buffer) are unchanged; len = 0 writes nothing
\*  ret>len         the reported length never exceeds the buffer
\*  prefix          bytes [0, ret) are the first ret bytes of the full text ("a length that matches what was written")
\*  nul             the string is NUL-terminated whenever the result is shorter than the buffer
\* `api` is carried for diagnostics and for api-specific allowances (none at present).
BufferClauses(api, full, len, ret, off, before, after) ==
       (IF BeyondUnchanged(len, off, before, after) THEN {} ELSE {"beyond"})
    \cup (IF FrontUnchanged(off, before, after) THEN {} ELSE {"front"})
    \cup (IF ret <= len THEN {} ELSE {"ret>len"})
    \cup (IF HasPrefix(full, Min2(ret, len), off, after) /\ ret <= Len(full) THEN {} ELSE {"prefix"})
    \cup (IF ret < len => NulAt(ret, off, after) THEN {} ELSE {"nul"})
BufferContract(api, full, len, ret, off, before, after) == BufferClauses(api, full, len, ret, off, before, after) = {}

\* Completeness: a text that fits (with its NUL) is delivered whole.  DESIGN 6-C15 lists it in the contract; the
\* property statement C15 itself does not demand it, so checks report it apart from the safety clauses.
Complete(full, len, ret) == Len(full) < len => ret = Len(full)

\* The text a quoted string token denotes: outer quotes dropped, a doubled quote character stands for one.
RECURSIVE UnquoteR(_, _, _, _)
UnquoteR(src, q, i, acc) == IF i >= Len(src) THEN acc
                            ELSE IF src[i] = q /\ i + 1 < Len(src) /\ src[i + 1] = q THEN UnquoteR(src, q, i + 2, Append(acc, q))
                            ELSE UnquoteR(src, q, i + 1, Append(acc, src[i]))
Unquote(src) == IF Len(src) < 2 THEN <<>> ELSE UnquoteR(src, src[1], 2, <<>>)
=============================================================================
