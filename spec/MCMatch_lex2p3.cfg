SPECIFICATION Spec
CONSTANTS
 Mode = "lex"
 MaxKw = 2
 ProductN = 3
INVARIANT Checked
CHECK_DEADLOCK FALSE
