----------------------------- MODULE ScpiParser -----------------------------
(***************************************************************************)
(* The message layer of scpi-parser, intended behaviour (C02 C05 C06 C08   *)
(* C09 C17): the input buffer with its append / overrun / flush rules,     *)
(* the message loop, the unit loop with the compound-header path, command  *)
(* lookup (first match), the parameter cursor with the typed readers,      *)
(* result items and response framing, the per-unit error accounting        *)
(* (-200 / -108) and the value returned by the input call.                 *)
(*                                                                         *)
(* Command handlers are environment: a handler is a script, a sequence of  *)
(* parameter reads, result items, own errors, and a return value.          *)
(* Bytes are integers, texts sequences of bytes; positions are 1-based.    *)
(* Token recognition and unit detection come from ScpiLexer, pattern       *)
(* acceptance from ScpiMatch.                                              *)
(***************************************************************************)
EXTENDS ScpiLexer, TLC
M == INSTANCE ScpiMatch
U == INSTANCE ScpiUnitTable

Slice(b, s, l) == SubSeq(b, s, s + l - 1)
UpB(s) == [i \in 1..Len(s) |-> IF s[i] \in 97..122 THEN s[i] - 32 ELSE s[i]]
RECURSIVE Flatten(_)
Flatten(ss) == IF ss = <<>> THEN <<>> ELSE Head(ss) \o Flatten(Tail(ss))
RECURSIVE JoinWith(_, _)
JoinWith(c, ss) == IF ss = <<>> THEN <<>> ELSE IF Len(ss) = 1 THEN ss[1] ELSE ss[1] \o <<c>> \o JoinWith(c, Tail(ss))
LastIdx(s, c) == LET I == {i \in 1..Len(s) : s[i] = c} IN IF I = {} THEN 0 ELSE CHOOSE i \in I : \A j \in I : j <= i

-----------------------------------------------------------------------------
(* C02: effective header, first match *)
PathOf(e) == SubSeq(e, 1, LastIdx(e, 58))            \* everything up to and including the last colon
Effective(prev, hdr) == IF hdr[1] \in {58, 42} \/ prev = <<>> \/ prev[1] = 42 THEN hdr ELSE PathOf(prev) \o hdr
(* the table is a sequence of [pat, tag]; pat is the pattern text *)
PreTable(table) == [i \in 1..Len(table) |-> [pat |-> table[i].pat, tag |-> table[i].tag, pp |-> M!ParsePattern(table[i].pat)]]
EntryAccepts(e, hdr) == IF e.pp.common THEN M!UpSeq(hdr) = M!UpSeq(e.pat) ELSE M!Accepts(e.pp.kws, e.pp.query, hdr)
RECURSIVE FirstFrom(_, _, _)
FirstFrom(t, hdr, i) == IF i > Len(t) THEN 0 ELSE IF EntryAccepts(t[i], hdr) THEN i ELSE FirstFrom(t, hdr, i + 1)
FirstMatch(ptable, hdr) == FirstFrom(ptable, hdr, 1)        \* ptable = PreTable(table)
(* declarative effective headers of a whole message, from the text alone *)
RECURSIVE EffectiveList(_, _)
EffectiveList(hdrs, prev) == IF hdrs = <<>> THEN <<>> ELSE
   LET e == Effective(prev, Head(hdrs)) IN <<e>> \o EffectiveList(Tail(hdrs), e)

-----------------------------------------------------------------------------
(* C05: typed readers.  ReaderOutcome(kind, item) is 0 (delivered) or the error code to queue *)
AnyErr == 99999      \* "some error code": the statement does not say which
NumericTypes == {"DECIMAL", "HEXNUM", "OCTNUM", "BINNUM"}
StringTypes  == {"SQUOTE", "DQUOTE"}
ChoiceOnOff  == <<[name |-> <<79, 70, 70>>, tag |-> 0], [name |-> <<79, 78>>, tag |-> 1]>>     \* OFF, ON
ChoiceTag(choices, mn) ==      \* tag of the first choice whose short/long form spells the mnemonic, or -1
  LET I == {i \in 1..Len(choices) : M!Spells(mn, [name |-> choices[i].name, opt |-> FALSE, num |-> FALSE])[1]} IN
  IF I = {} THEN 0 - 1 ELSE choices[CHOOSE i \in I : \A j \in I : i <= j].tag
SuffixOf(text) == LET d == LexDecimal(text, 1) IN SubSeq(text, SkipWhile(text, d.next, WS), Len(text))
KnownUnit(sfx) == \E i \in 1..Len(U!UnitRows) : U!UnitRows[i].name = UpB(sfx)
IsSpecial(mn) == \E i \in 1..Len(U!SpecialRows) : M!Spells(mn, [name |-> U!SpecialRows[i].pat, opt |-> FALSE, num |-> FALSE])[1]
ReaderOutcome(kind, tok, text, choices) ==
  IF kind \in {"i32", "u32", "i64", "u64", "flt", "dbl"} THEN
       (IF tok.type \in NumericTypes THEN 0 ELSE IF tok.type = "DECIMAL_SUFFIX" THEN 0 - 138 ELSE 0 - 104)
  ELSE IF kind = "bool" THEN
       (IF tok.type = "DECIMAL" THEN 0
        ELSE IF tok.type = "MNEMONIC" THEN (IF ChoiceTag(ChoiceOnOff, text) >= 0 THEN 0 ELSE 0 - 224)
        ELSE 0 - 104)
  ELSE IF kind = "choice" THEN
       (IF tok.type = "MNEMONIC" THEN (IF ChoiceTag(choices, text) >= 0 THEN 0 ELSE 0 - 224) ELSE 0 - 104)
  ELSE IF kind = "num" THEN         \* number, number with unit, or special mnemonic
       (IF tok.type \in NumericTypes THEN 0
        ELSE IF tok.type = "DECIMAL_SUFFIX" THEN (IF KnownUnit(SuffixOf(text)) THEN 0 ELSE 0 - 131)
        ELSE IF tok.type = "MNEMONIC" THEN (IF IsSpecial(text) THEN 0 ELSE 0 - 224)
        ELSE 0 - 104)
  ELSE IF kind \in {"text", "tshort"} THEN (IF tok.type \in StringTypes THEN 0 ELSE 0 - 104)
  ELSE IF kind = "block" THEN (IF tok.type = "BLOCK" THEN 0 ELSE 0 - 104)
  ELSE 0      \* "chars": raw access to any item
(* where the statement leaves the code open (a Boolean with a suffix is both a wrong type and a forbidden suffix) *)
OutcomeAlternatives(kind, tok) == IF kind = "bool" /\ tok.type = "DECIMAL_SUFFIX" THEN {0 - 104, 0 - 138} ELSE {}

(* value delivered, as bytes (what the handler can observe of the item) *)
Unquote(s, qt) == LET body == SubSeq(s, 2, Len(s) - 1)
                      F[i \in 0..Len(body)] == IF i = Len(body) THEN <<>>
                          ELSE IF body[i + 1] = qt /\ i + 2 <= Len(body) THEN <<qt>> \o F[i + 2] ELSE <<body[i + 1]>> \o F[i + 1]
                  IN F[0]
PlainInt(text) == LET t == IF Len(text) >= 1 /\ text[1] \in {43, 45} THEN Tail(text) ELSE text IN
                  Len(t) >= 1 /\ Len(t) <= 9 /\ \A i \in 1..Len(t) : t[i] \in 48..57
IntValue(text) == LET neg == text[1] = 45
                      t == IF text[1] \in {43, 45} THEN Tail(text) ELSE text
                      v == DecVal(t, 1, Len(t), 0) IN IF neg THEN 0 - v ELSE v
AnyVal == <<0 - 1>>           \* "not compared": the value is another property's business (C04)
RECURSIVE DecStrP(_)
DecStrP(n) == IF n < 10 THEN <<48 + n>> ELSE DecStrP(n \div 10) \o <<48 + (n % 10)>>
DecP(n) == IF n < 0 THEN <<45>> \o DecStrP(0 - n) ELSE DecStrP(n)
Delivered(kind, tok, text, choices) ==
  IF kind = "text" THEN Unquote(text, text[1])
  ELSE IF kind = "chars" THEN (IF tok.type \in StringTypes THEN SubSeq(text, 2, Len(text) - 1) ELSE text)
  ELSE IF kind = "block" THEN text
  ELSE IF kind \in {"num", "tshort"} THEN AnyVal
  ELSE IF kind = "choice" THEN DecP(ChoiceTag(choices, text))
  ELSE IF kind = "bool" THEN (IF tok.type = "MNEMONIC" THEN DecP(ChoiceTag(ChoiceOnOff, text))
                             ELSE IF PlainInt(text) THEN (IF IntValue(text) = 0 THEN <<48>> ELSE <<49>>) ELSE AnyVal)
  ELSE IF tok.type = "DECIMAL" /\ PlainInt(text) /\ (kind \notin {"u32", "u64"} \/ IntValue(text) >= 0) THEN DecP(IntValue(text))
  ELSE AnyVal

-----------------------------------------------------------------------------
(* C06 / C17: result items *)
RECURSIVE DecStr(_)
DecStr(n) == IF n < 10 THEN <<48 + n>> ELSE DecStr(n \div 10) \o <<48 + (n % 10)>>
Dec(n) == IF n < 0 THEN <<45>> \o DecStr(0 - n) ELSE DecStr(n)
RECURSIVE EscDq(_)
EscDq(s) == IF s = <<>> THEN <<>> ELSE (IF Head(s) = 34 THEN <<34, 34>> ELSE <<Head(s)>>) \o EscDq(Tail(s))
BlockHeader(n) == <<35, 48 + Len(DecStr(n))>> \o DecStr(n)
DecA(n) == Dec(n)
(* C17: array elements are given as big-endian byte sequences (most significant byte first), whatever the host is *)
RECURSIVE Reverse(_)
Reverse(s) == IF s = <<>> THEN <<>> ELSE Reverse(Tail(s)) \o <<Head(s)>>
RECURSIVE BeValue(_, _)
BeValue(bs, acc) == IF bs = <<>> THEN acc ELSE BeValue(Tail(bs), acc * 256 + Head(bs))
ElemValue(bs, signed) == LET u == BeValue(bs, 0) IN IF signed /\ bs[1] >= 128 THEN u - (IF Len(bs) = 1 THEN 256 ELSE 65536) ELSE u
FmtAscii == 0  FmtNormal == 1  FmtSwapped == 2
(* result items of one array result: one block for the binary formats, one decimal item per element for ASCII *)
ArrayItems(kind, fmt, elems) ==
  IF fmt = FmtAscii THEN [i \in 1..Len(elems) |-> DecA(ElemValue(elems[i], kind \in {"ai8", "ai16"}))]
  ELSE LET data == Flatten([i \in 1..Len(elems) |-> IF fmt = FmtNormal THEN elems[i] ELSE Reverse(elems[i])]) IN
       <<BlockHeader(Len(data)) \o data>>
ItemBytes(kind, v) ==
  IF kind = "i32" THEN Dec(v)
  ELSE IF kind = "bool" THEN (IF v = 0 THEN <<48>> ELSE <<49>>)
  ELSE IF kind = "text" THEN <<34>> \o EscDq(v) \o <<34>>
  ELSE IF kind = "mnem" THEN v
  ELSE IF kind = "blk"  THEN BlockHeader(Len(v)) \o v
  ELSE <<>>

-----------------------------------------------------------------------------
(* One unit: run the handler script against the items of a well-formed parameter list.               *)
(* op = <<"p", kind, mandatory>> | <<"r", kind, value>> | <<"bh", n>> | <<"bd", bytes>> | <<"e", code>> *)
(* st: cur (next item), items written (seq of byte seqs), cur item under construction (streamed block),*)
(*     errs, params (log of reader calls), failed                                                     *)
St0 == [cur |-> 1, items |-> <<>>, open |-> FALSE, obytes |-> <<>>, arb |-> 0, errs |-> <<>>, params |-> <<>>, failed |-> FALSE, stop |-> FALSE, alt |-> FALSE, wild |-> FALSE]
(* SCPI_ParamArray<kind>(up to n elements, mandatory): element reads of that kind, the first as mandatory as the    *)
(* call, the others optional; it ends at the first element that is not delivered and fails only when not even    *)
(* a mandatory first element was delivered.  The log gets one entry per delivered element and a closing entry     *)
(* "pa" with the result and the count.                                                                            *)
RECURSIVE ArrayRead(_, _, _, _, _, _, _, _, _)
ArrayRead(kind, n, mand, stopOnFail, msg, toks, choices, st, cnt) ==
  LET Fin(s, ok) == [s EXCEPT !.params = Append(@, [kind |-> "pa", ok |-> ok, val |-> DecP(cnt)]),
                              !.failed = @ \/ ~ok, !.stop = @ \/ (~ok /\ stopOnFail)] IN
  IF cnt >= n THEN Fin(st, ~(mand /\ cnt = 0))
  ELSE IF st.cur > Len(toks) THEN
       (IF mand /\ cnt = 0 THEN Fin([st EXCEPT !.errs = Append(@, 0 - 109)], FALSE) ELSE Fin(st, TRUE))
  ELSE LET tk == toks[st.cur]
           text == Slice(msg, tk.start, tk.len)
           oc == ReaderOutcome(kind, tk, text, choices) IN
       IF oc = 0
       THEN ArrayRead(kind, n, mand, stopOnFail, msg, toks, choices,
                      [st EXCEPT !.cur = @ + 1, !.params = Append(@, [kind |-> kind, ok |-> TRUE, val |-> Delivered(kind, tk, text, choices)])], cnt + 1)
       ELSE Fin([st EXCEPT !.cur = @ + 1, !.errs = Append(@, oc), !.alt = @ \/ OutcomeAlternatives(kind, tk) # {}], ~(mand /\ cnt = 0))

RECURSIVE RunOps(_, _, _, _, _, _)
RunOps(ops, stopOnFail, msg, toks, choices, st) ==
  IF ops = <<>> \/ st.stop THEN st ELSE
  LET o == Head(ops) rest == Tail(ops) IN
  IF o[1] = "r" /\ Len(o) = 5 THEN RunOps(rest, stopOnFail, msg, toks, choices, [st EXCEPT !.items = @ \o ArrayItems(o[2], o[3], o[5])])
  ELSE IF o[1] = "r" THEN RunOps(rest, stopOnFail, msg, toks, choices, [st EXCEPT !.items = Append(@, ItemBytes(o[2], o[3]))])
  ELSE IF o[1] = "bh" THEN      \* an empty block is complete with its header
       (IF o[2] = 0 THEN RunOps(rest, stopOnFail, msg, toks, choices, [st EXCEPT !.items = Append(@, BlockHeader(0)), !.open = FALSE, !.obytes = <<>>, !.arb = 0])
        ELSE RunOps(rest, stopOnFail, msg, toks, choices, [st EXCEPT !.open = TRUE, !.obytes = BlockHeader(o[2]), !.arb = o[2]]))
  ELSE IF o[1] = "bd" THEN
       (IF Len(o[2]) > st.arb
        THEN RunOps(rest, stopOnFail, msg, toks, choices, [st EXCEPT !.errs = Append(@, AnyErr)])       \* refused with an error, nothing emitted
        ELSE LET nb == st.obytes \o o[2] left == st.arb - Len(o[2]) IN
             IF left = 0 /\ st.open
             THEN RunOps(rest, stopOnFail, msg, toks, choices, [st EXCEPT !.items = Append(@, nb), !.open = FALSE, !.obytes = <<>>, !.arb = 0])
             ELSE RunOps(rest, stopOnFail, msg, toks, choices, [st EXCEPT !.obytes = nb, !.arb = left]))
  ELSE IF o[1] = "e" THEN RunOps(rest, stopOnFail, msg, toks, choices, [st EXCEPT !.errs = Append(@, o[2])])
  ELSE IF o[1] = "q" THEN RunOps(rest, stopOnFail, msg, toks, choices, st)     \* the handler pops one error: no effect on this unit
  ELSE IF o[1] = "pa" THEN RunOps(rest, stopOnFail, msg, toks, choices, ArrayRead(o[2], o[3], o[4], stopOnFail, msg, toks, choices, st, 0))
  ELSE IF o[1] = "x" THEN     \* "apply every API": takes the next item if there is one; what it emits / reports is not specified
       RunOps(rest, stopOnFail, msg, toks, choices,
              [st EXCEPT !.cur = IF st.cur > Len(toks) THEN @ ELSE @ + 1, !.wild = @ \/ st.cur <= Len(toks),
                         !.params = Append(@, [kind |-> "x", ok |-> st.cur <= Len(toks), val |-> AnyVal])])
  ELSE \* parameter read
    IF st.cur > Len(toks) THEN
       (IF o[3] THEN LET s2 == [st EXCEPT !.errs = Append(@, 0 - 109), !.failed = TRUE, !.stop = stopOnFail,
                                          !.params = Append(@, [kind |-> o[2], ok |-> FALSE, val |-> <<>>])] IN
                     RunOps(rest, stopOnFail, msg, toks, choices, s2)
        ELSE RunOps(rest, stopOnFail, msg, toks, choices, [st EXCEPT !.params = Append(@, [kind |-> o[2], ok |-> FALSE, val |-> <<>>])]))
    ELSE LET tk == toks[st.cur]
             text == Slice(msg, tk.start, tk.len)
             oc == ReaderOutcome(o[2], tk, text, choices) IN
         IF oc = 0
         THEN RunOps(rest, stopOnFail, msg, toks, choices,
                     [st EXCEPT !.cur = @ + 1, !.params = Append(@, [kind |-> o[2], ok |-> TRUE, val |-> Delivered(o[2], tk, text, choices)])])
         ELSE RunOps(rest, stopOnFail, msg, toks, choices,
                     [st EXCEPT !.cur = @ + 1, !.errs = Append(@, oc), !.failed = TRUE, !.stop = stopOnFail,
                                !.alt = @ \/ OutcomeAlternatives(o[2], tk) # {},
                                !.params = Append(@, [kind |-> o[2], ok |-> FALSE, val |-> <<>>])])

(* script = [ops, ret, stop]; a handler that stops at a failed reader returns an error, as handlers do *)
RunUnit(script, msg, toks, choices) ==
  LET st    == RunOps(script.ops, script.stop, msg, toks, choices, St0)
      retOk == script.ret /\ ~st.stop
      errs2 == IF ~retOk /\ st.errs = <<>> THEN <<0 - 200>>                                   \* fails without reporting
               ELSE IF st.errs = <<>> /\ st.cur <= Len(toks) THEN <<0 - 108>>                  \* parameters left unread
               ELSE st.errs
  IN [items |-> st.items, errs |-> errs2, params |-> st.params, alt |-> st.alt, wild |-> st.wild,
      partial |-> st.open,      \* a block was announced and not completed: not a result item
      pbytes |-> st.obytes]

-----------------------------------------------------------------------------
(* One message: unit loop.  acc: log (handler invocations), units (item lists of responding units),  *)
(* errs, weird (text that is not a well-formed unit was met: the rest is only constrained relationally) *)
Acc0 == [log |-> <<>>, units |-> <<>>, errs |-> <<>>, weird |-> FALSE, weirdAt |-> 0, alt |-> FALSE, partial |-> FALSE, pbytes |-> <<>>, wild |-> FALSE]
RECURSIVE RunUnits(_, _, _, _, _, _, _)
RunUnits(table, scripts, choices, msg, pos, prev, acc) ==
  IF pos > Len(msg) \/ acc.weird THEN acc ELSE
  LET u == DetectUnit(msg, pos) IN
  IF ~u.valid \/ (u.header.len > 0 /\ ~u.accepted) \/ u.incomplete
  THEN [acc EXCEPT !.weird = TRUE, !.weirdAt = pos]
  ELSE IF u.header.len = 0 THEN RunUnits(table, scripts, choices, msg, u.next, prev, acc)          \* empty unit
  ELSE LET hdr == Slice(msg, u.header.start, u.header.len)
           eff == Effective(prev, hdr)
           k   == FirstMatch(table, eff) IN
       IF k = 0
       THEN RunUnits(table, scripts, choices, msg, u.next, eff,
                     [acc EXCEPT !.errs = Append(@, 0 - 113),
                                 !.log = Append(@, [tag |-> 0, eff |-> eff, hdr |-> hdr, params |-> <<>>, nitems |-> 0, nerrs |-> 1, pat |-> <<>>])])
       ELSE LET r == RunUnit(scripts[table[k].tag], msg, u.items, choices) IN
            RunUnits(table, scripts, choices, msg, u.next, eff,
                     [acc EXCEPT !.errs = @ \o r.errs, !.alt = @ \/ r.alt, !.partial = @ \/ r.partial, !.wild = @ \/ r.wild,
                                 !.pbytes = IF r.partial /\ ~acc.partial /\ acc.units = <<>> /\ r.items = <<>> THEN r.pbytes ELSE @,
                                 !.units = IF r.items = <<>> THEN @ ELSE Append(@, r.items),
                                 !.log = Append(@, [tag |-> table[k].tag, eff |-> eff, hdr |-> hdr, params |-> r.params,
                                                    nitems |-> Len(r.items), nerrs |-> Len(r.errs), pat |-> table[k].pat])])

NL == <<13, 10>>
Framing(units) == IF units = <<>> THEN <<>>
                  ELSE JoinWith(59, [i \in 1..Len(units) |-> JoinWith(44, units[i])]) \o NL
RunMsg(table, scripts, choices, msg) ==
  LET a == RunUnits(PreTable(table), scripts, choices, msg, 1, <<>>, Acc0) IN
  [log |-> a.log, out |-> Framing(a.units), flush |-> IF a.units = <<>> THEN 0 ELSE 1,
   errs |-> a.errs, ret |-> a.errs = <<>>, weird |-> a.weird, weirdAt |-> a.weirdAt, alt |-> a.alt, partial |-> a.partial,
   nresp |-> Len(a.units), wild |-> a.wild,
   pbytes |-> a.pbytes]        \* first thing written by the message, if that is an unfinished block: header and data so far

-----------------------------------------------------------------------------
(* C08: the input buffer.  FirstMsgEnd(b) = number of bytes of the first complete message in b, 0 if none *)
OpenString(b, u) == ~u.dataOk /\ ~u.incomplete /\ u.header.len > 0 /\ StringIncomplete(b, u.dataEnd)
RECURSIVE ScanMsg(_, _)
ScanMsg(b, pos) ==
  IF pos > Len(b) THEN 0 ELSE
  LET u == DetectUnit(b, pos) IN
  IF u.incomplete \/ OpenString(b, u) THEN 0             \* an unterminated block / string swallows the rest
  ELSE IF u.term = "NL" THEN u.next - 1
  ELSE IF u.next > Len(b) THEN 0
  ELSE ScanMsg(b, u.next)
FirstMsgEnd(b) == ScanMsg(b, 1)

(* trigger of the known deviation "quoted new line": the pending bytes end inside an open string that holds a line terminator *)
RECURSIVE OpenStringNL(_, _)
OpenStringNL(b, pos) ==
  IF pos > Len(b) THEN FALSE ELSE
  LET u == DetectUnit(b, pos) IN
  IF OpenString(b, u) THEN \E i \in u.dataEnd..Len(b) : b[i] \in {10, 13}
  ELSE IF u.incomplete \/ u.next > Len(b) THEN FALSE
  ELSE OpenStringNL(b, u.next)

(* all complete messages of a pending buffer, and the remainder *)
RECURSIVE SplitMsgs(_, _)
SplitMsgs(b, acc) == LET e == FirstMsgEnd(b) IN
  IF e = 0 THEN [msgs |-> acc, rest |-> b] ELSE SplitMsgs(SubSeq(b, e + 1, Len(b)), Append(acc, SubSeq(b, 1, e)))

(* one input call on pending bytes `pend` with buffer capacity cap: *)
(*   kind "ovr": overrun, buffer reset, -363, FALSE; "flush": pending executed as one message; "data" *)
InputCall(pend, cap, chunk) ==
  IF chunk = <<>> THEN [kind |-> "flush", msgs |-> IF pend = <<>> THEN <<>> ELSE <<pend>>, rest |-> <<>>]
  ELSE IF Len(pend) + Len(chunk) > cap - 1 THEN [kind |-> "ovr", msgs |-> <<>>, rest |-> <<>>]
  ELSE LET s == SplitMsgs(pend \o chunk, <<>>) IN [kind |-> "data", msgs |-> s.msgs, rest |-> s.rest]
=============================================================================
