INIT Init
NEXT GenNext
CONSTANTS
 Cap = 2
 Ops <- OpsA
CHECK_DEADLOCK FALSE
