----------------------------- MODULE ScpiLexer -----------------------------
(* Token syntax of IEEE 488.2 section 7 (program messages) as used by SCPI.        *)
(*                                                                                 *)
(* buf is a sequence of bytes (0..255); positions are 1-based; a cursor value      *)
(* Len(buf)+1 means "end of input".  Every recogniser is given twice:              *)
(*   G_x(s)      declarative membership of the byte sequence s in the token        *)
(*               language (regular-language style, from the syntax diagrams),      *)
(*   Lex_x(b,p)  the longest-prefix function (b, p) -> token record used by the    *)
(*               other modules.                                                    *)
(* MCLexer model-checks  Lex_x(b,p) = LongestPrefix(G_x, b, p)  and the cursor /   *)
(* extent invariants.  Documented leniencies of the library: white space is blank  *)
(* and tab only; mnemonics are not limited to 12 characters; relaxed suffix        *)
(* syntax; definite-length blocks only; flat expressions; CR, LF or CR LF as line  *)
(* terminator.                                                                     *)
(*                                                                                 *)
(* Operators whose name ends in X take a set dev of named deviations (known        *)
(* findings of the implementation, see DESIGN.md 5.4); the plain names are the     *)
(* intended behaviour (dev = {}).                                                  *)
EXTENDS Integers, Sequences, FiniteSets

(* ---------------------------------------------------------------- classes *)
Upper == 65..90
Lower == 97..122
Alpha == Upper \cup Lower
Digit == 48..57
NonZero == 49..57
AlnumU == Alpha \cup Digit \cup {95}
WS == {32, 9}
WS488 == (0..9) \cup (11..32)       \* what 488.2 7.4.1.2 calls white space (not used: library subset is WS)
HexDigit == Digit \cup (65..70) \cup (97..102)
OctDigit == 48..55
BinDigit == {48, 49}
Sign == {43, 45}
ExpE == {69, 101}
Ascii7 == 0..127
ExprChar == (32..126) \ {34, 35, 39, 40, 41, 59}

(* ---------------------------------------------------------------- helpers *)
End(b) == Len(b) + 1
At(b, p) == IF p >= 1 /\ p <= Len(b) THEN b[p] ELSE -1
AllIn(s, S) == \A i \in 1..Len(s) : s[i] \in S
Front(s) == SubSeq(s, 1, Len(s) - 1)
MaxOf(S) == CHOOSE x \in S : \A y \in S : y <= x
MinOf(S) == CHOOSE x \in S : \A y \in S : x <= y

RECURSIVE SkipWhile(_, _, _)
SkipWhile(b, p, S) == IF p <= Len(b) /\ b[p] \in S THEN SkipWhile(b, p + 1, S) ELSE p
SkipOpt(b, p, S) == IF At(b, p) \in S THEN p + 1 ELSE p

Tok(t, s, l, n) == [type |-> t, start |-> s, len |-> l, next |-> n]
None(p) == Tok("UNKNOWN", p, 0, p)

RECURSIVE DecVal(_, _, _, _)
DecVal(b, p, n, acc) == IF n = 0 THEN acc ELSE DecVal(b, p + 1, n - 1, acc * 10 + (b[p] - 48))

(* longest n >= 1 such that the n bytes from p are in the language G; 0 if none *)
LongestPrefix(G(_), b, p) ==
  LET C == {n \in 1..(Len(b) + 1 - p) : G(SubSeq(b, p, p + n - 1))} IN IF C = {} THEN 0 ELSE MaxOf(C)

(* =============================================================== GRAMMARS *)
G_WS(s) == Len(s) >= 1 /\ AllIn(s, WS)

(* 7.6.1.2 <program mnemonic> *)
G_Mnemonic(s) == Len(s) >= 1 /\ s[1] \in Alpha /\ AllIn(s, AlnumU)

(* 7.6.1 / 7.6.2 headers: common  *MNEM ;  simple / compound  [:]MNEM(:MNEM)*  ; query = header ? *)
G_CommonCmd(s) == Len(s) >= 2 /\ s[1] = 42 /\ G_Mnemonic(Tail(s))
G_CompoundCmd(s) ==
  /\ Len(s) >= 1
  /\ AllIn(s, AlnumU \cup {58})
  /\ s[1] \in Alpha \cup {58}
  /\ \A i \in 1..Len(s) : s[i] = 58 => (i < Len(s) /\ s[i + 1] \in Alpha)
Query(G(_), s) == Len(s) >= 2 /\ s[Len(s)] = 63 /\ G(Front(s))
G_Header(s) == G_CommonCmd(s) \/ Query(G_CommonCmd, s) \/ G_CompoundCmd(s) \/ Query(G_CompoundCmd, s)
HeaderType(s) == IF G_CommonCmd(s) THEN "COMMON" ELSE IF Query(G_CommonCmd, s) THEN "COMMON_QUERY"
                 ELSE IF G_CompoundCmd(s) THEN "COMPOUND" ELSE IF Query(G_CompoundCmd, s) THEN "COMPOUND_QUERY" ELSE "UNKNOWN"
(* non-empty prefixes of headers ("header-like"): a prefix that is not itself a header ends in '*' or ':' *)
G_HeaderPrefix(s) == Len(s) >= 1 /\ (G_Header(s) \/ (s[Len(s)] \in {42, 58} /\ G_Header(Append(s, 65))))
CompleteHeaderTypes == {"COMMON", "COMMON_QUERY", "COMPOUND", "COMPOUND_QUERY"}
IncompleteHeaderTypes == {"INC_COMMON", "INC_COMPOUND"}

(* 7.7.1 <CHARACTER PROGRAM DATA> *)
G_Char(s) == G_Mnemonic(s)

(* 7.7.2 <DECIMAL NUMERIC PROGRAM DATA>: mantissa [ws* E ws* [sign] digit+] *)
G_Digits(s) == Len(s) >= 1 /\ AllIn(s, Digit)
Unsign(s) == IF Len(s) >= 1 /\ s[1] \in Sign THEN Tail(s) ELSE s
G_Mantissa(s) == LET t == Unsign(s) IN
  /\ AllIn(t, Digit \cup {46})
  /\ Cardinality({i \in 1..Len(t) : t[i] = 46}) <= 1
  /\ \E i \in 1..Len(t) : t[i] \in Digit
G_Exponent(s) ==
  \E i \in 1..Len(s) :
     /\ AllIn(SubSeq(s, 1, i - 1), WS) /\ s[i] \in ExpE
     /\ \E j \in i..Len(s) : AllIn(SubSeq(s, i + 1, j), WS) /\ G_Digits(Unsign(SubSeq(s, j + 1, Len(s))))
G_Decimal(s) == \E m \in 1..Len(s) : G_Mantissa(SubSeq(s, 1, m)) /\ (m = Len(s) \/ G_Exponent(SubSeq(s, m + 1, Len(s))))

(* 7.7.3 <SUFFIX PROGRAM DATA>.  Strict: /? U ((/|.) U)*  with U = alpha+ (-? digit)?          *)
(* Relaxed (library):            /? U0 ((/|.) Un)* with U0 = alpha+ -? digit?, Un = alpha* -? digit? *)
G_UnitTail(t) == t = <<>> \/ (Len(t) = 1 /\ t[1] \in Digit) \/ (Len(t) = 2 /\ t[1] = 45 /\ t[2] \in Digit)
G_UnitTailRelaxed(t) == G_UnitTail(t) \/ t = <<45>>
SegStrict(t) == \E k \in 1..Len(t) : AllIn(SubSeq(t, 1, k), Alpha) /\ G_UnitTail(SubSeq(t, k + 1, Len(t)))
SegRelaxed0(t) == \E k \in 1..Len(t) : AllIn(SubSeq(t, 1, k), Alpha) /\ G_UnitTailRelaxed(SubSeq(t, k + 1, Len(t)))
SegRelaxedN(t) == \E k \in 0..Len(t) : AllIn(SubSeq(t, 1, k), Alpha) /\ G_UnitTailRelaxed(SubSeq(t, k + 1, Len(t)))
Seps(t) == {i \in 1..Len(t) : t[i] \in {47, 46}}
SegAfter(t, i) == LET nx == MinOf({j \in Seps(t) : j > i} \cup {Len(t) + 1}) IN SubSeq(t, i + 1, nx - 1)
SuffixBody(t, First(_), Rest(_)) == First(SegAfter(t, 0)) /\ \A i \in Seps(t) : Rest(SegAfter(t, i))
Unslash(s) == IF Len(s) >= 1 /\ s[1] = 47 THEN Tail(s) ELSE s
G_SuffixStrict(s) == Len(s) >= 1 /\ SuffixBody(Unslash(s), SegStrict, SegStrict)
G_Suffix(s) == Len(s) >= 1 /\ SuffixBody(Unslash(s), SegRelaxed0, SegRelaxedN)

(* 7.7.4 <NONDECIMAL NUMERIC PROGRAM DATA> *)
G_Nondecimal(s) ==
  /\ Len(s) >= 3 /\ s[1] = 35
  /\ \/ s[2] \in {72, 104} /\ AllIn(SubSeq(s, 3, Len(s)), HexDigit)
     \/ s[2] \in {81, 113} /\ AllIn(SubSeq(s, 3, Len(s)), OctDigit)
     \/ s[2] \in {66, 98} /\ AllIn(SubSeq(s, 3, Len(s)), BinDigit)
NondecType(c) == IF c \in {72, 104} THEN "HEXNUM" ELSE IF c \in {81, 113} THEN "OCTNUM" ELSE "BINNUM"

(* 7.7.5 <STRING PROGRAM DATA>: delimiter, 7-bit characters with the delimiter doubled, delimiter. *)
(* Declaratively: every maximal run of the delimiter inside the body has even length.             *)
G_String(s) ==
  /\ Len(s) >= 2 /\ s[1] \in {34, 39} /\ s[Len(s)] = s[1]
  /\ LET q == s[1]
         n == Len(s)
         QCnt(i) == Cardinality({j \in 2..i : s[j] = q})
     IN /\ \A i \in 2..(n - 1) : s[i] \in Ascii7
        /\ \A i \in 2..(n - 1) : s[i] # q => QCnt(i) % 2 = 0
        /\ QCnt(n - 1) % 2 = 0
(* two adjacent delimiters are an inserted delimiter (7.7.5.2), so a string token ends at a     *)
(* delimiter that is NOT followed by another one: the admissible string prefixes at (b, p)      *)
StringAt(b, p, n) == G_String(SubSeq(b, p, p + n - 1)) /\ At(b, p + n) # b[p]

(* 7.7.6 definite length <ARBITRARY BLOCK PROGRAM DATA>: # d digit{d} byte{L} *)
G_Block(s) ==
  /\ Len(s) >= 3 /\ s[1] = 35 /\ s[2] \in NonZero
  /\ LET n == s[2] - 48 IN
       /\ Len(s) >= 2 + n /\ AllIn(SubSeq(s, 3, 2 + n), Digit)
       /\ Len(s) = 2 + n + DecVal(s, 3, n, 0)
(* s is a non-empty proper prefix of a block (the input ends inside the block) *)
G_BlockCut(s) ==
  /\ Len(s) >= 1 /\ s[1] = 35
  /\ \/ Len(s) = 1
     \/ /\ s[2] \in NonZero
        /\ LET n == s[2] - 48 IN
             IF Len(s) < 2 + n THEN AllIn(SubSeq(s, 3, Len(s)), Digit)
             ELSE AllIn(SubSeq(s, 3, 2 + n), Digit) /\ Len(s) < 2 + n + DecVal(s, 3, n, 0)

(* 7.7.7 <EXPRESSION PROGRAM DATA>, flat *)
G_Expr(s) == Len(s) >= 2 /\ s[1] = 40 /\ s[Len(s)] = 41 /\ AllIn(SubSeq(s, 2, Len(s) - 1), ExprChar)

G_NL(s) == s \in {<<13>>, <<10>>, <<13, 10>>}

(* ============================================= LONGEST-PREFIX RECOGNISERS *)
LexWS(b, p) == LET q == SkipWhile(b, p, WS) IN IF q > p THEN Tok("WS", p, q - p, q) ELSE None(p)

Mnemonic(b, p) == IF At(b, p) \in Alpha THEN SkipWhile(b, p + 1, AlnumU) ELSE p

(* Header recogniser with the library's documented INCOMPLETE forms: the token is the longest *)
(* header-like prefix; its type is INC_... when that prefix is not a complete header.          *)
RECURSIVE CompoundTail(_, _)
CompoundTail(b, p) == \* p is just after a mnemonic; result <<end, complete>>
  IF At(b, p) = 58 THEN (IF Mnemonic(b, p + 1) > p + 1 THEN CompoundTail(b, Mnemonic(b, p + 1)) ELSE <<p + 1, FALSE>>)
  ELSE <<p, TRUE>>
LexHeader(b, p) ==
  IF At(b, p) = 42 THEN
     LET m == Mnemonic(b, p + 1) IN
     IF m > p + 1 THEN (IF At(b, m) = 63 THEN Tok("COMMON_QUERY", p, m + 1 - p, m + 1) ELSE Tok("COMMON", p, m - p, m))
     ELSE Tok("INC_COMMON", p, 1, p + 1)
  ELSE
     LET p0 == SkipOpt(b, p, {58})
         m == Mnemonic(b, p0) IN
     IF m > p0 THEN LET t == CompoundTail(b, m) e == t[1] IN
          IF t[2] THEN (IF At(b, e) = 63 THEN Tok("COMPOUND_QUERY", p, e + 1 - p, e + 1) ELSE Tok("COMPOUND", p, e - p, e))
          ELSE Tok("INC_COMPOUND", p, e - p, e)
     ELSE IF p0 > p THEN Tok("INC_COMPOUND", p, 1, p + 1) ELSE None(p)

(* the pure longest-prefix header recogniser (complete headers only) *)
RECURSIVE CompoundEnd(_, _)
CompoundEnd(b, p) == \* p just after a mnemonic: end of the longest (:MNEM)* continuation
  IF At(b, p) = 58 /\ Mnemonic(b, p + 1) > p + 1 THEN CompoundEnd(b, Mnemonic(b, p + 1)) ELSE p
LexHeaderStrict(b, p) ==
  LET p0 == IF At(b, p) \in {42, 58} THEN p + 1 ELSE p
      m == Mnemonic(b, p0) IN
  IF m = p0 THEN None(p)
  ELSE LET e == IF At(b, p) = 42 THEN m ELSE CompoundEnd(b, m)
           e2 == SkipOpt(b, e, {63})
       IN Tok((IF At(b, p) = 42 THEN "COMMON" ELSE "COMPOUND") \o (IF e2 > e THEN "_QUERY" ELSE ""), p, e2 - p, e2)

LexCharData(b, p) == LET m == Mnemonic(b, p) IN IF m > p THEN Tok("MNEMONIC", p, m - p, m) ELSE None(p)

LexDecimal(b, p) ==
  LET p1 == SkipOpt(b, p, Sign)
      p2 == SkipWhile(b, p1, Digit)
      p3 == IF At(b, p2) = 46 THEN SkipWhile(b, p2 + 1, Digit) ELSE p2
      nd == (p2 - p1) + (IF p3 > p2 THEN p3 - p2 - 1 ELSE 0)
      q  == SkipWhile(b, p3, WS)
      q1 == IF At(b, q) \in ExpE THEN SkipOpt(b, SkipWhile(b, q + 1, WS), Sign) ELSE q
      q2 == IF At(b, q) \in ExpE THEN SkipWhile(b, q1, Digit) ELSE q
      e  == IF At(b, q) \in ExpE /\ q2 > q1 THEN q2 ELSE p3
  IN IF nd > 0 THEN Tok("DECIMAL", p, e - p, e) ELSE None(p)

RECURSIVE SuffixTail(_, _)
SuffixTail(b, p) ==
  IF At(b, p) \in {47, 46}
  THEN SuffixTail(b, SkipOpt(b, SkipOpt(b, SkipWhile(b, p + 1, Alpha), {45}), Digit))
  ELSE p
LexSuffix(b, p) ==
  LET p0 == SkipOpt(b, p, {47})
      a  == SkipWhile(b, p0, Alpha) IN
  IF a > p0 THEN LET e == SuffixTail(b, SkipOpt(b, SkipOpt(b, a, {45}), Digit)) IN Tok("SUFFIX", p, e - p, e)
  ELSE None(p)
(* known finding "suffix-bare-slash": a '/' that no unit letter follows is taken as a suffix *)
BareSlash(b, p) == At(b, p) = 47 /\ At(b, p + 1) \notin Alpha
LexSuffixX(b, p, dev) == IF "suffix-bare-slash" \in dev /\ BareSlash(b, p) THEN Tok("SUFFIX", p, 1, p + 1) ELSE LexSuffix(b, p)

LexNondecimal(b, p) ==
  IF At(b, p) = 35 THEN
    LET c == At(b, p + 1)
        S == IF c \in {72, 104} THEN HexDigit ELSE IF c \in {81, 113} THEN OctDigit ELSE IF c \in {66, 98} THEN BinDigit ELSE {}
        e == SkipWhile(b, p + 2, S) IN
    IF S # {} /\ e > p + 2 THEN Tok(NondecType(c), p + 2, e - (p + 2), e) ELSE None(p)
  ELSE None(p)

RECURSIVE QuoteBody(_, _, _)
QuoteBody(b, p, qt) == \* position of the closing quote, or 0 if none
  IF p > Len(b) THEN 0
  ELSE IF b[p] = qt THEN (IF At(b, p + 1) = qt THEN QuoteBody(b, p + 2, qt) ELSE p)
  ELSE IF b[p] >= 0 /\ b[p] <= 127 THEN QuoteBody(b, p + 1, qt)
  ELSE 0
LexString(b, p) ==
  IF At(b, p) \in {34, 39} THEN
    LET c == QuoteBody(b, p + 1, b[p]) IN
    IF c > 0 THEN Tok(IF b[p] = 34 THEN "DQUOTE" ELSE "SQUOTE", p, c + 1 - p, c + 1) ELSE None(p)
  ELSE None(p)
StringIncomplete(b, p) == \* an opened string that the end of input cuts
  At(b, p) \in {34, 39} /\ QuoteBody(b, p + 1, b[p]) = 0
     /\ \A i \in (p + 1)..Len(b) : b[i] <= 127

(* block: three outcomes: token, "INCOMPLETE" (the input ends inside the block; the library *)
(* then swallows the rest so that the caller waits for more input), nothing                  *)
LexBlock(b, p) ==
  IF At(b, p) = 35 THEN
    IF p + 1 > Len(b) THEN Tok("INCOMPLETE", p, 0, End(b))
    ELSE IF b[p + 1] \in NonZero THEN
      LET n == b[p + 1] - 48
          d == SkipWhile(b, p + 2, Digit)
          have == IF d - (p + 2) >= n THEN n ELSE d - (p + 2) IN
      IF have = n THEN
         LET L == DecVal(b, p + 2, n, 0)
             s == p + 2 + n IN
         IF s + L <= End(b) THEN Tok("BLOCK", s, L, s + L) ELSE Tok("INCOMPLETE", p, 0, End(b))
      ELSE IF p + 2 + have > Len(b) THEN Tok("INCOMPLETE", p, 0, End(b))
      ELSE None(p)
    ELSE None(p)
  ELSE None(p)

LexExpr(b, p) ==
  IF At(b, p) = 40 THEN
     LET e == SkipWhile(b, p + 1, ExprChar) IN
     IF At(b, e) = 41 THEN Tok("EXPR", p, e + 1 - p, e + 1) ELSE None(p)
  ELSE None(p)

LexChr(b, p, c, t) == IF At(b, p) = c THEN Tok(t, p, 1, p + 1) ELSE None(p)
LexComma(b, p) == LexChr(b, p, 44, "COMMA")
LexSemicolon(b, p) == LexChr(b, p, 59, "SEMICOLON")
LexColon(b, p) == LexChr(b, p, 58, "COLON")
LexSpecific(b, p, c) == LexChr(b, p, c, "SPECIFIC")
LexNewLine(b, p) ==
  LET q == SkipOpt(b, SkipOpt(b, p, {13}), {10}) IN IF q > p THEN Tok("NL", p, q - p, q) ELSE None(p)

(* ================================== PROGRAM DATA, PARAMETER LIST, MESSAGE UNIT *)
(* one <PROGRAM DATA> with surrounding white space; next = cursor after trailing WS *)
ProgramDataX(b, p, dev) ==
  LET p0 == SkipWhile(b, p, WS)
      nd == LexNondecimal(b, p0)
      ch == LexCharData(b, p0)
      de == LexDecimal(b, p0)
      st == LexString(b, p0)
      bl == LexBlock(b, p0)
      ex == LexExpr(b, p0)
      core ==
        IF nd.len > 0 THEN nd
        ELSE IF ch.len > 0 THEN ch
        ELSE IF de.len > 0 THEN
             LET w == SkipWhile(b, de.next, WS)
                 su == LexSuffixX(b, w, dev) IN
             IF su.len > 0 THEN Tok("DECIMAL_SUFFIX", p0, su.next - p0, su.next) ELSE de
        ELSE IF st.len > 0 THEN st
        ELSE IF bl.type # "UNKNOWN" THEN bl
        ELSE ex
  IN [core EXCEPT !.next = SkipWhile(b, core.next, WS)]
ProgramData(b, p) == ProgramDataX(b, p, {})

(* parameter list: sequence of tokens or failure *)
RECURSIVE DataListX(_, _, _, _)
DataListX(b, p, acc, dev) ==
  LET d == ProgramDataX(b, p, dev) IN
  IF d.type \in {"UNKNOWN", "INCOMPLETE"} THEN [ok |-> FALSE, items |-> acc, next |-> d.next, incomplete |-> d.type = "INCOMPLETE"]
  ELSE IF At(b, d.next) = 44 THEN DataListX(b, d.next + 1, Append(acc, d), dev)
  ELSE [ok |-> TRUE, items |-> Append(acc, d), next |-> d.next, incomplete |-> FALSE]
DataList(b, p, acc) == DataListX(b, p, acc, {})

(* message unit detector: intended semantics.                                                  *)
(*   valid    the unit is ended by ';', a line terminator or the end of input                   *)
(*   hasData  something other than a terminator follows the header separator                    *)
(*   accepted the unit is well formed: complete header, [ws data(,data)*], ended properly       *)
DetectUnitX(b, p, dev) ==
  LET p0 == SkipWhile(b, p, WS)
      h  == LexHeader(b, p0)
      w  == SkipWhile(b, h.next, WS)
      dl == IF h.len > 0 /\ w > h.next THEN DataListX(b, w, <<>>, dev) ELSE [ok |-> TRUE, items |-> <<>>, next |-> w, incomplete |-> FALSE]
      hasData == h.len > 0 /\ w > h.next /\ ~(dl.items = <<>> /\ ~dl.ok /\ ~dl.incomplete /\ dl.next = w)
      q  == IF h.len > 0 /\ w > h.next THEN dl.next ELSE w
      nl == LexNewLine(b, q)
      sc == LexSemicolon(b, q)
      term == IF nl.len > 0 THEN "NL" ELSE IF sc.len > 0 THEN "SEMICOLON" ELSE "NONE"
      e  == IF nl.len > 0 THEN nl.next ELSE IF sc.len > 0 THEN sc.next ELSE q
      valid == term # "NONE" \/ q > Len(b)
  IN [header |-> h, items |-> dl.items, dataOk |-> dl.ok, incomplete |-> dl.incomplete,
      term |-> IF valid THEN term ELSE "NONE", valid |-> valid, next |-> IF valid THEN e ELSE q + 1,
      hasData |-> hasData, dataStart |-> w, dataEnd |-> q,
      accepted |-> valid /\ h.type \in CompleteHeaderTypes /\ (hasData => dl.ok)]
DetectUnit(b, p) == DetectUnitX(b, p, {})

(* ----------------------------------------------- grammar of data, list, unit *)
(* one data element, read with maximal munch on the number (the exponent belongs to the number) *)
G_DecimalSuffix(s) ==
  \E i \in 1..(Len(s) - 1) :
     /\ G_Decimal(SubSeq(s, 1, i)) /\ i = LongestPrefix(G_Decimal, s, 1)
     /\ \E j \in (i + 1)..Len(s) : AllIn(SubSeq(s, i + 1, j - 1), WS) /\ G_Suffix(SubSeq(s, j, Len(s)))
G_Data(s) == \/ G_Nondecimal(s) \/ G_Char(s) \/ G_Decimal(s) \/ G_DecimalSuffix(s)
             \/ G_String(s) \/ G_Block(s) \/ G_Expr(s)
G_Padded(s) == \E i \in 0..Len(s) : \E j \in (i + 1)..Len(s) :
                  AllIn(SubSeq(s, 1, i), WS) /\ G_Data(SubSeq(s, i + 1, j)) /\ AllIn(SubSeq(s, j + 1, Len(s)), WS)
RECURSIVE G_DataList(_)
G_DataList(s) == \/ G_Padded(s)
                 \/ \E c \in 1..Len(s) : s[c] = 44 /\ G_Padded(SubSeq(s, 1, c - 1)) /\ G_DataList(SubSeq(s, c + 1, Len(s)))
G_Term(s) == s = <<>> \/ s = <<59>> \/ G_NL(s)
(* ws* header [ws+ data (ws* , ws* data)*] ws* (';' | NL | end) *)
G_Unit(s) ==
  \E h1 \in 0..Len(s) : /\ AllIn(SubSeq(s, 1, h1), WS)
    /\ \E h2 \in (h1 + 1)..Len(s) : /\ G_Header(SubSeq(s, h1 + 1, h2))
         /\ \E t \in h2..Len(s) : /\ G_Term(SubSeq(s, t + 1, Len(s)))
               /\ LET mid == SubSeq(s, h2 + 1, t) IN AllIn(mid, WS) \/ (mid[1] \in WS /\ G_DataList(mid))

(* ============================================================ LEMMAS (checked by MCLexer) *)
InBounds(t, b, p) ==
  /\ t.next >= p /\ t.next <= End(b)
  /\ t.len >= 0
  /\ (t.type = "UNKNOWN" => t.len = 0 /\ t.next = p)
  /\ (t.len > 0 => t.start >= p /\ t.start + t.len <= t.next)
Agrees(t, G(_), b, p) == (t.next - p) = LongestPrefix(G, b, p) /\ (t.type = "UNKNOWN") = (t.next = p)
L_WS(b, p) == LET t == LexWS(b, p) IN InBounds(t, b, p) /\ Agrees(t, G_WS, b, p) /\ t.len = t.next - p
L_Char(b, p) == LET t == LexCharData(b, p) IN InBounds(t, b, p) /\ Agrees(t, G_Char, b, p) /\ t.len = t.next - p
L_Decimal(b, p) == LET t == LexDecimal(b, p) IN InBounds(t, b, p) /\ Agrees(t, G_Decimal, b, p) /\ t.len = t.next - p
L_Suffix(b, p) == LET t == LexSuffix(b, p) IN
  /\ InBounds(t, b, p) /\ Agrees(t, G_Suffix, b, p) /\ t.len = t.next - p
  /\ LongestPrefix(G_SuffixStrict, b, p) <= t.len /\ (LongestPrefix(G_SuffixStrict, b, p) = 0) = (t.len = 0)
  /\ (t.len > 0 => At(b, p) \in Alpha \/ (At(b, p) = 47 /\ At(b, p + 1) \in Alpha))
  /\ LexSuffixX(b, p, {}) = t
L_Nondecimal(b, p) == LET t == LexNondecimal(b, p) IN
  /\ InBounds(t, b, p) /\ Agrees(t, G_Nondecimal, b, p)
  /\ (t.len > 0 => t.start = p + 2 /\ t.start + t.len = t.next /\ t.type = NondecType(b[p + 1]))
L_String(b, p) == LET t == LexString(b, p)
                      C == {n \in 1..(Len(b) + 1 - p) : StringAt(b, p, n)} IN
  /\ InBounds(t, b, p)
  /\ Cardinality(C) <= 1
  /\ IF C = {} THEN t.type = "UNKNOWN" ELSE t.next - p = MaxOf(C) /\ t.len = t.next - p /\ t.start = p /\ t.type = (IF b[p] = 34 THEN "DQUOTE" ELSE "SQUOTE")
  /\ (StringIncomplete(b, p) => t.type = "UNKNOWN")
L_Block(b, p) == LET t == LexBlock(b, p)
                     C == {n \in 1..(Len(b) + 1 - p) : G_Block(SubSeq(b, p, p + n - 1))} IN
  /\ t.next >= p /\ t.next <= End(b) /\ Cardinality(C) <= 1
  /\ (t.type = "BLOCK") = (C # {})
  /\ (t.type = "BLOCK" => t.next - p = MaxOf(C) /\ t.start = p + 2 + (b[p + 1] - 48) /\ t.start + t.len = t.next)
  /\ (t.type = "INCOMPLETE") = G_BlockCut(SubSeq(b, p, Len(b)))
  /\ (t.type = "INCOMPLETE" => t.next = End(b) /\ t.len = 0)
  /\ (t.type = "UNKNOWN" => t = None(p))
  /\ t.type \in {"BLOCK", "INCOMPLETE", "UNKNOWN"}
L_Expr(b, p) == LET t == LexExpr(b, p) IN InBounds(t, b, p) /\ Agrees(t, G_Expr, b, p) /\ t.len = t.next - p
L_Seps(b, p) ==
  /\ LET t == LexComma(b, p) IN InBounds(t, b, p) /\ Agrees(t, LAMBDA s : s = <<44>>, b, p)
  /\ LET t == LexSemicolon(b, p) IN InBounds(t, b, p) /\ Agrees(t, LAMBDA s : s = <<59>>, b, p)
  /\ LET t == LexColon(b, p) IN InBounds(t, b, p) /\ Agrees(t, LAMBDA s : s = <<58>>, b, p)
  /\ LET t == LexNewLine(b, p) IN InBounds(t, b, p) /\ Agrees(t, G_NL, b, p) /\ t.len = t.next - p
L_Header(b, p) == LET t == LexHeader(b, p)
                      s == LexHeaderStrict(b, p)
                      ext == SubSeq(b, p, t.next - 1) IN
  /\ InBounds(t, b, p) /\ InBounds(s, b, p)
  /\ Agrees(s, G_Header, b, p) /\ s.len = s.next - p
  /\ (s.len > 0 => s.type = HeaderType(SubSeq(b, p, s.next - 1)))
  /\ Agrees(t, G_HeaderPrefix, b, p) /\ t.len = t.next - p
  /\ (t.type \in CompleteHeaderTypes) = (t.len > 0 /\ G_Header(ext))
  /\ (t.type \in CompleteHeaderTypes => t = s)
  /\ (t.type \in IncompleteHeaderTypes => s.len < t.len /\ (t.type = "INC_COMMON") = (b[p] = 42))
  /\ t.type \in CompleteHeaderTypes \cup IncompleteHeaderTypes \cup {"UNKNOWN"}

(* program data: the alternatives exclude each other, the chain yields the one that matches *)
L_ProgramData(b, p) ==
  LET p0 == p + LongestPrefix(G_WS, b, p)
      nND == LongestPrefix(G_Nondecimal, b, p0)
      nCH == LongestPrefix(G_Char, b, p0)
      nDE == LongestPrefix(G_Decimal, b, p0)
      CS == {n \in 1..(Len(b) + 1 - p0) : StringAt(b, p0, n)}
      nST == IF CS = {} THEN 0 ELSE MaxOf(CS)
      nBL == LongestPrefix(G_Block, b, p0)
      cut == G_BlockCut(SubSeq(b, p0, Len(b)))
      nEX == LongestPrefix(G_Expr, b, p0)
      wS == (p0 + nDE) + LongestPrefix(G_WS, b, p0 + nDE)
      nSU == IF nDE > 0 THEN LongestPrefix(G_Suffix, b, wS) ELSE 0
      hits == {k \in {"nd", "ch", "de", "st", "bl", "cut", "ex"} :
                 CASE k = "nd" -> nND > 0 [] k = "ch" -> nCH > 0 [] k = "de" -> nDE > 0 [] k = "st" -> nST > 0
                   [] k = "bl" -> nBL > 0 [] k = "cut" -> cut [] k = "ex" -> nEX > 0}
      core == IF nND > 0 THEN <<NondecType(At(b, p0 + 1)), p0 + 2, nND - 2, p0 + nND>>
              ELSE IF nCH > 0 THEN <<"MNEMONIC", p0, nCH, p0 + nCH>>
              ELSE IF nDE > 0 THEN (IF nSU > 0 THEN <<"DECIMAL_SUFFIX", p0, wS + nSU - p0, wS + nSU>> ELSE <<"DECIMAL", p0, nDE, p0 + nDE>>)
              ELSE IF nST > 0 THEN <<IF b[p0] = 34 THEN "DQUOTE" ELSE "SQUOTE", p0, nST, p0 + nST>>
              ELSE IF nBL > 0 THEN <<"BLOCK", p0 + 2 + (b[p0 + 1] - 48), nBL - 2 - (b[p0 + 1] - 48), p0 + nBL>>
              ELSE IF cut THEN <<"INCOMPLETE", p0, 0, End(b)>>
              ELSE IF nEX > 0 THEN <<"EXPR", p0, nEX, p0 + nEX>>
              ELSE <<"UNKNOWN", p0, 0, p0>>
      d == ProgramData(b, p)
  IN /\ Cardinality(hits) <= 1
     /\ <<d.type, d.start, d.len>> = <<core[1], core[2], core[3]>>
     /\ d.next = core[4] + LongestPrefix(G_WS, b, core[4])
     /\ d.next >= p /\ d.next <= End(b)
     /\ (d.type \notin {"UNKNOWN", "INCOMPLETE"} => d.len > 0 /\ d.start >= p0 /\ d.start + d.len <= d.next)

(* a whole string is one well-formed unit exactly when the detector accepts all of it *)
L_Unit(b) == LET u == DetectUnit(b, 1) IN
  /\ G_Unit(b) = (u.accepted /\ u.next = End(b))
  /\ u.next >= 1 /\ u.next <= End(b) /\ (Len(b) > 0 => u.next > 1)
  /\ (u.accepted => u.header.start >= 1 /\ u.header.next <= u.dataStart /\ u.dataStart <= u.dataEnd /\ u.dataEnd <= u.next)
  /\ (u.incomplete => u.next = End(b) /\ ~u.accepted)
L_UnitAt(b, p) == LET u == DetectUnit(b, p) IN
  /\ u.next >= p /\ u.next <= End(b) /\ (p <= Len(b) => u.next > p)
  /\ (u.accepted => G_Unit(SubSeq(b, p, u.next - 1)))
(* the data list is accepted exactly when it is a list of the grammar *)
L_DataList(b) == LET dl == DataList(b, 1, <<>>) IN
  /\ (G_DataList(b) = (dl.ok /\ dl.next = End(b)))
  /\ dl.next >= 1 /\ dl.next <= End(b)

(* ===================================================== API PROJECTION *)
(* What the C interface reports for a token: [ret, type, off, len, cur] with 0-based offsets.  *)
(* ret = bytes consumed, off/len = extent of the token, cur = cursor after the call.           *)
TypeNames == <<"COMMA", "SEMICOLON", "COLON", "SPECIFIC", "QUESTION", "NL", "HEXNUM", "OCTNUM", "BINNUM", "MNEMONIC",
               "DECIMAL", "DECIMAL_SUFFIX", "SUFFIX", "BLOCK", "SQUOTE", "DQUOTE", "EXPR", "COMPOUND", "INC_COMPOUND",
               "COMMON", "INC_COMMON", "COMPOUND_QUERY", "COMMON_QUERY", "WS", "ALL", "INVALID", "UNKNOWN">>
TermNames == <<"NONE", "NL", "SEMICOLON">>

(* bytes of white space that known finding "decimal-ws-uncounted" leaves out of the reported   *)
(* length: the blanks consumed after a number while probing for a suffix that is not there     *)
UncountedWs(b, d) == IF d.type = "DECIMAL" THEN SkipWhile(b, d.start + d.len, WS) - (d.start + d.len) ELSE 0
RECURSIVE SumUncounted(_, _, _)
SumUncounted(b, items, i) == IF i > Len(items) THEN 0 ELSE UncountedWs(b, items[i]) + SumUncounted(b, items, i + 1)
=============================================================================
