SPECIFICATION Spec
INVARIANT GreedyIsLongest
INVARIANT WellFormedAgree
INVARIANT SplitAgreesWithScan
INVARIANT Tolerance
INVARIANT NoIntroNoEntries
INVARIANT Monotone
INVARIANT NoMoreFromCount
INVARIANT Capacity
INVARIANT Exclusive
INVARIANT Denotation
INVARIANT VerdictAcceptsEntry
INVARIANT VerdictMalformed
CHECK_DEADLOCK FALSE
