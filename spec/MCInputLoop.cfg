SPECIFICATION Spec
CONSTANTS
 Cap = 8
INVARIANT TypeOK
PROPERTY Returns
PROPERTY PathEmptyAtMessageStart
CHECK_DEADLOCK FALSE
