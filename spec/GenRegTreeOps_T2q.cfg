INIT TInit
NEXT GenNext
CONSTANTS
 TOps <- OpsT2q
CHECK_DEADLOCK FALSE
