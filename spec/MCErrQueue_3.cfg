SPECIFICATION QSpecMC
CONSTANTS
 Cap = 3
 Codes <- CodesDef
 Texts <- TextsDef
 MaxLen = 0
 MaxLimit = 0
INVARIANT Bounded
INVARIANT Ownership
INVARIANT DistinctIds
INVARIANT TextsIntact
PROPERTY OverflowMarks
PROPERTY PopIsOldest
PROPERTY ReleasedOnce
CHECK_DEADLOCK FALSE
