INIT TInit
NEXT GenNext
CONSTANTS
 TOps <- OpsT1
CHECK_DEADLOCK FALSE
