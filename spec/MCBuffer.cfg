SPECIFICATION Spec
CONSTANTS
 MaxText = 6
 MaxLen = 16
INVARIANT GoodConform
INVARIANT GoodComplete
INVARIANT D7Exact
INVARIANT D8aExact
INVARIANT D8bExact
CHECK_DEADLOCK FALSE
