SPECIFICATION Spec
CONSTANTS
 MaxLen = 6
 NegLen = 2
 Exps <- ExpsSix
 Precs <- PrecsSix
INVARIANT Lemmas
CHECK_DEADLOCK FALSE
