SPECIFICATION SpecN
CONSTANTS
 Cap = 2
 Ops <- OpsN
 NestedOps <- NestedN
 SrqOps = {}
INVARIANT StbCoherent
INVARIANT QueueBounded
INVARIANT NoSrqWhileClear
PROPERTY Sticky
PROPERTY Latch
PROPERTY PushSetsClassBit
PROPERTY NestedSetsClassBit
PROPERTY SrqOnRise
PROPERTY FifoOrder
VIEW View
CHECK_DEADLOCK FALSE
