SPECIFICATION Spec
CONSTANT N = 7
CONSTANT AlphaSet <- A_blk
CONSTANT Which <- W_blk
INVARIANT Lemmas
CHECK_DEADLOCK FALSE
