----------------------------- MODULE TVRoundTrip -----------------------------
(* C07: every value the library formats as a result decodes back to the same  *)
(* value.  A record holds the value, the bytes SCPI_Result* emitted for it    *)
(* and what the matching SCPI_Param* reader decoded when those bytes were     *)
(* sent back as a parameter.  The specification requires: the emitted bytes   *)
(* are the canonical text (ScpiFormat / ScpiParser), they are exactly one     *)
(* program-data token of the right type (ScpiLexer), the reader succeeded     *)
(* without queuing an error, and the decoded value equals the original.       *)
EXTENDS ScpiParser, Json, IOUtils
F == INSTANCE ScpiFormat
G == INSTANCE ScpiGFormat
T == ndJsonDeserialize(IOEnv.TRACE)
VARIABLE l
Init == l \in 1..Len(T)
Next == UNCHANGED l
Spec == Init /\ [][Next]_l
Rec == T[l]
Prefix(base) == IF base = 16 THEN <<35, 72>> ELSE IF base = 8 THEN <<35, 81>> ELSE IF base = 2 THEN <<35, 66>> ELSE <<>>
TokType(base) == IF base = 16 THEN "HEXNUM" ELSE IF base = 8 THEN "OCTNUM" ELSE IF base = 2 THEN "BINNUM" ELSE "DECIMAL"
Expected ==
  IF Rec.t = "int"  THEN Prefix(Rec.base) \o F!CanonDigits(Rec.v, Rec.w, Rec.base, Rec.sg = 1)
  ELSE IF Rec.t = "bool" THEN (IF Rec.v[4] = 0 THEN <<48>> ELSE <<49>>)
  ELSE IF Rec.t = "text" THEN <<34>> \o EscDq(Rec.v) \o <<34>>
  ELSE BlockHeader(Len(Rec.v)) \o Rec.v
ExpType == IF Rec.t \in {"int", "bool"} THEN TokType(Rec.base) ELSE IF Rec.t = "text" THEN "DQUOTE" ELSE "BLOCK"
OneToken == LET d == ProgramData(Rec.out, 1) IN d.type = ExpType /\ d.next = Len(Rec.out) + 1
(* finite floats / doubles: the emitted text is one decimal token, is accepted, and what it decodes to lies within 0.7 *)
(* unit of the last emitted digit of the original value (half a unit for the rounding of the text, the rest for the     *)
(* conversion of the text to the nearest binary value); the text itself is C16's subject                                *)
FloatDiff ==
  LET v == [d |-> Rec.d, e |-> Rec.e]  m == [d |-> Rec.dd, e |-> Rec.de]  tok == ProgramData(Rec.out, 1) IN
     (IF tok.type = "DECIMAL" /\ tok.next = Len(Rec.out) + 1 THEN {} ELSE {"not-one-token"})
  \cup (IF Rec.ok = 1 /\ Rec.errs = <<>> THEN {} ELSE {"not-accepted"})
  \cup (IF G!Within(m, v, Rec.P, 7, 0 - 1) THEN {} ELSE {"decoded"})
  \cup (IF G!IsZ(m) \/ Rec.dneg = Rec.neg THEN {} ELSE {"decoded-sign"})
IntDiff == (IF Rec.out = Expected THEN {} ELSE {"emitted"})
   \cup (IF OneToken THEN {} ELSE {"not-one-token"})
   \cup (IF Rec.ok = 1 /\ Rec.errs = <<>> THEN {} ELSE {"not-accepted"})
   \cup (IF Rec.dec = Rec.v THEN {} ELSE {"decoded"})
(* ASCII-formatted arrays: one decimal item per element, comma separated, decoded element by element *)
ArrDiff == (IF Rec.out = JoinWith(44, [i \in 1..Len(Rec.v) |-> Dec(Rec.v[i])]) THEN {} ELSE {"emitted"})
      \cup (IF Rec.ok = 1 /\ Rec.errs = <<>> THEN {} ELSE {"not-accepted"})
      \cup (IF Rec.dec = Rec.v THEN {} ELSE {"decoded"})
Diff == IF Rec.t \in {"dbl", "flt"} THEN FloatDiff ELSE IF Rec.t = "arr" THEN ArrDiff ELSE IntDiff
Conforms == Diff = {} \/ PrintT(<<"MISMATCH", l, Diff>>)
=============================================================================
