INIT Init
NEXT GenNext
CONSTANTS
 Cap = 1
 Ops <- OpsD
CHECK_DEADLOCK FALSE
