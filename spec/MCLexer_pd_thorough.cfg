SPECIFICATION Spec
CONSTANT N = 5
CONSTANT AlphaSet <- A_pd
CONSTANT Which <- W_pd
INVARIANT Lemmas
CHECK_DEADLOCK FALSE
