INIT TInit
NEXT GenNext
CONSTANTS
 TOps <- OpsT2
CHECK_DEADLOCK FALSE
