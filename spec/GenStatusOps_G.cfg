INIT Init
NEXT GenNext
CONSTANTS
 Cap = 1
 Ops <- OpsG
CHECK_DEADLOCK FALSE
