------------------------------- MODULE MCExpr -------------------------------
(* Model checking of ScpiExpr (C19): on every body up to MAXLEN bytes over   *)
(* the nine byte classes the declarative grammar, the left-to-right reading, *)
(* the denotation and the result function agree with each other.             *)
(* Environment: MAXLEN (default 5), ALPHA (full = the nine classes, chan = a *)
(* channel-list alphabet and num = a numeric alphabet with two digits for    *)
(* longer bodies), FIRST (index of the first byte to split the space over    *)
(* several TLC processes; 0 or absent = all).                                *)
EXTENDS ScpiExpr, TLC, IOUtils

VARIABLES b, phase
vars == <<b, phase>>

AlphaName == IF "ALPHA" \in DOMAIN IOEnv THEN IOEnv.ALPHA ELSE "full"
AlphaSeq == IF AlphaName = "chan" THEN <<49, 33, 58, 44, 64>>                    \* 1 ! : , @
            ELSE IF AlphaName = "num" THEN <<48, 49, 45, 46, 69, 58, 44>>        \* 0 1 - . E : ,
            ELSE <<49, 45, 46, 58, 44, 33, 64, 32, 69>>                          \* 1 - . : , ! @ blank E
Alpha == {AlphaSeq[k] : k \in 1..Len(AlphaSeq)}
MaxLen == IF "MAXLEN" \in DOMAIN IOEnv THEN atoi(IOEnv.MAXLEN) ELSE 5
FirstIdx == IF "FIRST" \in DOMAIN IOEnv THEN atoi(IOEnv.FIRST) ELSE 0
FirstSet == IF FirstIdx = 0 THEN Alpha ELSE {AlphaSeq[FirstIdx]}

Init == /\ phase = 0
        /\ \/ FirstIdx \in {0, 1} /\ b = <<>>
           \/ \E n \in 1..MaxLen : \E f \in FirstSet : \E t \in [1..(n - 1) -> Alpha] : b = <<f>> \o t
Next == phase = 0 /\ phase' = 1 /\ b' = b
Spec == Init /\ [][Next]_vars

Idx == 0..(MaxLen + 2)
Caps == 0..4
L == Len(b)

\* L1: the number read at p is the longest number of the grammar that starts at p
GreedyIsLongest ==
  phase = 1 => \A p \in 1..(L + 1) :
     LET S == {q \in (p + 1)..(L + 1) : IsNumber(b, p, q)} IN
       NumEnd(b, p) = IF S = {} THEN p ELSE MaxOf(S)

\* L2: a body is a well-formed list by the grammar iff the reading ends cleanly
WellFormedAgree == phase = 1 => \A kind \in Kinds : WellFormedD(kind, b) <=> WellFormed(kind, b)

\* structure of a declaratively well-formed piece
SideToks(s, e) == Pieces(b, s, e, BANG)
PieceMatches(kind, pc, e) ==
  LET sides == Pieces(b, pc[1], pc[2], COLON) IN
    /\ e.ok /\ e.start = pc[1] /\ e.end = pc[2]
    /\ e.range = (Len(sides) = 2)
    /\ e.from = SideToks(sides[1][1], sides[1][2])
    /\ e.range => e.to = SideToks(sides[2][1], sides[2][2])
    /\ ~e.range => e.to = <<>>

\* L3: as long as the pieces between the commas are well formed, the reading yields exactly them
SplitAgreesWithScan ==
  phase = 1 => \A kind \in Kinds : HasIntro(kind, b) =>
     LET pc == PiecesD(kind, b)
         sc == Scan(kind, b) IN
       \A i \in 1..Len(pc) :
          (\A k \in 1..i : IsEntryD(kind, b, pc[k][1], pc[k][2]))
            => i <= Len(sc.entries) /\ \A k \in 1..i : PieceMatches(kind, pc[k], sc.entries[k])

\* L4: what the reading tolerates: entry i is read iff the pieces before it are well formed and
\* piece i begins with a well-formed entry; bytes may follow it only in the last entry read
Tolerance ==
  phase = 1 => \A kind \in Kinds : HasIntro(kind, b) =>
     LET pc == PiecesD(kind, b)
         sc == Scan(kind, b)
         K == Len(sc.entries) IN
       /\ K <= Len(pc)
       /\ \A i \in 1..K :
            /\ \A k \in 1..(i - 1) : IsEntryD(kind, b, pc[k][1], pc[k][2])
            /\ sc.entries[i].start = pc[i][1] /\ sc.entries[i].end <= pc[i][2]
            /\ IsEntryD(kind, b, sc.entries[i].start, sc.entries[i].end)
            /\ sc.entries[i].end < pc[i][2] => i = K /\ ~sc.clean
       /\ K < Len(pc) /\ (K = 0 \/ sc.entries[K].end = pc[K][2]) => ~IsEntryD(kind, b, pc[K + 1][1], pc[K + 1][2])
NoIntroNoEntries == phase = 1 => \A kind \in Kinds : ~HasIntro(kind, b) => Scan(kind, b).entries = <<>> /\ ~WellFormedD(kind, b)

\* L5: index monotonicity
Monotone ==
  phase = 1 => \A kind \in Kinds : LET sc == Scan(kind, b) IN \A i \in Idx :
     /\ i + 1 < Len(sc.entries) => OkAllowed(kind, b, i)
     /\ OkAllowed(kind, b, i) = (i < Len(sc.entries))
     /\ EntryS(sc, i + 1, 4).code = "OK" => EntryS(sc, i, 4).code = "OK"

\* L6: for a well-formed list OK below the number of entries (pieces between commas), NO_MORE from there on
NoMoreFromCount ==
  phase = 1 => \A kind \in Kinds : WellFormedD(kind, b) =>
     LET n == Len(PiecesD(kind, b))
         sc == Scan(kind, b) IN
       /\ Entry(kind, b, 0, 1) = EntryS(sc, 0, 1)
       /\ \A i \in Idx : \A cap \in Caps :
            EntryS(sc, i, cap).code = IF i < n THEN "OK" ELSE "NO_MORE"

\* L7: the capacity only limits what is stored
Capacity ==
  phase = 1 => \A kind \in Kinds : LET sc == Scan(kind, b) IN \A i \in Idx : \A cap \in Caps :
     LET r == EntryS(sc, i, cap)
         r4 == EntryS(sc, i, 9) IN
       /\ Len(r.from) <= cap /\ Len(r.to) <= cap
       /\ Len(r.from) = MinOf2(r.dims, cap)
       /\ r.range => Len(r.to) = Len(r.from)
       /\ r.code = r4.code /\ r.range = r4.range /\ r.dims = r4.dims
       /\ r.from = SubSeq(r4.from, 1, Len(r.from)) /\ r.to = SubSeq(r4.to, 1, Len(r.to))

\* L8: no body is both a numeric list and a channel list
Exclusive == phase = 1 => ~(WellFormed("num", b) /\ WellFormed("chan", b))

\* L9: denotation of plain integers = Horner value of their digits; exactly one int32 accepted
DigitsOf(p, q) == SelectSeq(SubSeq(b, p, q - 1), IsDigit)
RECURSIVE NDig(_)
NDig(v) == IF v < 10 THEN 1 ELSE 1 + NDig(v \div 10)
Denotation ==
  phase = 1 => \A p \in 1..L : NumEnd(b, p) > p =>
     LET d == Den(b, p)
         ds == DigitsOf(p, NumEnd(b, p))
         hv == Horner([k \in 1..Len(ds) |-> ds[k] - 48], 1, Len(ds), 0)
         v == IF b[p] = 45 THEN -hv ELSE hv IN
       /\ ~d.big
       /\ d.zero = (\A k \in 1..Len(ds) : ds[k] = 48 \/ k > Len(DigitsOf(p, NumParts(b, p).d2)))
       /\ ~d.zero => d.sig % 10 # 0 /\ NDig(d.sig) = d.nsig
       /\ d.plain => /\ IntOk(d, v) /\ ~IntOk(d, v + 1) /\ ~IntOk(d, v - 1)
                     /\ hv # 0 => DblOk(d, <<IF b[p] = 45 THEN 1 ELSE 0, hv * Pow10(9 - NDig(hv)), NDig(hv) - 1>>)
                     /\ hv # 0 => ~DblOk(d, <<IF b[p] = 45 THEN 0 ELSE 1, hv * Pow10(9 - NDig(hv)), NDig(hv) - 1>>)
       \* without exponent: sig * 10^e10 = (all mantissa digits) * 10^-(digits after the point)
       /\ ~d.hasExp /\ ~d.zero =>
            LET dots == {k \in p..(NumEnd(b, p) - 1) : b[k] = DOT}
                frac == IF dots = {} THEN 0 ELSE NumEnd(b, p) - 1 - MaxOf(dots) IN
              d.e10 + frac >= 0 /\ d.sig * Pow10(d.e10 + frac) = hv
       \* with exponent: the mantissa alone, shifted by the signed exponent value
       /\ d.hasExp =>
            LET n == NumParts(b, p)
                dm == Den(SubSeq(b, 1, n.d2 - 1), p)
                xs == DigitsOf(n.x1, n.x2)
                xv == Horner([k \in 1..Len(xs) |-> xs[k] - 48], 1, Len(xs), 0) IN
              /\ d.sig = dm.sig /\ d.neg = dm.neg /\ d.zero = dm.zero
              /\ ~d.zero => d.e10 = dm.e10 + (IF b[n.x1 - 1] = 45 THEN -xv ELSE xv)
       /\ (d.e10 < 0 \/ d.nsig + d.e10 <= 9) => Cardinality({r \in -12..120 : IntOk(d, r)}) \in (IF d.e10 < 0 /\ ~d.zero THEN {0, 1, 2} ELSE {0, 1})

\* L10: the verdict accepts the specified result and nothing with another code
ObsOf(r) == [code |-> r.code, range |-> r.range, dims |-> r.dims, errs |-> <<>>, canary |-> TRUE,
                   from |-> [k \in 1..Len(r.from) |-> <<r.from[k][1], r.from[k][2] - r.from[k][1]>>],
                   to |-> [k \in 1..Len(r.to) |-> <<r.to[k][1], r.to[k][2] - r.to[k][1]>>]]
VerdictAcceptsEntry ==
  phase = 1 => \A kind \in Kinds : WellFormed(kind, b) =>
     LET sc == Scan(kind, b) IN
       \A i \in Idx : \A cap \in Caps :
          LET o == ObsOf(EntryS(sc, i, cap)) IN
            /\ Verdict(kind, "tok", b, sc, i, cap, o) = {}
            /\ Verdict(kind, "tok", b, sc, i, cap, [o EXCEPT !.code = IF @ = "OK" THEN "NO_MORE" ELSE "OK"]) # {}
            /\ Verdict(kind, "tok", b, sc, i, cap, [o EXCEPT !.code = "ERROR"]) # {}
            /\ Verdict(kind, "tok", b, sc, i, cap, [o EXCEPT !.canary = FALSE]) # {}
            /\ o.code = "OK" => Verdict(kind, "tok", b, sc, i, cap, [o EXCEPT !.range = ~@]) # {}
VerdictMalformed ==
  phase = 1 => \A kind \in Kinds : ~WellFormed(kind, b) =>
     LET sc == Scan(kind, b)
         o == [code |-> "OK", range |-> FALSE, dims |-> 1, errs |-> <<>>, canary |-> TRUE, from |-> <<>>, to |-> <<>>] IN
       \A i \in Idx :
          /\ (Verdict(kind, "tok", b, sc, i, 0, o) = {}) = (i < Len(sc.entries))
          /\ Verdict(kind, "tok", b, sc, i, 0, [o EXCEPT !.code = "ERROR", !.errs = <<-170>>]) = {}
          /\ kind = "chan" => Verdict(kind, "tok", b, sc, i, 0, [o EXCEPT !.code = "ERROR"]) # {}
          /\ kind = "chan" => Verdict(kind, "tok", b, sc, i, 0, [o EXCEPT !.code = "NO_MORE"]) # {}
=============================================================================
