------------------------------ MODULE TVStatus ------------------------------
(* Transition validation (C10 codes, C11, C12): every transition recorded   *)
(* from the real library - by exhaustive exploration of its state graph, by *)
(* random walks over full 16-bit values, or by pushing every error code -   *)
(* must be the step ScpiStatus prescribes for that operation from that      *)
(* state.  One initial state per recorded line; the specification takes one *)
(* step; Conforms compares.  Only transitions that start in a state that    *)
(* satisfies the specification's invariant are judged (the others are       *)
(* consequences of an earlier bad step and are reported as UNJUDGED).       *)
EXTENDS Integers, Sequences, FiniteSets, TLC, Json, IOUtils

T == ndJsonDeserialize(IOEnv.TRACE)
VARIABLES l, phase, reg, q, stb, srq, out, lastOp
S == INSTANCE ScpiStatusNested WITH Cap <- 1, Ops <- {}, NestedOps <- {}, SrqOps <- {}

RegIdx == [STB |-> 1, SRE |-> 2, ESR |-> 3, ESE |-> 4, OPER |-> 5, OPERE |-> 6, OPERC |-> 7, QUES |-> 8, QUESE |-> 9, QUESC |-> 10]
RegOf(rec) == [n \in S!Regs |-> IF n = "SRE" THEN S!Bits(rec.r[RegIdx[n]]) \ {6} ELSE S!Bits(rec.r[RegIdx[n]])]
StbOf(rec) == S!Bits(rec.r[1])
OpOf0(o) == IF o[1] \in {"set", "setbits", "clrbits"} THEN <<o[1], o[2], S!Bits(o[3])>>
            ELSE IF o[1] = "cmd" /\ Len(o) = 3 THEN <<o[1], o[2], S!Bits(o[3])>>
            ELSE o
OpOf(o) == IF o[1] \in S!SrqKinds THEN <<o[1]>> \o OpOf0(Tail(o)) ELSE OpOf0(o)
Reentrant == T[l].op[1] \in S!NestedKinds \cup S!SrqKinds      \* a callback re-enters the library during this step
PlainOp == IF T[l].op[1] \in S!SrqKinds THEN Tail(T[l].op) ELSE T[l].op
vars == <<l, phase, reg, q, stb, srq, out, lastOp>>
Init == /\ l \in 1..Len(T) /\ phase = 0
        /\ reg = RegOf(T[l].f) /\ q = T[l].f.q /\ stb = StbOf(T[l].f)
        /\ srq = <<>> /\ out = <<>> /\ lastOp = <<"from">>
Next == /\ phase = 0 /\ phase' = 1 /\ l' = l
        /\ LET a == S!ApplyAny(reg, q, stb, OpOf(T[l].op), T[l].cap) IN
           /\ reg' = [a.reg EXCEPT !["SRE"] = @ \ {6}] /\ q' = a.q /\ stb' = a.stb /\ srq' = a.srq /\ out' = a.out
           /\ lastOp' = T[l].op
Spec == Init /\ [][Next]_vars

FromOk(rec) == /\ StbOf(rec) = S!NewStb(RegOf(rec), Len(rec.q))
               /\ Len(rec.q) <= T[l].cap
Judged == FromOk(T[l].f)
ImplEsr == S!Bits(T[l].t.r[3])
\* on overflow the pushed error itself is not queued: its class bit may or may not be reported
EsrOk == \/ ImplEsr = reg["ESR"]
         \/ /\ T[l].op[1] \in {"push"} \cup S!NestedKinds /\ Len(T[l].f.q) >= T[l].cap
            /\ ImplEsr = reg["ESR"] \ ((S!ClassBits(T[l].op[2]) \ {S!DER}) \ S!Bits(T[l].f.r[3]))
Diff == {n \in S!Regs \ {"ESR"} : RegOf(T[l].t)[n] # reg[n]}
        \cup (IF EsrOk THEN {} ELSE {"ESR"})
        \cup (IF q = T[l].t.q THEN {} ELSE {"queue"})
        \cup (IF stb = StbOf(T[l].t) THEN {} ELSE {"STB"})
        \cup (IF out = T[l].out \/ (PlainOp = <<"cmd", "*SRE?">> /\ Len(T[l].out) = 1 /\ S!Bits(T[l].out[1]) \ {6} = S!Bits(out[1]) \ {6})
              THEN {} ELSE {"out"})
        \cup (IF Len(T[l].srq) < Len(srq) THEN {"srq-missing"} ELSE {})
        \* (with a draining callback the last announcement may be that of a passing state: then one of them must carry the final byte or MSS)
        \cup (IF srq # <<>> /\ T[l].srq # <<>> /\ ~Reentrant /\ S!Bits(T[l].srq[Len(T[l].srq)]) # StbOf(T[l].t) THEN {"srq-not-current-status-byte"} ELSE {})
        \cup (IF \E i \in 1..Len(T[l].srq) : 6 \notin S!Bits(T[l].srq[i]) THEN {"srq-without-mss"} ELSE {})
        \* (a push drained by the error callback may raise MSS in passing: the announcement in between is legitimate)
        \cup (IF T[l].srq # <<>> /\ 6 \notin StbOf(T[l].t) /\ 6 \notin StbOf(T[l].f) /\ ~Reentrant THEN {"srq-while-mss-clear"} ELSE {})
Conforms == phase = 1 =>
              IF Judged THEN Diff = {} \/ PrintT(<<"MISMATCH", l, Diff>>)
              ELSE PrintT(<<"UNJUDGED", l>>)
=============================================================================
