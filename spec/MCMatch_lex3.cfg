SPECIFICATION Spec
CONSTANTS
 Mode = "lex"
 MaxKw = 3
 ProductN = 0
INVARIANT Checked
CHECK_DEADLOCK FALSE
