SPECIFICATION Spec
CONSTANTS
 MaxLen = 5
 NegLen = 2
 PSplit = 4
 MaxLenHigh = 4
 Exps <- ExpsFull
 Precs = {4, 5, 6}
INVARIANT Lemmas
CHECK_DEADLOCK FALSE
