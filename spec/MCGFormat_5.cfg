SPECIFICATION Spec
CONSTANTS
 MaxLen = 5
 EMin <- EMinDef
 EMax = 8
 PMax = 6
INVARIANTS Reparses HalfUnit Idempotent KeepsDigits Stripped Style Monotone
CHECK_DEADLOCK FALSE
