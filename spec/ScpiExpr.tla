------------------------------ MODULE ScpiExpr ------------------------------
(* C19 - numeric lists (a,b:c,...) and channel lists (@a!b:c!d,...).         *)
(*                                                                           *)
(* A body is the content of an expression between its parentheses, a         *)
(* sequence of byte values.  Positions are 1-based, ranges half open [s,e).  *)
(*                                                                           *)
(* Part 1 is the grammar, written declaratively (a list is its pieces        *)
(* between the commas, a range its two sides of the colon, a channel its     *)
(* numbers between the exclamation marks, a number a 488.2 decimal numeric). *)
(* Part 2 reads a body from left to right and yields the entries it can      *)
(* read.  Part 3 gives a number its exact denotation.  Part 4 states what    *)
(* a query for entry i with capacity cap may return (the property).          *)
(* MCExpr checks that the parts agree with each other on every body of a     *)
(* bounded alphabet; TVExpr judges results recorded from the real library.   *)
EXTENDS Integers, Sequences, FiniteSets

DOT == 46
COLON == 58
COMMA == 44
BANG == 33
ATSIGN == 64
IsDigit(c) == c >= 48 /\ c <= 57
IsSign(c) == c = 43 \/ c = 45
IsWs(c) == c = 32 \/ c = 9
IsE(c) == c = 69 \/ c = 101
At(b, p) == IF p >= 1 /\ p <= Len(b) THEN b[p] ELSE 0     \* 0 = outside the body
MaxOf(S) == CHOOSE x \in S : \A y \in S : y <= x
MinOf2(x, y) == IF x < y THEN x ELSE y
Kinds == {"num", "chan"}

-----------------------------------------------------------------------------
(* Part 1 - grammar (declarative)                                            *)

AllIn(b, s, e, P(_)) == \A k \in s..(e - 1) : P(b[k])

\* d+ | d+ . d* | . d+        (at least one digit)
IsMantissa(b, s, e) ==
  /\ s < e
  /\ \/ AllIn(b, s, e, IsDigit)
     \/ \E d \in s..(e - 1) : /\ b[d] = DOT
                              /\ AllIn(b, s, d, IsDigit) /\ AllIn(b, d + 1, e, IsDigit)
                              /\ (d - s) + (e - d - 1) >= 1

\* ws* E ws* sign? d+
IsExponent(b, s, e) ==
  \E x \in s..(e - 1) :
     /\ AllIn(b, s, x, IsWs) /\ IsE(b[x])
     /\ \E y \in (x + 1)..(e - 1) :
           /\ AllIn(b, x + 1, y, IsWs)
           /\ LET z == IF IsSign(b[y]) THEN y + 1 ELSE y IN z < e /\ AllIn(b, z, e, IsDigit)

\* sign? mantissa exponent?
IsNumber(b, s, e) ==
  /\ s < e
  /\ LET m == IF IsSign(b[s]) THEN s + 1 ELSE s IN
       \/ IsMantissa(b, m, e)
       \/ \E x \in (m + 1)..(e - 1) : IsMantissa(b, m, x) /\ IsExponent(b, x, e)

\* the pieces of [s,e) between the occurrences of the separator c, in order
Pieces(b, s, e, c) ==
  LET P == {p \in s..(e - 1) : b[p] = c}
      n == Cardinality(P)
      cut(k) == IF k = 0 THEN s - 1
                ELSE IF k = n + 1 THEN e
                ELSE CHOOSE p \in P : Cardinality({q \in P : q < p}) = k - 1
  IN [k \in 1..(n + 1) |-> <<cut(k - 1) + 1, cut(k)>>]

IsNumEntryD(b, s, e) ==
  LET pc == Pieces(b, s, e, COLON) IN
    /\ Len(pc) \in {1, 2}
    /\ \A k \in 1..Len(pc) : IsNumber(b, pc[k][1], pc[k][2])

IsSpecD(b, s, e) == LET pb == Pieces(b, s, e, BANG) IN \A k \in 1..Len(pb) : IsNumber(b, pb[k][1], pb[k][2])
DimsD(b, s, e) == Len(Pieces(b, s, e, BANG))
IsChanEntryD(b, s, e) ==
  LET pc == Pieces(b, s, e, COLON) IN
    /\ Len(pc) \in {1, 2}
    /\ \A k \in 1..Len(pc) : IsSpecD(b, pc[k][1], pc[k][2])
    /\ Len(pc) = 2 => DimsD(b, pc[1][1], pc[1][2]) = DimsD(b, pc[2][1], pc[2][2])

IsEntryD(kind, b, s, e) == IF kind = "chan" THEN IsChanEntryD(b, s, e) ELSE IsNumEntryD(b, s, e)
ListStart(kind) == IF kind = "chan" THEN 2 ELSE 1
HasIntro(kind, b) == kind = "chan" => At(b, 1) = ATSIGN
PiecesD(kind, b) == Pieces(b, ListStart(kind), Len(b) + 1, COMMA)
\* a well-formed list: (the @ and) one or more well-formed entries separated by commas, nothing else
WellFormedD(kind, b) ==
  /\ HasIntro(kind, b)
  /\ LET pc == PiecesD(kind, b) IN \A k \in 1..Len(pc) : IsEntryD(kind, b, pc[k][1], pc[k][2])

-----------------------------------------------------------------------------
(* Part 2 - reading from left to right                                       *)

RECURSIVE SkipDigits(_, _)
SkipDigits(b, p) == IF IsDigit(At(b, p)) THEN SkipDigits(b, p + 1) ELSE p
RECURSIVE SkipWs(_, _)
SkipWs(b, p) == IF IsWs(At(b, p)) THEN SkipWs(b, p + 1) ELSE p

\* the longest number that starts at p: its parts; end = p when there is none
NumParts(b, p) ==
  LET s  == IF IsSign(At(b, p)) THEN p + 1 ELSE p
      d1 == SkipDigits(b, s)
      hasDot == At(b, d1) = DOT
      d2 == IF hasDot THEN SkipDigits(b, d1 + 1) ELSE d1
      nd == (d1 - s) + (IF hasDot THEN d2 - d1 - 1 ELSE 0)
      w1 == SkipWs(b, d2)
      isE == IsE(At(b, w1))
      w2 == SkipWs(b, w1 + 1)
      s2 == IF IsSign(At(b, w2)) THEN w2 + 1 ELSE w2
      d3 == SkipDigits(b, s2)
      hasExp == nd > 0 /\ isE /\ d3 > s2
  IN [neg |-> At(b, p) = 45, s |-> s, d1 |-> d1, hasDot |-> hasDot, d2 |-> d2, hasExp |-> hasExp,
      eneg |-> hasExp /\ At(b, w2) = 45, x1 |-> s2, x2 |-> d3,
      end |-> IF nd = 0 THEN p ELSE IF hasExp THEN d3 ELSE d2]
NumEnd(b, p) == NumParts(b, p).end

Bad == [ok |-> FALSE, start |-> 0, end |-> 0, range |-> FALSE, from |-> <<>>, to |-> <<>>]

\* from / to: sequences of number tokens <<start, end>>, one per dimension
NumEntryAt(b, p) ==
  LET q == NumEnd(b, p) IN
    IF q = p THEN Bad
    ELSE IF At(b, q) = COLON
         THEN LET r == NumEnd(b, q + 1) IN
                IF r = q + 1 THEN Bad
                ELSE [ok |-> TRUE, start |-> p, end |-> r, range |-> TRUE, from |-> <<<<p, q>>>>, to |-> <<<<q + 1, r>>>>]
         ELSE [ok |-> TRUE, start |-> p, end |-> q, range |-> FALSE, from |-> <<<<p, q>>>>, to |-> <<>>]

RECURSIVE SpecAt(_, _, _)
SpecAt(b, p, acc) ==
  LET q == NumEnd(b, p) IN
    IF q = p THEN [ok |-> FALSE, end |-> 0, nums |-> <<>>]
    ELSE IF At(b, q) = BANG THEN SpecAt(b, q + 1, Append(acc, <<p, q>>))
    ELSE [ok |-> TRUE, end |-> q, nums |-> Append(acc, <<p, q>>)]

ChanEntryAt(b, p) ==
  LET f == SpecAt(b, p, <<>>) IN
    IF ~f.ok THEN Bad
    ELSE IF At(b, f.end) = COLON
         THEN LET t == SpecAt(b, f.end + 1, <<>>) IN
                IF t.ok /\ Len(t.nums) = Len(f.nums)
                THEN [ok |-> TRUE, start |-> p, end |-> t.end, range |-> TRUE, from |-> f.nums, to |-> t.nums]
                ELSE Bad
         ELSE [ok |-> TRUE, start |-> p, end |-> f.end, range |-> FALSE, from |-> f.nums, to |-> <<>>]

EntryAt(kind, b, p) == IF kind = "chan" THEN ChanEntryAt(b, p) ELSE NumEntryAt(b, p)

\* entries: the entries that can be read one after the other from the start;
\* clean: the reading ended at the end of the body right after an entry
RECURSIVE ScanFrom(_, _, _, _)
ScanFrom(kind, b, p, acc) ==
  LET e == EntryAt(kind, b, p) IN
    IF ~e.ok THEN [entries |-> acc, clean |-> FALSE]
    ELSE IF At(b, e.end) = COMMA THEN ScanFrom(kind, b, e.end + 1, Append(acc, e))
    ELSE [entries |-> Append(acc, e), clean |-> e.end = Len(b) + 1]
Scan(kind, b) == IF HasIntro(kind, b) THEN ScanFrom(kind, b, ListStart(kind), <<>>)
                 ELSE [entries |-> <<>>, clean |-> FALSE]
WellFormed(kind, b) == Scan(kind, b).clean

-----------------------------------------------------------------------------
(* Part 3 - what a number denotes: (-1)^neg * sig * 10^e10, sig without      *)
(* leading and trailing zeros, nsig its digit count.  big: more than 9       *)
(* significant digits or more than 6 exponent digits (not evaluated: TLC     *)
(* integers have 32 bits).                                                   *)

Pow10(k) == IF k <= 0 THEN 1 ELSE IF k = 1 THEN 10 ELSE IF k = 2 THEN 100 ELSE IF k = 3 THEN 1000
            ELSE IF k = 4 THEN 10000 ELSE IF k = 5 THEN 100000 ELSE IF k = 6 THEN 1000000
            ELSE IF k = 7 THEN 10000000 ELSE IF k = 8 THEN 100000000 ELSE 1000000000
RECURSIVE Horner(_, _, _, _)
Horner(d, i, j, acc) == IF i > j THEN acc ELSE Horner(d, i + 1, j, acc * 10 + d[i])

Den(b, p) ==
  LET n == NumParts(b, p)
      md == [k \in 1..Len(SelectSeq(SubSeq(b, n.s, n.d2 - 1), IsDigit)) |-> SelectSeq(SubSeq(b, n.s, n.d2 - 1), IsDigit)[k] - 48]
      frac == IF n.hasDot THEN n.d2 - n.d1 - 1 ELSE 0
      nz == {k \in 1..Len(md) : md[k] # 0}
      first == IF nz = {} THEN 1 ELSE CHOOSE k \in nz : \A j \in nz : k <= j
      last == IF nz = {} THEN 0 ELSE MaxOf(nz)
      nsig == last - first + 1
      xd == IF n.hasExp THEN [k \in 1..(n.x2 - n.x1) |-> b[n.x1 + k - 1] - 48] ELSE <<>>
      xnz == {k \in 1..Len(xd) : xd[k] # 0}
      xfirst == IF xnz = {} THEN Len(xd) + 1 ELSE CHOOSE k \in xnz : \A j \in xnz : k <= j
      xbig == Len(xd) - xfirst + 1 > 6
      xv == IF xbig THEN 0 ELSE Horner(xd, xfirst, Len(xd), 0)
      big == nsig > 9 \/ xbig
  IN [neg |-> n.neg, zero |-> nz = {}, big |-> big, nsig |-> nsig,
      sig |-> IF big \/ nz = {} THEN 0 ELSE Horner(md, first, last, 0),
      e10 |-> (IF n.eneg THEN -xv ELSE xv) - frac + (Len(md) - last),
      hasExp |-> n.hasExp, hasWs |-> \E k \in p..(n.end - 1) : IsWs(b[k]),
      plain |-> ~n.hasDot /\ ~n.hasExp]

\* the 32-bit integer r is the number d: exactly when d is an integer of at most 9 digits,
\* one of the two neighbouring integers when d has a fraction; beyond that not judged (C04)
IntOk(d, r) ==
  IF d.big THEN TRUE
  ELSE IF d.zero THEN r = 0
  ELSE IF d.e10 >= 0 THEN (d.nsig + d.e10 <= 9 => r = (IF d.neg THEN -1 ELSE 1) * d.sig * Pow10(d.e10))
  ELSE LET k == -d.e10
           f == IF k >= 10 THEN 0 ELSE d.sig \div Pow10(k)
       IN IF d.neg THEN r \in {-f, -f - 1} ELSE r \in {f, f + 1}

\* o = <<negative, 9 significant decimal digits, decimal exponent>> of a double ("%.8e"):
\* exactly the number written (at most 9 significant digits, magnitude 1e-300..1e300)
DblOk(d, o) ==
  IF d.big THEN TRUE
  ELSE IF d.zero THEN o[2] = 0
  ELSE LET se == d.nsig - 1 + d.e10 IN
         IF se > 300 \/ se < -300 THEN TRUE
         ELSE o = <<IF d.neg THEN 1 ELSE 0, d.sig * Pow10(9 - d.nsig), se>>

-----------------------------------------------------------------------------
(* Part 4 - the property.                                                    *)
(* Entry: the result for a well-formed list.  Stored: how many values the    *)
(* caller's arrays receive.                                                  *)

Stored(dims, cap) == MinOf2(dims, cap)
EntryS(sc, i, cap) ==        \* sc = Scan(kind, b)
  IF i < Len(sc.entries)
  THEN LET e == sc.entries[i + 1] IN
         [code |-> "OK", range |-> e.range, dims |-> Len(e.from),
          from |-> SubSeq(e.from, 1, Stored(Len(e.from), cap)),
          to |-> IF e.range THEN SubSeq(e.to, 1, Stored(Len(e.to), cap)) ELSE <<>>]
  ELSE [code |-> "NO_MORE", range |-> FALSE, dims |-> 0, from |-> <<>>, to |-> <<>>]
Entry(kind, b, i, cap) == EntryS(Scan(kind, b), i, cap)

\* may entry i be reported OK?  (any body)
OkAllowed(kind, b, i) == i < Len(Scan(kind, b).entries)

(* Verdict: the set of complaints about an observed result o for entry i of  *)
(* body b (sc = Scan(kind, b), passed in so that it is computed once).       *)
(*   o.code "OK" | "ERROR" | "NO_MORE"; o.range; o.dims; o.from, o.to: the   *)
(*   caller's arrays after the call (cap slots; capacity 1 for numeric       *)
(*   lists); o.errs: error codes queued by the call; o.canary: FALSE when a  *)
(*   slot outside the announced capacity was written.                        *)
(* api: "tok" (number tokens <<start, length>>), "int" (int32), "dbl"        *)
(* (<<neg, digits, exp>>), "chan" (int32).                                   *)
ValOk(api, b, tok, v) ==
  IF api = "tok" THEN v = <<tok[1], tok[2] - tok[1]>>
  ELSE IF api = "dbl" THEN DblOk(Den(b, tok[1]), v)
  ELSE IntOk(Den(b, tok[1]), v)
ValLabel(api, b, tok) ==
  LET d == Den(b, tok[1]) IN
    IF api \in {"int", "chan"} /\ d.hasExp THEN "value-int-exponent-ignored"
    ELSE IF api # "tok" /\ d.hasWs THEN "value-blank-inside-number"
    ELSE "value"
SideDiff(api, b, toks, vals, cap) ==
  IF Len(vals) < Stored(Len(toks), cap) THEN {"value"}
  ELSE {ValLabel(api, b, toks[k]) : k \in {j \in 1..Stored(Len(toks), cap) : ~ValOk(api, b, toks[j], vals[j])}}

Verdict(kind, api, b, sc, i, cap, o) ==
  (IF o.canary THEN {} ELSE {"stored-beyond-capacity"})
  \cup
  IF sc.clean
  THEN IF i < Len(sc.entries)
       THEN IF o.code # "OK" THEN {"wellformed-entry-not-ok"}
            ELSE LET e == sc.entries[i + 1] IN
                   (IF o.range = e.range THEN {} ELSE {"range-flag"})
                   \cup (IF kind = "chan" /\ o.dims # Len(e.from) THEN {"dimension-count"} ELSE {})
                   \cup SideDiff(api, b, e.from, o.from, cap)
                   \cup (IF e.range /\ o.range THEN SideDiff(api, b, e.to, o.to, cap) ELSE {})
                   \cup (IF o.errs = <<>> THEN {} ELSE {"error-queued-for-wellformed-list"})
       ELSE IF o.code # "NO_MORE" THEN {"no-more-expected"}
            ELSE IF o.errs = <<>> THEN {} ELSE {"error-queued-for-wellformed-list"}
  ELSE (IF o.code = "OK" /\ i >= Len(sc.entries) THEN {"ok-for-malformed-entry"} ELSE {})
       \cup (IF kind = "chan" /\ o.code = "NO_MORE" THEN {"malformed-channel-list-not-error"} ELSE {})
       \cup (IF kind = "chan" /\ o.code = "ERROR" /\ ~(\E k \in 1..Len(o.errs) : o.errs[k] = -170)
             THEN {"malformed-channel-list-no-170"} ELSE {})
=============================================================================
