---------------------------- MODULE ScpiGFormat ----------------------------
(* C16 - floating-point text keeps the promised number of significant      *)
(* digits.  TLA+ has no floating point: a value is its EXACT decimal        *)
(* expansion, a magnitude record                                            *)
(*      [d |-> <<d1, d2, ...>>, e |-> X]   =   d1.d2d3... * 10^X            *)
(* with digits 0..9, d1 # 0 (or d = <<0>>, e = 0 for zero; trailing zeros   *)
(* are harmless) and a sign flag neg \in {0, 1}.  Texts are byte sequences. *)
(*                                                                          *)
(*   GFormat(neg, m, P)   the text C's printf("%.Pg") produces for the      *)
(*                        value: round to P significant digits (half-even   *)
(*                        on the exact tail), style choice, trailing-zero   *)
(*                        stripping, at least two exponent digits, sign.    *)
(*   Parse(text)          a decimal text back to sign + magnitude.          *)
(*   Within(t, v, P, c, s)   |t - v| <= c * 10^s units of the P-th          *)
(*                        significant digit of v (c \in 1..9).              *)
(*   NoDigitLost(p, v, P) the text shows every digit of some admissible     *)
(*                        P-digit result except trailing zeros.             *)
(* All arithmetic is grade-school arithmetic on digit sequences, so nothing *)
(* depends on TLC's 32-bit integers.                                        *)
EXTENDS Integers, Sequences, FiniteSets

Min2(a, b) == IF a < b THEN a ELSE b
Max2(a, b) == IF a > b THEN a ELSE b
MinOf(S) == CHOOSE x \in S : \A y \in S : x <= y
Zeros(n) == [i \in 1..n |-> 0]

-----------------------------------------------------------------------------
(* digit sequences                                                          *)
AllZeroFrom(d, from) == \A i \in from..Len(d) : d[i] = 0
LastNZ(d) == IF \E i \in 1..Len(d) : d[i] # 0
             THEN CHOOSE i \in 1..Len(d) : d[i] # 0 /\ \A j \in (i + 1)..Len(d) : d[j] = 0
             ELSE 0
FirstNZ(d) == IF \E i \in 1..Len(d) : d[i] # 0
              THEN CHOOSE i \in 1..Len(d) : d[i] # 0 /\ \A j \in 1..(i - 1) : d[j] = 0
              ELSE 0
StripZ(d) == SubSeq(d, 1, LastNZ(d))
Pad(d, P) == d \o Zeros(P - Len(d))
PadL(d, n) == Zeros(n - Len(d)) \o d

(* d + 1 unit in position i (carry may add a leading 1) / d - 1 unit in position i (d > 0 there) *)
RECURSIVE Inc(_, _)
Inc(d, i) == IF i = 0 THEN <<1>> \o d
             ELSE IF d[i] < 9 THEN [d EXCEPT ![i] = d[i] + 1]
             ELSE Inc([d EXCEPT ![i] = 0], i - 1)
RECURSIVE Dec(_, _)
Dec(d, i) == IF d[i] > 0 THEN [d EXCEPT ![i] = d[i] - 1]
             ELSE Dec([d EXCEPT ![i] = 9], i - 1)

(* integers as equal-length digit sequences, most significant digit first *)
AddI(a, b) == LET n == Len(a)
                  c[i \in 1..(n + 1)] == IF i = n + 1 THEN 0 ELSE (a[i] + b[i] + c[i + 1]) \div 10
              IN <<c[1]>> \o [i \in 1..n |-> (a[i] + b[i] + c[i + 1]) % 10]
SubI(a, b) == LET n == Len(a)       \* requires a >= b
                  w[i \in 1..(n + 1)] == IF i = n + 1 THEN 0 ELSE IF a[i] - b[i] - w[i + 1] < 0 THEN 1 ELSE 0
              IN [i \in 1..n |-> (a[i] - b[i] - w[i + 1] + 10) % 10]
CmpI(a, b) == LET df == {i \in 1..Len(a) : a[i] # b[i]}
              IN IF df = {} THEN 0 ELSE LET i == MinOf(df) IN IF a[i] < b[i] THEN 0 - 1 ELSE 1

-----------------------------------------------------------------------------
(* magnitudes                                                               *)
ZeroM == [d |-> <<0>>, e |-> 0]
IsZ(m) == m.d[1] = 0
(* integer digit sequence I, lowest digit at position 10^s -> magnitude *)
ToM(I, s) == LET k == FirstNZ(I) IN IF k = 0 THEN ZeroM ELSE [d |-> SubSeq(I, k, Len(I)), e |-> s + Len(I) - k]
LowPos(m) == m.e - Len(m.d) + 1
(* m's digits as an integer at scale s (s <= LowPos(m)) *)
AtScale(m, s) == m.d \o Zeros(LowPos(m) - s)

(* -1, 0, 1.  The common prefix is compared digit by digit, the rest only for "any non-zero digit", *)
(* so comparing a 767-digit expansion with a short bound costs as much as the short bound.        *)
CmpM(a, b) ==
  IF IsZ(a) /\ IsZ(b) THEN 0 ELSE IF IsZ(a) THEN 0 - 1 ELSE IF IsZ(b) THEN 1
  ELSE IF a.e # b.e THEN (IF a.e < b.e THEN 0 - 1 ELSE 1)
  ELSE LET n == Min2(Len(a.d), Len(b.d))
           df == {i \in 1..n : a.d[i] # b.d[i]}
       IN IF df # {} THEN LET i == MinOf(df) IN IF a.d[i] < b.d[i] THEN 0 - 1 ELSE 1
          ELSE IF \E i \in (n + 1)..Len(a.d) : a.d[i] # 0 THEN 1
          ELSE IF \E i \in (n + 1)..Len(b.d) : b.d[i] # 0 THEN 0 - 1
          ELSE 0
LeM(a, b) == CmpM(a, b) <= 0

-----------------------------------------------------------------------------
(* rounding to P significant digits                                         *)
(* TruncP: the first P digits (value rounded toward zero)                   *)
TruncP(m, P) == Pad(SubSeq(m.d, 1, Min2(P, Len(m.d))), P)
(* RoundP: round-half-even on the exact tail; exactly P digits, exponent of the first one *)
RoundP(m, P) ==
  IF IsZ(m) THEN [d |-> Zeros(P), e |-> 0]
  ELSE IF Len(m.d) <= P THEN [d |-> Pad(m.d, P), e |-> m.e]
  ELSE LET head == SubSeq(m.d, 1, P)
           nxt == m.d[P + 1]
           up == \/ nxt > 5
                 \/ nxt = 5 /\ ~AllZeroFrom(m.d, P + 2)
                 \/ nxt = 5 /\ AllZeroFrom(m.d, P + 2) /\ head[P] % 2 = 1
           r == IF up THEN Inc(head, P) ELSE head
       IN IF Len(r) > P THEN [d |-> SubSeq(r, 1, P), e |-> m.e + 1] ELSE [d |-> r, e |-> m.e]

-----------------------------------------------------------------------------
(* %g                                                                       *)
Chars(d) == [i \in 1..Len(d) |-> 48 + d[i]]
RECURSIVE DecStr(_)
DecStr(n) == IF n < 10 THEN <<48 + n>> ELSE DecStr(n \div 10) \o <<48 + (n % 10)>>
ExpText(x) == LET a == IF x < 0 THEN 0 - x ELSE x
              IN <<IF x < 0 THEN 45 ELSE 43>> \o (IF a < 10 THEN <<48>> ELSE <<>>) \o DecStr(a)
UseExpStyle(X, P) == X < 0 - 4 \/ X >= P
GFormat(neg, m, P) ==
  LET r == RoundP(m, P)
      dg == r.d
      X == r.e
      body == IF UseExpStyle(X, P)
              THEN LET f == StripZ(SubSeq(dg, 2, P))
                   IN <<48 + dg[1]>> \o (IF f = <<>> THEN <<>> ELSE <<46>> \o Chars(f)) \o <<101>> \o ExpText(X)
              ELSE IF X >= 0
              THEN LET ip == SubSeq(dg, 1, X + 1)
                       f == StripZ(SubSeq(dg, X + 2, P))
                   IN Chars(ip) \o (IF f = <<>> THEN <<>> ELSE <<46>> \o Chars(f))
              ELSE <<48, 46>> \o Chars(StripZ(Zeros(0 - X - 1) \o dg))
  IN (IF neg = 1 THEN <<45>> ELSE <<>>) \o body

(* fixed spellings of the non-finite values; the sign of a NaN carries no information, so a NaN with *)
(* the sign bit set may be spelled with or without '-'                                               *)
NanText == <<110, 97, 110>>
InfText == <<105, 110, 102>>
SpecialOk(class, neg, t) ==
  IF class = "inf" THEN t = (IF neg = 1 THEN <<45>> ELSE <<>>) \o InfText
  ELSE t = NanText \/ (neg = 1 /\ t = <<45>> \o NanText)

-----------------------------------------------------------------------------
(* reading a decimal text:  [+-] digits [. digits] [ (e|E) [+-] digits ]     *)
IsDig(c) == c \in 48..57
RECURSIVE NatOf(_)
NatOf(ds) == IF ds = <<>> THEN 0 ELSE 10 * NatOf(SubSeq(ds, 1, Len(ds) - 1)) + (ds[Len(ds)] - 48)
Parse(t) ==
  LET sgn == Len(t) > 0 /\ t[1] \in {43, 45}
      ng == IF Len(t) > 0 /\ t[1] = 45 THEN 1 ELSE 0
      b == IF sgn THEN Tail(t) ELSE t
      es == {i \in 1..Len(b) : b[i] \in {101, 69}}
      ep == IF es = {} THEN Len(b) + 1 ELSE MinOf(es)
      man == SubSeq(b, 1, ep - 1)
      ex == SubSeq(b, ep + 1, Len(b))
      exsgn == Len(ex) > 0 /\ ex[1] \in {43, 45}
      exd == IF exsgn THEN Tail(ex) ELSE ex
      okx == es = {} \/ (Len(exd) \in 1..4 /\ \A i \in 1..Len(exd) : IsDig(exd[i]))
      ps == {i \in 1..Len(man) : man[i] = 46}
      pp == IF ps = {} THEN Len(man) + 1 ELSE MinOf(ps)
      ip == SubSeq(man, 1, pp - 1)
      fp == SubSeq(man, pp + 1, Len(man))
      all == ip \o fp
      okm == Cardinality(ps) <= 1 /\ Len(all) >= 1 /\ \A i \in 1..Len(all) : IsDig(all[i])
      ok == okx /\ okm /\ Cardinality(es) <= 1
  IN IF ~ok THEN [ok |-> FALSE, neg |-> ng, m |-> ZeroM, last |-> 0, hasExp |-> FALSE, expDigits |-> 0, shown |-> 0]
     ELSE LET X == IF es = {} THEN 0 ELSE IF ex[1] = 45 THEN 0 - NatOf(exd) ELSE NatOf(exd)
              dd == [i \in 1..Len(all) |-> all[i] - 48]
              k == FirstNZ(dd)
              z == LastNZ(dd)
          IN [ok |-> TRUE, neg |-> ng,
              m |-> IF k = 0 THEN ZeroM ELSE [d |-> SubSeq(dd, k, z), e |-> X + Len(ip) - k],
              last |-> X - Len(fp),                    \* position (power of ten) of the last written mantissa digit
              hasExp |-> es # {}, expDigits |-> Len(exd),
              shown |-> IF k = 0 THEN 0 ELSE Len(dd) - k + 1]   \* significant digits written, trailing zeros included

-----------------------------------------------------------------------------
(* |t - v| <= c * 10^s units of the P-th significant digit of v   (c \in 1..9; half a unit: c = 5, s = -1) *)
(* A zero value has no P-th digit: its text must be zero.                                                  *)
Within(t, v, P, c, s) ==
  IF IsZ(v) THEN IsZ(t)
  ELSE LET q == v.e - P + 1 + s                          \* delta = c * 10^q
           delta == [d |-> <<c>>, e |-> q]
       IN IF IsZ(t) THEN LeM(v, delta)
          ELSE IF t.e > v.e + 1 THEN FALSE                \* t >= 10^(v.e+2) > v + delta
          ELSE LET s0 == Min2(LowPos(t), q)
                   n == Max2(t.e, q) - s0 + 1
                   tI == PadL(AtScale(t, s0), n)
                   dI == PadL(AtScale(delta, s0), n)
                   hi == ToM(AddI(tI, dI), s0)
               IN /\ LeM(v, hi)
                  /\ CmpI(tI, dI) < 0 \/ LeM(ToM(SubI(tI, dI), s0), v)
WithinHalf(t, v, P) == Within(t, v, P, 5, 0 - 1)
WithinUnits(t, v, P, k) == Within(t, v, P, k, 0)

(* No significant digit other than trailing zeros is dropped.  p = Parse(text).  The admissible P-digit      *)
(* results r (|r - v| <= one unit of the P-th digit) are v cut to P digits, that plus one unit and, when v   *)
(* has no more than P digits itself, that minus one unit.  The digits the text does not write (everything    *)
(* below its last written mantissa digit) must be zeros of at least one admissible r, and a non-zero value   *)
(* must not be written as zero.                                                                              *)
LowestNZPos(digs, e) == e - (LastNZ(digs) - 1)
AdmissibleLows(v, P) ==
  LET rd == TruncP(v, P)
      up == Inc(rd, P)
      exact == AllZeroFrom(v.d, P + 1)
  IN {LowestNZPos(rd, v.e)}
     \cup {IF Len(up) > P THEN v.e + 1 ELSE LowestNZPos(up, v.e)}
     \cup (IF exact /\ (rd[1] > 1 \/ ~AllZeroFrom(rd, 2)) THEN {LowestNZPos(Dec(rd, P), v.e)} ELSE {})
NoDigitLost(p, v, P) ==
  IF IsZ(v) THEN TRUE
  ELSE IF IsZ(p.m) THEN FALSE
  ELSE \E low \in AdmissibleLows(v, P) : p.last <= low

=============================================================================
