SPECIFICATION Spec
CONSTANT N = 6
CONSTANT AlphaSet <- A_ws
CONSTANT Which <- W_ws
INVARIANT Lemmas
CHECK_DEADLOCK FALSE
