----------------------------- MODULE TVErrQueue -----------------------------
(* Transition validation for C10: every operation recorded from the real error  *)
(* queue (explored state graph, random histories with injected allocation       *)
(* failures) must be the step ScpiErrQueue prescribes: FIFO content, overflow   *)
(* marker, popped code/text, count, and exactly the allocations / releases the  *)
(* ownership rule requires (observed through wrapped strndup/free).             *)
EXTENDS Integers, Sequences, FiniteSets, TLC, Json, IOUtils

T == ndJsonDeserialize(IOEnv.TRACE)
VARIABLES l, phase, q, live, lastRes, lastFrees, lastOp
Q == INSTANCE ScpiErrQueue WITH Cap <- 1, Codes <- {}, Texts <- {}

EntOf(e) == [code |-> e[1], has |-> e[2] = 1, text |-> e[3], id |-> e[4]]
QOf(s)   == [i \in 1..Len(s.q) |-> EntOf(s.q[i])]
SetOf(s) == {s[i] : i \in 1..Len(s)}
vars == <<l, phase, q, live, lastRes, lastFrees, lastOp>>

Init == /\ l \in 1..Len(T) /\ phase = 0
        /\ q = QOf(T[l].f) /\ live = SetOf(T[l].f.live)
        /\ lastRes = Q!NoEntry /\ lastFrees = {} /\ lastOp = "from"
Rec == T[l]
Op  == Rec.op
\* the text is stored iff one was given, the build supports texts and the allocation was not made to fail
Stored == Op[1] = "push" /\ Op[3] = 1 /\ Rec.info = 1 /\ Op[5] = 0
NewId  == IF Len(Rec.allocs) = 1 THEN Rec.allocs[1] ELSE 0
Step ==
  IF Op[1] = "push" THEN
     LET r == Q!PushQ(q, Rec.cap, Op[2], Stored, Op[4], NewId) IN
     /\ q' = r.q /\ live' = (live \cup (IF Stored THEN {NewId} ELSE {})) \ r.frees
     /\ lastFrees' = r.frees /\ lastRes' = Q!NoEntry
  ELSE IF Op[1] \in {"pop", "syst"} THEN
     LET r == Q!PopQ(q) IN
     /\ q' = r.q /\ live' = live \ r.frees /\ lastFrees' = r.frees /\ lastRes' = r.res
  ELSE IF Op[1] \in {"clear", "cls"} THEN
     LET r == Q!ClearQ(q) IN
     /\ q' = r.q /\ live' = live \ r.frees /\ lastFrees' = r.frees /\ lastRes' = Q!NoEntry
  ELSE /\ UNCHANGED <<q, live>> /\ lastFrees' = {} /\ lastRes' = Q!NoEntry
Next == phase = 0 /\ phase' = 1 /\ l' = l /\ lastOp' = Op[1] /\ Step
Spec == Init /\ [][Next]_vars

\* judged only from states that satisfy the specification's invariants
FromOk == /\ Len(Rec.f.q) <= Rec.cap
          /\ SetOf(Rec.f.live) = Q!IdsOf(QOf(Rec.f))
          /\ \A i \in 1..Len(Rec.f.q) : Rec.f.q[i][4] >= 0
OutCode == LET o == Rec.out
               n == IF \E i \in 1..Len(o) : o[i] = 44 THEN (CHOOSE i \in 1..Len(o) : o[i] = 44 /\ \A j \in 1..(i - 1) : o[j] # 44) - 1 ELSE Len(o)
           IN SubSeq(o, 1, n)
Diff ==
     (IF QOf(Rec.t) = q THEN {} ELSE {"queue"})
     \cup (IF SetOf(Rec.t.live) = live THEN {} ELSE {"live-allocations"})
     \cup (IF SetOf(Rec.frees) = lastFrees /\ Len(Rec.frees) = Cardinality(lastFrees) THEN {} ELSE {"releases"})
     \cup (IF Op[1] = "push" /\ Stored /\ Len(Rec.allocs) # 1 THEN {"text-not-stored"} ELSE {})
     \cup (IF Op[1] = "push" /\ ~Stored /\ Len(Rec.allocs) # 0 THEN {"unexpected-allocation"} ELSE {})
     \cup (IF Op[1] # "push" /\ Len(Rec.allocs) # 0 THEN {"unexpected-allocation"} ELSE {})
     \cup (IF Op[1] = "pop" /\ (Rec.res[1] # lastRes.code \/ (Rec.res[2] = 1) # lastRes.has \/ Rec.res[3] # lastRes.text) THEN {"popped"} ELSE {})
     \cup (IF Op[1] = "syst" /\ ~Q!ResponseOk(SubSeq(Rec.out, 1, Len(Rec.out) - 2), lastRes.code, lastRes.has, lastRes.text, 255) THEN {"response"} ELSE {})
     \cup (IF Op[1] = "count" /\ Rec.cnt # Len(q) THEN {"count"} ELSE {})
Conforms == phase = 1 =>
              IF FromOk THEN Diff = {} \/ PrintT(<<"MISMATCH", l, Diff>>)
              ELSE PrintT(<<"UNJUDGED", l>>)
=============================================================================
