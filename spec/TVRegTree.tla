----------------------------- MODULE TVRegTree -----------------------------
(* Transition validation for the register tree: every transition recorded   *)
(* from the library built with the user register tree - by exploration of   *)
(* its state graph over the model alphabets or by random walks over all     *)
(* registers and 16-bit values - must be the step ScpiRegTree prescribes.   *)
(* One initial state per recorded line, one specification step, compare.    *)
EXTENDS Integers, Sequences, FiniteSets, TLC, Json, IOUtils

T == ndJsonDeserialize(IOEnv.TRACE)
VARIABLES l, phase, reg, rises, lastOp
R == INSTANCE ScpiRegTree WITH TOps <- {}

RegOf(rec) == [n \in R!Names |-> R!Bits(rec.r[CHOOSE i \in DOMAIN R!RegOrder : R!RegOrder[i] = n])]
OpOf(o) == IF Len(o) = 3 THEN <<o[1], o[2], R!Bits(o[3])>> ELSE o
vars == <<l, phase, reg, rises, lastOp>>
Init == l \in 1..Len(T) /\ phase = 0 /\ reg = RegOf(T[l].f) /\ rises = <<>> /\ lastOp = <<"from">>
Next == /\ phase = 0 /\ phase' = 1 /\ l' = l
        /\ LET e == R!TEffect(reg, OpOf(T[l].op)) IN reg' = e.reg /\ rises' = e.rises
        /\ lastOp' = T[l].op
Spec == Init /\ [][Next]_vars

To == RegOf(T[l].t)
Srq == T[l].srq
(* the required announcements appear, in order, among the recorded ones *)
RECURSIVE SubseqFrom(_, _, _)
SubseqFrom(need, have, i) == IF need = <<>> THEN TRUE
                             ELSE IF i > Len(have) THEN FALSE
                             ELSE IF R!Bits(have[i]) = Head(need) THEN SubseqFrom(Tail(need), have, i + 1)
                             ELSE SubseqFrom(need, have, i + 1)
Diff == {n \in R!Names : To[n] # reg[n]}
        \cup (IF SubseqFrom(rises, Srq, 1) THEN {} ELSE {"srq-missing"})
        \cup (IF \E i \in 1..Len(Srq) : 6 \notin R!Bits(Srq[i]) THEN {"srq-without-mss"} ELSE {})
        \cup (IF Srq # <<>> /\ rises = <<>> /\ 6 \notin reg["STB"] /\ 6 \notin RegOf(T[l].f)["STB"] THEN {"srq-while-mss-clear"} ELSE {})
(* what the step exercises, for the coverage account *)
Tags == (IF \E g \in R!Groups : R!GroupDef[g].cond # R!NONE /\ RegOf(T[l].f)[R!GroupDef[g].cond] # reg[R!GroupDef[g].cond]
                                 /\ R!GroupDef[g].parent # R!NONE /\ R!Class[R!GroupDef[g].parent] = "COND" THEN {"t:cascade"} ELSE {})
Conforms == phase = 1 => (Diff = {} \/ PrintT(<<"MISMATCH", l, Diff>>))
=============================================================================
