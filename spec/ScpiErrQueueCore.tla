-------------------------- MODULE ScpiErrQueueCore --------------------------
(***************************************************************************)
(* The error/event queue (C10): entries, the bounded FIFO with overflow    *)
(* marker, ownership of the stored texts, and the state machine that TLC   *)
(* model-checks and TLAPS proves (ScpiErrQueueProofs).  Kept free of       *)
(* RECURSIVE operators so that the proof system can read it; the response  *)
(* of the error query (C18) is in ScpiErrQueue, which extends this module. *)
(***************************************************************************)
EXTENDS Integers, Sequences, FiniteSets, TLC

QueueOverflow == 0 - 350
NoEntry   == [code |-> 0, has |-> FALSE, text |-> <<>>, id |-> 0]
Marker    == [code |-> QueueOverflow, has |-> FALSE, text |-> <<>>, id |-> 0]
Ent(c, stored, t, i) == [code |-> c, has |-> stored, text |-> IF stored THEN t ELSE <<>>, id |-> IF stored THEN i ELSE 0]
IdsOf(qq) == {qq[i].id : i \in {j \in 1..Len(qq) : qq[j].has}}

(* push: stored = the text was given, the build supports texts and storing it succeeded *)
PushQ(qq, cap, c, stored, t, i) ==
  IF Len(qq) < cap THEN [q |-> Append(qq, Ent(c, stored, t, i)), frees |-> {}, overflow |-> FALSE]
  ELSE [q |-> Append(SubSeq(qq, 1, cap - 1), Marker),
        frees |-> (IF stored THEN {i} ELSE {}) \cup (IF qq[Len(qq)].has THEN {qq[Len(qq)].id} ELSE {}),
        overflow |-> TRUE]
(* pop + consume (the caller releases the text it was handed; SYST:ERR? does exactly that) *)
PopQ(qq) == IF qq = <<>> THEN [q |-> qq, res |-> NoEntry, frees |-> {}]
            ELSE [q |-> Tail(qq), res |-> Head(qq), frees |-> IF Head(qq).has THEN {Head(qq).id} ELSE {}]
ClearQ(qq) == [q |-> <<>>, frees |-> IdsOf(qq)]

-----------------------------------------------------------------------------
(* State machine for model checking: every history of pushes (with / without text, storing may fail), *)
(* pops, error queries, clears and counts.                                                           *)
CONSTANTS Cap, Codes, Texts
VARIABLES q, live, lastRes, lastFrees, lastOp
qvars == <<q, live, lastRes, lastFrees, lastOp>>

QInit == q = <<>> /\ live = {} /\ lastRes = NoEntry /\ lastFrees = {} /\ lastOp = "init"
FreshId == CHOOSE i \in 1..(Cap + 2) : i \notin live

DoPush(c, hasInfo, t, allocOk) ==
  LET stored == hasInfo /\ allocOk
      r == PushQ(q, Cap, c, stored, t, FreshId)
      liveMid == IF stored THEN live \cup {FreshId} ELSE live IN
  /\ q' = r.q
  /\ Assert(r.frees \subseteq liveMid, "release of an allocation that is not live (double free)")
  /\ live' = liveMid \ r.frees /\ lastFrees' = r.frees /\ lastRes' = NoEntry /\ lastOp' = "push"
DoPop == LET r == PopQ(q) IN
  /\ q' = r.q /\ Assert(r.frees \subseteq live, "double free") /\ live' = live \ r.frees
  /\ lastFrees' = r.frees /\ lastRes' = r.res /\ lastOp' = "pop"
DoClear == LET r == ClearQ(q) IN
  /\ q' = r.q /\ Assert(r.frees \subseteq live, "double free") /\ live' = live \ r.frees
  /\ lastFrees' = r.frees /\ lastRes' = NoEntry /\ lastOp' = "clear"
QNext == \/ \E c \in Codes, t \in Texts, h \in BOOLEAN, a \in BOOLEAN : DoPush(c, h, t, a)
         \/ DoPop \/ DoClear
QSpec == QInit /\ [][QNext]_qvars

Bounded     == Len(q) <= Cap
Ownership   == live = IdsOf(q)                            \* no leak; nothing released is still referenced
DistinctIds == \A i, j \in 1..Len(q) : (i # j /\ q[i].has /\ q[j].has) => q[i].id # q[j].id
TextsIntact == \A i \in 1..Len(q) : q[i].has => q[i].text \in Texts
OverflowMarks == [][(lastOp' = "push" /\ Len(q) = Cap) => (q'[Cap] = Marker /\ SubSeq(q', 1, Cap - 1) = SubSeq(q, 1, Cap - 1))]_qvars
PopIsOldest == [][lastOp' = "pop" => (IF q = <<>> THEN lastRes' = NoEntry /\ q' = q ELSE lastRes' = Head(q) /\ q' = Tail(q))]_qvars
ReleasedOnce == [][lastFrees' \cap live' = {} /\ lastFrees' \cap IdsOf(q') = {}]_qvars
=============================================================================
