SPECIFICATION Spec
CONSTANT N = 8
CONSTANT AlphaSet <- A_ws
CONSTANT Which <- W_ws
INVARIANT Lemmas
CHECK_DEADLOCK FALSE
