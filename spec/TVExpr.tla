------------------------------- MODULE TVExpr -------------------------------
(* Validation of results recorded from the real library (C19).  One initial  *)
(* state per recorded body; every query of the line (entry 0..9, the three   *)
(* numeric readers and the channel reader with capacity 0..4) is judged by   *)
(* ScpiExpr!Verdict.  Complaints are printed, the invariant stays TRUE.      *)
(*   <<"MISMATCH", line, {<<api, complaint, index, capacity>>, ...}>>        *)
(*     (per api and complaint only the first index / capacity is listed)     *)
(*   <<"NOTE", line, "junk-after-entry-tolerated", {apis}>>                  *)
(*   <<"UNJUDGED", line>>  the command handler did not run                   *)
EXTENDS ScpiExpr, TLC, Json, IOUtils

T == ndJsonDeserialize(IOEnv.TRACE)
VARIABLES l, phase
vars == <<l, phase>>
Init == l \in 1..Len(T) /\ phase = 0
Next == phase = 0 /\ phase' = 1 /\ l' = l
Spec == Init /\ [][Next]_vars

FILL == 1515870810
CodeName(c) == IF c = 0 THEN "OK" ELSE IF c = 1 THEN "ERROR" ELSE IF c = 2 THEN "NO_MORE" ELSE "?"
Pick(s, i) == s[MinOf2(i + 1, Len(s))]          \* dropped trailing elements repeat the last one
Expand(a, cap) == [k \in 1..cap |-> IF k <= Len(a) THEN a[k] ELSE FILL]
NumObs(x) == [code |-> CodeName(x[1]), range |-> x[2] = 1, dims |-> 1, from |-> <<x[3]>>, to |-> <<x[4]>>,
              errs |-> x[5], canary |-> TRUE]
ChanObs(x, cap) == [code |-> CodeName(x[1]), range |-> x[2] = 1, dims |-> x[3], from |-> Expand(x[4], cap),
                    to |-> Expand(x[5], cap), errs |-> x[6], canary |-> x[7] = 1]
Apis == <<"tok", "int", "dbl">>
Indexes == 0..9
Capacities == 0..4

Diff(rec) ==
  LET b == rec.b
      sn == Scan("num", b)
      sc == Scan("chan", b)
  IN UNION {
       UNION { {<<Apis[a], c, i, 1>> : c \in Verdict("num", Apis[a], b, sn, i, 1, NumObs(Pick(rec.N, i)[a]))} : a \in 1..3 }
       \cup UNION { {<<"chan", c, i, cap>> : c \in Verdict("chan", "chan", b, sc, i, cap, ChanObs(Pick(Pick(rec.C, i), cap), cap))} : cap \in Capacities }
       : i \in Indexes }
Before(x, y) == x[3] < y[3] \/ (x[3] = y[3] /\ x[4] <= y[4])
Reduced(D) == {x \in D : \A y \in D : (y[1] = x[1] /\ y[2] = x[2]) => Before(x, y)}

\* readers that reported OK for the last readable entry although bytes other than a comma follow it
Tolerated(rec) ==
  LET b == rec.b
      junk(kind) == LET s == Scan(kind, b) IN
                      ~s.clean /\ s.entries # <<>> /\ At(b, s.entries[Len(s.entries)].end) # COMMA
      last(kind) == Len(Scan(kind, b).entries) - 1
  IN (IF junk("num") THEN {Apis[a] : a \in {k \in 1..3 : Pick(rec.N, last("num"))[k][1] = 0}} ELSE {})
     \cup (IF junk("chan") /\ Pick(Pick(rec.C, last("chan")), 4)[1] = 0 THEN {"chan"} ELSE {})

Conforms ==
  phase = 1 =>
    IF T[l].h # 1 THEN PrintT(<<"UNJUDGED", l>>)
    ELSE LET d == Diff(T[l])
             t == Tolerated(T[l]) IN
           /\ d = {} \/ PrintT(<<"MISMATCH", l, Reduced(d)>>)
           /\ t = {} \/ PrintT(<<"NOTE", l, "junk-after-entry-tolerated", t>>)
=============================================================================
