--------------------------- MODULE ScpiNumDigits ---------------------------
(***************************************************************************)
(* Exact natural numbers for C04 (TLC integers are 32 bit).  A natural is  *)
(* a little-endian sequence of limbs 0..LB-1 without most significant zero *)
(* limbs (<<>> is 0).  LB = 65536 in the binding (64-bit values cross the  *)
(* JSON boundary as four 16-bit limbs); the small-width model instantiates *)
(* LB = 4 so that TLC can compare every operator with its own integers.    *)
(* Multipliers / divisors are small (<= 16), so no intermediate exceeds    *)
(* 16 * LB.                                                                *)
(***************************************************************************)
EXTENDS Integers, Sequences
CONSTANT LB

IsNat(a) == /\ \A i \in 1..Len(a) : a[i] \in 0..(LB - 1)
            /\ (Len(a) > 0 => a[Len(a)] # 0)

RECURSIVE Trim(_)
Trim(a) == IF a # <<>> /\ a[Len(a)] = 0 THEN Trim(SubSeq(a, 1, Len(a) - 1)) ELSE a

RECURSIVE NatOfInt(_)
NatOfInt(n) == IF n = 0 THEN <<>> ELSE <<n % LB>> \o NatOfInt(n \div LB)

RECURSIVE IntOfNat(_)          \* only for naturals that fit TLC's integers (small-width model)
IntOfNat(a) == IF a = <<>> THEN 0 ELSE Head(a) + LB * IntOfNat(Tail(a))

(* a * m + c for 1 <= m <= 16, 0 <= c < 16 *)
RECURSIVE MulAdd(_, _, _)
MulAdd(a, m, c) == IF a = <<>> THEN NatOfInt(c)
                   ELSE LET t == Head(a) * m + c IN <<t % LB>> \o MulAdd(Tail(a), m, t \div LB)

(* value of a digit sequence (most significant digit first) in a base <= 16 *)
RECURSIVE NatOfDigitsR(_, _, _, _)
NatOfDigitsR(ds, i, base, acc) == IF i > Len(ds) THEN acc
                                  ELSE NatOfDigitsR(ds, i + 1, base, Trim(MulAdd(acc, base, ds[i])))
NatOfDigits(ds, base) == NatOfDigitsR(ds, 1, base, <<>>)

(* quotient and remainder by a small m *)
DivSmall(a, m) ==
  LET n == Len(a)
      r[i \in 1..(n + 1)] == IF i = n + 1 THEN 0 ELSE (r[i + 1] * LB + a[i]) % m
  IN [q |-> Trim([i \in 1..n |-> (r[i + 1] * LB + a[i]) \div m]), r |-> r[1]]

(* digits (most significant first) of a natural in a base <= 16; 0 has the single digit 0 *)
RECURSIVE DigitsR(_, _, _)
DigitsR(a, base, acc) == IF a = <<>> THEN acc
                         ELSE LET d == DivSmall(a, base) IN DigitsR(d.q, base, <<d.r>> \o acc)
DigitsOf(a, base) == IF a = <<>> THEN <<0>> ELSE DigitsR(a, base, <<>>)

(* order *)
NatLess(a, b) ==
  \/ Len(a) < Len(b)
  \/ /\ Len(a) = Len(b) /\ a # b
     /\ LET k == CHOOSE i \in 1..Len(a) : a[i] # b[i] /\ \A j \in (i + 1)..Len(a) : a[j] = b[j]
        IN a[k] < b[k]
NatLeq(a, b) == a = b \/ NatLess(a, b)

Succ(a) == Trim(MulAdd(a, 1, 1))
RECURSIVE PredR(_)
PredR(a) == IF Head(a) > 0 THEN <<Head(a) - 1>> \o Tail(a) ELSE <<LB - 1>> \o PredR(Tail(a))
Pred(a)  == Trim(PredR(a))                                  \* a > 0
RECURSIVE Pow2(_)
Pow2(k) == IF k = 0 THEN <<1>> ELSE Trim(MulAdd(Pow2(k - 1), 2, 0))

(* fixed-width machine integers of W limbs *)
Pad(a, W)    == [i \in 1..W |-> IF i <= Len(a) THEN a[i] ELSE 0]
HalfRange(W) == [i \in 1..W |-> IF i = W THEN LB \div 2 ELSE 0]      \* 2^(bits-1)
FitsUnsigned(neg, a, W) == Len(a) <= W /\ (neg => a = <<>>)
FitsSigned(neg, a, W)   == IF neg THEN NatLeq(a, HalfRange(W)) ELSE NatLess(a, HalfRange(W))
(* two's complement bit pattern (W limbs, little endian) of +a or -a *)
Encode(neg, a, W) ==
  IF ~neg \/ a = <<>> THEN Pad(a, W)
  ELSE LET p == Pad(a, W)
           k == CHOOSE i \in 1..W : p[i] # 0 /\ \A j \in 1..(i - 1) : p[j] = 0
       IN [i \in 1..W |-> IF i < k THEN 0 ELSE IF i = k THEN LB - p[i] ELSE LB - 1 - p[i]]
=============================================================================
