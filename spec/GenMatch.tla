------------------------------ MODULE GenMatch ------------------------------
(* C03, R: for every enumerated well-formed pattern one ndjson line with the *)
(* pattern text, the headers of its neighbourhood and, per header, what the  *)
(* property demands: r[i] = <<>> (rejected) or <<1, n1, .., nk>> (accepted,  *)
(* with the numeric suffixes; DefaultMark stands for the caller's default).  *)
(* The C driver drv_match executes every pair on the real library.           *)
EXTENDS MCMatch, Json

HdrSeq == SetToSeq(Hdrs)
Verdict(h) == IF pat.common THEN (IF AcceptsText(pat.text, h) THEN <<1>> ELSE <<>>)
              ELSE LET vs == NumberVectors(pat.kws, pat.query, h, DefaultMark) IN    \* Accepts <=> vs # {}
                   IF vs = {} THEN <<>> ELSE <<1>> \o (CHOOSE v \in vs : TRUE)
Line == LET hs == HdrSeq IN
        [p |-> pat.text, nn |-> IF pat.common THEN 0 ELSE Len(NumIdx(pat.kws)), h |-> hs,
         r |-> [i \in 1..Len(hs) |-> Verdict(hs[i])]]
Emit == (pat.common \/ WF) =>
          Serialize(ToJson(Line) \o "\n", IOEnv.OUT,
                    [format |-> "TXT", charset |-> "UTF-8", openOptions |-> <<"WRITE", "CREATE", "APPEND">>]).exitValue = 0
=============================================================================
