INIT Init
NEXT GenNext
CONSTANTS
 Cap = 2
 Ops <- OpsN
 NestedOps <- NestedN
 SrqOps <- SrqS
CHECK_DEADLOCK FALSE
