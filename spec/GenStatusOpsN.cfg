INIT Init
NEXT GenNext
CONSTANTS
 Cap = 2
 Ops <- OpsN
 NestedOps <- NestedN
CHECK_DEADLOCK FALSE
