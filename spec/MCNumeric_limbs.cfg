INIT InitNum
NEXT Next
CONSTANTS
 LimbBase = 4
 MaxLen = 6
 MaxN = 300
 Alphabet <- AlphaA
 DigitSet <- DigitsQ
 WsSet <- WsQ
INVARIANT LimbLemmas
INVARIANT OrderLemma
INVARIANT Pow2Lemma
CHECK_DEADLOCK FALSE
