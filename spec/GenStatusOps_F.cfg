INIT Init
NEXT GenNext
CONSTANTS
 Cap = 2
 Ops <- OpsF
CHECK_DEADLOCK FALSE
