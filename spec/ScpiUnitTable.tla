--------------------------- MODULE ScpiUnitTable ---------------------------
(* FROZEN TRANSCRIPTION - generated once by run/gen_c04_units.py from           *)
(* libscpi/src/units.c (default configuration: 101 unit rows, 9 special       *)
(* mnemonics).  Do not regenerate as part of a check: the property speaks      *)
(* about "the unit table"; this module is the reference copy the code is       *)
(* compared with.  A row is [name, unit, n, d, e]: the suffix (upper case byte *)
(* sequence), the base unit tag, and the multiplier as the exact rational       *)
(* n/d * 10^e.  A special is [pat, tag]: pattern with upper-case short form.    *)
EXTENDS Integers
UnitRows == <<
  [name |-> <<71, 89>>, unit |-> "GRAY", n |-> 1, d |-> 1, e |-> 0],  \* GY
  [name |-> <<66, 81>>, unit |-> "BECQUEREL", n |-> 1, d |-> 1, e |-> 0],  \* BQ
  [name |-> <<77, 79, 76>>, unit |-> "MOLE", n |-> 1, d |-> 1, e |-> 0],  \* MOL
  [name |-> <<78, 83, 86>>, unit |-> "SIEVERT", n |-> 1, d |-> 1, e |-> 0 - 9],  \* NSV
  [name |-> <<85, 83, 86>>, unit |-> "SIEVERT", n |-> 1, d |-> 1, e |-> 0 - 6],  \* USV
  [name |-> <<77, 83, 86>>, unit |-> "SIEVERT", n |-> 1, d |-> 1, e |-> 0 - 3],  \* MSV
  [name |-> <<83, 86>>, unit |-> "SIEVERT", n |-> 1, d |-> 1, e |-> 0],  \* SV
  [name |-> <<75, 83, 86>>, unit |-> "SIEVERT", n |-> 1, d |-> 1, e |-> 3],  \* KSV
  [name |-> <<77, 65, 83, 86>>, unit |-> "SIEVERT", n |-> 1, d |-> 1, e |-> 6],  \* MASV
  [name |-> <<69, 86>>, unit |-> "ELECTRONVOLT", n |-> 1, d |-> 1, e |-> 0],  \* EV
  [name |-> <<75, 69, 86>>, unit |-> "ELECTRONVOLT", n |-> 1, d |-> 1, e |-> 3],  \* KEV
  [name |-> <<77, 65, 69, 86>>, unit |-> "ELECTRONVOLT", n |-> 1, d |-> 1, e |-> 6],  \* MAEV
  [name |-> <<71, 69, 86>>, unit |-> "ELECTRONVOLT", n |-> 1, d |-> 1, e |-> 9],  \* GEV
  [name |-> <<84, 69, 86>>, unit |-> "ELECTRONVOLT", n |-> 1, d |-> 1, e |-> 12],  \* TEV
  [name |-> <<85>>, unit |-> "ATOMIC_MASS", n |-> 1, d |-> 1, e |-> 0],  \* U
  [name |-> <<68, 69, 71>>, unit |-> "DEGREE", n |-> 1, d |-> 1, e |-> 0],  \* DEG
  [name |-> <<71, 79, 78>>, unit |-> "GRADE", n |-> 1, d |-> 1, e |-> 0],  \* GON
  [name |-> <<77, 78, 84>>, unit |-> "DEGREE", n |-> 1, d |-> 60, e |-> 0],  \* MNT
  [name |-> <<82, 65, 68>>, unit |-> "RADIAN", n |-> 1, d |-> 1, e |-> 0],  \* RAD
  [name |-> <<83, 69, 67>>, unit |-> "DEGREE", n |-> 1, d |-> 3600, e |-> 0],  \* SEC
  [name |-> <<82, 69, 86>>, unit |-> "REVOLUTION", n |-> 1, d |-> 1, e |-> 0],  \* REV
  [name |-> <<82, 83>>, unit |-> "STERADIAN", n |-> 1, d |-> 1, e |-> 0],  \* RS
  [name |-> <<80, 70>>, unit |-> "FARAD", n |-> 1, d |-> 1, e |-> 0 - 12],  \* PF
  [name |-> <<78, 70>>, unit |-> "FARAD", n |-> 1, d |-> 1, e |-> 0 - 9],  \* NF
  [name |-> <<85, 70>>, unit |-> "FARAD", n |-> 1, d |-> 1, e |-> 0 - 6],  \* UF
  [name |-> <<77, 70>>, unit |-> "FARAD", n |-> 1, d |-> 1, e |-> 0 - 3],  \* MF
  [name |-> <<70>>, unit |-> "FARAD", n |-> 1, d |-> 1, e |-> 0],  \* F
  [name |-> <<85, 65>>, unit |-> "AMPER", n |-> 1, d |-> 1, e |-> 0 - 6],  \* UA
  [name |-> <<77, 65>>, unit |-> "AMPER", n |-> 1, d |-> 1, e |-> 0 - 3],  \* MA
  [name |-> <<65>>, unit |-> "AMPER", n |-> 1, d |-> 1, e |-> 0],  \* A
  [name |-> <<75, 65>>, unit |-> "AMPER", n |-> 1, d |-> 1, e |-> 3],  \* KA
  [name |-> <<85, 86>>, unit |-> "VOLT", n |-> 1, d |-> 1, e |-> 0 - 6],  \* UV
  [name |-> <<77, 86>>, unit |-> "VOLT", n |-> 1, d |-> 1, e |-> 0 - 3],  \* MV
  [name |-> <<86>>, unit |-> "VOLT", n |-> 1, d |-> 1, e |-> 0],  \* V
  [name |-> <<75, 86>>, unit |-> "VOLT", n |-> 1, d |-> 1, e |-> 3],  \* KV
  [name |-> <<79, 72, 77>>, unit |-> "OHM", n |-> 1, d |-> 1, e |-> 0],  \* OHM
  [name |-> <<75, 79, 72, 77>>, unit |-> "OHM", n |-> 1, d |-> 1, e |-> 3],  \* KOHM
  [name |-> <<77, 79, 72, 77>>, unit |-> "OHM", n |-> 1, d |-> 1, e |-> 6],  \* MOHM
  [name |-> <<85, 72>>, unit |-> "HENRY", n |-> 1, d |-> 1, e |-> 0 - 6],  \* UH
  [name |-> <<77, 72>>, unit |-> "HENRY", n |-> 1, d |-> 1, e |-> 0 - 3],  \* MH
  [name |-> <<72>>, unit |-> "HENRY", n |-> 1, d |-> 1, e |-> 0],  \* H
  [name |-> <<67>>, unit |-> "COULOMB", n |-> 1, d |-> 1, e |-> 0],  \* C
  [name |-> <<85, 83, 73, 69>>, unit |-> "SIEMENS", n |-> 1, d |-> 1, e |-> 0 - 6],  \* USIE
  [name |-> <<77, 83, 73, 69>>, unit |-> "SIEMENS", n |-> 1, d |-> 1, e |-> 0 - 3],  \* MSIE
  [name |-> <<83, 73, 69>>, unit |-> "SIEMENS", n |-> 1, d |-> 1, e |-> 0],  \* SIE
  [name |-> <<74>>, unit |-> "JOULE", n |-> 1, d |-> 1, e |-> 0],  \* J
  [name |-> <<75, 74>>, unit |-> "JOULE", n |-> 1, d |-> 1, e |-> 3],  \* KJ
  [name |-> <<77, 65, 74>>, unit |-> "JOULE", n |-> 1, d |-> 1, e |-> 6],  \* MAJ
  [name |-> <<78>>, unit |-> "NEWTON", n |-> 1, d |-> 1, e |-> 0],  \* N
  [name |-> <<75, 78>>, unit |-> "NEWTON", n |-> 1, d |-> 1, e |-> 3],  \* KN
  [name |-> <<65, 84, 77>>, unit |-> "ATMOSPHERE", n |-> 1, d |-> 1, e |-> 0],  \* ATM
  [name |-> <<73, 78, 72, 71>>, unit |-> "INCH_OF_MERCURY", n |-> 1, d |-> 1, e |-> 0],  \* INHG
  [name |-> <<77, 77, 72, 71>>, unit |-> "MM_OF_MERCURY", n |-> 1, d |-> 1, e |-> 0],  \* MMHG
  [name |-> <<84, 79, 82, 82>>, unit |-> "TORT", n |-> 1, d |-> 1, e |-> 0],  \* TORR
  [name |-> <<66, 65, 82>>, unit |-> "BAR", n |-> 1, d |-> 1, e |-> 0],  \* BAR
  [name |-> <<80, 65, 76>>, unit |-> "PASCAL", n |-> 1, d |-> 1, e |-> 0],  \* PAL
  [name |-> <<75, 80, 65, 76>>, unit |-> "PASCAL", n |-> 1, d |-> 1, e |-> 3],  \* KPAL
  [name |-> <<77, 65, 80, 65, 76>>, unit |-> "PASCAL", n |-> 1, d |-> 1, e |-> 6],  \* MAPAL
  [name |-> <<83, 84>>, unit |-> "STROKES", n |-> 1, d |-> 1, e |-> 0],  \* ST
  [name |-> <<80>>, unit |-> "POISE", n |-> 1, d |-> 1, e |-> 0],  \* P
  [name |-> <<76>>, unit |-> "LITER", n |-> 1, d |-> 1, e |-> 0],  \* L
  [name |-> <<77, 71>>, unit |-> "KILOGRAM", n |-> 1, d |-> 1, e |-> 0 - 6],  \* MG
  [name |-> <<71>>, unit |-> "KILOGRAM", n |-> 1, d |-> 1, e |-> 0 - 3],  \* G
  [name |-> <<75, 71>>, unit |-> "KILOGRAM", n |-> 1, d |-> 1, e |-> 0],  \* KG
  [name |-> <<84, 78, 69>>, unit |-> "KILOGRAM", n |-> 1, d |-> 1, e |-> 3],  \* TNE
  [name |-> <<72, 90>>, unit |-> "HERTZ", n |-> 1, d |-> 1, e |-> 0],  \* HZ
  [name |-> <<75, 72, 90>>, unit |-> "HERTZ", n |-> 1, d |-> 1, e |-> 3],  \* KHZ
  [name |-> <<77, 72, 90>>, unit |-> "HERTZ", n |-> 1, d |-> 1, e |-> 6],  \* MHZ
  [name |-> <<71, 72, 90>>, unit |-> "HERTZ", n |-> 1, d |-> 1, e |-> 9],  \* GHZ
  [name |-> <<65, 83, 85>>, unit |-> "ASTRONOMIC_UNIT", n |-> 1, d |-> 1, e |-> 0],  \* ASU
  [name |-> <<80, 82, 83>>, unit |-> "PARSEC", n |-> 1, d |-> 1, e |-> 0],  \* PRS
  [name |-> <<78, 77>>, unit |-> "METER", n |-> 1, d |-> 1, e |-> 0 - 9],  \* NM
  [name |-> <<85, 77>>, unit |-> "METER", n |-> 1, d |-> 1, e |-> 0 - 6],  \* UM
  [name |-> <<77, 77>>, unit |-> "METER", n |-> 1, d |-> 1, e |-> 0 - 3],  \* MM
  [name |-> <<77>>, unit |-> "METER", n |-> 1, d |-> 1, e |-> 0],  \* M
  [name |-> <<75, 77>>, unit |-> "METER", n |-> 1, d |-> 1, e |-> 3],  \* KM
  [name |-> <<76, 88>>, unit |-> "LUX", n |-> 1, d |-> 1, e |-> 0],  \* LX
  [name |-> <<76, 77>>, unit |-> "LUMEN", n |-> 1, d |-> 1, e |-> 0],  \* LM
  [name |-> <<67, 68>>, unit |-> "CANDELA", n |-> 1, d |-> 1, e |-> 0],  \* CD
  [name |-> <<87, 66>>, unit |-> "WEBER", n |-> 1, d |-> 1, e |-> 0],  \* WB
  [name |-> <<78, 84>>, unit |-> "TESLA", n |-> 1, d |-> 1, e |-> 0 - 9],  \* NT
  [name |-> <<85, 84>>, unit |-> "TESLA", n |-> 1, d |-> 1, e |-> 0 - 6],  \* UT
  [name |-> <<77, 84>>, unit |-> "TESLA", n |-> 1, d |-> 1, e |-> 0 - 3],  \* MT
  [name |-> <<84>>, unit |-> "TESLA", n |-> 1, d |-> 1, e |-> 0],  \* T
  [name |-> <<87>>, unit |-> "WATT", n |-> 1, d |-> 1, e |-> 0],  \* W
  [name |-> <<68, 66, 77>>, unit |-> "DBM", n |-> 1, d |-> 1, e |-> 0],  \* DBM
  [name |-> <<68, 66, 77, 87>>, unit |-> "DBM", n |-> 1, d |-> 1, e |-> 0],  \* DBMW
  [name |-> <<68, 66>>, unit |-> "DECIBEL", n |-> 1, d |-> 1, e |-> 0],  \* DB
  [name |-> <<80, 67, 84>>, unit |-> "UNITLESS", n |-> 1, d |-> 1, e |-> 0 - 2],  \* PCT
  [name |-> <<80, 80, 77>>, unit |-> "UNITLESS", n |-> 1, d |-> 1, e |-> 0 - 6],  \* PPM
  [name |-> <<67, 69, 76>>, unit |-> "CELSIUS", n |-> 1, d |-> 1, e |-> 0],  \* CEL
  [name |-> <<75>>, unit |-> "KELVIN", n |-> 1, d |-> 1, e |-> 0],  \* K
  [name |-> <<80, 83>>, unit |-> "SECOND", n |-> 1, d |-> 1, e |-> 0 - 12],  \* PS
  [name |-> <<78, 83>>, unit |-> "SECOND", n |-> 1, d |-> 1, e |-> 0 - 9],  \* NS
  [name |-> <<85, 83>>, unit |-> "SECOND", n |-> 1, d |-> 1, e |-> 0 - 6],  \* US
  [name |-> <<77, 83>>, unit |-> "SECOND", n |-> 1, d |-> 1, e |-> 0 - 3],  \* MS
  [name |-> <<83>>, unit |-> "SECOND", n |-> 1, d |-> 1, e |-> 0],  \* S
  [name |-> <<77, 73, 78>>, unit |-> "SECOND", n |-> 60, d |-> 1, e |-> 0],  \* MIN
  [name |-> <<72, 82>>, unit |-> "SECOND", n |-> 3600, d |-> 1, e |-> 0],  \* HR
  [name |-> <<68>>, unit |-> "DAY", n |-> 1, d |-> 1, e |-> 0],  \* D
  [name |-> <<65, 78, 78>>, unit |-> "YEAR", n |-> 1, d |-> 1, e |-> 0]   \* ANN
>>
SpecialRows == <<
  [pat |-> <<77, 73, 78, 105, 109, 117, 109>>, tag |-> "MIN"],  \* MINimum
  [pat |-> <<77, 65, 88, 105, 109, 117, 109>>, tag |-> "MAX"],  \* MAXimum
  [pat |-> <<68, 69, 70, 97, 117, 108, 116>>, tag |-> "DEF"],  \* DEFault
  [pat |-> <<85, 80>>, tag |-> "UP"],  \* UP
  [pat |-> <<68, 79, 87, 78>>, tag |-> "DOWN"],  \* DOWN
  [pat |-> <<78, 65, 78>>, tag |-> "NAN"],  \* NAN
  [pat |-> <<73, 78, 70, 105, 110, 105, 116, 121>>, tag |-> "INF"],  \* INFinity
  [pat |-> <<78, 73, 78, 70>>, tag |-> "NINF"],  \* NINF
  [pat |-> <<65, 85, 84, 79>>, tag |-> "AUTO"]   \* AUTO
>>
=============================================================================
