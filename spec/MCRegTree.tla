----------------------------- MODULE MCRegTree -----------------------------
(* Bounded alphabets for model checking ScpiRegTree on the register tree of *)
(* the verification build, and the lemma that ties the tree to ScpiStatus:  *)
(* on the standard registers both specifications prescribe the same step.   *)
EXTENDS ScpiRegTree

BitOps(names, bits) == { <<k, n, {b}>> : k \in {"setbits", "clrbits"}, n \in names, b \in bits }
SetOps(names, bits) == { <<"set", n, v>> : n \in names, v \in SUBSET bits }
Zero(names)         == { <<"set", n, {}>> : n \in names }
Cls                 == { <<"cls">> }

\* T1: three levels with filters: ISUMC -> ISUME -> INSTC.1 -> INSTE -> QUESC.13 -> QUES -> STB.3 -> MSS
OpsT1 == BitOps({"ISUMC", "ISUMP", "ISUMEN"}, {4}) \cup BitOps({"INSTP", "INSTN", "INSTEN"}, {1})
         \cup BitOps({"QUESE"}, {13}) \cup BitOps({"SRE"}, {3}) \cup Zero({"ISUME", "INSTE", "QUES"}) \cup Cls
\* T2: the groups that report to the status byte directly, the enable-less ones, the negative filter alone, OPERC through PWR
OpsT2 == BitOps({"USRE"}, {0, 9}) \cup BitOps({"NGC", "NGN"}, {2}) \cup BitOps({"PWRE", "PWREN"}, {5}) \cup BitOps({"OPERE"}, {9})
         \cup BitOps({"SRE"}, {0, 1, 7}) \cup Zero({"NGE", "OPER", "PWRE", "USRE"}) \cup BitOps({"TOPC"}, {3}) \cup Zero({"TOPE"}) \cup Cls
\* T2q: the same without the second bit of the enable-less group and with fewer service request enable bits (quick tier)
OpsT2q == BitOps({"USRE"}, {9}) \cup BitOps({"NGC", "NGN"}, {2}) \cup BitOps({"PWRE", "PWREN"}, {5}) \cup BitOps({"OPERE"}, {9})
          \cup BitOps({"SRE"}, {1, 7}) \cup Zero({"NGE", "OPER", "PWRE", "USRE"}) \cup BitOps({"TOPC"}, {3}) \cup Zero({"TOPE"}) \cup Cls
\* T3: one group with both filters and two bits, all write kinds on the event register
OpsT3 == BitOps({"INSTC", "INSTP", "INSTN", "INSTEN"}, {0, 9}) \cup SetOps({"INSTE"}, {0, 9}) \cup BitOps({"INSTE"}, {0, 9})
         \cup BitOps({"QUESE"}, {13}) \cup BitOps({"QUESC"}, {2}) \cup BitOps({"SRE"}, {3}) \cup Zero({"QUES"}) \cup Cls
\* T4: leaf bits of a register that also holds a summary bit, together with the standard groups around it
OpsT4 == BitOps({"INSTC"}, {7}) \cup BitOps({"ISUMC", "ISUMEN"}, {0}) \cup BitOps({"INSTP", "INSTN"}, {1, 7}) \cup BitOps({"INSTEN"}, {1, 7})
         \cup BitOps({"QUESC"}, {0}) \cup BitOps({"QUESE"}, {0, 13}) \cup BitOps({"ESR", "ESE"}, {2}) \cup BitOps({"SRE"}, {3, 5})
         \cup Zero({"ISUME", "INSTE", "QUES", "ESR"}) \cup Cls

(* the standard part of the tree is ScpiStatus *)
SS == INSTANCE ScpiStatus WITH Cap <- 1, Ops <- {}, reg <- reg, q <- rises, stb <- reg, srq <- rises, out <- rises, lastOp <- lastOp
StdProj(r) == [n \in {"ESR", "ESE", "OPER", "OPERE", "OPERC", "QUES", "QUESE", "QUESC", "SRE"} |-> r[n]]
StandardAgreement ==
  [][(Simple(lastOp') /\ Class[lastOp'[2]] # "STB" /\ lastOp'[2] \in DOMAIN StdProj(reg) /\ reg["STB"] \cap {0, 1} = {}) =>
       LET a == SS!Apply(StdProj(reg), <<>>, reg["STB"], lastOp', 1) IN
       /\ StdProj(reg') = a.reg
       /\ reg'["STB"] = a.stb
       /\ (a.srq # <<>> => rises' # <<>>)]_tvars
=============================================================================
