---------------------------- MODULE ScpiNumeric ----------------------------
(***************************************************************************)
(* C04 - numeric parameters decode to the value their literal denotes.     *)
(*                                                                         *)
(* Intended behaviour (IEEE 488.2 7.7.2-7.7.4, SCPI-99 vol. 1 ch. 7), not  *)
(* a transliteration of the C code:                                        *)
(*  - the <DECIMAL NUMERIC PROGRAM DATA> language as a declarative grammar *)
(*    over byte sequences (IsDecimal) and, independently, a left-to-right  *)
(*    maximal-munch scanner (Scan); MCNumeric checks that they agree;      *)
(*  - the denotation of a literal as an exact triple (neg, digits, exp10), *)
(*    value = (-1)^neg * digits * 10^exp10, its canonical form, and the    *)
(*    NORMALISED white-space-free literal (same denotation);               *)
(*  - <NONDECIMAL NUMERIC PROGRAM DATA> #H / #Q / #B denoting exact        *)
(*    naturals (limbs, ScpiNumDigits), range predicates and two's          *)
(*    complement bit patterns of the four integer widths;                  *)
(*  - Split(token) -> (number, suffix), unit lookup in the frozen table    *)
(*    ScpiUnitTable (multiplier = exact rational n/d * 10^e) and the       *)
(*    special mnemonics by the short/long form rule;                       *)
(*  - Decode(bytes): what a parameter denotes; Expect(bytes): the record   *)
(*    the generators emit for the driver (harness/drv_numeric.c).          *)
(* What the specification does NOT supply is IEEE-754 rounding: the driver *)
(* rounds the normalised literal / the exact triple with glibc strtod.     *)
(***************************************************************************)
EXTENDS Integers, Sequences, FiniteSets, TLC, ScpiUnitTable
CONSTANT LimbBase
N == INSTANCE ScpiNumDigits WITH LB <- LimbBase

Digit == 48..57
WS    == {32, 9}
Sign  == {43, 45}
Dot   == 46
ExpCh == {69, 101}
Upper == 65..90
Lower == 97..122
Alpha == Upper \cup Lower
ToUpper(c) == IF c \in Lower THEN c - 32 ELSE c
ToLower(c) == IF c \in Upper THEN c + 32 ELSE c
UpperSeq(s) == [i \in 1..Len(s) |-> ToUpper(s[i])]
LowerSeq(s) == [i \in 1..Len(s) |-> ToLower(s[i])]
AllIn(s, i, j, S) == \A k \in i..j : s[k] \in S
DigitVals(s) == [i \in 1..Len(s) |-> s[i] - 48]

-----------------------------------------------------------------------------
(* The grammar (7.7.2.2): [sign] mantissa [ws* E ws* [sign] digit+],          *)
(* mantissa = digit+ | digit+ . | digit+ . digit+ | . digit+                  *)
IsMantissa(s, i, j) == /\ i <= j /\ AllIn(s, i, j, Digit \cup {Dot})
                       /\ Cardinality({k \in i..j : s[k] = Dot}) <= 1
                       /\ \E k \in i..j : s[k] \in Digit
IsExponent(s, i, j) ==
  \E p \in i..j : /\ AllIn(s, i, p - 1, WS) /\ s[p] \in ExpCh
                  /\ \E q \in (p + 1)..j : /\ AllIn(s, p + 1, q - 1, WS)
                                           /\ LET r == IF s[q] \in Sign THEN q + 1 ELSE q
                                              IN r <= j /\ AllIn(s, r, j, Digit)
IsDecimal(s) == LET n == Len(s)
                    a == IF n > 0 /\ s[1] \in Sign THEN 1 ELSE 0
                IN \E m \in (a + 1)..n : IsMantissa(s, a + 1, m) /\ (m = n \/ IsExponent(s, m + 1, n))

(* The scanner: one pass, left to right, longest literal that starts the input. *)
RECURSIVE Skip(_, _, _)
Skip(s, i, S) == IF i <= Len(s) /\ s[i] \in S THEN Skip(s, i + 1, S) ELSE i   \* first index >= i not in S
NoParse == [len |-> 0]
ScanW(s, W) ==
  LET n  == Len(s)
      p1 == IF 1 <= n /\ s[1] \in Sign THEN 2 ELSE 1
      p2 == Skip(s, p1, Digit)
      p3 == IF p2 <= n /\ s[p2] = Dot THEN Skip(s, p2 + 1, Digit) ELSE p2
      ip == SubSeq(s, p1, p2 - 1)
      fp == SubSeq(s, p2 + 1, p3 - 1)
      w1 == Skip(s, p3, W)
      w2 == Skip(s, w1 + 1, W)
      e1 == IF w2 <= n /\ s[w2] \in Sign THEN w2 + 1 ELSE w2
      e2 == Skip(s, e1, Digit)
      hasExp == w1 <= n /\ s[w1] \in ExpCh /\ e2 > e1
  IN IF Len(ip) + Len(fp) = 0 THEN NoParse
     ELSE [len |-> IF hasExp THEN e2 - 1 ELSE p3 - 1,
           neg |-> p1 = 2 /\ s[1] = 45, signed |-> p1 = 2,
           ip |-> ip, point |-> p3 > p2, fp |-> fp,
           hasExp |-> hasExp,
           ws1 |-> IF hasExp THEN SubSeq(s, p3, w1 - 1) ELSE <<>>,
           ws2 |-> IF hasExp THEN SubSeq(s, w1 + 1, w2 - 1) ELSE <<>>,
           eneg |-> hasExp /\ e1 > w2 /\ s[w2] = 45, esigned |-> hasExp /\ e1 > w2,
           ed |-> IF hasExp THEN SubSeq(s, e1, e2 - 1) ELSE <<>>]
Scan(s)  == ScanW(s, WS)
Parse(s) == Scan(s)                     \* of a literal: Scan(s).len = Len(s)
(* a conversion that does not know the white space of 7.7.2.2 (C strtod on the token start) *)
ScanNoWs(s) == ScanW(s, {})

(* Denotation: exact triple.  Exponent digit strings with more than 6       *)
(* significant digits (|exp| >= 10^6, far outside 488.2's 32000) are flagged *)
(* huge and not given an integer.                                           *)
RECURSIVE StripLeadingZeros(_)
StripLeadingZeros(d) == IF d # <<>> /\ d[1] = 0 THEN StripLeadingZeros(Tail(d)) ELSE d
RECURSIVE StripTrailingZeros(_)
StripTrailingZeros(d) == IF d # <<>> /\ d[Len(d)] = 0 THEN StripTrailingZeros(SubSeq(d, 1, Len(d) - 1)) ELSE d
RECURSIVE SmallVal(_, _)
SmallVal(d, acc) == IF d = <<>> THEN acc ELSE SmallVal(Tail(d), acc * 10 + d[1])
DenoteParse(p) ==
  LET ed == StripLeadingZeros(DigitVals(p.ed))
      huge == Len(ed) > 6
      ev == IF huge THEN 0 ELSE SmallVal(ed, 0)
  IN [neg |-> p.neg, digits |-> DigitVals(p.ip) \o DigitVals(p.fp),
      exp10 |-> (IF p.eneg THEN 0 - ev ELSE ev) - Len(p.fp), huge |-> huge]
Denote(s) == DenoteParse(Parse(s))
(* canonical representative of the same value: no leading / trailing zero digits *)
Canon(d) == LET a == StripLeadingZeros(d.digits)
                b == StripTrailingZeros(a)
            IN IF b = <<>> THEN [neg |-> d.neg, digits |-> <<>>, exp10 |-> 0, huge |-> FALSE]
               ELSE [neg |-> d.neg, digits |-> b, exp10 |-> d.exp10 + (Len(a) - Len(b)), huge |-> d.huge]

Normalised(s) == SelectSeq(s, LAMBDA b : b \notin WS)
HasExpWs(s)   == \E i \in 1..Len(s) : s[i] \in WS         \* of a literal: white space before and/or after E
(* the literal cut where its mantissa ends - what a conversion that stops at the first *)
(* white space would see (named deviation of the code, D5; never used as expectation)   *)
CutAtMantissa(s) == LET p == Parse(s) IN SubSeq(s, 1, (IF p.signed THEN 1 ELSE 0) + Len(p.ip) + (IF p.point THEN 1 ELSE 0) + Len(p.fp))
IsIntegerLiteral(s) == LET p == Parse(s) IN p.len = Len(s) /\ ~p.point /\ ~p.hasExp

-----------------------------------------------------------------------------
(* The same language generatively: a shape lists the parts of a literal.       *)
(* sg, esg: <<>> | <<43>> | <<45>>;  ip, fp, ed: digit bytes;  pt: has a point; *)
(* ws1 / ws2: white space before / after the exponent letter e.                 *)
ValidShape(sh) == /\ Len(sh.ip) + Len(sh.fp) > 0 /\ (sh.fp # <<>> => sh.pt)
                  /\ (sh.hasExp => sh.ed # <<>>)
                  /\ (~sh.hasExp => sh.ws1 = <<>> /\ sh.ws2 = <<>> /\ sh.esg = <<>> /\ sh.ed = <<>>)
Build(sh) == sh.sg \o sh.ip \o (IF sh.pt THEN <<Dot>> ELSE <<>>) \o sh.fp
             \o (IF sh.hasExp THEN sh.ws1 \o <<sh.e>> \o sh.ws2 \o sh.esg \o sh.ed ELSE <<>>)
DenoteShape(sh) ==
  LET ed == StripLeadingZeros(DigitVals(sh.ed))
      huge == Len(ed) > 6
      ev == IF huge THEN 0 ELSE SmallVal(ed, 0)
  IN [neg |-> sh.sg = <<45>>, digits |-> DigitVals(sh.ip \o sh.fp),
      exp10 |-> (IF sh.esg = <<45>> THEN 0 - ev ELSE ev) - Len(sh.fp), huge |-> huge]
MkShape(sg, ip, pt, fp) == [sg |-> sg, ip |-> ip, pt |-> pt, fp |-> fp, hasExp |-> FALSE,
                            ws1 |-> <<>>, e |-> 69, ws2 |-> <<>>, esg |-> <<>>, ed |-> <<>>]
WithExp(sh, ws1, e, ws2, esg, ed) == [sh EXCEPT !.hasExp = TRUE, !.ws1 = ws1, !.e = e, !.ws2 = ws2, !.esg = esg, !.ed = ed]

-----------------------------------------------------------------------------
(* Nondecimal literals *)
BaseOfLetter(c) == IF c \in {72, 104} THEN 16 ELSE IF c \in {81, 113} THEN 8 ELSE IF c \in {66, 98} THEN 2 ELSE 0
DigitsOfBase(b) == IF b = 16 THEN Digit \cup (65..70) \cup (97..102) ELSE IF b = 8 THEN 48..55 ELSE IF b = 2 THEN {48, 49} ELSE {}
DigitVal(c) == IF c \in Digit THEN c - 48 ELSE IF c \in 65..70 THEN c - 55 ELSE c - 87
IsNondecimal(s) == /\ Len(s) >= 3 /\ s[1] = 35 /\ BaseOfLetter(s[2]) # 0
                   /\ AllIn(s, 3, Len(s), DigitsOfBase(BaseOfLetter(s[2])))
NondecimalValue(s) == N!NatOfDigits([i \in 1..(Len(s) - 2) |-> DigitVal(s[i + 2])], BaseOfLetter(s[2]))

-----------------------------------------------------------------------------
(* Machine integers: kind -> (signed, limbs) *)
IntKinds == {"I32", "U32", "I64", "U64"}
KSigned(k) == k \in {"I32", "I64"}
KLimbs(k)  == IF k \in {"I32", "U32"} THEN 2 ELSE 4
InRange(k, neg, a) == IF KSigned(k) THEN N!FitsSigned(neg, a, KLimbs(k)) ELSE N!FitsUnsigned(neg, a, KLimbs(k))
(* expected bit pattern as limbs, or <<>> = "out of range: not constrained by the property" *)
IntExpect(k, neg, a) == IF InRange(k, neg, a) THEN N!Encode(neg, a, KLimbs(k)) ELSE <<>>

-----------------------------------------------------------------------------
(* Suffix and units.  The table's suffixes are purely alphabetic.              *)
Split(t) == LET p == Scan(t)
                k == Skip(t, p.len + 1, WS)
            IN [num |-> SubSeq(t, 1, p.len), sep |-> SubSeq(t, p.len + 1, k - 1), suffix |-> SubSeq(t, k, Len(t))]
UnitNames  == {UnitRows[i].name : i \in 1..Len(UnitRows)}
UnitByName == [nm \in UnitNames |-> {i \in 1..Len(UnitRows) : UnitRows[i].name = nm}]      \* constant, evaluated once
UnitIdx(suffix) == LET u == UpperSeq(suffix) IN IF u \in UnitNames THEN UnitByName[u] ELSE {}
(* special mnemonics: the upper-case prefix of the pattern is the short form *)
ShortForm(pat) == SubSeq(pat, 1, Skip(pat, 1, Upper) - 1)
LongForm(pat)  == UpperSeq(pat)
SpecialIdx(tok) == LET u == UpperSeq(tok) IN {i \in 1..Len(SpecialRows) : u \in {ShortForm(SpecialRows[i].pat), LongForm(SpecialRows[i].pat)}}
IsMnemonic(s) == Len(s) > 0 /\ s[1] \in Alpha /\ AllIn(s, 2, Len(s), Alpha \cup Digit \cup {95})

(* What the bytes of one parameter denote *)
Decode(t) ==
  IF IsNondecimal(t) THEN [class |-> "nondec", nat |-> NondecimalValue(t), base |-> BaseOfLetter(t[2])]
  ELSE IF IsMnemonic(t) THEN
    (IF SpecialIdx(t) # {} THEN [class |-> "special", tag |-> SpecialRows[CHOOSE i \in SpecialIdx(t) : TRUE].tag]
     ELSE [class |-> "other"])
  ELSE LET sp == Split(t) IN
    IF sp.num = <<>> THEN [class |-> "other"]
    ELSE IF sp.suffix = <<>> /\ sp.sep = <<>> THEN [class |-> "dec", den |-> Denote(sp.num), num |-> sp.num]
    ELSE IF sp.suffix # <<>> /\ AllIn(sp.suffix, 1, Len(sp.suffix), Alpha) /\ UnitIdx(sp.suffix) # {}
      THEN [class |-> "unit", den |-> Denote(sp.num), num |-> sp.num, row |-> UnitRows[CHOOSE i \in UnitIdx(sp.suffix) : TRUE]]
    ELSE [class |-> "other"]

-----------------------------------------------------------------------------
(* Evidence rule of DESIGN 5.2: a case is non-trivial when the literal has white  *)
(* space, an explicit sign, a bare leading / trailing point, >= 16 digits, a       *)
(* non-decimal base or a suffix                                                    *)
NonTrivial(t) ==
  LET d == Decode(t) IN
  \/ d.class \in {"nondec", "unit"}
  \/ d.class = "dec" /\ LET p == Parse(d.num) IN
       \/ HasExpWs(d.num) \/ p.signed \/ p.esigned
       \/ (p.point /\ (p.ip = <<>> \/ p.fp = <<>>))
       \/ Len(p.ip) + Len(p.fp) >= 16

(* The record handed to the driver.  Fields:                                       *)
(*  g class; lit bytes; norm normalised literal (number part); rd reader kinds;     *)
(*  neg/dig/e10 canonical exact triple; ws, cut (deviation trigger and its view);   *)
(*  I32/U32/I64/U64 expected limbs (<<>> = out of range, unjudged);                 *)
(*  dec decimal digits of the exact natural (nondecimal); f32 nondecimal fits 32    *)
(*  bits; unit/mn/md/me unit tag and multiplier mn/md*10^me; tag special; b bool.   *)
FloatReaders == <<"DBL", "FLT", "NUM">>
IntReaders   == <<"I32", "U32", "I64", "U64">>
Expect(t) ==
  LET d == Decode(t)
      hd == [g |-> d.class, lit |-> t, nt |-> NonTrivial(t)]
  IN
  IF d.class = "dec" THEN
    LET c == Canon(d.den)
        isInt == IsIntegerLiteral(d.num)
        nat == IF isInt THEN N!NatOfDigits(StripLeadingZeros(d.den.digits), 10) ELSE <<>>
        ws == HasExpWs(d.num)
        isBool == isInt /\ ~Parse(d.num).signed /\ Len(d.num) = 1 /\ d.num[1] \in {48, 49}
    IN hd @@ [norm |-> Normalised(d.num), neg |-> c.neg, dig |-> c.digits, e10 |-> c.exp10, huge |-> c.huge,
                ws |-> ws, cut |-> IF ws THEN CutAtMantissa(d.num) ELSE <<>>,
                int |-> isInt,
                rd |-> (IF isInt THEN IntReaders ELSE <<>>) \o FloatReaders \o (IF isBool THEN <<"BOOL">> ELSE <<>>),
                I32 |-> IF isInt THEN IntExpect("I32", c.neg, nat) ELSE <<>>,
                U32 |-> IF isInt THEN IntExpect("U32", c.neg, nat) ELSE <<>>,
                I64 |-> IF isInt THEN IntExpect("I64", c.neg, nat) ELSE <<>>,
                U64 |-> IF isInt THEN IntExpect("U64", c.neg, nat) ELSE <<>>,
                b |-> IF isBool THEN d.num[1] - 48 ELSE 0 - 1]
  ELSE IF d.class = "unit" THEN
    LET c == Canon(d.den)
        ws == HasExpWs(d.num)
    IN hd @@ [norm |-> Normalised(d.num), neg |-> c.neg, dig |-> c.digits, e10 |-> c.exp10, huge |-> c.huge,
                ws |-> ws, cut |-> IF ws THEN CutAtMantissa(d.num) ELSE <<>>,
                rd |-> <<"NUM">>, unit |-> d.row.unit, mn |-> d.row.n, md |-> d.row.d, me |-> d.row.e]
  ELSE IF d.class = "nondec" THEN
    hd @@ [rd |-> IntReaders \o FloatReaders, base |-> d.base, dec |-> N!DigitsOf(d.nat, 10),
             f32 |-> Len(d.nat) <= 2, f64 |-> Len(d.nat) <= 4,
             I32 |-> IntExpect("I32", FALSE, d.nat), U32 |-> IntExpect("U32", FALSE, d.nat),
             I64 |-> IntExpect("I64", FALSE, d.nat), U64 |-> IntExpect("U64", FALSE, d.nat)]
  ELSE IF d.class = "special" THEN hd @@ [rd |-> <<"NUM">>, tag |-> d.tag]
  ELSE hd @@ [rd |-> <<>>]
=============================================================================
