------------------------------ MODULE TVParser ------------------------------
(* Validation of recorded executions of the real parser (C02 C05 C06 C08 C09 *)
(* C17): a record holds a scenario - command table, handler scripts, input   *)
(* buffer size, the chunks given to the input function - and what the        *)
(* library did per input call: handler invocations with the effective header *)
(* and every parameter read, output bytes, flushes, error callbacks, return  *)
(* value, pending remainder.  The specification (ScpiParser) is run on the   *)
(* same scenario and every difference is printed as a MISMATCH line with the *)
(* differing fields and trigger hints.                                       *)
EXTENDS ScpiParser, Json, IOUtils

T == ndJsonDeserialize(IOEnv.TRACE)
VARIABLE l
Init == l \in 1..Len(T)
Next == UNCHANGED l
Spec == Init /\ [][Next]_l
Rec == T[l]

Table   == [i \in 1..Len(Rec.table) |-> [pat |-> Rec.table[i][1], tag |-> Rec.table[i][2]]]
Tags    == {Rec.scripts[i][1] : i \in 1..Len(Rec.scripts)}
Scripts == [t \in Tags |-> LET i == CHOOSE i \in 1..Len(Rec.scripts) : Rec.scripts[i][1] = t IN
                           [ops |-> Rec.scripts[i][4], ret |-> Rec.scripts[i][2] = 1, stop |-> Rec.scripts[i][3] = 1]]
Choices == <<[name |-> <<66, 85, 83>>, tag |-> 5],
             [name |-> <<73, 77, 77, 101, 100, 105, 97, 116, 101>>, tag |-> 6],
             [name |-> <<69, 88, 84, 101, 114, 110, 97, 108>>, tag |-> 7]>>

Contains(hay, needle) == \E i \in 0..(Len(hay) - Len(needle)) : SubSeq(hay, i + 1, i + Len(needle)) = needle
RECURSIVE CatLogs(_), CatOut(_), CatErrs(_), SumFlush(_)
CatLogs(rs)  == IF rs = <<>> THEN <<>> ELSE Head(rs).log \o CatLogs(Tail(rs))
CatOut(rs)   == IF rs = <<>> THEN <<>> ELSE Head(rs).out \o CatOut(Tail(rs))
CatErrs(rs)  == IF rs = <<>> THEN <<>> ELSE Head(rs).errs \o CatErrs(Tail(rs))
SumFlush(rs) == IF rs = <<>> THEN 0 ELSE Head(rs).flush + SumFlush(Tail(rs))

IsQuery(e) == e.eff # <<>> /\ e.eff[Len(e.eff)] = 63
Hints(logs) ==
     (IF \E i \in 1..Len(logs) : logs[i].tag # 0 /\ IsQuery(logs[i]) /\ logs[i].nitems = 0 THEN {"h:query-without-items"} ELSE {})
\cup (IF \E i \in 1..Len(logs) : logs[i].tag # 0 /\ IsQuery(logs[i]) /\ logs[i].nitems > 0 /\ logs[i].nerrs > 0 THEN {"h:failing-query-with-items"} ELSE {})
\cup (IF \E i \in 1..Len(logs) : logs[i].tag # 0 /\ ~IsQuery(logs[i]) /\ logs[i].nitems > 0 THEN {"h:command-with-items"} ELSE {})

ErrsMatch(exp, got) == /\ Len(exp) = Len(got)
                       /\ \A i \in 1..Len(exp) : exp[i] = got[i] \/ (exp[i] = AnyErr /\ got[i] # 0)
ParamsDiff(ep, gp) ==
  IF Len(ep) # Len(gp) THEN {"params.count"}
  ELSE UNION {  (IF ep[j].ok # (gp[j].ok = 1) THEN {"params.ok"} ELSE {})
           \cup (IF ep[j].ok /\ gp[j].ok = 1 /\ ep[j].val # AnyVal /\ ep[j].val # gp[j].v THEN {"params.value"} ELSE {}) : j \in 1..Len(ep) }
NumsOk(e, g) == LET ns == M!NumbersText(e.pat, e.eff, 0 - 1) IN
                Len(ns) > 4 \/ \A j \in 1..Len(ns) : g.nums[j] = ns[j]
LogDiff(elog, glog) ==
  LET called == SelectSeq(elog, LAMBDA e : e.tag # 0 /\ e.tag < 1000) IN      \* entries with tag >= 1000 have no callback: nothing is invoked
  IF Len(called) # Len(glog) THEN {"log.count"}
  ELSE UNION {  (IF called[i].tag # glog[i].tag THEN {"log.tag"} ELSE {})
           \cup (IF called[i].eff # glog[i].raw THEN {"log.header"} ELSE {})
           \cup (IF glog[i].iscmd # 1 \/ (glog[i].probe = 1) # M!AcceptsText(called[i].pat, <<65, 58, 66>>) THEN {"log.iscmd"} ELSE {})
           \cup (IF NumsOk(called[i], glog[i]) THEN {} ELSE {"log.numbers"})
           \cup ParamsDiff(called[i].params, glog[i].params)
              : i \in 1..Len(called) }
E113Diff(elog, ob) ==
  LET undef == SelectSeq(elog, LAMBDA e : e.tag = 0) IN
  IF Rec.info = 0 THEN {}
  ELSE IF Len(undef) # Len(ob.e113) THEN {"undefined-header.count"}
  ELSE IF \A i \in 1..Len(undef) : Contains(ob.e113[i], undef[i].hdr) \/ Contains(ob.e113[i], undef[i].eff) THEN {} ELSE {"undefined-header.text"}

(* expected observation of one input call that executes the messages msgs *)
CallDiff(msgs, rest, ob) ==
  LET rs == [j \in 1..Len(msgs) |-> RunMsg(Table, Scripts, Choices, msgs[j])]
      logs == CatLogs(rs)
      weird == \E j \in 1..Len(rs) : rs[j].weird
      alt == \E j \in 1..Len(rs) : rs[j].alt
      wild == \E j \in 1..Len(rs) : rs[j].wild        \* an "apply every API" handler ran on an item: its output / errors are not specified
      partial == (\E j \in 1..Len(rs) : rs[j].partial) \/ wild      \* a handler announced a block and did not finish it: its output is not specified
      ret == IF msgs = <<>> THEN TRUE ELSE rs[Len(rs)].ret IN
  IF weird THEN
     \* text that is not a well-formed unit: a command error must be queued; what exactly is skipped is not specified
     (IF \E i \in 1..Len(ob.errs) : ob.errs[i] <= 0 - 100 /\ ob.errs[i] >= 0 - 199 THEN {} ELSE {"malformed-unit-no-command-error"})
     \cup (IF ob.ret = 0 THEN {} ELSE {"ret"}) \cup {"weird"}
     \cup (LET j == CHOOSE j \in 1..Len(rs) : rs[j].weird
               u == DetectUnit(msgs[j], rs[j].weirdAt) IN
           IF ~u.dataOk /\ u.items # <<>> /\ u.valid /\ ~u.incomplete /\ u.header.type \in CompleteHeaderTypes
           THEN {"h:list-invalid-after-item-then-terminator"} ELSE {})
  ELSE LogDiff(logs, ob.log) \cup E113Diff(logs, ob)
       \cup (IF wild THEN {} ELSE IF alt THEN (IF Len(CatErrs(rs)) = Len(ob.errs) THEN {} ELSE {"errs"}) ELSE IF ErrsMatch(CatErrs(rs), ob.errs) THEN {} ELSE {"errs"})
       \cup (IF partial \/ CatOut(rs) = ob.out THEN {} ELSE {"out"} \cup Hints(logs))
       \cup (IF partial \/ SumFlush(rs) = ob.flush THEN {} ELSE {"flush"} \cup Hints(logs))
       \cup (IF partial /\ Len(rs) = 1 /\ rs[1].pbytes # <<>> /\ (Len(ob.out) < Len(rs[1].pbytes) \/ SubSeq(ob.out, 1, Len(rs[1].pbytes)) # rs[1].pbytes) THEN {"out.block-header"} ELSE {})
       \cup (IF wild \/ ret = (ob.ret = 1) THEN {} ELSE {"ret"})
       \cup (IF Len(rest) = ob.pos THEN {} ELSE {"pending"})
OvrDiff(ob) == (IF ob.ret = 0 THEN {} ELSE {"ret"}) \cup (IF ob.errs = <<0 - 363>> THEN {} ELSE {"errs"})
               \cup (IF ob.log = <<>> /\ ob.out = <<>> THEN {} ELSE {"overrun-executed"}) \cup (IF ob.pos = 0 THEN {} ELSE {"pending"})

RECURSIVE Walk(_, _, _)
Walk(i, pend, D) ==
  IF i > Len(Rec.chunks) THEN D ELSE
  LET ob == Rec.obs.calls[i] IN
  IF Rec.mode = "P" THEN Walk(i + 1, <<>>, D \cup CallDiff(<<Rec.chunks[i]>>, <<>>, [ob EXCEPT !.pos = 0]))
  ELSE LET ic == InputCall(pend, Rec.buf, Rec.chunks[i]) IN
       IF ic.kind = "ovr" THEN Walk(i + 1, <<>>, D \cup OvrDiff(ob))
       ELSE LET d == CallDiff(ic.msgs, ic.rest, ob)
                     \cup (IF ic.kind = "data" /\ OpenStringNL(pend \o Rec.chunks[i], 1) THEN {"h:newline-inside-open-string"} ELSE {}) IN
            IF "weird" \in d THEN D \cup d          \* resynchronisation is not specified: stop comparing this scenario
            ELSE Walk(i + 1, ic.rest, D \cup d)
(* C08: what the stream did must not depend on how it was cut (ref = the byte-at-a-time execution);  *)
(* C09: what message B did after message A must equal what B does on a fresh context (ref = B alone). *)
RECURSIVE CatObs(_)
CatObs(calls) == IF calls = <<>> THEN [log |-> <<>>, out |-> <<>>, errs |-> <<>>, flush |-> 0, e113 |-> <<>>]
                 ELSE LET r == CatObs(Tail(calls)) c == Head(calls) IN
                      [log |-> c.log \o r.log, out |-> c.out \o r.out, errs |-> c.errs \o r.errs, flush |-> c.flush + r.flush, e113 |-> c.e113 \o r.e113]
LastPos(calls) == IF calls = <<>> THEN 0 ELSE calls[Len(calls)].pos
CrossDiff ==
  IF Rec.ref = <<>> THEN {}
  ELSE IF Rec.iso = 1 THEN
       LET a == Rec.obs.calls[Len(Rec.obs.calls)] b == Rec.ref[Len(Rec.ref)] IN
       IF a.log = b.log /\ a.out = b.out /\ a.errs = b.errs /\ a.flush = b.flush /\ a.ret = b.ret /\ a.pos = b.pos THEN {} ELSE {"carry-over"}
  ELSE IF CatObs(Rec.obs.calls) = CatObs(Rec.ref) /\ LastPos(Rec.obs.calls) = LastPos(Rec.ref) THEN {}
  ELSE {"chunking-dependence"} \cup
       (LET s == Flatten(Rec.chunks) IN
        IF \E k \in 1..Len(s) : OpenStringNL(SubSeq(s, 1, k), 1) THEN {"h:newline-inside-open-string"} ELSE {})
Diff == Walk(1, <<>>, {}) \cup CrossDiff
HintNames == {"weird", "h:list-invalid-after-item-then-terminator", "h:query-without-items", "h:failing-query-with-items", "h:command-with-items", "h:newline-inside-open-string"}
Real(d) == d \ HintNames
Conforms == Real(Diff) = {} \/ PrintT(<<"MISMATCH", l, Diff>>)
=============================================================================
