--------------------------- MODULE ScpiInputLoop ---------------------------
(***************************************************************************)
(* The control structure of the input function as a state machine, one     *)
(* action per critical section of SCPI_Input / SCPI_Parse (C01 progress,   *)
(* C08 buffering, C02 path threading, C09 per-message initial state):      *)
(*                                                                         *)
(*   idle --InputBegin(chunk)--> input                                     *)
(*   input --Overrun--> input(done)        chunk does not fit: buffer reset *)
(*   input --ParseBegin--> msg             next complete message (or, for a *)
(*                                         zero-length call, whatever is    *)
(*                                         pending), path empty             *)
(*   msg --UnitBegin--> unit | msg         next non-empty unit: effective   *)
(*                                         header, first match (undefined:  *)
(*                                         stays in msg)                    *)
(*   msg --UnitInvalid--> lost             text that is not a unit: how the *)
(*                                         parser resynchronises is free    *)
(*   unit --UnitEnd--> msg                                                  *)
(*   msg/lost --ParseEnd--> input                                           *)
(*   input --InputEnd--> idle              nothing left to execute          *)
(*                                                                         *)
(* The functional definitions (InputCall, DetectUnit, Effective,           *)
(* FirstMatch) come from ScpiParser.  MCInputLoop checks type and bound    *)
(* invariants and, under weak fairness of the internal actions, that every *)
(* input call returns (phase = "input" leads to "idle").  TVInputLoop      *)
(* validates hook-event traces of the real library as behaviours of this   *)
(* machine.                                                                *)
(***************************************************************************)
EXTENDS ScpiParser

VARIABLES pend,   \* pending input bytes
          phase,  \* "idle" | "input" | "msg" | "unit" | "lost"
          todo,   \* messages still to execute in this call
          rest,   \* pending bytes after this call
          ovr,    \* this call overran the buffer
          cur,    \* message being executed
          pos,    \* cursor in cur
          prev,   \* effective header of the previous unit (the path comes from it)
          nxt     \* cursor after the unit being executed
lvars == <<pend, phase, todo, rest, ovr, cur, pos, prev, nxt>>

LInit == /\ pend = <<>> /\ phase = "idle" /\ todo = <<>> /\ rest = <<>> /\ ovr = FALSE
         /\ cur = <<>> /\ pos = 1 /\ prev = <<>> /\ nxt = 1

(* first non-empty unit at or after p: [kind "end" | "weird" | "unit", u] *)
RECURSIVE NextUnit(_, _)
NextUnit(m, p) ==
  IF p > Len(m) THEN [kind |-> "end", at |-> p, u |-> <<>>]
  ELSE LET u == DetectUnit(m, p) IN
       IF ~u.valid \/ (u.header.len > 0 /\ ~u.accepted) \/ u.incomplete THEN [kind |-> "weird", at |-> p, u |-> u]
       ELSE IF u.header.len = 0 THEN NextUnit(m, u.next)
       ELSE [kind |-> "unit", at |-> p, u |-> u]

InputBegin(chunk, cap) ==
  /\ phase = "idle"
  /\ LET ic == InputCall(pend, cap, chunk) IN
     /\ todo' = IF chunk = <<>> THEN <<pend>> ELSE ic.msgs       \* a zero-length call executes whatever is pending
     /\ rest' = ic.rest /\ ovr' = (ic.kind = "ovr")
  /\ phase' = "input"
  /\ UNCHANGED <<pend, cur, pos, prev, nxt>>
Overrun == /\ phase = "input" /\ ovr /\ ovr' = FALSE /\ UNCHANGED <<pend, phase, todo, rest, cur, pos, prev, nxt>>
ParseBegin ==
  /\ phase = "input" /\ ~ovr /\ todo # <<>>
  /\ cur' = Head(todo) /\ todo' = Tail(todo) /\ pos' = 1 /\ nxt' = 1 /\ prev' = <<>> /\ phase' = "msg"
  /\ UNCHANGED <<pend, rest, ovr>>
(* hdr, idx: what the implementation reports; the specification fixes both *)
UnitBegin(ptable, hdr, idx) ==
  /\ phase = "msg"
  /\ LET n == NextUnit(cur, pos) IN
     /\ n.kind = "unit"
     /\ LET eff == Effective(prev, Slice(cur, n.u.header.start, n.u.header.len)) IN
        /\ hdr = eff /\ idx = FirstMatch(ptable, eff) - 1
        /\ prev' = eff
        /\ IF idx < 0 THEN phase' = "msg" /\ pos' = n.u.next /\ nxt' = nxt
           ELSE phase' = "unit" /\ nxt' = n.u.next /\ pos' = pos
  /\ UNCHANGED <<pend, todo, rest, ovr, cur>>
UnitBeginAuto(ptable) ==      \* the same step with the values the specification prescribes (model checking)
  /\ phase = "msg" /\ NextUnit(cur, pos).kind = "unit"
  /\ LET n == NextUnit(cur, pos)
         eff == Effective(prev, Slice(cur, n.u.header.start, n.u.header.len)) IN
     UnitBegin(ptable, eff, FirstMatch(ptable, eff) - 1)
UnitEnd == /\ phase = "unit" /\ phase' = "msg" /\ pos' = nxt /\ UNCHANGED <<pend, todo, rest, ovr, cur, prev, nxt>>
UnitInvalid == /\ phase \in {"msg", "lost"} /\ (phase = "msg" => NextUnit(cur, pos).kind = "weird") /\ phase' = "lost"
               /\ UNCHANGED <<pend, todo, rest, ovr, cur, pos, prev, nxt>>
LostStep == /\ phase = "lost" /\ UNCHANGED lvars          \* unit events after a malformed unit are not specified
ParseEnd == /\ (phase = "lost" \/ (phase = "msg" /\ NextUnit(cur, pos).kind = "end"))
            /\ phase' = "input" /\ UNCHANGED <<pend, todo, rest, ovr, cur, pos, prev, nxt>>
InputEnd(remaining) ==
  /\ phase = "input" /\ ~ovr /\ todo = <<>>
  /\ remaining = Len(rest)
  /\ pend' = rest /\ phase' = "idle"
  /\ UNCHANGED <<todo, rest, ovr, cur, pos, prev, nxt>>
=============================================================================
