------------------------------ MODULE MCHeap ------------------------------
(* Bounded configurations for model checking ScpiHeap (C20).              *)
EXTENDS ScpiHeap

OneCode  == {0 - 100}
TwoCodes == {0 - 100, 0 - 222}

CONSTANT MaxOps     \* histories up to this many operations (the initial state has level 1)
DepthBound == TLCGet("level") <= MaxOps
===========================================================================
