SPECIFICATION RSpec
CONSTANTS
 Cap = 1
 Codes <- CodesDef
 Texts <- TextsDef
 MaxLen = 7
 MaxLimit = 8
INVARIANT RespLemma
INVARIANT RespString
CHECK_DEADLOCK FALSE
