SPECIFICATION Spec
CONSTANTS
 Sizes = {12}
 Caps = {4}
 Codes <- OneCode
 MaxOps = 6
INVARIANT TextOrNothing
INVARIANT NoOverlap
INVARIANT InBounds
INVARIANT ReusableWhenEmpty
INVARIANT NoLeak
INVARIANT Contiguous
INVARIANT QueueBounded
PROPERTY Refines
VIEW View
CHECK_DEADLOCK FALSE
CONSTRAINT DepthBound
