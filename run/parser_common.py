"""Shared pipeline of the parser checks (C02 C05 C06 C08 C09 C17 C01):
TLC enumerates scenarios from GenParser.tla (checking the specification lemmas on each), drv_parser executes
them on the real library, TVParser.tla validates every recorded execution against ScpiParser.tla."""
import json, os, concurrent.futures, binascii
import lib

def hexs(b):
    return binascii.hexlify(bytes(b)).decode()

def gen(rep, family, consts, nparts=8, timeout=900, lemmas=('Lemmas', 'L_Progress')):
    """Run GenParser for one scenario family over nparts partitions; returns list of scenario dicts."""
    w = lib.workdir('gen' + family)
    def one(part):
        cfg = os.path.join(w, 'g%d.cfg' % part)
        outp = os.path.join(w, 'g%d.ndjson' % part)
        c = dict(MaxUnits=2, MaxSig=1, MaxItems=1, WsVariants='{0}', KindIdx='{1,2,3,4,5,6,7,8,9,10,11,12}', ItemIdx='{1,2,3,4,5,6,7,8,9,10,11,12,13,14,15,16,17,18,19,20,21,22}', NParts=nparts, Part=part)
        c.update(consts)
        with open(cfg, 'w') as f:
            f.write('SPECIFICATION Spec%s\nCONSTANTS\n' % family)
            for k, v in c.items():
                f.write(' %s = %s\n' % (k, v))
            for lm in lemmas:
                f.write('INVARIANT %s\n' % lm)
            f.write('INVARIANT Emit\nCHECK_DEADLOCK FALSE\n')
        r = lib.tlc('GenParser', cfg, workers=1, env={'OUT': outp}, timeout=timeout, xmx='2g')
        return part, r, outp
    scen = []
    with concurrent.futures.ThreadPoolExecutor(max_workers=min(nparts, lib.NCPU)) as ex:
        for part, r, outp in ex.map(one, range(nparts)):
            rep.add_tlc('GenParser_%s:%d' % (family, part), r, 'scenario enumeration + specification lemmas %s' % (lemmas,))
            if r.violations:
                rep.broken.append('specification lemma %s violated in GenParser %s' % (r.violations, family))
            if os.path.exists(outp):
                with open(outp) as f:
                    for ln in f:
                        scen.append(json.loads(ln))
    import shutil
    shutil.rmtree(w, ignore_errors=True)
    return scen

def op_token(o):
    if o[0] == 'p':
        return 'p:%s:%d' % (o[1], 1 if o[2] else 0)
    if o[0] == 'pa':
        return 'pa:%s:%d:%d' % (o[1], o[2], 1 if o[3] else 0)
    if o[0] == 'r':
        if o[1] in ('i32', 'bool'):
            return 'r:%s:%d' % (o[1], o[2])
        if len(o) == 5:
            # elements arrive most significant byte first; the driver wants host (little-endian) memory
            import sys
            els = [list(reversed(e)) if sys.byteorder == 'little' else list(e) for e in o[4]]
            return 'r:%s:%d:%d:%s' % (o[1], o[2], o[3], hexs([b for e in els for b in e]))
        return 'r:%s:%s' % (o[1], hexs(o[2]))
    if o[0] == 'bh':
        return 'bh:%d' % o[1]
    if o[0] == 'bd':
        return 'bd:%s' % hexs(o[1])
    if o[0] == 'e':
        return 'e:%d' % o[1]
    if o[0] == 'x':
        return 'x'
    if o[0] == 'q':
        return 'q' 
    raise ValueError(o)

def driver_text(sc, qcap=16):
    out = ['S %d %d %d' % (sc['buf'], sc.get('qcap', qcap), sc.get('heap', 96))]
    for pat, tag in sc['table']:
        out.append('T %d %s' % (tag, bytes(pat).decode('latin1')))
    for tag, ret, stop, ops in sc['scripts']:
        out.append(('H %d %d %d ' % (tag, ret, stop) + ' '.join(op_token(o) for o in ops)).rstrip())
    for ch in sc['chunks']:
        if sc.get('mode') == 'P':
            out.append('P ' + hexs(ch))
        elif len(ch) == 0:
            out.append('F')
        else:
            out.append('I ' + hexs(ch))
    out.append('E')
    return '\n'.join(out) + '\n'

def execute(rep, scen, config='default', label='', env=None):
    """Run all scenarios on the real library; returns list of observations (None where the driver died)."""
    exe = lib.build('drv_parser', ['drv_parser.c'], config=config)
    w = lib.workdir('exec' + label + config)
    obs = [None] * len(scen)
    start = 0
    crashes = 0
    hangs = 0
    while start < len(scen) and crashes < 25:
        with open(w + '/s.txt', 'w') as f:
            for sc in scen[start:]:
                f.write(driver_text(sc))
        d = lib.run_driver(exe, [w + '/s.txt', w + '/o.ndjson'], timeout=1800, env=env)
        done = 0
        if os.path.exists(w + '/o.ndjson'):
            with open(w + '/o.ndjson', errors='replace') as f:
                for ln in f:
                    if not ln.endswith('\n'):
                        break
                    try:
                        obs[start + done] = json.loads(ln)
                    except ValueError:
                        break
                    done += 1
        if d['rc'] == 0 and not d['timeout'] and start + done >= len(scen):
            break
        # the scenario after the last complete line killed the driver
        crashes += 1
        bad = start + done
        if bad < len(scen):
            err = d['stderr'].decode(errors='replace')
            kind = 'sanitizer-report' if ('Sanitizer' in err or 'runtime error' in err) else ('hang' if d['rc'] in (-14, 142) or d['timeout'] else 'driver-crash')
            rep.violation('exec:' + kind, dict(build=config, scenario=scen[bad], rc=d['rc'], stderr=err[-2500:]))
            if kind == 'hang':
                hangs += 1
                if hangs >= 3:
                    break           # every hang costs a watchdog period; three are evidence enough
        start = bad + 1
    rep.cov['driver_runs'].append(dict(build=config, label=label, scenarios=len(scen), crashes=crashes))
    import shutil
    shutil.rmtree(w, ignore_errors=True)
    return obs

FIELDS = {
    'C02': {'log.count', 'log.tag', 'log.header', 'log.iscmd', 'log.numbers', 'undefined-header.count', 'undefined-header.text'},
    'C05': {'params.count', 'params.ok', 'params.value', 'errs', 'ret', 'malformed-unit-no-command-error', 'overrun-executed'},
    'C06': {'out', 'flush'},
    'C08': {'pending', 'chunking-dependence'},
    'ISO': {'carry-over'},
}
FIELDS['C17'] = FIELDS['C06'] | {'errs'}
FIELDS['C09'] = FIELDS['ISO']
FIELDS['ALL'] = FIELDS['C02'] | FIELDS['C05'] | FIELDS['C06'] | FIELDS['C08']

def validate(rep, pid, scen, obs, label, info=1, refs=None, fields=None, kindfn=None, chunk=15000, iso=0):
    """TVParser over (scenario, observation) pairs. Returns number of mismatching scenarios relevant to pid."""
    w = lib.workdir('tv' + pid + label)
    recs = []
    for i, (sc, ob) in enumerate(zip(scen, obs)):
        if ob is None:
            continue
        r = dict(table=sc['table'], scripts=sc['scripts'], buf=sc['buf'], mode=sc.get('mode', 'I'), chunks=sc['chunks'],
                 obs=ob, info=info, ref=(refs[i]['calls'] if refs and refs[i] else []), iso=iso)
        recs.append(r)
    fields = fields or FIELDS[pid]
    chunks = [recs[i:i + chunk] for i in range(0, len(recs), chunk)]
    def one(i):
        p = '%s/c%d.ndjson' % (w, i)
        with open(p, 'w') as f:
            for r in chunks[i]:
                f.write(json.dumps(r, separators=(',', ':')) + '\n')
        r = lib.tlc('TVParser', 'TVParser.cfg', workers=4, env={'TRACE': p}, xmx='4g', timeout=1500)
        os.unlink(p)
        return i, r
    nm = 0
    with concurrent.futures.ThreadPoolExecutor(max_workers=4) as ex:
        for i, r in ex.map(one, range(len(chunks))):
            rep.add_tlc('TVParser:%s:%d' % (label, i), r, 'validation of recorded parser executions against ScpiParser')
            if r.distinct != len(chunks[i]) and not r.errors:
                rep.broken.append('TVParser %s chunk %d: %d states for %d records' % (label, i, r.distinct, len(chunks[i])))
            for p in r.prints:
                if p[0] != 'MISMATCH':
                    continue
                diff = set(p[2])
                rel = diff & fields
                if not rel:
                    continue
                nm += 1
                hints = sorted(x for x in diff if x.startswith('h:'))
                rec = chunks[i][p[1] - 1]
                kind = kindfn(rec, rel, hints) if kindfn else None
                if kind == '':
                    nm -= 1
                    continue           # another property's known deviation, not judged here
                if kind is None:
                    kind = 'parser:' + '+'.join(sorted(rel)) + ('|' + '+'.join(hints) if hints else '')
                rep.violation(kind, dict(source=label, diff=sorted(diff), chunks=[bytes(c).decode('latin1') for c in rec['chunks']],
                                         table=[[bytes(p_).decode('latin1'), t] for p_, t in rec['table']][:12], scripts=rec['scripts'][:14], obs=rec['obs']))
    rep.cov['traces_validated_against_impl'] += len(recs)
    rep.cov['evaluations'] += len(recs)
    import shutil
    shutil.rmtree(w, ignore_errors=True)
    return nm


def start_mc_inputloop():
    """Model checking of ScpiInputLoop in the background (it does not depend on the executions)."""
    ex = concurrent.futures.ThreadPoolExecutor(max_workers=1)
    return ex.submit(lib.tlc, 'MCInputLoop', 'MCInputLoop.cfg', 6, None, 1200, None, None, (), '6g')

def event_traces(rep, pid, scen, label, config='default', mc=None):
    """Trace validation proper: hook events of the real library for each scenario must be a behaviour of
    ScpiInputLoop.tla (TVInputLoop). Returns number of rejected traces that are not the known deviation."""
    r0 = mc.result() if mc is not None else lib.tlc('MCInputLoop', 'MCInputLoop.cfg', timeout=1200, xmx='6g')
    rep.add_tlc('MCInputLoop', r0, 'model checking of the input-loop state machine: TypeOK (bounds), PathEmptyAtMessageStart, and under fairness Returns (every input call returns)')
    if r0.violations:
        rep.broken.append('ScpiInputLoop violates %s' % r0.violations)
    exe = lib.build('drv_parser', ['drv_parser.c'], config=config)
    w = lib.workdir('ev' + pid + label)
    with open(w + '/s.txt', 'w') as f:
        for sc in scen:
            f.write(driver_text(sc))
    d = lib.run_driver(exe, [w + '/s.txt', w + '/o.ndjson'], env={'DRV_EVENTS': '1'}, timeout=900)
    recs = []
    if os.path.exists(w + '/o.ndjson'):
        for sc, ln in zip(scen, open(w + '/o.ndjson', errors='replace')):
            try:
                o = json.loads(ln)
            except ValueError:
                break
            recs.append(dict(table=sc['table'], buf=sc['buf'], chunks=sc['chunks'], ev=o.get('ev', [])))
    if d['rc'] != 0 or d['timeout']:
        rep.violation('exec:event-run-failed', dict(rc=d['rc'], done=len(recs), stderr=d['stderr'].decode(errors='replace')[-2000:]))
    bad = 0
    CH = 4000
    for c0 in range(0, len(recs), CH):
        part = recs[c0:c0 + CH]
        p = w + '/t.ndjson'
        with open(p, 'w') as f:
            for r in part:
                f.write(json.dumps(r, separators=(',', ':')) + '\n')
        r = lib.tlc('TVInputLoop', 'TVInputLoop.cfg', workers=8, env={'TRACE': p}, timeout=1200, xmx='4g')
        rep.add_tlc('TVInputLoop:%s:%d' % (label, c0 // CH), r, 'hook-event traces validated as behaviours of ScpiInputLoop')
        acc = set(x[1] for x in r.prints if x[0] == 'ACCEPTED')
        qnl = set(x[1] for x in r.prints if x[0] == 'QNL')
        for k in range(1, len(part) + 1):
            if k in acc:
                continue
            rec = part[k - 1]
            detail = dict(chunks=[bytes(c).decode('latin1') for c in rec['chunks']], events=rec['ev'][:60])
            bad += 1
            # QNL marks the trigger of D6 (repaired): a line terminator inside a string that an input call leaves open
            rep.violation('quoted-newline-split' if (k in qnl and pid == 'C08') else 'event-trace-not-a-behaviour', detail)
    rep.cov['event_traces'] = rep.cov.get('event_traces', 0) + len(recs)
    rep.cov['traces_validated_against_impl'] += len(recs)
    import shutil
    shutil.rmtree(w, ignore_errors=True)
    return bad
