#!/usr/bin/env python3
"""Re-runs registered checks against a recorded seeded change (seeded/<id>/patch.diff) and merges the results into its meta.json.
usage: seedrecheck.py <id> <check ids...>"""
import json, os, re, shutil, subprocess, sys, time
ROOT = os.path.dirname(os.path.dirname(os.path.abspath(__file__)))

def main():
    sid, checks = sys.argv[1], sys.argv[2:]
    d = os.path.join(ROOT, 'seeded', sid)
    meta = json.load(open(d + '/meta.json'))
    mut = '/tmp/sr_%s' % sid
    shutil.rmtree(mut, ignore_errors=True)
    os.makedirs(mut)
    shutil.copytree('/repo/libscpi', mut + '/libscpi', ignore=shutil.ignore_patterns('obj', 'dist', '*.o', '*.test'))
    p = subprocess.run('patch -p1 -s < %s/patch.diff' % d, shell=True, cwd=mut)
    if p.returncode != 0:
        print(sid, 'patch does not apply'); shutil.rmtree(mut); return 1
    for c in checks:
        t0 = time.time()
        p = subprocess.run('python3 run/check.py %s --tier quick' % c, shell=True, cwd=ROOT, env=dict(os.environ, VERIF_REPO=mut),
                           stdout=subprocess.PIPE, stderr=subprocess.STDOUT, timeout=3000)
        out = p.stdout.decode(errors='replace')
        kinds = re.findall(r'violation kind=(\S+) count=(\d+)', out)
        meta['checks'][c] = dict(exit=p.returncode, violation_line='VIOLATION property=' in out, kinds=kinds[:12], wall_s=round(time.time() - t0))
    json.dump(meta, open(d + '/meta.json', 'w'), indent=1)
    shutil.rmtree(mut, ignore_errors=True)
    print(sid, {c: (v['exit'], v['kinds'][:3]) for c, v in meta['checks'].items()})

sys.exit(main())
