"""C07: every value the library formats as a result decodes back to the same value."""
import json, os, shutil, concurrent.futures
import lib

def validate(rep, path, label, chunk=8000):
    lines = open(path).read().splitlines()
    chunks = [lines[i:i + chunk] for i in range(0, len(lines), chunk)]
    def one(i):
        p = '%s.c%d' % (path, i)
        with open(p, 'w') as f:
            f.write('\n'.join(chunks[i]) + '\n')
        r = lib.tlc('TVRoundTrip', 'TVRoundTrip.cfg', workers=4, env={'TRACE': p}, xmx='3g', timeout=1200)
        os.unlink(p)
        return i, r
    with concurrent.futures.ThreadPoolExecutor(max_workers=4) as ex:
        for i, r in ex.map(one, range(len(chunks))):
            rep.add_tlc('TVRoundTrip:%s:%d' % (label, i), r, 'validation of recorded round trips')
            if r.distinct != len(chunks[i]) and not r.errors:
                rep.broken.append('TVRoundTrip %s chunk %d: %d states for %d records' % (label, i, r.distinct, len(chunks[i])))
            for p in r.prints:
                if p[0] == 'MISMATCH':
                    rec = json.loads(chunks[i][p[1] - 1])
                    kind = 'roundtrip:%s:%s' % (rec['t'], '+'.join(sorted(p[2])))
                    if rec['t'] == 'dbl' and rec.get('de') == 9999 and rec['e'] == 308 and rec['d'][:16] >= [1, 7, 9, 7, 6, 9, 3, 1, 3, 4, 8, 6, 2, 3, 1, 5]:
                        kind = 'double-top-of-range-rounds-to-infinity'     # 15 digits of a value above 1.797693134862315e308 exceed DBL_MAX
                    rep.violation(kind, dict(diff=sorted(p[2]), record={k: (v if k not in ('d', 'dd') else v[:20]) for k, v in rec.items()}))
    return lines

def nontrivial(d):
    if d['t'] == 'int':
        v = d['v']; x = (v[0] << 48) | (v[1] << 32) | (v[2] << 16) | v[3]
        top = (1 << d['w']) - 1
        return x in (0, 1, top, top >> 1, (top >> 1) + 1) or bin(x).count('1') <= 2 or bin(top ^ x).count('1') <= 2
    if d['t'] == 'text':
        return 34 in d['v'] or 39 in d['v']
    if d['t'] == 'arr':
        return len(d['v']) >= 255
    if d['t'] in ('dbl', 'flt'):
        return d['e'] <= -5 or d['e'] >= 15 or len(d['d']) <= 2
    if d['t'] == 'block':
        return len(d['v']) in (0, 9, 10, 99, 100, 999, 1000) or 10 in d['v']
    return True

def run(pid, tier):
    rep = lib.Report('C07', tier)
    rep.cov['rule'] = ('cases = (type, value): all 2^8 values and all (thorough) / every 97th (quick) 2^16 value in bases 2,8,10,16 and signed decimal; for 32 and 64 bit the structured boundary set '
                       '(every power of two +-1, complements, all-ones prefixes, powers of each base +-1, negatives) plus seeded boundary-biased random values; booleans; all texts up to 4 (quick) / 5 (thorough) '
                       'characters over {a, ", \', space, ;, ,} and random 7-bit texts up to 200; blocks of every length 0..300 (quick) / 0..1100 (thorough) with random bytes incl. terminators; '
                       'non-trivial = boundary value (<= 2 bits set or cleared, extremes), text with a quote, block at a header-length change or with a line feed inside')
    rep.assumptions += ['floats / doubles: the decoded value must lie within 0.7 unit of the last emitted digit (15 / 6) of the original; exact expansions come from glibc printf; the text itself is judged by C16',
                        '8/16-bit results are read back through the 32-bit readers and narrowed by the caller, as applications do',
                        'not all 2^32 values: exhaustive on the 10-bit word model (TLC) and 2^8 / 2^16 on the real code, structured + random at full width']
    r = lib.tlc('MCRoundTrip', 'MCRoundTrip.cfg', timeout=900)
    rep.add_tlc('MCRoundTrip', r, 'format -> lex -> denote round trip on the specification: all 10-bit words x bases x signedness, all texts <= 5 over 5 letters, blocks 0..12')
    if r.violations:
        rep.broken.append('specification violates %s (MCRoundTrip)' % r.violations)
    w = lib.workdir('C07')
    exe = lib.build('drv_rt', ['drv_rt.c'])
    d = lib.run_driver(exe, [lib.seed(), tier, w + '/rt.ndjson'], timeout=900)
    if d['rc'] != 0 or d['timeout']:
        rep.violation('driver-failure', dict(rc=d['rc'], stderr=d['stderr'].decode(errors='replace')[-3000:]))
    if os.path.exists(w + '/rt.ndjson'):
        lines = validate(rep, w + '/rt.ndjson', 'default')
        rep.cov['traces_validated_against_impl'] = len(lines)
        rep.cov['evaluations'] = len(lines)
        nt = set(ln for ln in lines if nontrivial(json.loads(ln)))
        rep.cov['distinct_nontrivial'] = len(nt)
        for ln in sorted(nt)[:3]:
            rep.sample(json.loads(ln))
    shutil.rmtree(w, ignore_errors=True)
    return rep.finish()

def replay(pid, path):
    d = json.load(open(path))
    for v in d.get('violations', [])[:20]:
        print('REPLAY', v['kind'], lib.short(v['detail'], 1000))
    return 1 if d.get('violations') else 0

MANIFEST = dict(engine='tlc-mc+harness+tlc-trace', ref='DESIGN.md section 6 C07',
   technique='TLC checks format -> lex -> denote round trips on the specification (ScpiFormat + ScpiLexer + ScpiParser) for a 10-bit word model; recorded round trips through the real SCPI_Result* / SCPI_Param* validated by TLC (TVRoundTrip)',
   text='TLC proves on the specification, for every 10-bit word in every base and signedness, every short text with both quotes and small blocks, that the canonical result text is exactly one program-data token denoting the value again; on the real library each value is formatted, sent back as a parameter and decoded, and TLC checks emitted bytes = canonical text, one token of the right type, accepted without error, decoded = original (2^8, 2^16, boundary + random 32/64-bit values in four bases, texts, blocks 0..1100).',
   note='Trusted: TLC; ScpiFormat/ScpiDigits for canonical digits. Floats/doubles are covered by C16 (text) and C04 (decoding), ASCII arrays element-wise by C17; full 2^32 enumeration is not done.')
