from p_format import run, replay, MANIFEST_C15 as MANIFEST
