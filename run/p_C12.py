from p_status import run, replay, MANIFEST_C12 as MANIFEST
