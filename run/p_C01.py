"""C01: no out-of-bounds access, undefined behaviour or hang on any input stream."""
import json, random
import lib, parser_common as pc

BUILDS = ['default', 'heap', 'noinfo', 'dtostre']

def mutate(rng, s):
    s = list(s)
    for _ in range(rng.randint(1, 3)):
        r = rng.random()
        if r < 0.3 and s:
            s[rng.randrange(len(s))] = rng.choice([0, 10, 13, 34, 35, 39, 40, 41, 44, 58, 59, 63, 42, 128, 255, 32, 48, 57, 69, 46, 45])
        elif r < 0.55 and s:
            del s[rng.randrange(len(s))]
        elif r < 0.8:
            s.insert(rng.randrange(len(s) + 1), rng.randrange(256))
        else:
            k = rng.randrange(len(s) + 1)
            s[k:k] = s[max(0, k - rng.randint(1, 6)):k]
    return s

def chunked(rng, s, mode):
    if mode == 0 or len(s) < 2:
        return [s]
    if mode == 1:
        return [s[i:i + 1] for i in range(len(s))]
    cuts = sorted(set(rng.randrange(1, len(s)) for _ in range(rng.randint(1, 4))))
    return [p for p in (s[a:b] for a, b in zip([0] + cuts, cuts + [len(s)])) if p]

def run(pid, tier):
    rep = lib.Report('C01', tier)
    rep.cov['rule'] = ('cases = input streams executed under ASan + UBSan in four builds (default, static heap, no device-dependent info, built-in dtostre) with exact-size heap input buffers whose unused '
                       'tail is poisoned after every append, exact-size chunks, an alarm() watchdog and handlers that apply every parameter-decoding, expression and result API: (a) every string of '
                       '<= 3 bytes over 25 byte classes (thorough: all; quick: all <= 1 byte and a seeded fifth of the rest) incl. NUL and 0x80, bare and as data of X / X?, whole + byte-wise + final zero-length call, buffers of 16 bytes; (b) seeded '
                       'mutations of grammar streams from the C02/C05/C06/C08 generators with random chunking, buffer sizes 2..64, queue sizes 1..4, and the same lines handed to SCPI_Parse; '
                       'executions of the default build are validated by TLC (TVParser: unit boundaries, pending remainder, errors where specified); non-trivial = contains NUL / >= 0x80 / a token cut by a chunk end or overrun')
    rep.assumptions += ['the memory-safety / UB / termination verdict for the real code is the sanitizer and watchdog observation of runs that the model generated (TLC decides cursor, bounds and progress lemmas of the model)',
                        'no coverage-guided fuzzing (another technique)']
    mcfut = pc.start_mc_inputloop()
    rng = random.Random(lib.seed())
    base = pc.gen(rep, 'C01', dict(MaxUnits=2), nparts=14, timeout=1500)
    rep.cov['strings_enumerated_by_tlc'] = len(base)
    if tier == 'quick':
        base = [s for i, s in enumerate(base) if len(s['chunks'][0]) <= 3 or i % 5 == lib.seed() % 5]
    scen = []
    for s in base:
        scen.append(s)
        st = s['chunks'][0]
        if len(st) >= 2:
            s2 = dict(s); s2['chunks'] = [st[i:i + 1] for i in range(len(st))] + [[]]
            scen.append(s2)
    for s in pc.gen(rep, 'C01b', {}, nparts=4, timeout=600):
        scen.append(s)                                   # truncated block, flushed
        s2 = dict(s); s2['mode'] = 'P'; s2['chunks'] = [s['chunks'][0]]
        scen.append(s2)                                  # the same line handed to SCPI_Parse
    # (b) mutated grammar streams
    pools = []
    for fam, consts in (('C02', dict(MaxUnits=2)), ('C06', dict(MaxUnits=2)), ('C08', dict(MaxUnits=1)), ('C05', dict(MaxSig=1, MaxItems=2, WsVariants='{0}'))):
        pools.append(pc.gen(rep, fam, consts, nparts=8, timeout=900))
    nmut = 4000 if tier == 'quick' else 60000
    for i in range(nmut):
        src = rng.choice(rng.choice(pools))
        s = dict(src)
        stream = mutate(rng, [b for c in src['chunks'] for b in c])
        s['buf'] = rng.choice([2, 3, 5, 8, 16, 33, 64])
        s['qcap'] = rng.choice([1, 2, 4])
        if i % 7 == 0:
            s['mode'] = 'P'
            s['chunks'] = [[b for b in stream if b != 0]]
        else:
            s['chunks'] = chunked(rng, stream, rng.randrange(3)) + ([[]] if rng.random() < 0.5 else [])
        scen.append(s)
    # (c) tight caller buffers and exactly filled static heaps: quoted strings of every length into a 4-byte buffer;
    #     undefined headers of varying length (their text goes to the error-info heap) interleaved with error reads
    ttab = [[list(b'T'), 1], [list(b'E?'), 2]]
    tscr = [[1, 1, 0, [['p', 'tshort', False]]], [2, 1, 0, [['q']]]]
    for n in range(0, 9):
        for qt in (34, 39):
            scen.append(dict(table=ttab, scripts=tscr, buf=64, mode='I', chunks=[list(b'T ') + [qt] + [97] * n + ([qt, qt] if n % 3 == 0 else []) + [qt, 10]], meta=dict(hdrs=[])))
    for i in range(200 if tier == 'quick' else 2000):
        msgs = []
        for k in range(rng.randint(3, 7)):
            msgs.append(list(b'E?\n') if rng.random() < 0.35 else [65 + rng.randrange(26) for _ in range(rng.randint(1, 11))] + [10])
        scen.append(dict(table=ttab, scripts=tscr, buf=64, qcap=rng.choice([2, 4]), heap=rng.choice([6, 8, 9, 12, 16, 20]), mode='I', chunks=msgs, meta=dict(hdrs=[])))
    # every call returns, as ScpiInputLoop prescribes: streams with a quote, '#' or a byte >= 128 first (open strings and blocks), then a stride of the rest
    evs = [s for s in scen if s.get('mode', 'I') == 'I']
    hot = [s for s in evs if any(b in (34, 35, 39) or b >= 128 for c in s['chunks'] for b in c)]
    cold = [s for s in evs if not any(b in (34, 35, 39) or b >= 128 for c in s['chunks'] for b in c)]
    ncap = 24000 if tier == 'quick' else 160000
    hot = hot[::max(1, -(-len(hot) // (ncap * 3 // 4)))]
    cold = cold[::max(1, -(-len(cold) // (ncap // 4)))]
    pc.event_traces(rep, 'C01', hot + cold, 'C01', mc=mcfut)
    for b in BUILDS:
        obs = pc.execute(rep, scen, b, 'C01' + b)
        if b == 'default':
            sub = [i for i in range(len(scen)) if scen[i].get('qcap', 16) >= 4]
            pc.validate(rep, 'C01', [scen[i] for i in sub], [obs[i] for i in sub], 'C01-default', fields=pc.FIELDS['C08'] | {'overrun-executed'})
    # the optional interface callbacks (error, control, flush, reset) left NULL: only the sanitizer / watchdog verdict counts
    pc.execute(rep, scen[::7], 'default', 'C01null', env={'DRV_NULL_CALLBACKS': '1'})
    def nontriv(sc):
        st = [b for c in sc['chunks'] for b in c]
        return any(b == 0 or b >= 128 for b in st) or len(sc['chunks']) > 2 or len(st) >= sc['buf']
    nt = set(json.dumps(s['chunks']) for s in scen if nontriv(s))
    rep.cov['distinct_nontrivial'] = len(nt)
    rep.cov['evaluations'] = len(scen) * len(BUILDS)
    for s in scen[-3:]:
        rep.sample(dict(buf=s['buf'], chunks=[bytes(c).decode('latin1') for c in s['chunks']]))
    return rep.finish()

def replay(pid, path):
    d = json.load(open(path))
    for v in d.get('violations', [])[:20]:
        print('REPLAY', v['kind'], lib.short(v['detail'], 1500))
    return 1 if d.get('violations') else 0

MANIFEST = dict(engine='tlc-gen+harness+tlc-trace', ref='DESIGN.md section 6 C01',
   technique='TLC enumerates byte strings over character classes and checks progress / bounds lemmas of ScpiLexer+ScpiParser; the same streams and seeded mutations are executed on the real library under ASan+UBSan+watchdog in four builds; default-build executions validated by TLC',
   text='TLC enumerates every short byte string over 25 character classes (bare and as parameter data) and checks on the specification that unit detection always progresses inside the input; every such stream, plus thousands of seeded mutations of grammar-generated streams under random chunking, tiny buffers and queues, is executed in the four supported builds with sanitizers, input-buffer tail poisoning, exact-size chunks and a watchdog, with handlers applying every parameter/expression/result API; pending remainder and overrun behaviour are validated by TLC against the specification.',
   note='The verdict on memory safety, undefined behaviour and termination of the real code comes from ASan/UBSan/alarm attached to model-generated runs, not from TLC; TLC decides the cursor/progress lemmas of the model and the conformance of observable behaviour. No coverage-guided fuzzing.')
