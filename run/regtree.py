"""The register tree beyond the ten standard registers (ScpiRegTree.tla): the library is built with
USE_CUSTOM_REGISTERS and a generated user tree (three levels, transition filters, enable-less and parent-less groups);
TLC model-checks the tree specification (summary coherence at every level, filtered latching, MSS, and agreement with
ScpiStatus on the standard part), the implementation's state graph is explored over the same alphabets and random
walks over all registers are recorded, and every transition is validated by TLC (TVRegTree)."""
import json, os, subprocess, concurrent.futures
import lib

EVENTS = {'ESR', 'OPER', 'QUES', 'INSTE', 'ISUME', 'PWRE', 'USRE', 'NGE', 'TOPE'}
SRQ = {'srq-missing', 'srq-without-mss', 'srq-while-mss-clear'}

def fields(pid, allnames):
    # C12 owns latching of events and the service request; C11 the summary bits everywhere else in the tree
    return (EVENTS | SRQ) if pid == 'C12' else (set(allnames) - EVENTS)

def kind_of(rec, diff):
    op = rec['op']
    if len(op) > 1 and op[1] == 'TOPC' and 'TOPE' in diff:
        return 'parentless-condition-group-no-latch'
    return 'regtree:' + op[0] + (':' + str(op[1]) if len(op) > 1 else '') + ':' + '+'.join(sorted(diff))

def tv(rep, pid, path, label, names):
    lines = open(path).read().splitlines()
    if not lines:
        rep.broken.append('no register-tree transitions recorded for ' + label)
        return 0
    CH = 40000
    chunks = [lines[i:i + CH] for i in range(0, len(lines), CH)]
    def one(i):
        p = '%s.c%d' % (path, i)
        with open(p, 'w') as f:
            f.write('\n'.join(chunks[i]) + '\n')
        r = lib.tlc('TVRegTree', 'TVRegTree.cfg', workers=4, env={'TRACE': p}, xmx='3g', timeout=900)
        os.unlink(p)
        return i, r
    fl = fields(pid, names)
    mism = 0
    with concurrent.futures.ThreadPoolExecutor(max_workers=4) as ex:
        for i, r in ex.map(one, range(len(chunks))):
            rep.add_tlc('TVRegTree:%s:%d' % (label, i), r, 'transition validation of the register tree (USE_CUSTOM_REGISTERS build)')
            if r.distinct != 2 * len(chunks[i]) and not r.errors:
                rep.broken.append('TVRegTree %s chunk %d: %d states for %d lines' % (label, i, r.distinct, len(chunks[i])))
            for p in r.prints:
                if p[0] == 'MISMATCH':
                    diff = set(p[2])
                    if diff & fl:
                        mism += 1
                        rec = json.loads(chunks[i][p[1] - 1])
                        rep.violation(kind_of(rec, diff & fl), dict(source=label, build='regtree', diff=sorted(diff), transition=rec, registers=names))
    rep.cov['traces_validated_against_impl'] += len(lines)
    rep.cov['evaluations'] += len(lines)
    nt = 0
    for ln in lines:
        d = json.loads(ln)
        if sum(1 for a, b in zip(d['f']['r'], d['t']['r']) if a != b) >= 2 or d['srq']:
            nt += 1                     # the write moved at least one further register (latch, summary, MSS)
    rep.cov['distinct_nontrivial'] += nt
    return mism

def validate(rep, pid, tier):
    names = None
    for ln in open(os.path.join(lib.ROOT, 'spec', 'ScpiRegTreeTable.tla')):
        if ln.startswith('RegOrder'):
            names = json.loads('[' + ln.split('<<')[1].split('>>')[0] + ']')
    exe = lib.build('drv_status', ['drv_status.c'], config='regtree')
    w = lib.workdir(pid + 'rt')
    alph = ['T1', 'T2q'] if tier == 'quick' else ['T1', 'T2', 'T3', 'T4']
    for a in alph:
        r = lib.tlc('MCRegTree', 'MCRegTree_%s.cfg' % a, timeout=1500, xmx='8g')
        rep.add_tlc('MCRegTree_' + a, r, 'model checking of ScpiRegTree: TreeCoherent, MssCoherent, RisesHaveMss, FilterLatch, EventSticky, RiseAnnounced, MasksOnlyWritten, StandardAgreement (with ScpiStatus)')
        if r.violations:
            rep.broken.append('ScpiRegTree violates %s in MCRegTree_%s' % (r.violations, a))
        if a == 'T4':
            continue        # model-checked only: its 1.9x10^7 implementation transitions would take an hour to validate
        g = lib.tlc('GenRegTreeOps', 'GenRegTreeOps_%s.cfg' % a, workers=1, env={'OUT': w + '/ops.ndjson'}, timeout=120)
        if g.rc != 0:
            rep.broken.append('GenRegTreeOps failed'); continue
        with open(w + '/ops.txt', 'w') as f:
            for l in open(w + '/ops.ndjson'):
                f.write(' '.join(str(x) for x in json.loads(l)) + '\n')
        os.unlink(w + '/ops.ndjson')
        d = lib.run_driver(exe, ['explore', w + '/ops.txt', 1, 600000, w + '/x.raw'], timeout=900)
        if d['rc'] != 0:
            rep.violation('driver-failure', dict(build='regtree', alphabet=a, rc=d['rc'], stderr=d['stderr'].decode(errors='replace')[-2000:]))
            continue
        info = json.loads(d['stdout'].decode().strip().splitlines()[-1])
        subprocess.run('LC_ALL=C sort -u %s/x.raw > %s/x.ndjson; rm %s/x.raw' % (w, w, w), shell=True, check=True)
        rep.cov['driver_runs'].append(dict(build='regtree', alphabet=a, impl_concrete_states=info['concrete_states'], impl_transitions=info['transitions'],
                                           spec_states=r.distinct, complete=info['complete']))
        m = tv(rep, pid, w + '/x.ndjson', 'regtree-explore-' + a, names)
        if not m and info['complete'] and info['concrete_states'] != r.distinct and not rep.viol and not rep.known_hits:
            rep.broken.append('register tree alphabet %s: implementation reaches %d states, specification %d' % (a, info['concrete_states'], r.distinct))
        os.unlink(w + '/x.ndjson')
    steps = 40000 if tier == 'quick' else 400000
    d = lib.run_driver(exe, ['twalk', lib.seed() * 13 + 5, steps, w + '/tw.ndjson'], timeout=900)
    if d['rc'] != 0:
        rep.violation('driver-failure', dict(build='regtree', mode='twalk', rc=d['rc'], stderr=d['stderr'].decode(errors='replace')[-2000:]))
    else:
        tv(rep, pid, w + '/tw.ndjson', 'regtree-walk', names)
    import shutil
    shutil.rmtree(w, ignore_errors=True)
