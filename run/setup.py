#!/usr/bin/env python3
"""setup_cmd: offline self-check of the framework (SANY over every module, tools present)."""
import glob, os, subprocess, sys
sys.path.insert(0, os.path.dirname(os.path.abspath(__file__)))
import lib
bad = 0
lib.ensure(lib.WORK)
for t in sorted(glob.glob(os.path.join(lib.SPEC, '*.tla'))):
    ok, out = lib.sany(os.path.basename(t))
    if not ok:
        print('SANY failed for', t); print(out[-2000:]); bad = 1
for tool in ('clang', 'java'):
    if subprocess.run(['which', tool], stdout=subprocess.DEVNULL).returncode != 0:
        print('missing tool', tool); bad = 1
print('setup', 'FAILED' if bad else 'ok')
sys.exit(bad)
