"""C09: messages and units are isolated: nothing but status and errors carries over."""
import json, random
import lib, parser_common as pc

SPECIAL_A = [[list(b'BLK? #15ab'), []],            # announces a 5-byte block, input ends: flushed incomplete
             [list(b'TXT? "open'), []],            # unterminated string, flushed
             [list(b'ECHO 1;' + b'X' * 70)],      # overruns the 64-byte input buffer
             [list(b'PART?;PART?\n')],             # two unfinished block results
             [list(b'SYST:SUB:A;B?;ECHO @\n')],    # fails midway after relative headers
             [list(b'ECHO? 1,2,3\n')],             # parameters left unread
             [list(b'ECHO?'), []],                 # incomplete unit, flushed
             [list(b'SENS:VOLT:AC:R\n')],         # runs the second of two overlapping table entries
             [list(b'NOPE\n')], [list(b'ECHO\n')]] # leave an error behind (undefined header, missing parameter)

def run(pid, tier):
    rep = lib.Report('C09', tier)
    rep.assumptions += ['the error queue holds 128 entries in these scenarios: an overflow marker among the errors of B after an error-heavy A is an effect that flows through the queue, which the statement exempts']
    rep.cov['rule'] = ('cases = ordered pairs (A, B) of messages on one context, A and B from the single-message pool of the C08 vocabulary (1..2 units, three terminators) plus A-messages that '
                       'overrun the buffer, end incomplete and are flushed, leave block results unfinished or fail midway; B after A is compared by TLC with B on a fresh context '
                       '(handler invocations, parameters, output, errors, return value, remainder) and validated against ScpiParser; non-trivial = A ends abnormally or B uses a relative header')
    rep.assumptions += ['scripted handlers do not read the status registers or the error queue, so every difference is a leak']
    rng = random.Random(lib.seed())
    pool = pc.gen(rep, 'C08', dict(MaxUnits=1), nparts=1, timeout=900)
    msgs = [s['chunks'][0] for s in pool]
    base = pool[0]
    na, nb = (60, 45) if tier == 'quick' else (400, 300)
    As = [[m] for m in rng.sample(msgs, min(na, len(msgs)))] + SPECIAL_A
    rel = [m for m in msgs if bytes(m).startswith((b'B?', b'ECHO? 2', b'PART?', b'TXT?', b'NONE?', b'SENS', b'NOCB'))]
    Bs = rng.sample(msgs, min(nb, len(msgs))) + [m for m in rel if bytes(m).startswith((b'SENS', b'NOCB'))][:12] + rel[:18]
    scen, refidx = [], []
    alone = {}
    for b in Bs:
        sc = dict(base); sc['chunks'] = [b]
        alone[json.dumps(b)] = len(scen)
        scen.append(sc); refidx.append(None)
    for a in As:
        for b in Bs:
            sc = dict(base); sc['chunks'] = a + [b]
            scen.append(sc); refidx.append(alone[json.dumps(b)])
    for sc in scen:
        sc['qcap'] = 128      # large enough for every error of A and B: what an overflowing queue does to the errors of B flows through the queue (exempt in the statement)
    obs = pc.execute(rep, scen, 'default', 'C09')
    refs = [obs[j] if j is not None else None for j in refidx]
    pc.validate(rep, 'C09', scen, obs, 'C09-default', refs=refs, iso=1)
    # the same comparison with a write callback that reports 0 bytes (a transport that queues): what A's terminator "wrote"
    # must not change what B sends
    keep = [i for i in range(len(scen)) if refidx[i] is None or i % 6 == 0]
    pos = {i: k for k, i in enumerate(keep)}
    sub = [scen[i] for i in keep]
    obs0 = pc.execute(rep, sub, 'default', 'C09write0', env={'DRV_WRITE_ZERO': '1'})
    refs0 = [obs0[pos[refidx[i]]] if refidx[i] is not None else None for i in keep]
    pc.validate(rep, 'C09', sub, obs0, 'C09-write-returns-0', refs=refs0, iso=1)
    def nontriv(sc):
        a = b''.join(bytes(c) for c in sc['chunks'][:-1]); b = bytes(sc['chunks'][-1])
        return len(sc['chunks']) > 1 and (len(sc['chunks']) > 2 or b'@' in a or b'NOPE' in a or b'PART' in a or len(a) > 60 or b.startswith(b'B?'))
    nt = [s for s in scen if nontriv(s)]
    rep.cov['distinct_nontrivial'] = len(nt)
    for s in nt[:3]:
        rep.sample(dict(chunks=[bytes(c).decode('latin1') for c in s['chunks']]))
    return rep.finish()

def replay(pid, path):
    d = json.load(open(path))
    for v in d.get('violations', [])[:20]:
        print('REPLAY', v['kind'], lib.short(v['detail'], 1000))
    return 1 if d.get('violations') else 0

MANIFEST = dict(engine='tlc-gen+harness+tlc-trace', ref='DESIGN.md section 6 C09',
   technique='ScpiParser.tla states per-message initial state by construction (RunMsg is a function of the message); TLC compares B-after-A with B-alone for recorded executions of the real parser',
   text='In the specification the path, parameter cursor, result accounting and separator state are arguments initialised per message / per unit, so isolation holds by construction and TLC checks the lemmas on every enumerated message; on the real library every ordered pair from a pool of messages (incl. overrun, flushed-incomplete, unfinished-block and failing first messages) is executed and TLC checks that what B did after A equals what B does on a fresh context.',
   note='Trusted: TLC, driver. Pairs are sampled from the pool with the seed (quick about 3x10^3 pairs, thorough about 1.2x10^5).')
