"""C11 / C12: status registers, summary, MSS, service request, error classes.
M: TLC model-checks ScpiStatus on bounded alphabets.  X: the implementation's own state graph is
explored over the same alphabets (snapshot/restore) and every transition validated by TLC against
ScpiStatus (TVStatus).  V: random walks over full 16-bit values, all 65536 error codes."""
import json, os, subprocess, sys, collections
import lib, suite_traces, composition, regtree

PROPERTIES = ["C11", "C12"]

C11_FIELDS = {'STB', 'queue', 'out', 'SRE', 'ESE', 'OPERE', 'QUESE', 'OPERC', 'QUESC'}
C10_FIELDS = {'queue', 'out'}
C12_FIELDS = {'ESR', 'OPER', 'QUES', 'srq-missing', 'srq-without-mss', 'srq-while-mss-clear', 'srq-not-current-status-byte'}

def kind_of(rec, diff):
    op = rec['op']
    if op[0] in ('set', 'setbits', 'clrbits') and op[1] in ('ESE', 'OPERE', 'QUESE') and 'STB' in diff:
        return 'enable-write-no-summary'
    if op[0] == 'cmd' and op[1] in ('*ESE', 'STAT:QUES:ENAB', 'STAT:OPER:ENAB') and 'STB' in diff:
        return 'enable-write-no-summary'
    if op[0] == 'push' and 'ESR' in diff:
        if len(rec['f']['q']) >= rec['cap']:
            return 'overflow-der-not-set'
        if op[1] > 0:
            return 'positive-code-no-der'
        return 'push-class-bit'
    return 'status:' + op[0] + (':' + str(op[1]) if len(op) > 1 and isinstance(op[1], str) else '') + ':' + '+'.join(sorted(diff))

def validate(rep, pid, path, label, nontrivial=True):
    """Run TVStatus over a transition file (split into chunks); classify mismatches."""
    lines = open(path).read().splitlines()
    n = len(lines)
    if n == 0:
        rep.broken.append('no transitions recorded for ' + label)
        return
    CH = 60000
    chunks = [lines[i:i + CH] for i in range(0, n, CH)]
    procs = []
    import concurrent.futures
    def one(i):
        p = '%s.c%d' % (path, i)
        with open(p, 'w') as f:
            f.write('\n'.join(chunks[i]) + '\n')
        r = lib.tlc('TVStatus', 'TVStatus.cfg', workers=4, env={'TRACE': p}, xmx='3g', timeout=900)
        os.unlink(p)
        return i, r
    fields = C11_FIELDS if pid == 'C11' else C10_FIELDS if pid == 'C10' else C12_FIELDS
    unj = 0
    mism = 0
    with concurrent.futures.ThreadPoolExecutor(max_workers=4) as ex:
        for i, r in ex.map(one, range(len(chunks))):
            rep.add_tlc('TVStatus:%s:%d' % (label, i), r, 'transition validation of implementation steps')
            if r.distinct != 2 * len(chunks[i]) and not r.errors:
                rep.broken.append('TVStatus %s chunk %d: %d states for %d lines (a recorded step had no specification step)' % (label, i, r.distinct, len(chunks[i])))
            for p in r.prints:
                if p[0] == 'UNJUDGED':
                    unj += 1
                elif p[0] == 'MISMATCH':
                    rec = json.loads(chunks[i][p[1] - 1])
                    diff = set(p[2])
                    if diff & fields:
                        mism += 1
                        rep.violation(kind_of(rec, diff), dict(source=label, diff=sorted(diff), transition=rec))
    rep.cov['traces_validated_against_impl'] += n
    rep.cov['evaluations'] += n
    rep.cov.setdefault('unjudged_transitions', 0)
    rep.cov['unjudged_transitions'] += unj
    # non-trivial: the transition changes a summary bit / MSS or latches / clears an event bit
    nt = set()
    for ln in lines:
        d = json.loads(ln)
        f, t = d['f']['r'], d['t']['r']
        if (f[0] != t[0]) or f[2] != t[2] or f[4] != t[4] or f[7] != t[7] or d['srq']:
            nt.add(ln)
    rep.cov['distinct_nontrivial'] += len(nt)
    for ln in list(nt)[:2]:
        rep.sample(json.loads(ln))
    return mism

def run(pid, tier):
    rep = lib.Report(pid, tier)
    rep.cov['rule'] = ('cases = implementation transitions {from, op, to, srq, out}; enumerated by breadth-first exploration of the real '
                       'library over the model alphabets, by seeded random walks over 16-bit values' + (' and by pushing all 65536 codes' if pid == 'C12' else '') +
                       '; non-trivial = the transition changes the status byte (summary bit / MSS), an event register, or announces a service request; distinct = different record')
    rep.assumptions += ['direct writes to the status byte are outside the property and not in the alphabet',
                        'bit 6 of SRE is ignored when comparing (the property only requires that it does not contribute to MSS)',
                        'more service requests than the required one are accepted while MSS is 1']
    # unbounded, machine-checked (TLAPS): the invariants hold for every alphabet, all register values, every capacity >= 1
    if tier == 'thorough' or os.environ.get('VERIF_TLAPS'):      # about two minutes of proof checking: thorough tier
      lib.tlaps(rep, 'ScpiStatusProofs', ['ScpiStatus'],
                ['Spec => []StbCoherent', 'Spec => []QueueBounded'] if pid == 'C11' else
                ['Spec => SrqOnRise', 'Spec => []NoSrqWhileClear', 'Spec => Latch', 'Spec => Sticky', 'Spec => PushSetsClassBit'])
      lib.tlaps(rep, 'ScpiStatusNestedProofs', ['ScpiStatus', 'ScpiStatusNested'],
                ['SpecN => []StbCoherent (error callback re-enters the library)'] if pid == 'C11' else ['SpecN => SrqOnRise (error callback re-enters the library)'])
    w = lib.workdir(pid)
    exe = lib.build('drv_status', ['drv_status.c'])
    alphabets = ['A', 'B', 'C'] if tier == 'quick' else ['A', 'B', 'C', 'F', 'G', 'D']
    xalph = ['A', 'B', 'C'] if tier == 'quick' else ['A', 'B', 'C', 'F', 'G']
    for a in alphabets:
        r = lib.tlc('MCStatus', 'MCStatus_%s.cfg' % a, timeout=1500, xmx='12g')
        rep.add_tlc('MCStatus_' + a, r, 'model checking of ScpiStatus: StbCoherent, QueueBounded, NoSrqWhileClear, Sticky, Latch, PushSetsClassBit, SrqOnRise, FifoOrder')
        if r.violations:
            rep.broken.append('specification violates its own property %s in MCStatus_%s' % (r.violations, a))
        if a not in xalph:
            continue
        cap = 2 if a in 'AF' else 1
        g = lib.tlc('GenStatusOps', 'GenStatusOps_%s.cfg' % a, workers=1, env={'OUT': w + '/ops.ndjson'}, timeout=120)
        if g.rc != 0:
            rep.broken.append('GenStatusOps failed'); continue
        with open(w + '/ops.txt', 'w') as f:
            for l in open(w + '/ops.ndjson'):
                f.write(' '.join(str(x) for x in json.loads(l)) + '\n')
        os.unlink(w + '/ops.ndjson')
        d = lib.run_driver(exe, ['explore', w + '/ops.txt', cap, 400000, w + '/x.raw'])
        if d['rc'] != 0:
            rep.violation('driver-failure', dict(alphabet=a, rc=d['rc'], stderr=d['stderr'].decode(errors='replace')[-2000:]))
            continue
        info = json.loads(d['stdout'].decode().strip().splitlines()[-1])
        subprocess.run('LC_ALL=C sort -u %s/x.raw > %s/x.ndjson; rm %s/x.raw' % (w, w, w), shell=True, check=True)
        proj = set()
        with open(w + '/x.ndjson') as f:
            for ln in f:
                d = json.loads(ln)
                fr = list(d['f']['r']); fr[1] &= ~64
                proj.add((tuple(fr), tuple(d['f']['q'])))
        rep.cov['driver_runs'].append(dict(alphabet=a, cap=cap, impl_concrete_states=info['concrete_states'], impl_transitions=info['transitions'],
                                           impl_abstract_states=len(proj), spec_states=r.distinct, complete=info['complete']))
        m = validate(rep, pid, w + '/x.ndjson', 'explore-' + a)
        if a == 'A':
            # the same exploration without an error callback installed (it is optional)
            d2 = lib.run_driver(exe, ['explore', w + '/ops.txt', cap, 400000, w + '/y.raw'], env={'DRV_NO_ERROR_CALLBACK': '1'})
            if d2['rc'] != 0:
                rep.violation('driver-failure', dict(alphabet=a, variant='no error callback', rc=d2['rc'], stderr=d2['stderr'].decode(errors='replace')[-2000:]))
            else:
                subprocess.run('LC_ALL=C sort -u %s/y.raw > %s/y.ndjson; rm %s/y.raw' % (w, w, w), shell=True, check=True)
                validate(rep, pid, w + '/y.ndjson', 'explore-A-no-error-callback')
                os.unlink(w + '/y.ndjson')
        if a == 'A':
            # and in the build without device-dependent error information (its own branches in error.c)
            exe3 = lib.build('drv_status', ['drv_status.c'], config='noinfo')
            d3 = lib.run_driver(exe3, ['explore', w + '/ops.txt', cap, 400000, w + '/z.raw'])
            if d3['rc'] != 0:
                rep.violation('driver-failure', dict(alphabet=a, build='noinfo', rc=d3['rc'], stderr=d3['stderr'].decode(errors='replace')[-2000:]))
            else:
                subprocess.run('LC_ALL=C sort -u %s/z.raw > %s/z.ndjson; rm %s/z.raw' % (w, w, w), shell=True, check=True)
                validate(rep, pid, w + '/z.ndjson', 'explore-A-noinfo')
                os.unlink(w + '/z.ndjson')
        if not m and info['complete'] and len(proj) > r.distinct and not rep.viol and not rep.known_hits:
            rep.broken.append('alphabet %s: implementation reaches %d abstract states, specification %d' % (a, len(proj), r.distinct))
        os.unlink(w + '/x.ndjson')
    # an application whose error callback re-enters the library (takes the error out / empties the queue while it is announced)
    rs = lib.tlc('MCStatusNested', 'MCStatusNested_S.cfg', timeout=900, xmx='8g')
    rep.add_tlc('MCStatusNested_S', rs, 'model checking of ScpiStatusNested with a re-entering service-request handler (srqclr / srqpp): StbCoherent, QueueBounded, RiseAnnouncedS, SecondRiseS')
    if rs.violations:
        rep.broken.append('specification violates its own property %s in MCStatusNested_S' % rs.violations)
    r = lib.tlc('MCStatusNested', 'MCStatusNested_N.cfg', timeout=900, xmx='8g')
    rep.add_tlc('MCStatusNested_N', r, 'model checking of ScpiStatusNested (pushes drained by the error callback): StbCoherent, QueueBounded, Sticky, Latch, NestedSetsClassBit, SrqOnRise')
    if r.violations:
        rep.broken.append('specification violates its own property %s in MCStatusNested_N' % r.violations)
    g = lib.tlc('GenStatusOpsN', 'GenStatusOpsN.cfg', workers=1, env={'OUT': w + '/opsn.ndjson'}, timeout=120)
    if g.rc != 0:
        rep.broken.append('GenStatusOpsN failed')
    else:
        with open(w + '/opsn.txt', 'w') as f:
            for l in open(w + '/opsn.ndjson'):
                f.write(' '.join(str(x) for x in json.loads(l)) + '\n')
        os.unlink(w + '/opsn.ndjson')
        for cfgname in (('default',) if tier == 'quick' else ('default', 'noinfo')):
            exen = exe if cfgname == 'default' else lib.build('drv_status', ['drv_status.c'], config='noinfo')
            d = lib.run_driver(exen, ['explore', w + '/opsn.txt', 2, 400000, w + '/n.raw'])
            if d['rc'] != 0:
                rep.violation('driver-failure', dict(alphabet='N', build=cfgname, rc=d['rc'], stderr=d['stderr'].decode(errors='replace')[-2000:]))
                continue
            info = json.loads(d['stdout'].decode().strip().splitlines()[-1])
            subprocess.run('LC_ALL=C sort -u %s/n.raw > %s/n.ndjson; rm %s/n.raw' % (w, w, w), shell=True, check=True)
            rep.cov['driver_runs'].append(dict(alphabet='N (re-entering error callback and service-request handler)', build=cfgname, cap=2, impl_concrete_states=info['concrete_states'],
                                               impl_transitions=info['transitions'], spec_states=r.distinct, complete=info['complete']))
            validate(rep, pid, w + '/n.ndjson', 'explore-N-' + cfgname)
            os.unlink(w + '/n.ndjson')
    steps = 60000 if tier == 'quick' else 600000
    for cap in (1, 3, 256):
        d = lib.run_driver(exe, ['walk', lib.seed() * 7 + cap, (steps // 2) if cap < 256 else 3000, cap, w + '/walk.ndjson'])
        if d['rc'] != 0:
            rep.violation('driver-failure', dict(mode='walk', rc=d['rc'], stderr=d['stderr'].decode(errors='replace')[-2000:]))
        else:
            validate(rep, pid, w + '/walk.ndjson', 'walk-cap%d' % cap)
    # a C89 build of the library has no stdbool: scpi_bool_t is an unsigned char there (summaries of bits 8..15)
    exe89 = lib.build('drv_status', ['drv_status.c'], config='c89')
    d = lib.run_driver(exe89, ['walk', lib.seed() * 11 + 3, steps // 3, 2, w + '/walk89.ndjson'])
    if d['rc'] != 0:
        rep.violation('driver-failure', dict(mode='walk', build='c89', rc=d['rc'], stderr=d['stderr'].decode(errors='replace')[-2000:]))
    else:
        validate(rep, pid, w + '/walk89.ndjson', 'walk-c89')
    if pid == 'C12':
        d = lib.run_driver(exe, ['codes', w + '/codes.ndjson'])
        if d['rc'] != 0:
            rep.violation('driver-failure', dict(mode='codes', rc=d['rc'], stderr=d['stderr'].decode(errors='replace')[-2000:]))
        else:
            validate(rep, pid, w + '/codes.ndjson', 'codes')
        # the class of a code does not depend on which error texts are compiled in: the minimal error list
        exe2 = lib.build('drv_status', ['drv_status.c'], config='fewerr')
        d = lib.run_driver(exe2, ['codes', w + '/codes2.ndjson'])
        if d['rc'] != 0:
            rep.violation('driver-failure', dict(mode='codes', build='fewerr', rc=d['rc'], stderr=d['stderr'].decode(errors='replace')[-2000:]))
        else:
            validate(rep, pid, w + '/codes2.ndjson', 'codes-fewerr')
    suite_traces.validate(rep, pid + ':')      # hook traces of the repository's own test programs
    composition.validate(rep, pid, tier)
    regtree.validate(rep, pid, tier)           # the generic register tree in a USE_CUSTOM_REGISTERS build
    rep.cov['exhaustive'] = True
    rep.cov['explanation'] = 'exhaustive within the listed alphabets (model and implementation state graphs), sampled beyond (random walks)'
    import shutil
    shutil.rmtree(w, ignore_errors=True)
    return rep.finish()

def replay(pid, path):
    """Re-validate the transitions stored in a replay file and print the comparison."""
    rep = lib.Report(pid, 'quick')
    w = lib.workdir(pid + 'r')
    d = json.load(open(path))
    with open(w + '/r.ndjson', 'w') as f:
        for v in d.get('violations', []):
            if 'transition' in v['detail']:
                f.write(json.dumps(v['detail']['transition']) + '\n')
    validate(rep, pid, w + '/r.ndjson', 'replay')
    for k, dd in rep.viol:
        print('REPLAY mismatch', k, lib.short(dd, 800))
    return 1 if rep.viol else 0

MANIFEST_C11 = dict(engine='explore+tlc-trace', ref='DESIGN.md section 6 C11',
   technique='TLC model checking of ScpiStatus.tla (+ in the thorough tier a TLAPS proof of its invariants for unbounded parameters) + TLC validation of every transition of the implementation state graph and of random walks',
   text='TLC exhaustively checks StbCoherent and the action properties on bounded alphabets of ScpiStatus.tla; the real library is explored breadth-first over the same alphabets (snapshot/restore, incl. ring indices) and every transition, plus seeded 16-bit random walks, is validated by TLC as the step the specification prescribes (also without an error callback installed and with writes to the MSS position). In addition the composition Scpi.tla is model-checked and random messages of a minimal instrument, and the hook traces of the repository test programs, are validated against it; and the generic register tree ScpiRegTree.tla (of which the standard registers are one instance: lemma StandardAgreement) is model-checked and bound to a USE_CUSTOM_REGISTERS build with a three-level user tree, transition filters, enable-less and parent-less groups (exploration over the model alphabets + random walks, every transition validated by TLC). Exhaustive within the alphabets, sampled beyond.',
   note='Error callbacks and service-request handlers that re-enter the library are specified in ScpiStatusNested.tla (model-checked, TLAPS in the thorough tier) and bound by exploration and random walks. Trusted: TLC, the driver projection (registers read from the context, queue content). Representative bits per register instead of all 16; direct STB writes excluded; SRE bit 6 ignored.')
MANIFEST_C12 = dict(engine='explore+tlc-trace', ref='DESIGN.md section 6 C12',
   technique='TLC model checking of ScpiStatus.tla (+ in the thorough tier TLAPS proofs of the latching, stickiness, class-bit and service-request properties) + TLC validation of implementation transitions, all 65536 codes',
   text='As C11, with the class-bit map checked for all 65536 codes on the real library, latching/stickiness of event bits and the service request (rising edge, never with MSS clear) compared on every explored transition.',
   note='With a re-entering service-request handler every rise of MSS inside a step needs its own announcement (ScpiStatusNested srqpp). Trusted: TLC, driver projection and callback capture. Extra service requests while MSS is already 1 are accepted; on overflow the class bit of the dropped error is optional, the DER bit of -350 mandatory.')
