"""C08: behaviour depends on the byte stream, not on how it is cut into input calls."""
import json, random
import lib, parser_common as pc

def chunkings(stream, rng, tier, every=True):
    n = len(stream)
    out = [[stream]]                                            # all at once
    out.append([stream[i:i + 1] for i in range(n)])             # byte at a time (the reference, index 1)
    ks = list(range(1, n))                                      # every single split point
    if not every and len(ks) > 10:
        ks = sorted(rng.sample(ks, 10))                         # quick tier, plain streams: ten of them
    for k in ks:
        out.append([stream[:k], stream[k:]])
    for _ in range(3 if tier == 'quick' else 12):               # random multi-way splits
        m = rng.randint(2, min(5, max(2, n - 1)))
        cuts = sorted(rng.sample(range(1, n), min(m, n - 1))) if n > 2 else [1]
        pieces = [stream[a:b] for a, b in zip([0] + cuts, cuts + [n])]
        out.append([p for p in pieces if p])
    return out

def kind(rec, rel, hints):
    if 'h:newline-inside-open-string' in hints:
        return 'quoted-newline-split'
    return None

def cuts_token(stream, chunks):
    """non-trivial: some cut falls inside a token (not right after a terminator / separator)"""
    pos = 0
    for c in chunks[:-1]:
        pos += len(c)
        if stream[pos - 1] not in (10, 13, 59) :
            return True
    return False

def run(pid, tier):
    rep = lib.Report('C08', tier)
    rep.cov['rule'] = ('cases = (stream, chunking): streams of 1..2 messages (1..2 units each) over a 19-unit vocabulary (blocks and quoted strings holding terminators and semicolons, '
                       'relative headers, empty units, junk, undefined headers, unfinished block results) with LF / CRLF / CR terminators, plus truncated streams completed by a zero-length call; '
                       'chunkings: all at once, byte at a time, every single split point (quick tier: for every stream with a string, block or expression and every second plain stream, ten split points for the others), random multi-way splits; each execution is validated by TLC against ScpiParser and its observables '
                       'compared with the byte-at-a-time execution; non-trivial = a cut falls inside a token')
    rep.assumptions += ['input buffer (64 bytes, and for a sixth of the streams exactly the stream length + 1) holds any pending unterminated data of these streams (the stated precondition)',
                        'a CR LF pair cut between CR and LF yields an extra empty message, which is unobservable']
    mcfut = pc.start_mc_inputloop()
    rng = random.Random(lib.seed())
    streams = pc.gen(rep, 'C08', {}, nparts=8, lemmas=('Lemmas', 'L_Progress', 'L_Chunk'), timeout=1500)
    rep.cov['streams_enumerated_by_tlc'] = len(streams)
    if tier == 'quick':
        # the quick tier executes every stream that has a block, a string or leading white space, and a seeded part of the rest
        def special(s):
            b = bytes(s['chunks'][0])
            return b'#' in b or b'"' in b or b"'" in b or b.startswith((b' ', b'\t')) or b'\n ' in b or b'\n\t' in b
        def stale(s):       # a long number first: what it leaves behind in the buffer must not reach the next message
            return bytes(s['chunks'][0]).startswith(b'ECHO 98765')
        streams = [s for i, s in enumerate(streams) if len(s['chunks'][0]) <= 30 and ((special(s) and i % 7 == lib.seed() % 7) or i % 24 == lib.seed() % 24 or stale(s))]
    scen, refidx, meta = [], [], []
    for s in streams:
        st = s['chunks'][0]
        variants = [(st, False)]
        if st and st[-1] in (10, 13):
            t2 = st[:-2] if st[-2:] == [13, 10] else st[:-1]
            if t2:
                variants.append((t2, True))       # last terminator missing: completed by a zero-length call
        for stream, flush in variants:
            # every sixth stream also with an input buffer that the stream fills exactly (all at once is still no overrun)
            bufs = [s['buf']] + ([len(stream) + 1] if (len(scen) // 7) % 6 == 0 and len(stream) + 1 < s['buf'] else [])
            for bsz in bufs:
                base = len(scen)
                plain = tier == 'quick' and not any(b in (34, 35, 39, 40, 92) or b >= 128 for b in stream)
                for ch in chunkings(stream, rng, tier, every=not plain or (len(scen) // 3) % 2 == 0):
                    sc = dict(s)
                    sc['buf'] = bsz
                    sc['chunks'] = ch + ([[]] if flush else [])
                    scen.append(sc)
                    refidx.append(base + 1)
                    meta.append((stream, ch))
    obs = pc.execute(rep, scen, 'default', 'C08')
    refs = [obs[j] for j in refidx]
    pc.validate(rep, 'C08', scen, obs, 'C08-default', refs=refs, kindfn=kind, fields=pc.FIELDS['C08'])
    pc.event_traces(rep, 'C08', scen[::max(1, len(scen) // (12000 if tier == 'quick' else 100000))], 'C08', mc=mcfut)     # hook-event traces against the input-loop state machine
    nt = [i for i, (st, ch) in enumerate(meta) if cuts_token(st, ch)]
    rep.cov['distinct_nontrivial'] = len(set(json.dumps(scen[i]['chunks']) for i in nt))
    rep.cov['streams'] = len(streams)
    for i in nt[:3]:
        rep.sample(dict(chunks=[bytes(c).decode('latin1') for c in scen[i]['chunks']]))
    return rep.finish()

def replay(pid, path):
    d = json.load(open(path))
    for v in d.get('violations', [])[:20]:
        print('REPLAY', v['kind'], lib.short(v['detail'], 1000))
    return 1 if d.get('violations') else 0

MANIFEST = dict(engine='tlc-gen+harness+tlc-trace', ref='DESIGN.md section 6 C08',
   technique='TLC checks the message-splitting monotonicity lemma on ScpiParser.tla for every stream and cut; recorded executions under every chunking validated by TLC and compared with the byte-at-a-time execution',
   text='TLC enumerates streams and checks on the specification that cutting a stream at any point yields the same messages and remainder (L_Chunk); each stream is executed on the real library under all-at-once, byte-at-a-time, every single split and random multi-way chunkings (and with a final zero-length call for unterminated streams); TLC validates pending remainder per call against the specification and that handler invocations, parameters, output, errors and remainder equal those of the byte-at-a-time run.',
   note='Trusted: TLC, driver. Streams are bounded to two messages from a fixed vocabulary; longer mutated streams are exercised by C01.')
