"""C20: the allocation-free build stores error texts intact or not at all.
M: TLC model-checks ScpiHeap (ring algorithm, layer b) for TextOrNothing, NoOverlap, ReusableWhenEmpty, InBounds,
   NoLeak, Contiguous and refinement of the abstract store (layer a).
X: the 'heap' build of the real library is explored breadth-first over the same alphabet (snapshot/restore of context,
   queue array and an exact-size heap block under ASan); every transition is validated by TLC (TVHeap) against
   layer (a) (violation) and layer (b) (layout: conformance note only).
V: seeded random long histories on heaps up to 64 bytes, validated the same way."""
import json, os, subprocess, shutil, concurrent.futures
import lib

CH = 60000

QUICK_MC = [('MCHeap_quick.cfg', 'sizes 2..6 x caps 1..2, complete'),
            ('MCHeap_quick2.cfg', 'sizes 2..4 x caps 1..3, two codes, complete')]
THOROUGH_MC = QUICK_MC + [('MCHeap_t4e.cfg', 'size 12 x cap 4, all histories of <= 6 operations'),
                          ('MCHeap_t3d.cfg', 'size 12 x cap 3, complete'),
                          ('MCHeap_t4b.cfg', 'size 9 x cap 4, complete'),
                          ('MCHeap_t4d.cfg', 'size 11 x cap 4, all histories of <= 6 operations'),
                          ('MCHeap_t3c.cfg', 'size 11 x cap 3, complete'),
                          ('MCHeap_t4a.cfg', 'sizes 2..8 x cap 4, complete'),
                          ('MCHeap_t3b.cfg', 'sizes 9..10 x cap 3, complete'),
                          ('MCHeap_t4c.cfg', 'size 10 x cap 4, all histories of <= 6 operations'),
                          ('MCHeap_t12.cfg', 'sizes 7..12 x caps 1..2, complete'),
                          ('MCHeap_t3a.cfg', 'sizes 2..8 x cap 3, complete')]
# implementation state graphs explored (size, cap); the first group is compared state-for-state with MCHeap_quick
QUICK_X = [(s, c) for s in range(2, 7) for c in (1, 2)]
QUICK_X_EXTRA = [(8, 2), (4, 3), (3, 4), (12, 1)]
THOROUGH_X_EXTRA = [(s, 1) for s in range(7, 13)] + [(s, 2) for s in range(7, 13)] + [(s, 3) for s in range(2, 10)] + [(s, 4) for s in range(2, 7)]

def kind_of(labels):
    return '+'.join(sorted(labels))

class Batch:
    """Transition records of several driver runs, validated together (fewer JVM starts)."""
    def __init__(self):
        self.lines, self.src = [], []        # src[i] = (label, locator, history function)
    def add(self, nd, locs, hist, label):
        with open(nd) as f:
            for i, ln in enumerate(f):
                self.lines.append(ln.rstrip('\n'))
                self.src.append((label, locs[i] if locs else None, hist))
        os.unlink(nd)

def validate(rep, w, batch, label, procs=4, workers=4):
    """Run TVHeap over the records (chunks of <= 60000 lines, <= procs TLC processes); classify."""
    lines = batch.lines
    n = len(lines)
    if n == 0:
        rep.broken.append('no transitions recorded for ' + label)
        return 0
    ch = min(CH, max(2000, -(-n // procs)))
    chunks = [lines[i:i + ch] for i in range(0, n, ch)]
    def one(i):
        p = '%s/%s.c%d' % (w, label, i)
        with open(p, 'w') as f:
            f.write('\n'.join(chunks[i]) + '\n')
        r = lib.tlc('TVHeap', 'TVHeap.cfg', workers=workers, env={'TRACE': p}, xmx='3g', timeout=600)
        os.unlink(p)
        return i, r
    mism = 0
    with concurrent.futures.ThreadPoolExecutor(max_workers=procs) as ex:
        for i, r in ex.map(one, range(len(chunks))):
            rep.add_tlc('TVHeap:%s:%d' % (label, i), r, 'validation of implementation transitions against layers (a) and (b)')
            if r.distinct != 2 * len(chunks[i]) and not r.errors:
                rep.broken.append('TVHeap %s chunk %d: %d states for %d lines' % (label, i, r.distinct, len(chunks[i])))
            for p in r.prints:
                if len(p) < 2 or not isinstance(p[1], int):
                    continue
                idx = i * ch + p[1] - 1
                src = batch.src[idx]
                if p[0] == 'UNJUDGED':
                    rep.cov['layout_unjudged'] = rep.cov.get('layout_unjudged', 0) + 1
                elif p[0] == 'LAYOUT':
                    rep.cov['conformance_notes'] = rep.cov.get('conformance_notes', 0) + 1
                    ex_ = rep.cov.setdefault('conformance_note_examples', [])
                    if len(ex_) < 3:
                        ex_.append(dict(kind='conformance-note', layout_fields=sorted(p[2]), source=src[0], transition=json.loads(lines[idx])))
                elif p[0] == 'MISMATCH':
                    mism += 1
                    det = dict(source=src[0], diff=sorted(p[2]), transition=json.loads(lines[idx]))
                    if src[2] and mism <= 4:
                        det.update(src[2](src[1]))
                    rep.violation(kind_of(p[2]), det)
    rep.cov['traces_validated_against_impl'] += n
    rep.cov['evaluations'] += n
    nt = [ln for ln in lines if '"nt":1' in ln]
    rep.cov['distinct_nontrivial'] += len(nt)
    for ln in nt[:2]:
        rep.sample(json.loads(ln))
    return mism

def split_locs(raw, out):
    """raw: 'json TAB locator' lines -> deduplicated json file + list of locators"""
    subprocess.run("LC_ALL=C sort -t'\t' -k1,1 -u %s > %s.s" % (raw, raw), shell=True, check=True)
    locs = []
    with open(raw + '.s') as f, open(out, 'w') as o:
        for ln in f:
            j, _, loc = ln.rstrip('\n').rpartition('\t')
            o.write(j + '\n')
            locs.append(int(loc))
    os.unlink(raw + '.s')
    os.unlink(raw)
    return locs

def driver_failure(rep, d, what, history_of=None):
    err = d['stderr'].decode(errors='replace')
    ctx = [l for l in err.splitlines() if l.startswith('DRV_HEAP_CONTEXT')]
    i = err.find('ERROR: AddressSanitizer')
    det = dict(run=what, rc=d['rc'], stderr=(err[i:i + 1500] if i >= 0 else err[:1500]))
    if ctx:
        try:
            det['transition'] = json.loads(ctx[-1][len('DRV_HEAP_CONTEXT '):])
            if history_of:
                det.update(history_of(det['transition'].pop('loc')))
        except (ValueError, KeyError, IndexError):
            pass
    if 'AddressSanitizer' in err:
        k = 'write-outside-heap' if ('WRITE of size' in err or 'caused by a WRITE' in err) else \
            'read-outside-heap' if ('READ of size' in err or 'caused by a READ' in err) else 'sanitizer-report'
    elif 'runtime error' in err:
        k = 'undefined-behaviour'
    elif d.get('timeout'):
        k = 'driver-hang'
    else:
        k = 'driver-failure'
    rep.violation(k, det)

def explore(rep, exe, w, size, cap, maxstates):
    raw = '%s/x_%d_%d.raw' % (w, size, cap)
    d = lib.run_driver(exe, ['explore', size, cap, maxstates, raw, -100], timeout=600)
    if not (os.path.exists(raw + '.tree') and os.path.exists(raw + '.ops')):
        driver_failure(rep, d, 'explore size=%d cap=%d' % (size, cap))
        return None
    tree = [tuple(map(int, l.split())) for l in open(raw + '.tree') if len(l.split()) == 2]
    ops = open(raw + '.ops').read().splitlines()
    os.unlink(raw + '.tree'); os.unlink(raw + '.ops')
    def hist(sid):
        h = []
        while sid is not None and 0 < sid < len(tree):
            par, op = tree[sid]
            h.append(ops[op]); sid = par
        return dict(history=list(reversed(h)), size=size, cap=cap)
    if d['rc'] != 0:
        # the run was stopped (sanitizer, crash): report it, and still judge what was recorded before
        driver_failure(rep, d, 'explore size=%d cap=%d' % (size, cap), hist)
        info = dict(concrete_states=len(tree), transitions=0, alphabet=len(ops), complete=False, stopped=True)
        subprocess.run("grep -a -E '\t[0-9]+$' %s > %s.ok; mv %s.ok %s" % (raw, raw, raw, raw), shell=True)
    else:
        info = json.loads(d['stdout'].decode().strip().splitlines()[-1])
    nd = raw[:-4] + '.ndjson'
    locs = split_locs(raw, nd)
    return info, nd, locs, hist

def replay_counterexample(rep, exe, w, r, cfg):
    """A TLC counterexample of the ring-algorithm model: run the same history on the real heap build.
    If the real build misbehaves the same way it is a genuine defect (violation); if not, the model is wrong (broken check)."""
    import re
    ops, size, cap = [], None, None
    for blk in re.split(r'\nState \d+:', r.out)[1:]:
        m = re.search(r'/\\ last = (<<.*>>)', blk)
        ms, mc = re.search(r'/\\ size = (\d+)', blk), re.search(r'/\\ cap = (\d+)', blk)
        if ms and mc:
            size, cap = int(ms.group(1)), int(mc.group(1))
        if not m:
            continue
        o = lib.parse_tla(m.group(1))
        if o and o[0] == 'push':
            t = o[2]
            ops.append('push %d %d %d 0' % (o[1], 1 if set(t) <= {97} else 2 if set(t) <= {98} else 3, len(t)))
        elif o and o[0] in ('pop', 'clear'):
            ops.append(o[0])
    if size is None or not ops:
        rep.broken.append('the ring-algorithm model violates %s in %s (counterexample not parsed)' % (r.violations, cfg))
        return
    with open(w + '/cex.txt', 'w') as f:
        f.write('\n'.join(ops) + '\n')
    d = lib.run_driver(exe, ['path', size, cap, w + '/cex.txt', w + '/cex.raw'])
    if d['rc'] != 0:
        driver_failure(rep, d, 'model counterexample %s size=%d cap=%d: %s' % (cfg, size, cap, ' ; '.join(ops)))
        return
    nd = w + '/cex.ndjson'
    locs = split_locs(w + '/cex.raw', nd)
    b = Batch()
    b.add(nd, locs, lambda loc: dict(history=ops[:-1], size=size, cap=cap), 'model-counterexample')
    before = len(rep.viol) + len(rep.known_hits)
    validate(rep, w, b, 'cex', procs=1)
    if len(rep.viol) + len(rep.known_hits) == before:
        rep.broken.append('the ring-algorithm model violates %s in %s but the real heap build behaves correctly on that history (%s): the model is wrong'
                          % (r.violations, cfg, ' ; '.join(ops)))

def projections(nd, proj):
    with open(nd) as f:
        for ln in f:
            d = json.loads(ln)
            for st in (d['f'], d['t']):
                proj.add((d['size'], d['cap'], json.dumps(st, sort_keys=True)))

def run(pid, tier):
    rep = lib.Report(pid, tier)
    quick = tier == 'quick'
    rep.cov['rule'] = ('cases = transitions {size, cap, from, op, to, output} of the real allocation-free build: breadth-first exploration of its own '
                       'state graph over the model alphabet and seeded random histories; non-trivial = the pushed text wraps the heap end, its allocation '
                       'fails, or the push overflows the queue and releases text with rollback; distinct = different record')
    rep.assumptions += ['texts are the three shapes all-a / all-b / alternating per length (truncation, merging and foreign text all change such a text)',
                        'the empty text counts as no text',
                        'the queue index mechanics (fifo wr/rd) are explored on the implementation but abstracted to a sequence in the model (C10)',
                        'accesses outside the heap block are trapped by ASan (exact-size allocation); the property names writes, reads are reported too',
                        'layout (wr, count, data, pointers) differences from layer (b) alone are conformance notes, not violations',
                        'model checking is complete for sizes 2..12 x caps 1..3 and sizes 2..9 x cap 4 (thorough); sizes 10..12 x cap 4 are covered for all histories of <= 6 operations plus random simulation']
    w = lib.workdir(pid)
    exe = lib.build('drv_heap', ['drv_heap.c'], config='heap')
    mcs = QUICK_MC if quick else THOROUGH_MC
    model_states = {}
    def mc(c):
        return c, lib.tlc('MCHeap', c[0], workers=4, timeout=600 if quick else 900, xmx='4g')
    def sim():
        return (('MCHeap_sim.cfg', 'sizes 12..16 x cap 4, two codes, random histories of 40 operations'),
                lib.tlc('MCHeap', 'MCHeap_sim.cfg', workers=4, timeout=600, simulate=250, depth=40, xmx='2g'))
    ex = concurrent.futures.ThreadPoolExecutor(max_workers=2 if quick else 3)
    futs = [ex.submit(mc, c) for c in mcs] + ([] if quick else [ex.submit(sim)])
    # ---- X (runs while the model checker works)
    pairs = QUICK_X + (QUICK_X_EXTRA if quick else THOROUGH_X_EXTRA)
    proj_quick = set()
    batch = Batch()
    nb = 0
    def flush(force=False):
        nonlocal batch, nb
        if batch.lines and (force or len(batch.lines) >= 4 * CH):
            validate(rep, w, batch, 'explore%d' % nb, procs=3 if not quick else 4)
            batch = Batch(); nb += 1
    for (size, cap) in pairs:
        x = explore(rep, exe, w, size, cap, 400000)
        if x is None:
            continue
        info, nd, locs, hist = x
        if (size, cap) in QUICK_X:
            projections(nd, proj_quick)
        rep.cov['driver_runs'].append(dict(size=size, cap=cap, impl_concrete_states=info['concrete_states'], impl_transitions=info['transitions'],
                                           alphabet=info['alphabet'], complete=info['complete'], distinct_records=len(locs)))
        if not info['complete'] and not info.get('stopped'):
            rep.broken.append('exploration size=%d cap=%d incomplete' % (size, cap))
        if locs:
            batch.add(nd, locs, hist, 'explore-%d-%d' % (size, cap))
        flush()
    flush(True)
    # ---- V
    walks = [(16, 2, 20000), (33, 4, 20000), (64, 3, 20000), (300, 3, 2500)] if quick else \
            [(16, 2, 150000), (24, 1, 100000), (33, 4, 150000), (48, 8, 100000), (64, 3, 150000), (64, 6, 150000), (7, 2, 100000), (13, 3, 100000),
             (300, 3, 8000), (520, 2, 5000)]      # heaps that hold texts of more than 255 characters (explicit lengths)
    walks = [(s_, c_, n_, None) for (s_, c_, n_) in walks] + [(33, 3, 8000 if quick else 60000, {'DRV_WRITE_ZERO': '1'})]      # last: a write callback that reports 0 bytes
    for k, (size, cap, steps, wenv) in enumerate(walks):
        raw = '%s/walk%d.raw' % (w, k)
        sd = lib.seed() * 131 + k
        d = lib.run_driver(exe, ['walk', sd, steps, size, cap, raw], timeout=600, env=wenv)
        if d['rc'] != 0:
            driver_failure(rep, d, 'walk seed=%d steps=%d size=%d cap=%d' % (sd, steps, size, cap))
            continue
        nd = raw[:-4] + '.ndjson'
        locs = split_locs(raw, nd)
        def hist(step, sd=sd, steps=steps, size=size, cap=cap, wenv=wenv):
            dd = lib.run_driver(exe, ['walk', sd, steps, size, cap, '/dev/null', step], env=wenv)
            h = dd['stdout'].decode().splitlines()
            if dd['rc'] == 0:
                return dict(history=h[:-1], size=size, cap=cap, walk=dict(seed=sd, step=step))
            return dict(walk=dict(seed=sd, step=step, size=size, cap=cap))
        rep.cov['driver_runs'].append(dict(walk_seed=sd, size=size, cap=cap, steps=steps, distinct_records=len(locs)))
        batch.add(nd, locs, hist, 'walk-%d-%d%s' % (size, cap, '-write0' if wenv else ''))
        flush()
    flush(True)
    for fu in futs:
        c, r = fu.result()
        if 'sim' in c[0]:
            import re
            chk = re.findall(r'(\d+) states checked', r.out)
            r.generated = int(chk[-1]) if chk else 0
        rep.add_tlc(c[0][:-4], r, 'model checking of ScpiHeap layer (b) incl. refinement of layer (a): ' + c[1])
        model_states[c[0]] = r.distinct
        if r.violations:
            replay_counterexample(rep, exe, w, r, c[0])
        elif 'sim' not in c[0] and not r.finished and not r.errors:
            rep.broken.append('model checking %s did not finish' % c[0])
    ex.shutdown()
    # the implementation and the model reach the same layouts on the shared configuration
    ms = model_states.get('MCHeap_quick.cfg')
    rep.cov['impl_abstract_states_quick_pairs'] = len(proj_quick)
    rep.cov['model_states_quick_pairs'] = ms
    if ms and not rep.viol and not rep.known_hits and not rep.cov.get('conformance_notes') and len(proj_quick) != ms:
        rep.broken.append('sizes 2..6 x caps 1..2: implementation reaches %d layouts, the model %d' % (len(proj_quick), ms))
    rep.cov['exhaustive'] = True
    rep.cov['explanation'] = ('exhaustive within the listed heap sizes / capacities / text shapes (model state graph and implementation state graph), '
                              'sampled beyond (random histories, TLC simulation)')
    rep.cov.setdefault('conformance_notes', 0)
    shutil.rmtree(w, ignore_errors=True)
    return rep.finish()

def replay(pid, path):
    """Re-execute the stored histories on the real heap build and validate every step; otherwise re-validate the stored transition."""
    rep = lib.Report(pid, 'quick')
    w = lib.workdir(pid + 'r')
    exe = lib.build('drv_heap', ['drv_heap.c'], config='heap')
    d = json.load(open(path))
    rc = 0
    for n, v in enumerate(d.get('violations', [])):
        det = v['detail']
        nd = '%s/r%d.ndjson' % (w, n)
        if 'history' in det and 'transition' in det:
            t = det['transition']
            o = t['op']
            last = 'push %d %d %d %d' % (o[1], 1 if set(o[2]) <= {97} else 2 if set(o[2]) <= {98} else 3, len(o[2]), o[3]) if o[0] == 'push' else o[0]
            with open(w + '/ops.txt', 'w') as f:
                f.write('\n'.join(det['history'] + [last]) + '\n')
            r = lib.run_driver(exe, ['path', det['size'], det['cap'], w + '/ops.txt', w + '/r.raw'])
            print('REPLAY %d kind=%s: %d operations on heap size %d, capacity %d: %s' % (n, v['kind'], len(det['history']) + 1, det['size'], det['cap'], ' ; '.join(det['history'] + [last])))
            if r['rc'] != 0:
                err = r['stderr'].decode(errors='replace')
                i = max(err.find('ERROR: AddressSanitizer'), 0)
                print('REPLAY the heap build stops (rc=%d): %s' % (r['rc'], err[i:i + 700]))
                rc = 1
                continue
            with open(w + '/r.raw') as f, open(nd, 'w') as o_:
                for ln in f:
                    o_.write(ln.rpartition('\t')[0] + '\n')
        elif 'transition' in det and 't' in det['transition']:
            with open(nd, 'w') as f:
                f.write(json.dumps(det['transition']) + '\n')
        else:
            print('REPLAY %d kind=%s: %s' % (n, v['kind'], lib.short(det, 1500)))
            rc = 1
            continue
        before = len(rep.viol)
        lines = open(nd).read().splitlines()
        b = Batch()
        b.add(nd, None, None, 'replay%d' % n)
        validate(rep, w, b, 'replay%d' % n, procs=1)
        for ln in lines:
            t = json.loads(ln)
            print('  step', json.dumps(t['op']), '->', json.dumps(t['t']), 'out', bytes(t['out']).decode(errors='replace').strip())
        for k, dd in rep.viol[before:]:
            print('REPLAY mismatch', k, lib.short(dd, 800))
            rc = 1
    shutil.rmtree(w, ignore_errors=True)
    return rc

MANIFEST = dict(engine='explore+tlc-trace', ref='DESIGN.md section 6 C20',
   technique='TLC model checking of ScpiHeap.tla (ring algorithm refines the abstract text store) + TLC validation of every transition of the heap build\'s state graph and of random histories',
   text='TLC exhaustively checks the ring-heap algorithm model (Strndup / Free with rollback / GetParts composed as error.c composes them) for TextOrNothing, NoOverlap, ReusableWhenEmpty, InBounds, NoLeak, Contiguous and refinement of the abstract store (a push stores its text or none, overflow puts -350, an emptied queue leaves the heap as good as new) for heap sizes 2..12 x capacities 1..4; the real -DUSE_MEMORY_ALLOCATION_FREE=0 build is explored breadth-first over the same alphabet (snapshot/restore, exact-size heap block under ASan) and every transition, plus seeded random histories on heaps up to 64 bytes, is validated by TLC against the abstract store (violation) and the ring layout (conformance note). Exhaustive within the listed sizes, sampled beyond.',
   note='Trusted: TLC, the driver projection (texts read back with scpiheap_get_parts, SYST:ERR? output bytes), ASan for accesses outside the heap block. Three text shapes per length instead of all byte strings; fifo index mechanics abstracted in the model (explored on the implementation).')
