"""C14 / C15: the formatting and copying functions that fill a caller-supplied buffer.
M: TLC model-checks ScpiFormat - the digit-extraction design against CanonDigits / ToStrContract on 8- and 12-bit
word models (MCFormat), design-level writer models against BufferContract (MCBuffer).
V: harness/drv_format.c calls the real functions into exact-size heap blocks (ASan red zones) and into canary-framed
arenas, one ndjson line per call; TLC (TVFormat) judges every line against ScpiFormat.  A call that does not return
(ASan / UBSan abort, signal, watchdog) is recorded by the driver's supervisor with its descriptor and is a mismatch."""
import json, os, re, shutil, subprocess, sys, time, collections, concurrent.futures, threading
import lib

PROPERTIES = ["C14", "C15"]

_start = threading.Lock()
def tlc(*a, **k):
    """lib.tlc, but two runs never enter lib.tlc at the same instant (its metadir counter is not atomic)"""
    box = []
    t = threading.Thread(target=lambda: box.append(lib.tlc(*a, **k)))
    with _start:
        t.start()
        time.sleep(0.15)
    t.join()
    return box[0]

SAN_ENV = {'ASAN_OPTIONS': 'detect_leaks=0:abort_on_error=0:exitcode=97:symbolize=0:allocator_may_return_null=1',
           'UBSAN_OPTIONS': 'print_stacktrace=0:halt_on_error=1:exitcode=98'}
SAN_ENV_SYM = {'ASAN_OPTIONS': 'detect_leaks=0:abort_on_error=0:exitcode=97:symbolize=1',
               'UBSAN_OPTIONS': 'print_stacktrace=1:halt_on_error=1:exitcode=98'}
PRE, POST = 8, 16

def canary(k, salt):
    return 0x80 | (((k + 64) * 29 + salt) & 0x7F)

def unquote(src):
    q, out, i = src[0], [], 1
    while i < len(src) - 1:
        out.append(src[i])
        i += 2 if (src[i] == q and i + 1 < len(src) - 1 and src[i + 1] == q) else 1
    return out

def full_len(rec):
    if 'w' in rec:
        return rec['L']
    if rec['a'] == 'copyfail':
        return 0
    if rec['a'] == 'copy':
        return len(unquote(rec['src']))
    if rec['m'] == 'f':
        o = rec.get('o', [])
        return o.index(0) if 0 in o else len(o)
    return len(rec['f'])

def damage(rec):
    """canary bytes in front of / behind the buffer that changed: list of (buffer index, new value)"""
    out = []
    for j, b in enumerate(rec.get('pre', [])):
        if b != canary(j - PRE, rec['k']):
            out.append((j - PRE, b))
    for j, b in enumerate(rec.get('post', [])):
        if b != canary(rec['n'] + j, rec['k']):
            out.append((rec['n'] + j, b))
    return out

def kind_of(rec, diff, config):
    """Trigger label of a mismatching call.  The three classes of DESIGN.md section 7 (D7, D8) get their own label only
    when BOTH the trigger predicate on the inputs and the observed symptom are the ones of that defect."""
    a, n = rec['a'], rec['n']
    crash, san = rec.get('crash'), rec.get('san', '')
    dmg = damage(rec) if not crash else []
    if 'refmodel' in diff:
        return 'BROKEN:reference-formatter-differs-from-CanonDigits'
    if 'notcalled' in diff:
        return 'BROKEN:copy-text-handler-not-run'
    if a == 'num' and not rec['sp'] and rec['u'] and rec['m'] != 'f':
        numlen = len(rec['f']) - 1 - len(rec['u'])
        trig = numlen + 2 < n and len(rec['u']) >= n - numlen - 1            # = D7Trigger of MCBuffer.tla
        if trig and ((crash and 'heap-buffer-overflow' in san and 'WRITE' in san) or
                     (not crash and diff == {'beyond'} and dmg == [(n, 0)])):
            return 'numbertostr-unit-nul-at-len'
    if n == 0 and config == 'default' and a in ('dbl', 'flt'):
        if (crash and ('heap-buffer-overflow' in san or 'use-after-poison' in san) and 'READ' in san) or (not crash and diff <= {'ret>len', 'prefix'} and not dmg):
            return 'doubletostr-len0-strlen-of-unwritten-buffer'
    if n == 0 and config == 'dtostre' and a in ('dbl', 'flt', 'dtostre'):
        if (crash and (('utils.c' in san and 'addition of unsigned offset' in san and 'overflowed' in san) or
                       (('heap-buffer-overflow' in san or 'use-after-poison' in san) and 'WRITE of size 1' in san))) or \
           (not crash and 'front' in diff and dmg == [(-1, 0)]):
            return 'dtostre-len0-store-at-minus-1'
    if crash:
        m = re.search(r'AddressSanitizer: ([a-zA-Z-]+)', san)
        what = m.group(1) if m else ('ubsan' if 'runtime error' in san else crash)
        return '%s:crash:%s' % (a, what)
    return '%s:%s' % (a, '+'.join(sorted(diff)))

def nontrivial(rec):
    F, n = full_len(rec), rec['n']
    return F > n or F == n or F + 1 == n or rec.get('bd') == 1

def case_key(ln):
    return re.sub(r'"i":\d+,|"k":\d+,', '', ln.split(',"r":')[0].split(',"crash":')[0])

def validate(rep, pid, path, label, config, args, notes):
    """TVFormat over a record file (chunks of <= 60 000 lines, <= 4 TLC processes of 4 workers)."""
    lines = open(path).read().splitlines()
    n = len(lines)
    if n == 0:
        rep.broken.append('no calls recorded for ' + label)
        return 0
    CH = max(5000, min(60000, (n + 3) // 4))
    chunks = [lines[i:i + CH] for i in range(0, n, CH)]
    def one(i):
        p = '%s.c%d' % (path, i)
        with open(p, 'w') as f:
            f.write('\n'.join(chunks[i]) + '\n')
        r = tlc('TVFormat', 'TVFormat.cfg', workers=4, env={'TRACE': p}, xmx='3g', timeout=900)
        os.unlink(p)
        return i, r
    mism = 0
    with concurrent.futures.ThreadPoolExecutor(max_workers=4) as ex:
        for i, r in ex.map(one, range(len(chunks))):
            rep.add_tlc('TVFormat:%s:%d' % (label, i), r, 'validation of recorded library calls against ScpiFormat')
            if r.distinct != 2 * len(chunks[i]) and not r.errors:
                rep.broken.append('TVFormat %s chunk %d: %d states for %d lines (a recorded call was not judged)' % (label, i, r.distinct, len(chunks[i])))
            for p in r.prints:
                if p[0] not in ('MISMATCH', 'NOTE'):
                    continue
                rec = json.loads(chunks[i][p[1] - 1])
                diff = set(p[2])
                if p[0] == 'NOTE':
                    k = '%s:%s' % (rec['a'], '+'.join(sorted(diff)))
                    e = notes.setdefault(k, dict(count=0, example=rec))
                    e['count'] += 1
                    continue
                kind = kind_of(rec, diff, config)
                if kind.startswith('BROKEN:'):
                    rep.broken.append('%s: %s' % (kind[7:], lib.short(rec)))
                    continue
                mism += 1
                rep.violation(kind, dict(source=label, config=config, clauses=sorted(diff), call=rec,
                                         repro=dict(config=config, args=[str(a) for a in args], only=rec['i'])))
    rep.cov['traces_validated_against_impl'] += n
    rep.cov['evaluations'] += n
    keys = set()
    for ln in lines:
        rec = json.loads(ln)
        if nontrivial(rec):
            keys.add(case_key(ln))
    rep.cov['distinct_nontrivial'] += len(keys)
    for ln in (lines[0], lines[n // 2], lines[-1]):
        rep.sample(json.loads(ln))
    return mism

def drive(rep, exe, args, out, label):
    d = lib.run_driver(exe, list(args) + [out], env=SAN_ENV, timeout=900)
    if d['rc'] != 0 or d['timeout']:
        rep.broken.append('driver %s failed rc=%s: %s' % (label, d['rc'], d['stderr'].decode(errors='replace')[-1500:]))
        return None
    info = json.loads(d['stdout'].decode().strip().splitlines()[-1])
    rep.cov['driver_runs'].append(dict(run=label, args=' '.join(str(a) for a in args), children_restarted_after_crash=info['crashes'], wall_s=round(d['wall'], 1)))
    return info

def symbolized(config, args, only):
    """Re-run one call in-process with symbolization: the sanitizer report of the first case of a kind."""
    exe = lib.build('drv_format', ['drv_format.c'], config=config)
    out = os.path.join(lib.workdir('fmtsym'), 'one.ndjson')
    d = lib.run_driver(exe, list(args) + [out, 'only=%d' % only, 'nofork'], env=SAN_ENV_SYM, timeout=120)
    shutil.rmtree(os.path.dirname(out), ignore_errors=True)
    txt = d['stderr'].decode(errors='replace')
    keep = [l for l in txt.splitlines() if re.search(r'ERROR: AddressSanitizer|runtime error|^\s+#[0-9] |(READ|WRITE) of size|is located', l)]
    return dict(rc=d['rc'], report=keep[:14])

def attach_reports(rep):
    """one symbolized sanitizer report per violation kind whose first case is a crash"""
    seen = set()
    for kind, d in list(rep.viol) + [(k, v[2]) for k, v in rep.known_hits.items()]:
        if kind in seen or 'crash' not in d.get('call', {}):
            continue
        seen.add(kind)
        try:
            d['sanitizer_report'] = symbolized(d['repro']['config'], d['repro']['args'], d['repro']['only'])
        except Exception as e:                      # never let the extra diagnosis break the check
            d['sanitizer_report'] = dict(error=str(e))

def model_check(rep, runs):
    """runs: list of (module, cfg, what); executed concurrently, 4 workers each"""
    def one(x):
        return x, tlc(x[0], x[1], workers=4, timeout=900, xmx='4g')
    with concurrent.futures.ThreadPoolExecutor(max_workers=3) as ex:
        for (m, c, what), r in ex.map(one, runs):
            rep.add_tlc(c[:-4], r, what)
            if r.violations:
                rep.broken.append('specification violates its own lemma %s in %s' % (r.violations, c))
            elif not r.finished:
                rep.broken.append('model checking %s did not finish' % c)

MC_ALGO = 'digit-extraction design = CanonDigits under ToStrContract for every value, base, signedness and buffer length of the word model (AlgoCorrect, AlgoSafe, AlgoBounded, ImpliesBuffer, CanonShape, FastIsSlow)'
MC_BUF = 'writer designs vs BufferContract: intended designs conform and are complete; the strncat-bound, strlen-of-unwritten and terminator-at-minus-1 designs are rejected exactly on their trigger (GoodConform, GoodComplete, D7Exact, D8aExact, D8bExact)'

def run(pid, tier):
    rep = lib.Report(pid, tier)
    w = lib.workdir(pid)
    notes = {}
    seed = lib.seed()
    quick = tier == 'quick'
    rep.cov['rule'] = ('cases = calls of the real functions {api, value, base/unit/text, stated buffer length, mode exact|arena}: the structured boundary set '
                       '(0, 1, every power of the base +-1, single-non-zero-digit values, all-ones prefixes, MIN/MAX of each signed width; every unit and special-number name; '
                       'fixed double values; quoted texts with doubled quotes) crossed with buffer lengths, plus seeded random values; every call judged by TLC against ScpiFormat; '
                       'non-trivial = the text does not fit the buffer, fits exactly (with or without its NUL), or the value is a member of the boundary set; '
                       'distinct = different call (api, inputs, length, mode)')
    mc_thread = None
    if pid == 'C14':
        mcs = [('MCFormat', 'MCFormat_W8.cfg', MC_ALGO + ', W = 8'),
               ('MCFormat', 'MCFormat_W12q.cfg' if quick else 'MCFormat_W12.cfg', MC_ALGO + (', W = 12, decimal' if quick else ', W = 12'))]
    else:
        mcs = [('MCBuffer', 'MCBuffer.cfg', MC_BUF), ('MCFormat', 'MCFormat_W8.cfg', MC_ALGO + ', W = 8 (lemma ToStrContract => BufferContract)')]
    mc_thread = threading.Thread(target=model_check, args=(rep, mcs))
    mc_thread.start()
    sweep = None
    try:
        exe = lib.build('drv_format', ['drv_format.c'])
        if pid == 'C14':
            if not quick:
                sweep = concurrent.futures.ThreadPoolExecutor(max_workers=8)
                parts = 256
                sexe = lib.build('drv_format', ['drv_format.c'], san=False, extra=['-O2'])      # 2.6e10 calls: optimised build, the byte behind the buffer is checked by the driver
                sweep_f = [sweep.submit(lib.run_driver, sexe, ['sweep32', p, parts], None, 900, SAN_ENV) for p in range(parts)]
            args = ['int', 14, seed, 4000 if quick else 160000, 'near' if quick else 'all', 70, 1]
            if drive(rep, exe, args, w + '/int.ndjson', 'int-default'):
                validate(rep, pid, w + '/int.ndjson', 'int', 'default', args, notes)
            # a C89 build of the library (no stdbool: scpi_bool_t is an unsigned char, truth values pass through it)
            args89 = ['int', 14, seed + 1, 1500 if quick else 40000, 'near', 70, 1]
            if drive(rep, lib.build('drv_format', ['drv_format.c'], config='c89'), args89, w + '/int89.ndjson', 'int-c89'):
                validate(rep, pid, w + '/int89.ndjson', 'int-c89', 'c89', args89, notes)
            rep.assumptions += ['the return value is read as "the number of characters produced", i.e. min(length of the canonical text, buffer length); the NUL is not counted',
                                'bytes inside the buffer behind the terminating NUL are not constrained',
                                'quick: every boundary value with the lengths 0, 1, |text|-1 .. |text|+1, 70 and one random length; thorough: every length 0..70']
            if sweep:
                calls = bad = 0
                for f in sweep_f:
                    d = f.result()
                    if d['rc'] not in (0, 1) or d['timeout']:
                        rep.broken.append('sweep32 part failed rc=%s %s' % (d['rc'], d['stderr'].decode(errors='replace')[-500:]))
                        continue
                    for ln in d['stdout'].decode().splitlines():
                        j = json.loads(ln)
                        if 'sweep_mismatch' in j:
                            rep.violation('sweep32:differs-from-reference', dict(source='sweep32', **j['sweep_mismatch']))
                        else:
                            calls += j['sweep_calls']; bad += j['sweep_bad']
                rep.cov['sweep32'] = dict(values=2 ** 32, calls=calls, mismatches=bad,
                                          what='every 32-bit value through SCPI_Int32ToStr and SCPI_UInt32ToStrBase(2, 8, 10, 16) into a buffer with room and, for one of the five per value, a shorter one; '
                                               'compared in C (optimised build without sanitizers, the byte behind the buffer checked) with the driver reference formatter whose texts TLC checks equal to CanonDigits in every mode-x record (trusted link)')
                rep.cov['evaluations'] += calls
        else:
            runs = [('default', exe)]
            runs.append(('dtostre', lib.build('drv_format', ['drv_format.c'], config='dtostre')))
            runs.append(('iso', lib.build('drv_format', ['drv_format.c'], config='iso')))       # the library's own strnlen fallback
            for config, e in runs:
                args = ['fmt', seed, (40 if quick else 1200) if config == 'default' else (25 if quick else 800), 40]
                if drive(rep, e, args, w + '/fmt.ndjson', 'fmt-' + config):
                    validate(rep, pid, w + '/fmt.ndjson', 'fmt-' + config, config, args, notes)
                os.path.exists(w + '/fmt.ndjson') and os.unlink(w + '/fmt.ndjson')
            args = ['int', 15, seed, 2000 if quick else 40000, 'near' if quick else 'all', 40, 4 if quick else 1]
            if drive(rep, exe, args, w + '/int.ndjson', 'int-default'):
                validate(rep, pid, w + '/int.ndjson', 'int', 'default', args, notes)
            rep.assumptions += ['for SCPI_NumberToStr, SCPI_FloatToStr, SCPI_DoubleToStr, SCPI_dtostre the full text is the function\'s own output into a 96-byte buffer, recorded in the same line; '
                                'for SCPI_ParamCopyText it is Unquote(token) and for the integer functions CanonDigits, both computed by the specification',
                                'SCPI_dtostre returns no length: the length is taken as the position of the first NUL inside the stated buffer',
                                'completeness (a text that fits is delivered whole) is not part of the statement of C15: failures are listed under coverage.notes, not as violations',
                                'SCPI_dtostre is called with the precisions the library uses (6, 15) and flag sets {0, UPPERCASE|PLUS_SIGN, ALWAYS_SIGN}',
                                'memory-safety verdicts are the ASan/UBSan and canary observations of the recorded calls (DESIGN.md section 9)']
    finally:
        mc_thread.join()
        if sweep:
            sweep.shutdown()
    # the replay file keeps the first 200 violations: put up to 40 of every kind in front
    per, front, rest = collections.Counter(), [], []
    for k, d in rep.viol:
        per[k] += 1
        (front if per[k] <= 40 else rest).append((k, d))
    rep.viol = front + rest
    attach_reports(rep)
    rep.cov['notes'] = notes
    rep.cov['exhaustive'] = True
    rep.cov['explanation'] = ('exhaustive for the word models of the specification (every value x base x signedness x length) and for the boundary set x buffer lengths on the real code' +
                              ('; every 32-bit value swept against the reference formatter' if (pid == 'C14' and not quick) else '') + '; sampled beyond (seeded random values)')
    shutil.rmtree(w, ignore_errors=True)
    return rep.finish()

def replay(pid, path):
    """Re-execute the calls of a replay file on the current tree and judge the fresh observations."""
    rep = lib.Report(pid, 'quick')
    w = lib.workdir(pid + 'r')
    d = json.load(open(path))
    groups = collections.OrderedDict()
    for v in d.get('violations', []):
        r = v['detail'].get('repro')
        if r:
            groups.setdefault((r['config'], tuple(r['args'])), []).append(r['only'])
    notes = {}
    for gi, ((config, args), idxs) in enumerate(groups.items()):
        exe = lib.build('drv_format', ['drv_format.c'], config=config)
        out = '%s/r%d.ndjson' % (w, gi)
        dd = lib.run_driver(exe, list(args) + [out, 'only=' + ','.join(str(i) for i in sorted(set(idxs))[:400])], env=SAN_ENV, timeout=600)
        if dd['rc'] != 0:
            print('REPLAY driver failed', dd['rc'], dd['stderr'].decode(errors='replace')[-500:])
            return 2
        for ln in open(out):
            print('REPLAY call', ln.strip()[:700])
        validate(rep, pid, out, 'replay', config, args, notes)
    for k, dd in rep.viol:
        print('REPLAY mismatch', k, lib.short(dd, 900))
    for k, v in rep.known_hits.items():
        print('REPLAY known finding', k, v[0])
    shutil.rmtree(w, ignore_errors=True)
    if rep.broken:
        print('REPLAY broken', rep.broken)
        return 2
    return 1 if rep.viol else 0

MANIFEST_C14 = dict(engine='tlc-mc+harness+tlc-trace', ref='DESIGN.md section 6 C14',
   technique='TLC model checking of the digit-extraction design against CanonDigits/ToStrContract (ScpiFormat.tla, ScpiDigits.tla) on 8- and 12-bit word models + TLC validation of every recorded call of the real integer formatters',
   text='TLC checks for every value, base, signedness and buffer length of the 8- and 12-bit word models that the descending-divisor / leading-zero-skip design yields exactly the canonical text, count and NUL that ToStrContract demands and touches nothing outside the buffer. drv_format calls SCPI_Int32ToStr, SCPI_UInt32ToStrBase, SCPI_Int64ToStr, SCPI_UInt64ToStrBase and the BaseSign internals on the boundary set (powers of each base +-1, single-digit values, all-ones prefixes, MIN/MAX of each width) x buffer lengths 0..70 and seeded random values, into exact-size ASan-guarded blocks and canary-framed arenas; TLC (TVFormat) judges every call against CanonDigits computed from 16-bit limbs. Thorough additionally sweeps all 2^32 values against the reference formatter that TLC ties to CanonDigits.',
   note='Trusted: TLC, the driver\'s recording of buffer and canary bytes, ASan/UBSan for accesses outside the buffer. 64-bit values are sampled (boundary set + random), 32-bit values are swept only in thorough and only against the C reference formatter (TLC checks that formatter against CanonDigits on every recorded call, not on all 2^32 values). Return value read as min(|text|, len).')
MANIFEST_C15 = dict(engine='tlc-mc+harness+tlc-trace', ref='DESIGN.md section 6 C15',
   technique='TLC model checking of writer designs against BufferContract (ScpiFormat.tla) + TLC validation of every recorded call of the buffer-filling APIs in the default and dtostre builds',
   text='BufferContract (nothing outside [0,len) changes, ret <= len, bytes [0,ret) are a prefix of the full text, NUL whenever ret < len) is model-checked against design-level writers (intended ones conform, the known defective ones are rejected exactly on their trigger). drv_format calls SCPI_NumberToStr (every unit and special-number name), SCPI_FloatToStr, SCPI_DoubleToStr, SCPI_dtostre (dtostre build), SCPI_ParamCopyText (quoted texts with doubled quotes) and the integer functions for every buffer length 0..40 into exact-size ASan-guarded blocks and canary-framed arenas; a call that aborts is recorded with its descriptor by a supervising parent process; TLC (TVFormat) judges every record.',
   note='Trusted: TLC, the recording of buffer/canary bytes, ASan/UBSan; the full text of the float/number formatters is the function\'s own output into a large buffer. Completeness of a result that would fit is reported as a note, not as a violation (C15 does not state it). SCPI_dtostre only with the precisions 6 and 15.')
