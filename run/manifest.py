#!/usr/bin/env python3
"""Regenerates /verif/MANIFEST.json from the table below (single source for the manifest)."""
import json, os, subprocess
ROOT = os.path.dirname(os.path.dirname(os.path.abspath(__file__)))
ALL = ['C%02d' % i for i in range(1, 21)]

import sys, glob
sys.path.insert(0, os.path.join(ROOT, 'run'))
CHECKS = {}
for f in sorted(glob.glob(os.path.join(ROOT, 'run', 'p_C[0-9][0-9].py'))):
    pid = os.path.basename(f)[2:5]
    CHECKS[pid] = __import__('p_' + pid).MANIFEST
NA = {}
if os.path.exists(os.path.join(ROOT, 'run', 'not_applicable.json')):
    NA = json.load(open(os.path.join(ROOT, 'run', 'not_applicable.json')))
NA_REASON = 'check not built yet in this session (planned: see DESIGN.md section 6)'

def main():
    hooks_commits = subprocess.run(['git', '-C', '/repo', 'log', '--format=%h', '--grep=verification hooks'], stdout=subprocess.PIPE).stdout.decode().split()
    m = dict(version=1,
             setup_cmd='python3 run/setup.py',
             hooks=dict(guard='SCPI_PARSER_VERIF', enable='harness drivers are compiled together with /repo/libscpi/src/*.c with -DSCPI_PARSER_VERIF (run/lib.py build())',
                        baseline_off_cmd='sh /verif/run/baseline_off.sh', source_commits=hooks_commits, add_only=True),
             engines=[
               dict(name='tlc-mc', path='spec/MC*.tla spec/MC*.cfg', serves_properties=sorted(CHECKS), kind_free_text='TLC model checking of the TLA+ specification modules (spec/Scpi*.tla) on bounded configurations: invariants, action properties and lemmas of the specification itself'),
               dict(name='tlc-gen', path='spec/Gen*.tla', serves_properties=['C01', 'C02', 'C03', 'C04', 'C05', 'C06', 'C08', 'C09', 'C11', 'C12', 'C13', 'C17'], kind_free_text='TLC enumerates scenarios / cases / operation alphabets from the specification (Init enumerations with lemmas as invariants) and emits them as ndjson for the drivers'),
               dict(name='harness', path='harness/', serves_properties=sorted(CHECKS), kind_free_text='C drivers compiled with /repo working tree (-DSCPI_PARSER_VERIF, ASan+UBSan): scripted handlers, state-graph exploration with snapshot/restore, random walks, wrapped allocators, tracer for the repository test programs'),
               dict(name='tlc-trace', path='spec/TV*.tla', serves_properties=sorted(CHECKS), kind_free_text='TLC validation of recorded executions / transitions of the real library against the specification (one initial state per record, mismatches printed from an invariant)'),
               dict(name='explore', path='harness/drv_status.c harness/drv_errq.c harness/drv_heap.c', serves_properties=['C10', 'C11', 'C12', 'C20'], kind_free_text='breadth-first exploration of the implementation state graph over the model alphabets'),
             ],
             checks=[], not_applicable=[],
             notes='One orchestrator: python3 run/check.py <id> --tier quick|thorough. Known findings: known_findings.json. Design: DESIGN.md.')
    for pid in ALL:
        if pid in CHECKS:
            c = CHECKS[pid]
            m['checks'].append(dict(property_id=pid, quick_cmd='python3 run/check.py %s --tier quick' % pid,
                                    thorough_cmd='python3 run/check.py %s --tier thorough' % pid,
                                    evidence_file='evidence/%s.json' % pid, replay_cmd_template='python3 run/check.py %s --replay {path}' % pid,
                                    engine=c['engine'], level_claimed=dict(category='model_checking', text=c['text'], design_ref=c['ref']),
                                    level_note=c['note'], technique=c['technique']))
        else:
            m['not_applicable'].append(dict(property_id=pid, reason=NA.get(pid, NA_REASON)))
    with open(os.path.join(ROOT, 'MANIFEST.json'), 'w') as f:
        json.dump(m, f, indent=1)
    print('MANIFEST.json written:', len(m['checks']), 'checks,', len(m['not_applicable']), 'not applicable')
main()
