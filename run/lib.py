"""Shared machinery of the /verif checks: builds, TLC runs, evidence, findings."""
import hashlib, json, os, re, shutil, subprocess, sys, time, glob, tempfile, fcntl

ROOT = os.path.dirname(os.path.dirname(os.path.abspath(__file__)))
WORK = os.path.join(ROOT, 'work')
SPEC = os.path.join(ROOT, 'spec')
HARNESS = os.path.join(ROOT, 'harness')
NCPU = min(16, os.cpu_count() or 4)

def repo():
    return os.environ.get('VERIF_REPO', '/repo')

def seed():
    try:
        return int(os.environ.get('VERIF_SEED', '1'))
    except ValueError:
        return 1

def ensure(d):
    os.makedirs(d, exist_ok=True)
    return d

def log(*a):
    print(*a, flush=True)

# ------------------------------------------------------------------ builds

CONFIGS = {
    'default': [],
    'heap': ['-DUSE_MEMORY_ALLOCATION_FREE=0'],
    'noinfo': ['-DUSE_DEVICE_DEPENDENT_ERROR_INFORMATION=0'],
    'dtostre': ['-DUSE_CUSTOM_DTOSTRE=1'],
    'regtree': ['-DSCPI_USER_CONFIG', '-I' + os.path.join(HARNESS, 'regtree')],      # USE_CUSTOM_REGISTERS with the generated user tree
    'iso': [],                                                                       # strict ISO C for the library: its own str* fallbacks
    'fewerr': ['-DUSE_FULL_ERROR_LIST=0'],
    'c89': [],
    'c89dtostre': ['-DUSE_CUSTOM_DTOSTRE=1'],            # a C89 target without snprintf: the library's own formatter
    'uchar': [],                                         # plain char is unsigned (ARM, PowerPC)
    'usererr': ['-DSCPI_USER_CONFIG', '-I' + os.path.join(HARNESS, 'usererr')],      # USE_USER_ERROR_LIST with descriptions of our own
}
# flags for the library sources only (the drivers keep the default dialect)
LIBFLAGS = {'iso': ['-std=c99'], 'c89': ['-std=c89'], 'c89dtostre': ['-std=c89'], 'uchar': ['-funsigned-char']}      # c89: additionally no stdbool (scpi_bool_t is an unsigned char)
LIBSRC = ['error.c', 'fifo.c', 'ieee488.c', 'minimal.c', 'parser.c', 'units.c', 'utils.c', 'lexer.c', 'expression.c']

def _hash_files(paths, extra=''):
    h = hashlib.sha256(extra.encode())
    for p in sorted(paths):
        h.update(p.encode())
        with open(p, 'rb') as f:
            h.update(f.read())
    return h.hexdigest()[:16]

def repo_sources():
    r = os.path.join(repo(), 'libscpi')
    return sorted(glob.glob(os.path.join(r, 'src', '*.[ch]')) + glob.glob(os.path.join(r, 'inc', 'scpi', '*.h')))

def repo_hash():
    return _hash_files(repo_sources())

def build(name, drivers, config='default', san=True, extra=(), link=()):
    """Compile harness driver(s) together with the library sources of the current
    working tree of the repository (hooks on). Returns the executable path."""
    r = os.path.join(repo(), 'libscpi')
    srcs = [os.path.join(HARNESS, d) for d in drivers]
    hdrs = glob.glob(os.path.join(HARNESS, '*.h')) + glob.glob(os.path.join(HARNESS, '*', '*.h'))
    flags = ['-g', '-O1', '-DSCPI_PARSER_VERIF', '-I' + os.path.join(r, 'inc'), '-I' + os.path.join(r, 'src'), '-I' + HARNESS]
    flags += CONFIGS[config] + list(extra)
    if san:
        flags += ['-fsanitize=address,undefined', '-fno-sanitize-recover=undefined', '-fno-omit-frame-pointer']
    key = _hash_files(repo_sources() + srcs + hdrs, ' '.join(flags) + ' '.join(link) + ' '.join(LIBFLAGS.get(config, [])))
    out = os.path.join(ensure(os.path.join(WORK, 'build', name + '-' + config + '-' + key)), name)
    if os.path.exists(out):
        return out
    lock = open(out + '.lock', 'w')
    fcntl.flock(lock, fcntl.LOCK_EX)
    try:
        if os.path.exists(out):
            return out
        objdir = os.path.dirname(out)
        cs = [os.path.join(r, 'src', s) for s in LIBSRC] + srcs
        procs = []
        objs = []
        for c in cs:
            o = os.path.join(objdir, os.path.basename(c) + '.o')
            objs.append(o)
            lf = LIBFLAGS.get(config, []) if c not in srcs else []
            procs.append((c, subprocess.Popen(['clang'] + flags + lf + ['-c', c, '-o', o], stdout=subprocess.PIPE, stderr=subprocess.STDOUT)))
        for c, p in procs:
            o, _ = p.communicate()
            if p.returncode != 0:
                sys.stdout.write(o.decode(errors='replace'))
                raise BrokenCheck('compile failed: ' + c)
        cmd = ['clang'] + flags + objs + ['-o', out + '.tmp', '-lm'] + list(link)
        p = subprocess.run(cmd, stdout=subprocess.PIPE, stderr=subprocess.STDOUT)
        if p.returncode != 0:
            sys.stdout.write(p.stdout.decode(errors='replace'))
            raise BrokenCheck('link failed: ' + name)
        os.rename(out + '.tmp', out)
        for o in objs:
            os.unlink(o)
    finally:
        fcntl.flock(lock, fcntl.LOCK_UN)
    return out

class BrokenCheck(Exception):
    pass

ASAN_ENV = {'ASAN_OPTIONS': 'detect_leaks=1:abort_on_error=0:exitcode=97:allocator_may_return_null=1',
            'UBSAN_OPTIONS': 'print_stacktrace=1:halt_on_error=1:exitcode=98'}

def run_driver(exe, args, stdin=None, timeout=600, env=None, out=None):
    e = dict(os.environ)
    e.update(ASAN_ENV)
    if env:
        e.update(env)
    t0 = time.time()
    fo = open(out, 'wb') if out else subprocess.PIPE
    try:
        p = subprocess.run([exe] + [str(a) for a in args], input=stdin, stdout=fo, stderr=subprocess.PIPE, env=e, timeout=timeout)
    except subprocess.TimeoutExpired as x:
        return dict(rc=-9, stdout=b'', stderr=(x.stderr or b''), timeout=True, wall=time.time() - t0)
    finally:
        if out:
            fo.close()
    return dict(rc=p.returncode, stdout=(p.stdout if not out else b''), stderr=p.stderr, timeout=False, wall=time.time() - t0)

# ------------------------------------------------------------------ TLC

class Tlc:
    def __init__(self):
        self.generated = 0
        self.distinct = 0
        self.rc = None
        self.out = ''
        self.prints = []       # parsed PrintT tuples that start with a tag string
        self.violations = []   # names of violated invariants / properties
        self.errors = []       # TLC-level errors (model failure)
        self.wall = 0.0
        self.coverage = {}
        self.finished = False

import itertools, threading
_uniq = itertools.count(1)

def tlc(module, cfg, workers=None, env=None, timeout=1100, simulate=None, depth=None, extra=(), xmx='6g', seedv=None, deadlock=False, coverage=False, cont=False):
    """Run TLC on spec/<module>.tla with spec/<cfg>. Returns a Tlc result."""
    # validation runs are pure functions of (specification files, config, input file): memoise them, so that
    # checks that share a pipeline (C11/C12, ...) do not pay twice on the same tree
    ckey = None
    is_tv = bool(env) and 'TRACE' in env and os.path.exists(str(env.get('TRACE', '')))
    is_mc = (not env or all(k in ('PART', 'NPARTS') for k in env)) and not coverage and (module.startswith('MC'))
    if (is_tv or is_mc) and not (env and 'OUT' in env) and not simulate:
        h = hashlib.sha256()
        for p in sorted(glob.glob(os.path.join(SPEC, '*.tla'))):
            if p.endswith('Proofs.tla'):
                continue                  # proof modules are read by tlapm only
            with open(p, 'rb') as f:
                h.update(f.read())
        with open(os.path.join(errtable_dir(), 'ScpiErrTable.tla'), 'rb') as f:
            h.update(f.read())
        cfgp = cfg if os.path.isabs(cfg) else os.path.join(SPEC, cfg)
        with open(cfgp, 'rb') as f:
            h.update(f.read())
        if is_tv:
            with open(str(env['TRACE']), 'rb') as f:
                for blk in iter(lambda: f.read(1 << 20), b''):
                    h.update(blk)
        else:
            h.update(repr(sorted((env or {}).items())).encode() + repr((workers, deadlock, cont, list(extra), depth)).encode())
        h.update(module.encode())
        ckey = os.path.join(ensure(os.path.join(WORK, 'cache')), h.hexdigest()[:32] + '.json')
        if os.path.exists(ckey):
            try:
                d = json.load(open(ckey))
                r = Tlc()
                r.__dict__.update(d)
                r.cached = True
                return r
            except ValueError:
                pass
    meta = ensure(os.path.join(WORK, 'tlc', '%d-%d-%s' % (os.getpid(), next(_uniq), module)))
    cmd = ['java', '-XX:+UseParallelGC', '-Xmx' + xmx, '-Xss16m', '-DTLA-Library=' + tla_library(),
           '-cp', '/opt/veriftools/tla/tla2tools.jar:/opt/veriftools/tla/CommunityModules-deps.jar', 'tlc2.TLC',
           '-metadir', meta, '-noGenerateSpecTE', '-config', cfg, '-workers', str(workers or NCPU)]
    if not deadlock:
        cmd += ['-deadlock']
    if simulate:
        cmd += ['-simulate', 'num=%d' % simulate]
        if depth:
            cmd += ['-depth', str(depth)]
    cmd += ['-seed', str(seedv if seedv is not None else seed())]
    if coverage:
        cmd += ['-coverage', '1']
    if cont:
        cmd += ['-continue']
    cmd += list(extra) + [module]
    e = dict(os.environ)
    if env:
        e.update({k: str(v) for k, v in env.items()})
    t0 = time.time()
    r = Tlc()
    try:
        p = subprocess.run(['timeout', str(timeout)] + cmd, cwd=SPEC, stdout=subprocess.PIPE, stderr=subprocess.STDOUT, env=e)
        r.rc = p.returncode
        r.out = p.stdout.decode(errors='replace')
    finally:
        shutil.rmtree(meta, ignore_errors=True)
    r.wall = time.time() - t0
    for m in re.finditer(r'(\d+) states generated, (\d+) distinct states found', r.out):
        r.generated, r.distinct = int(m.group(1)), int(m.group(2))
    for m in re.finditer(r'Invariant (\S+) is violated', r.out):
        r.violations.append(m.group(1))
    for m in re.finditer(r'(?:Action|Temporal|State) propert(?:y|ies) (\S+)? ?(?:is|were) violated', r.out):
        r.violations.append(m.group(1) or 'property')
    if 'Temporal properties were violated' in r.out and not r.violations:
        r.violations.append('temporal')
    r.finished = 'Model checking completed' in r.out or 'Finished in' in r.out or 'Finished computing' in r.out
    acc = None
    for line in r.out.splitlines():
        s = line.strip()
        if acc is None:
            if s.startswith('<<"'):
                acc = s
            else:
                continue
        else:
            acc += ' ' + s          # TLC wraps long values over several lines
        if acc.count('<<') <= acc.count('>>') and acc.count('{') <= acc.count('}') and acc.count('[') <= acc.count(']'):
            t = parse_tla(acc)
            if t is not None:
                r.prints.append(t)
            acc = None
        elif len(acc) > 200000:
            acc = None
    if r.rc not in (0, 12, 13) or 'Parsing or semantic analysis failed' in r.out or 'TLC threw an unexpected exception' in r.out or 'Error: ' in r.out and not r.violations and r.rc != 0:
        r.errors.append('tlc rc=%s' % r.rc)
    if ckey and not r.errors and r.rc == 0:
        d = dict(r.__dict__)
        d['out'] = d['out'][-4000:]
        with open(ckey + '.tmp%d' % os.getpid(), 'w') as f:
            json.dump(d, f)
        os.replace(ckey + '.tmp%d' % os.getpid(), ckey)
    return r

def parse_tla(s):
    """Parse a TLA+ value printed by TLC (tuples, sets as lists, records, ints, strings, booleans)."""
    pos = [0]
    def ws():
        while pos[0] < len(s) and s[pos[0]] in ' \n\t':
            pos[0] += 1
    def val():
        ws()
        if s.startswith('<<', pos[0]):
            pos[0] += 2
            out = []
            ws()
            if s.startswith('>>', pos[0]):
                pos[0] += 2
                return out
            while True:
                out.append(val())
                ws()
                if s.startswith(',', pos[0]):
                    pos[0] += 1
                    continue
                if s.startswith('>>', pos[0]):
                    pos[0] += 2
                    return out
                raise ValueError('tuple')
        if s.startswith('{', pos[0]):
            pos[0] += 1
            out = []
            ws()
            if s.startswith('}', pos[0]):
                pos[0] += 1
                return out
            while True:
                out.append(val())
                ws()
                if s.startswith(',', pos[0]):
                    pos[0] += 1
                    continue
                if s.startswith('}', pos[0]):
                    pos[0] += 1
                    return out
                raise ValueError('set')
        if s.startswith('[', pos[0]):
            pos[0] += 1
            out = {}
            while True:
                ws()
                m = re.compile(r'([A-Za-z_0-9]+)\s*\|->').match(s, pos[0])
                if not m:
                    raise ValueError('record')
                pos[0] = m.end()
                out[m.group(1)] = val()
                ws()
                if s.startswith(',', pos[0]):
                    pos[0] += 1
                    continue
                if s.startswith(']', pos[0]):
                    pos[0] += 1
                    return out
                raise ValueError('record end')
        if s.startswith('"', pos[0]):
            j = pos[0] + 1
            o = ''
            while s[j] != '"':
                if s[j] == '\\':
                    j += 1
                o += s[j]
                j += 1
            pos[0] = j + 1
            return o
        m = re.compile(r'-?\d+').match(s, pos[0])
        if m:
            pos[0] = m.end()
            return int(m.group(0))
        for k, v in (('TRUE', True), ('FALSE', False)):
            if s.startswith(k, pos[0]):
                pos[0] += len(k)
                return v
        raise ValueError('value at %d' % pos[0])
    try:
        v = val()
        ws()
        return v if pos[0] == len(s) else None
    except (ValueError, IndexError):
        return None

def errtable_dir():
    """The error description table is data of the repository under test, not behaviour: ScpiErrTable.tla is generated from
    inc/scpi/error.h (and the fallback text of error.c) of the tree being checked, into work/gen/, and found by TLC / SANY
    through TLA-Library.  Returns the directory."""
    r = os.path.join(repo(), 'libscpi')
    src = open(os.path.join(r, 'inc', 'scpi', 'error.h'), errors='replace').read()
    ents = re.findall(r'XE?\(\s*\w+\s*,\s*(-?\d+)\s*,\s*"((?:[^"\\]|\\.)*)"\s*\)', src)
    # the user error list of the verification build 'usererr' (harness/usererr/scpi_user_config.h): codes no other build defines
    usr = open(os.path.join(HARNESS, 'usererr', 'scpi_user_config.h')).read()
    ents += re.findall(r'XE?\(\s*\w+\s*,\s*(-?\d+)\s*,\s*"((?:[^"\\]|\\.)*)"\s*\)', usr)
    m = re.search(r'default\s*:\s*return\s*"((?:[^"\\]|\\.)*)"', open(os.path.join(r, 'src', 'error.c'), errors='replace').read())
    fb = m.group(1) if m else 'Unknown error'
    unesc = lambda t: t.encode('latin1', 'replace').decode('unicode_escape')
    seq = lambda t: ', '.join(str(ord(c) & 255) for c in unesc(t))
    num = lambda c: ('0 - %d' % -int(c)) if int(c) < 0 else str(int(c))
    out = ['---------------------------- MODULE ScpiErrTable ----------------------------',
           '(* The error/event description table of the library under test (inc/scpi/error.h, full list; fallback text of   *)',
           '(* error.c).  Generated by run/lib.py errtable_dir() for every check run: the texts are data, not behaviour.   *)',
           'EXTENDS Integers, Sequences', '',
           'FallbackDesc == <<%s>>' % seq(fb), '',
           'KnownCodes == {%s}' % ', '.join(num(c) for c, _ in ents), '',
           'Desc(code) ==']
    seen = set()
    k = 0
    for c, d in ents:
        if int(c) in seen:
            continue
        seen.add(int(c))
        out.append('  %s code = %s THEN <<%s>>' % ('IF' if k == 0 else 'ELSE IF', num(c), seq(d)))
        k += 1
    out.append('  ELSE FallbackDesc' if k else '  FallbackDesc')
    out.append('=============================================================================')
    text = '\n'.join(out) + '\n'
    d = ensure(os.path.join(WORK, 'gen', 'errtable-' + hashlib.sha256(text.encode()).hexdigest()[:16]))
    f = os.path.join(d, 'ScpiErrTable.tla')
    if not os.path.exists(f):
        tmp = f + '.%d.%d' % (os.getpid(), threading.get_ident())    # threads of one check generate it concurrently
        with open(tmp, 'w') as fo:
            fo.write(text)
        os.replace(tmp, f)
    return d

def tla_library():
    return '/opt/veriftools/tlapm/lib/tlapm/stdlib' + os.pathsep + errtable_dir()

def sany(module):
    p = subprocess.run(['java', '-DTLA-Library=' + tla_library(), '-cp', '/opt/veriftools/tla/tla2tools.jar:/opt/veriftools/tla/CommunityModules-deps.jar', 'tla2sany.SANY', module],
                       cwd=SPEC, stdout=subprocess.PIPE, stderr=subprocess.STDOUT)
    o = p.stdout.decode(errors='replace')
    return p.returncode == 0 and 'error' not in o.lower().replace('semantic errors:\n\n', ''), o

def tlaps(rep, module, deps, theorems, timeout=1200):
    """Checks a TLAPS proof module (tlapm, all back ends local); the result is memoised on the module texts.
    A failing or incomplete proof is a broken check (the specification / proof does not hold together), never a finding."""
    files = [os.path.join(SPEC, m + '.tla') for m in [module] + list(deps)]
    key = _hash_files(files, 'tlaps')
    memo = os.path.join(ensure(os.path.join(WORK, 'cache')), 'tlaps-%s-%s.json' % (module, key))
    if os.path.exists(memo):
        res = json.load(open(memo))
        res['memoised'] = True
    else:
        cache = ensure(os.path.join(WORK, 'tlaps', '%s-%d' % (module, os.getpid())))
        t0 = time.time()
        try:
            p = subprocess.run(['tlapm', '--cleanfp', '--cache-dir', cache, '-I', SPEC, os.path.join(SPEC, module + '.tla')], cwd=SPEC,
                               stdout=subprocess.PIPE, stderr=subprocess.STDOUT, timeout=timeout)
            out, rc = p.stdout.decode(errors='replace'), p.returncode
        except subprocess.TimeoutExpired as e:
            out, rc = (e.stdout or b'').decode(errors='replace') + '\nTIMEOUT', -9
        m = re.search(r'All (\d+) obligations proved', out)
        res = dict(module=module, rc=rc, obligations=int(m.group(1)) if m else 0, proved=bool(m) and rc == 0, wall_s=round(time.time() - t0, 1), tail=out[-1200:])
        shutil.rmtree(cache, ignore_errors=True)
        if res['proved']:
            json.dump(res, open(memo, 'w'))
    rep.cov.setdefault('tlaps', []).append(dict(module=module, theorems=theorems, obligations=res['obligations'], proved=res['proved'], wall_s=res['wall_s']))
    if not res['proved']:
        rep.broken.append('TLAPS proof %s not checked (rc=%s): %s' % (module, res['rc'], res['tail'][-600:]))
    return res

# ------------------------------------------------------------------ findings / report

def known_findings():
    p = os.path.join(ROOT, 'known_findings.json')
    if not os.path.exists(p):
        return []
    with open(p) as f:
        return json.load(f).get('findings', [])

class Report:
    """Collects what a check run did; prints KNOWN-FINDING / VIOLATION lines; writes evidence."""
    def __init__(self, pid, tier):
        self.pid, self.tier = pid, tier
        self.t0 = time.time()
        self.cov = dict(states=0, transitions=0, traces_validated_against_impl=0, samples=[], evaluations=0,
                        distinct_nontrivial=0, rule='', exhaustive=False, tlc_runs=[], driver_runs=[])
        self.assumptions = []
        self.viol = []      # (kind, detail dict)
        self.known_hits = {}
        self.broken = []
        self.known = [k for k in known_findings() if k.get('property') == pid and k.get('status') == 'known']

    def add_tlc(self, name, r, what=''):
        self.cov['states'] += r.distinct
        self.cov['transitions'] += r.generated
        self.cov['tlc_runs'].append(dict(run=name, what=what, generated=r.generated, distinct=r.distinct, wall_s=round(r.wall, 1), rc=r.rc))
        if r.errors or (r.rc not in (0,) and not r.violations):
            m = re.search(r'(Error: .{0,1500})', r.out, re.S)
            logp = os.path.join(ensure(os.path.join(WORK, 'logs')), re.sub(r'[^A-Za-z0-9_.-]', '_', name) + '.log')
            with open(logp, 'w') as f:
                f.write(r.out)
            self.broken.append('TLC run %s failed (rc=%s), full output in %s: %s' % (name, r.rc, logp, (m.group(1) if m else tail(r.out))[:1500]))

    def sample(self, x, cap=6):
        if len(self.cov['samples']) < cap:
            self.cov['samples'].append(x)

    def violation(self, kind, detail):
        """kind: trigger label computed by the check; matched against known_findings.json"""
        for k in self.known:
            if k.get('kind') == kind:
                self.known_hits.setdefault(kind, [0, k, detail])[0] += 1
                return False
        self.viol.append((kind, detail))
        return True

    def finish(self):
        wall = time.time() - self.t0
        rc = 0
        for kind, (n, k, d) in sorted(self.known_hits.items()):
            log('KNOWN-FINDING: property=%s %s [%s; %d case(s) in this run, e.g. %s]' % (self.pid, k.get('what', kind), k.get('id', kind), n, short(d)))
        if self.viol:
            rc = 1
            ensure(os.path.join(ROOT, 'replays'))
            path = os.path.join(ROOT, 'replays', '%s_%s_%d.json' % (self.pid, self.tier, seed()))
            with open(path, 'w') as f:
                json.dump(dict(property=self.pid, tier=self.tier, seed=seed(), violations=[dict(kind=k, detail=d) for k, d in self.viol[:200]]), f, indent=1, default=str)
            kinds = {}
            for k, d in self.viol:
                kinds.setdefault(k, []).append(d)
            for k, ds in sorted(kinds.items()):
                log('  violation kind=%s count=%d first=%s' % (k, len(ds), short(ds[0], 600)))
            log('VIOLATION property=%s replay=%s' % (self.pid, path))
        if self.broken:
            for b in self.broken:
                log('BROKEN-CHECK: %s' % b)
            rc = rc or 2
        ev = dict(property_id=self.pid, tier=self.tier, seed=seed(), level='model_checking', coverage=self.cov,
                  assumptions=self.assumptions, wall_s=round(wall, 2), violations=len(self.viol),
                  known_findings_hit={k: v[0] for k, v in self.known_hits.items()}, broken=self.broken)
        if self.cov['states'] < 1 or self.cov['transitions'] < 1 or not self.cov['samples']:
            log('BROKEN-CHECK: evidence incomplete (states/transitions/samples)')
            rc = rc or 2
        # runs against a scratch copy (mutant campaign, VERIF_REPO set) must not overwrite the evidence of /repo itself
        evdir = os.path.join(ROOT, 'evidence') if os.path.realpath(repo()) == '/repo' else os.path.join(WORK, 'evidence_scratch')
        ensure(evdir)
        with open(os.path.join(evdir, self.pid + '.json'), 'w') as f:
            json.dump(ev, f, indent=1, default=str)
        log('%s %s: %s in %.1fs (states=%d transitions=%d impl_traces=%d evaluations=%d nontrivial=%d)' % (
            self.pid, self.tier, 'OK' if rc == 0 else ('VIOLATION' if rc == 1 else 'BROKEN'), wall,
            self.cov['states'], self.cov['transitions'], self.cov['traces_validated_against_impl'], self.cov['evaluations'], self.cov['distinct_nontrivial']))
        return rc

def short(d, n=300):
    s = json.dumps(d, default=str) if not isinstance(d, str) else d
    return s if len(s) <= n else s[:n] + '...'

def tail(s, n=1500):
    return s[-n:]

def workdir(name):
    d = os.path.join(WORK, 'run', '%s-%d' % (name, os.getpid()))
    shutil.rmtree(d, ignore_errors=True)
    return ensure(d)

def split_file(path, n):
    """Split an ndjson file into n parts with round-robin lines; returns list of paths (non-empty only)."""
    outs = [open('%s.part%d' % (path, i), 'w') for i in range(n)]
    cnt = [0] * n
    with open(path) as f:
        for i, line in enumerate(f):
            outs[i % n].write(line)
            cnt[i % n] += 1
    for o in outs:
        o.close()
    return [('%s.part%d' % (path, i)) for i in range(n) if cnt[i] > 0]
