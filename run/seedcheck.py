#!/usr/bin/env python3
"""Confirms a seeded property-breaking change and runs the registered check against it.
usage: seedcheck.py <pid> <n> [extra check ids...]   (inputs in /tmp/wt_<pid>/seed<n>.diff, demo<n>.c, meta<n>.txt)
Keeps /verif/seeded/<pid>-<n>/ (patch.diff, demo.c, meta.json). Scratch copies live under /tmp and are removed."""
import json, os, re, shutil, subprocess, sys, time
ROOT = os.path.dirname(os.path.dirname(os.path.abspath(__file__)))

def sh(cmd, cwd=None, env=None, timeout=3600):
    p = subprocess.run(cmd, shell=True, cwd=cwd, env=env, stdout=subprocess.PIPE, stderr=subprocess.STDOUT, timeout=timeout)
    return p.returncode, p.stdout.decode(errors='replace')

def tests_pass(d):
    rc, out = sh('make clean >/dev/null; make test 2>&1', cwd=d + '/libscpi')
    tests = re.findall(r'^\s+tests\s+(\d+)\s+(\d+)\s+(\d+)\s+(\d+)', out, re.M)
    ok = rc == 0 and len(tests) == 4 and sum(int(t[2]) for t in tests) == 71 and all(int(t[3]) == 0 for t in tests)
    sh('make clean', cwd=d + '/libscpi')
    return ok, [tuple(map(int, t)) for t in tests]

def demo(d, demo_c, flags=''):
    exe = d + '/demo_bin'
    rc, out = sh('cc %s -Iinc -Isrc %s src/*.c -lm -o %s 2>&1' % (flags, demo_c, exe), cwd=d + '/libscpi')
    if rc != 0:
        return None, out[-1500:]
    rc, out = sh('timeout 120 ' + exe, cwd=d + '/libscpi')
    os.unlink(exe)
    return rc, out[-800:]

def main():
    pid, n = sys.argv[1], sys.argv[2]
    checks = [pid] + sys.argv[3:]
    wt = os.environ.get('SEED_SRC', '/tmp/wt_%s' % pid)
    diff, demo_c, meta_t = [wt + '/%s%s.%s' % (a, n, b) for a, b in (('seed', 'diff'), ('demo', 'c'), ('meta', 'txt'))]
    name = '%s-%s%s' % (pid, os.environ.get('SEED_TAG', ''), n)
    res = dict(id=name, breaks=pid, source='independent sub-agent given only the property text and a scratch worktree')
    res['needs'] = open(meta_t).read()[:3000] if os.path.exists(meta_t) else ''
    clean, mut = '/tmp/sc_%s_clean' % name, '/tmp/sc_%s_mut' % name
    for d in (clean, mut):
        shutil.rmtree(d, ignore_errors=True)
        os.makedirs(d)
        shutil.copytree('/repo/libscpi', d + '/libscpi', ignore=shutil.ignore_patterns('obj', 'dist', '*.o', '*.test'))
    rc, out = sh('patch -p1 < %s' % diff, cwd=mut)
    res['applies_to_repo_head'] = rc == 0
    if rc != 0:
        res['apply_output'] = out[-800:]
    flags = ''
    src = open(demo_c).read()
    fl = sorted(set(re.findall(r'-D(USE_[A-Z_]+=\d)', src)))
    if not fl and '#error' in src:
        fl = sorted(set(re.findall(r'-D(USE_[A-Z_]+=\d)', res['needs'])))[:1]
    flags = ' '.join('-D' + x for x in fl)
    if '-std=c99' in src:
        flags += ' -std=c99'
    if '-std=c89' in src:
        flags += ' -std=c89'
    elif '-std=gnu89' in src:
        flags += ' -std=gnu89'
    if '-funsigned-char' in src:
        flags += ' -funsigned-char'
    if '-fsanitize=address' in src + res['needs']:
        flags += ' -g -fsanitize=address -fno-omit-frame-pointer'
    if '-fsanitize=undefined' in src + res['needs']:
        flags += ' -fsanitize=undefined -fno-sanitize-recover=undefined'
    m = re.search(r"cc ((?:'-D[^']*'|-D\S+)(?: (?:'-D[^']*'|-D\S+))*) -Iinc", res['needs'])
    if m and 'LIST_OF_USER_ERRORS' in m.group(1):
        flags = m.group(1)          # a user error list given on the command line of the demonstration
    res['demo_flags'] = flags
    if '--wrap' in src + res['needs']:
        flags += ' -Wl,--wrap=strndup -Wl,--wrap=free'
    ok, t = tests_pass(mut)
    res['suite_passes_with_change'] = ok
    res['suite_counts'] = t
    rc1, o1 = demo(mut, demo_c, flags)
    rc0, o0 = demo(clean, demo_c, flags)
    res['demo_with_change'] = dict(rc=rc1, tail=o1[-300:])
    res['demo_without_change'] = dict(rc=rc0, tail=o0[-300:])
    res['confirmed'] = bool(res['applies_to_repo_head'] and ok and rc0 == 0 and rc1 not in (0, None))
    res['checks'] = {}
    for c in checks:
        env = dict(os.environ, VERIF_REPO=mut)
        t0 = time.time()
        rc, out = sh('python3 run/check.py %s --tier quick' % c, cwd=ROOT, env=env, timeout=3000)
        kinds = re.findall(r'violation kind=(\S+) count=(\d+)', out)
        res['checks'][c] = dict(exit=rc, violation_line='VIOLATION property=' in out, kinds=kinds[:12], wall_s=round(time.time() - t0))
        # the run above rewrote evidence/<c>.json and replays for the mutant: evidence is restored by the next real run
    res['ran'] = ['patch -p1 < seed.diff in a scratch copy of /repo/libscpi', 'make test (71 tests)', 'cc demo.c src/*.c; run with and without the change',
                  'VERIF_REPO=<scratch> python3 run/check.py <id> --tier quick']
    out_d = os.path.join(ROOT, 'seeded', name)
    os.makedirs(out_d, exist_ok=True)
    shutil.copy(diff, out_d + '/patch.diff')
    shutil.copy(demo_c, out_d + '/demo.c')
    json.dump(res, open(out_d + '/meta.json', 'w'), indent=1)
    for d in (clean, mut):
        shutil.rmtree(d, ignore_errors=True)
    print(name, 'confirmed' if res['confirmed'] else 'NOT-CONFIRMED', {c: (v['exit'], v['kinds'][:3]) for c, v in res['checks'].items()})

main()
