"""C03: a pattern accepts exactly the headers of its short/long-form language.
M: TLC checks, pattern by pattern, that the matcher's design (one left-to-right keyword walk, MatchAlgo)
   equals the declarative property (Accepts / Numbers) for every well-formed pattern (MCMatch).
R: TLC emits per pattern the header neighbourhood with the demanded verdicts and numeric-suffix
   vectors (GenMatch); drv_match executes every pair on matchCommand, SCPI_Match, SCPI_IsCmd,
   SCPI_CommandNumbers and through SCPI_Input, and compares.
V: seeded random patterns (up to 4 keywords) x headers (up to 5 mnemonics) are run on the real
   matcher and every recorded call is judged by TLC (TVMatch)."""
import json, os, re, shutil, sys, concurrent.futures, threading
import lib

CANARY = 1515870810
JOBS = int(os.environ.get('VERIF_JOBS', '0'))      # parallel single-worker TLC processes; 0: 8 (quick) / 12 (thorough)

def S(b):
    return bytes(b).decode('latin-1')

TRAIL = re.compile(r'((?:\[:[A-Za-z]+#?\])+)\??$')

def kind_of(m):
    """Trigger label of one mismatch reported by drv_match (or rebuilt from a TVMatch mismatch)."""
    if bool(m['got']) != bool(m['exp']):
        return 'accept:%s:%s' % (m['api'], 'impl-accepts-spec-rejects' if m['got'] else 'impl-rejects-spec-accepts')
    exp, got = m['expn'], m['gotn']
    diff = [i for i in range(len(got)) if exp[i] != got[i]]
    if not diff:
        return 'accept:%s:unclassified' % m['api']
    t = TRAIL.search(m['p'])
    ntrail = t.group(1).count('#') if t else 0
    nn = m['nn']
    if all(got[i] == CANARY for i in diff):
        # the slot was never written although the property demands the caller's default
        if all(exp[i] == m['d'] for i in diff) and all(i >= nn - ntrail for i in diff):
            return 'trailing-optional-suffix-default-not-stored'
        return 'suffix-slot-not-written'
    return 'suffix-value-wrong'

def convert(src, dst, stats, samples):
    """TLC's ndjson (byte arrays) -> the driver's case file; counts pairs."""
    with open(src) as f, open(dst, 'w') as o:
        for ln in f:
            d = json.loads(ln)
            p = S(d['p'])
            o.write('P %s %d\n' % (p, d['nn']))
            stats['patterns'] += 1
            for h, r in zip(d['h'], d['r']):
                hs = S(h)
                if r:
                    o.write('H %s 1 %s\n' % (hs, ' '.join(str(x) for x in r[1:])))
                    stats['accepted'] += 1
                    if d['nn'] and any(x != -1 for x in r[1:]):
                        stats['with_suffix'] += 1
                else:
                    o.write('H %s 0\n' % hs)
                stats['pairs'] += 1
            if len(samples) < 3 and d['nn'] >= 1 and len(d['h']) > 40:
                acc = ([(S(h), r) for h, r in zip(d['h'], d['r']) if r and any(x != -1 for x in r[1:])][:1] + [(S(h), r) for h, r in zip(d['h'], d['r']) if r][:1])
                rej = [(S(h), r) for h, r in zip(d['h'], d['r']) if not r][:2]
                samples.append(dict(pattern=p, cases=[dict(header=h, demanded=('accept, numbers %s (-1 = caller default)' % r[1:]) if r else 'reject') for h, r in acc + rej]))

def gen_and_replay(rep, exe, w, cfg, part, nparts, stats, samples, lock):
    """One partition: GenMatch -> cases -> drv_match replay."""
    out = '%s/%s.%d.ndjson' % (w, cfg, part)
    g = lib.tlc('GenMatch', 'GenMatch_%s.cfg' % cfg, workers=1, env={'OUT': out, 'PART': part, 'NPARTS': nparts}, timeout=600, xmx='3g')
    res = dict(tlc=g, mism=[], summary=None, fail=None)
    if g.rc != 0 or g.errors or not os.path.exists(out):
        if g.rc == 0 and not g.errors:        # a partition without any well-formed pattern
            return res
        res['fail'] = 'GenMatch %s part %d failed' % (cfg, part)
        return res
    st = dict(patterns=0, pairs=0, accepted=0, with_suffix=0)
    sm = []
    convert(out, out + '.txt', st, sm)
    os.unlink(out)
    # the same cases on every build of the library: default, and strict ISO C (its own strncasecmp / strnlen fallbacks)
    runs = [(b, lib.run_driver(x, ['replay', out + '.txt'], timeout=600)) for b, x in (exe if isinstance(exe, list) else [('default', exe)])]
    os.unlink(out + '.txt')
    with lock:
        for k in st:
            stats[k] += st[k]
        if len(samples) < 4:
            samples.extend(sm[:1])
    for b, d in runs:
        if d['rc'] != 0:
            res['fail'] = dict(build=b, rc=d['rc'], stderr=d['stderr'].decode(errors='replace')[-3000:], stdout=d['stdout'].decode(errors='replace')[-600:])
            return res
        for ln in d['stdout'].decode().splitlines():
            m = json.loads(ln)
            if 'summary' in m:
                if res['summary'] is None:
                    res['summary'] = m
                else:
                    for k in ('calls', 'mismatches'):
                        res['summary'][k] += m[k]
            else:
                m['build'] = b
                res['mism'].append(m)
    return res

def validate(rep, path, label, par=2):
    """TVMatch over a file of recorded calls (<= 60000 lines per TLC run). Returns (judged, mismatches)."""
    lines = open(path).read().splitlines()
    if not lines:
        rep.broken.append('no calls recorded for ' + label)
        return 0, 0
    CH = 50000
    chunks = [lines[i:i + CH] for i in range(0, len(lines), CH)]
    def one(i):
        p = '%s.c%d' % (path, i)
        with open(p, 'w') as f:
            f.write('\n'.join(chunks[i]) + '\n')
        r = lib.tlc('TVMatch', 'TVMatch.cfg', workers=4, env={'TRACE': p}, xmx='3g', timeout=600)
        os.unlink(p)
        return i, r
    judged = mism = 0
    with concurrent.futures.ThreadPoolExecutor(max_workers=par) as ex:
        for i, r in ex.map(one, range(len(chunks))):
            rep.add_tlc('TVMatch:%s:%d' % (label, i), r, 'validation of recorded calls of the real matcher against ScpiMatch')
            if r.distinct != 2 * len(chunks[i]) and not r.errors:
                rep.broken.append('TVMatch %s chunk %d: %d states for %d lines' % (label, i, r.distinct, len(chunks[i])))
            unj = set()
            bad = {}
            for p in r.prints:
                if p[0] == 'UNJUDGED':
                    unj.add(p[1])
                elif p[0] == 'MISMATCH':
                    bad[p[1]] = p
            judged += len(chunks[i]) - len(unj)
            for l, p in sorted(bad.items()):
                rec = json.loads(chunks[i][l - 1])
                exp = p[3]
                nn = len(rec['n'])
                mism += 1
                if 'accept' in p[2]:
                    m = dict(p=rec['p'], h=rec['h'], api='match', d=-1, nn=nn, exp=1 if exp else 0, expn=exp[1:], got=rec['r'], gotn=[])
                elif 'accept-with-numbers' in p[2]:
                    m = dict(p=rec['p'], h=rec['h'], api='match+numbers', d=-1, nn=nn, exp=1 if exp else 0, expn=exp[1:], got=rec['rn'], gotn=[])
                else:
                    m = dict(p=rec['p'], h=rec['h'], api='match+numbers', d=-1, nn=nn, exp=1, expn=exp[1:], got=1, gotn=rec['n'])
                k = kind_of(m)
                rep._kinds[k] = rep._kinds.get(k, 0) + 1
                if rep._kinds[k] <= 25:
                    rep.violation(k, dict(source=label, call=m, recorded=rec))
            # non-trivial recorded cases: accepted headers (by both sides)
            for j, ln in enumerate(chunks[i]):
                if (j + 1) not in unj and (j + 1) not in bad and '"r":1' in ln:
                    rep._nt.add(ln)
    return judged, mism

def run(pid, tier):
    rep = lib.Report(pid, tier)
    rep._nt = set()
    rep._kinds = {}
    quick = tier == 'quick'
    jobs_n = JOBS or (8 if quick else 12)
    rep.cov['rule'] = ('cases = (pattern, header) pairs. Patterns: every pattern over the lexicon {ABCd, ABcd, EFgh, XY} x {mandatory, optional} x {plain, #} '
                       'x query flag with 1..%d keywords (at least one mandatory) that satisfies the side condition WellFormedPattern, plus the frozen list of 77 shipped (plus two with a digit and an underscore inside the short form) '
                       'patterns (tests, examples). Headers per pattern, enumerated by TLC (MatchCases!CasesOf): every accepted spelling (each subset of the optional keywords, '
                       'short/long form, with/without numeric suffix incl. leading zero, upper/lower/mixed case, with/without leading colon, query mark toggled) and every single '
                       'mutation of one (a mnemonic replaced by a near miss: one letter less/more than short or long form, digits where none are allowed, letters after digits, '
                       'another keyword, empty; a mnemonic dropped, duplicated, swapped with its neighbour, one appended or prepended; "::" and ":*" prefixes). '
                       'By construction every such pair is non-trivial by the rule of DESIGN.md 5.2 (accepted, or one mutation away from an accepted spelling); distinct = different '
                       '(pattern text, header bytes). The random part (patterns of up to 4 keywords, headers of up to 5 mnemonics, seeded) counts only accepted headers as non-trivial.' % (2 if quick else 3))
    rep.assumptions += ['keyword names are an upper-case letter, further upper-case letters, digits or underscores (the short form), then lower-case letters; every pattern has at least one mandatory keyword; optional keywords are bracketed individually ([:A][:B], no nesting)',
                        'patterns that violate the side condition (an optional keyword shares a spelling with a keyword that may follow it) are outside the property and not executed',
                        'headers are non-empty; numeric suffixes have at most 4 digits, plus one of 10 digits (3000000000) whose value - it does not fit the 32-bit slot - is not compared while acceptance and the other suffixes are; headers consist of letters, digits, colon, star and question mark only',
                        'slots of the number array beyond the pattern\'s numeric keywords are not compared (the property does not mention them); writes beyond the array length are left to ASan',
                        'the exhaustive product of 4 keywords x 5 mnemonics named in the property text is replaced by the single-mutation neighbourhood (exhaustive for <= %d keywords) plus a seeded random sample for 4 keywords x 5 mnemonics' % (2 if quick else 3)]
    w = lib.workdir(pid)
    exe = lib.build('drv_match', ['drv_match.c'])

    # ---- M: the design of the matcher against the declarative property
    mc = [('shipped', 2), ('lex2', 4)] if quick else [('shipped', 4), ('lex2p3', 8), ('lex3', 32)]
    jobs = [(cfg, p, n) for cfg, n in mc for p in range(n)]
    def mcjob(j):
        cfg, p, n = j
        return j, lib.tlc('MCMatch', 'MCMatch_%s.cfg' % cfg, workers=1, env={'PART': p, 'NPARTS': n}, timeout=600, xmx='3g')
    wf = ill = illw = mhdr = 0
    with concurrent.futures.ThreadPoolExecutor(max_workers=jobs_n) as ex:
        for (cfg, p, n), r in ex.map(mcjob, jobs):
            rep.add_tlc('MCMatch_%s:%d/%d' % (cfg, p, n), r, 'model checking: MatchAlgo = Accepts/Numbers and unique selection for every well-formed pattern, ParsePattern/PatternText round trip, common patterns')
            if r.violations:
                rep.broken.append('specification violates its own lemma %s in MCMatch_%s part %d: %s' % (r.violations, cfg, p, lib.tail(r.out, 1200)))
            for t in r.prints:
                if t[0] == 'WELLFORMED':
                    wf += 1; mhdr += t[1]
                elif t[0] == 'COMMON':
                    mhdr += t[1]
                elif t[0] == 'ILLFORMED':
                    ill += 1; illw += t[1]
    rep.cov['model_checked'] = dict(wellformed_patterns=wf, pattern_header_pairs=mhdr, illformed_patterns=ill,
                                    illformed_with_disagreement_witness=illw,
                                    note='for every ill-formed pattern counted in the last number the keyword walk and the declarative definition disagree on some enumerated header: the side condition is needed')
    if wf == 0:
        rep.broken.append('model checking covered no well-formed pattern')

    # ---- R: TLC cases executed on the real library
    gen = [('shipped', 2), ('lex2', 4)] if quick else [('shipped', 4), ('lex3', 40)]
    stats = dict(patterns=0, pairs=0, accepted=0, with_suffix=0)
    samples = []
    lock = threading.Lock()
    gjobs = [(cfg, p, n) for cfg, n in gen for p in range(n)]
    calls = 0
    kinds = {}
    with concurrent.futures.ThreadPoolExecutor(max_workers=jobs_n) as ex:
        exes = [('default', exe), ('iso', lib.build('drv_match', ['drv_match.c'], config='iso'))]
        futs = [(j, ex.submit(gen_and_replay, rep, exes, w, j[0], j[1], j[2], stats, samples, lock)) for j in gjobs]
        for (cfg, p, n), fu in futs:
            res = fu.result()
            rep.add_tlc('GenMatch_%s:%d/%d' % (cfg, p, n), res['tlc'], 'case generation: header neighbourhood with demanded verdict and numbers per pattern')
            if res['fail']:
                if isinstance(res['fail'], dict):
                    rep.violation('driver-failure', dict(partition='%s:%d/%d' % (cfg, p, n), **res['fail']))
                else:
                    rep.broken.append(res['fail'])
                continue
            if res['summary']:
                calls += res['summary']['calls']
                rep.cov['driver_runs'].append(dict(partition='%s:%d/%d' % (cfg, p, n), pairs=res['summary']['pairs'], calls=res['summary']['calls'], mismatches=res['summary']['mismatches']))
                if res['summary']['mismatches'] > len(res['mism']):
                    rep.violation('mismatches-not-classified', dict(partition='%s:%d/%d' % (cfg, p, n), listed=len(res['mism']), total=res['summary']['mismatches']))
            elif res['tlc'].distinct:
                rep.broken.append('drv_match gave no summary for %s:%d' % (cfg, p))
            for m in res['mism']:
                k = kind_of(m)
                kinds[k] = kinds.get(k, 0) + 1
                if kinds[k] <= 25:                      # details of the first cases of every kind; all are counted
                    rep.violation(k, dict(source='replay %s:%d/%d' % (cfg, p, n), call=m))
    for s in samples:
        rep.sample(s)
    rep.cov['replayed'] = dict(stats, api_calls=calls, mismatching_calls_by_kind=kinds)
    rep.cov['evaluations'] += stats['pairs']
    rep.cov['distinct_nontrivial'] += stats['pairs']
    rep.cov['traces_validated_against_impl'] += stats['pairs']
    if stats['pairs'] == 0:
        rep.broken.append('no case was replayed')

    # ---- V: seeded random patterns (<= 4 keywords) x headers (<= 5 mnemonics), judged by TLC
    n = 40000 if quick else 400000
    d = lib.run_driver(exe, ['record', lib.seed() * 1000003 + 17, n, 4, 5, w + '/rand.ndjson'])
    if d['rc'] != 0:
        rep.violation('driver-failure', dict(mode='record', rc=d['rc'], stderr=d['stderr'].decode(errors='replace')[-3000:]))
    else:
        judged, mism = validate(rep, w + '/rand.ndjson', 'random', par=max(1, jobs_n // 4))
        rep.cov['random'] = dict(recorded=n, judged=judged, accepted_distinct=len(rep._nt), mismatches=mism, mismatches_by_kind=rep._kinds)
        rep.cov['evaluations'] += n
        rep.cov['traces_validated_against_impl'] += judged
        rep.cov['distinct_nontrivial'] += len(rep._nt)
        for ln in list(rep._nt)[:2]:
            x = json.loads(ln)
            rep.sample(dict(pattern=x['p'], header=x['h'], impl_verdict=x['r'], impl_numbers=x['n']), cap=8)
    rep.cov['exhaustive'] = True
    rep.cov['explanation'] = ('exhaustive over the enumerated patterns (<= %d lexicon keywords, shipped list) and their TLC-enumerated header neighbourhoods; '
                              'sampled for 4 keywords x 5 mnemonics (random part)' % (2 if quick else 3))
    del rep._nt
    shutil.rmtree(w, ignore_errors=True)
    return rep.finish()

def replay(pid, path):
    """Re-run the (pattern, header) pairs of a replay file on the real matcher and let TLC judge them again."""
    rep = lib.Report(pid, 'quick')
    rep._nt = set()
    rep._kinds = {}
    w = lib.workdir(pid + 'r')
    exe = lib.build('drv_match', ['drv_match.c'])
    d = json.load(open(path))
    seen = set()
    for v in d.get('violations', []):
        c = v['detail'].get('call')
        if not c or (c['p'], c['h']) in seen:
            continue
        seen.add((c['p'], c['h']))
        r = lib.run_driver(exe, ['single', c['p'], c['h'], w + '/r.ndjson'])
        if r['rc'] != 0:
            print('REPLAY driver failure', c['p'], c['h'], r['rc'], r['stderr'].decode(errors='replace')[-1500:])
    if not seen:
        print('REPLAY: no (pattern, header) case in', path)
        return 1 if d.get('violations') else 0
    for ln in open(w + '/r.ndjson'):
        x = json.loads(ln)
        print('REPLAY pattern=%s header=%s impl: accept=%d accept(with numbers)=%d numbers=%s (%d = slot never written, -1 = default)' % (x['p'], x['h'], x['r'], x['rn'], x['n'], CANARY))
    validate(rep, w + '/r.ndjson', 'replay')
    for k, dd in rep.viol + [(k, v[2]) for k, v in rep.known_hits.items()]:
        c = dd['call']
        print('REPLAY mismatch kind=%s pattern=%s header=%s specification demands: %s' % (k, c['p'], c['h'], ('accept, numbers %s' % c['expn']) if c['exp'] else 'reject'))
    shutil.rmtree(w, ignore_errors=True)
    return 1 if (rep.viol or rep.known_hits) else 0

MANIFEST = dict(engine='tlc-mc+tlc-gen+harness+tlc-trace', ref='DESIGN.md section 6 C03',
   technique='TLC model checking of ScpiMatch.tla (matcher design = declarative pattern language) + TLC-generated (pattern, header) cases replayed on matchCommand / SCPI_Match / SCPI_IsCmd / SCPI_CommandNumbers / SCPI_Input + TLC validation of recorded random calls',
   text='ScpiMatch.tla states the short/long-form language declaratively (Accepts, Numbers) and the side condition WellFormedPattern. TLC checks for every enumerated well-formed pattern '
        '(lexicon ABCd/ABcd/EFgh/XY x optional x numeric x query, <= 2 keywords quick / <= 3 thorough, plus the 77 shipped patterns and two with a digit or underscore inside the short form) and every header of its neighbourhood (all accepted spellings and all '
        'single mutations; plus the full product of <= 2 (quick) / 3 (thorough) mnemonics for <= 2 keywords) that the single left-to-right keyword walk of the matcher design equals the declarative definition, that the selection is unique, and that '
        'ParsePattern inverts PatternText. TLC then emits every (pattern, header, demanded verdict, demanded number vector) and drv_match executes each on the real library through six entry points and compares; '
        'seeded random 4-keyword patterns x 5-mnemonic headers are recorded from the real matcher and judged by TLC (TVMatch). Exhaustive within the enumerated spaces, sampled beyond.',
   note='Trusted: TLC, the byte-array to text conversion of the cases in p_C03.py, the comparison code of drv_match.c. Smaller bounds than the property text (4 keywords x 5 mnemonics full product is replaced by the single-mutation neighbourhood for <= 3 keywords and a random sample for 4). '
        'Array slots beyond the pattern\'s numeric keywords are not compared. Patterns violating the side condition are not executed.')
