#!/usr/bin/env python3
"""Orchestrator: python3 run/check.py <property> --tier quick|thorough [--replay path]"""
import argparse, os, sys, traceback
sys.path.insert(0, os.path.dirname(os.path.abspath(__file__)))
import lib

def main():
    ap = argparse.ArgumentParser()
    ap.add_argument('pid')
    ap.add_argument('--tier', default=None)
    ap.add_argument('--replay', default=None)
    a = ap.parse_args()
    tier = a.tier or os.environ.get('VERIF_TIER') or 'quick'
    if tier not in ('quick', 'thorough'):
        tier = 'quick'
    if not os.path.exists(os.path.join(os.path.dirname(os.path.abspath(__file__)), 'p_%s.py' % a.pid)):
        print('unknown property', a.pid)
        return 2
    mod = __import__('p_' + a.pid)
    try:
        if a.replay:
            return mod.replay(a.pid, a.replay)
        return mod.run(a.pid, tier)
    except lib.BrokenCheck as e:
        print('BROKEN-CHECK:', e)
        return 2
    except Exception:
        traceback.print_exc()
        print('BROKEN-CHECK: exception in check')
        return 2

if __name__ == '__main__':
    sys.exit(main())
