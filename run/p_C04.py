"""C04: numeric parameters decode to the value their literal denotes.
M: TLC checks the lemmas of ScpiNumeric (grammar = scanner, maximal munch, Denote(literal) = Denote(normalised),
idempotent normal form, deviation trigger, limb arithmetic / range predicates on a small-width model, table lemmas).
R: TLC (GenNumeric) enumerates parameter texts with the specification's expectations; harness/drv_numeric.c runs
every text through SCPI_Input + the reader(s) on the real library and compares."""
import json, os, shutil, concurrent.futures, collections
import lib

D5_KIND = 'decimal-whitespace-in-exponent'
MORE = dict(note='further case of this kind; see coverage.mismatches_by_kind')

def text_of(b):
    return ''.join(chr(c) if 32 <= c < 127 else '\\t' if c == 9 else '\\x%02x' % c for c in b)

def kind_of(cs, m):
    """Trigger label of one mismatch.  The D5 label requires BOTH the trigger of the specification (HasExpWs: white
    space between mantissa and exponent letter and/or after it) AND that the observed value is exactly the value of
    the literal cut at the end of its mantissa (ScpiNumeric!CutAtMantissa, times the unit multiplier) - anything
    else on such a literal gets its own label."""
    g, rd, what = cs['g'], m['rd'], m['what']
    if g in ('dec', 'unit') and what == 'value' and rd in ('DBL', 'FLT', 'NUM') and cs.get('ws'):
        if m['dev'] and sum(1 for c in cs['lit'] if c not in (32, 9)) >= 64:
            return 'decimal-whitespace-in-exponent-64-or-more-characters'        # D26: the literal without its blanks does not fit the conversion buffer
        return D5_KIND if m['dev'] else 'decimal-whitespace-in-exponent-unexplained-value'
    names = {('unit', 'value'): 'unit-multiplier', ('unit', 'unit'): 'unit-base-tag', ('special', 'tag'): 'special-tag',
             ('special', 'special'): 'special-not-flagged', ('nondec', 'value'): 'nondecimal-value', ('dec', 'value'): 'decimal-value'}
    if what in ('ret', 'err'):
        return '%s-%s-%s' % ({'dec': 'decimal', 'nondec': 'nondecimal'}.get(g, g), rd, 'reader-failed' if what == 'ret' else 'error-queued')
    return '%s-%s' % (names.get((g, what), g + '-' + what), rd)

MC_QUICK = [('table', 2, 'TableWellFormed, PrefixCoherent (IEEE 488.2 table 7-2 incl. M = mega for OHM/HZ), SpecialsWellFormed on the frozen tables'),
            ('limbs16', 2, 'limb arithmetic with 16-bit limbs on landmark values, limits of the four integer types'),
            ('limbs', 2, 'small-width model (limb base 4): NatOfDigits/DigitsOf/DivSmall/MulAdd/order/range predicates/two\'s complement vs TLC integers'),
            ('strA', 4, 'all strings <= 6 over {+ - 1 . blank E}: GrammarScannerAgree, MaximalMunch, NormalForm (Denote(l) = Denote(Normalised(l)), idempotent), CutLemma, SplitLemma, DeviationLemma'),
            ('strB', 4, 'all strings <= 6 over {+ 0 . tab e V}: same lemmas'),
            ('shapeQ', 4, 'all shapes (digits {0,9} <= 2 per part, white space {none, blank}): Parse(Build(shape)) = shape, Denote = DenoteShape, normal form, integer-literal predicate, suffix split incl. EV'),
            ('nc', 2, 'negative control: "stopping at the first blank is harmless" must be violated')]
MC_THOROUGH = [('strC', 4, 'all strings <= 8 over {- 1 . blank E}: same lemmas'),
               ('shapeT', 4, 'all shapes (digits {0,1,9} <= 2 per part, white space {none, blank, tab, blank tab})')]

def run_mc(tier):
    """Model-check the lemmas; returns [(name, what, result)] (evaluated by mc_report in the main thread)."""
    jobs = MC_QUICK + (MC_THOROUGH if tier == 'thorough' else [])
    def one(j):
        name, w, what = j
        return name, what, lib.tlc('MCNumeric', 'MCNumeric_%s.cfg' % name, workers=w, timeout=850, xmx='4g')
    with concurrent.futures.ThreadPoolExecutor(max_workers=2) as ex:
        return list(ex.map(one, jobs))

def mc_report(rep, results):
    for name, what, r in results:
        rep.add_tlc('MCNumeric_' + name, r, what)
        if name == 'nc':
            if r.violations != ['NC_StopAtBlankHarmless']:
                rep.broken.append('negative control MCNumeric_nc was not violated (%s)' % r.violations)
        elif r.violations:
            rep.broken.append('specification violates its own lemma %s in MCNumeric_%s' % (r.violations, name))
        elif not r.finished and not r.errors:
            rep.broken.append('MCNumeric_%s did not finish' % name)

def generate(tier, w):
    """TLC emits the cases; returns (path of the concatenated ndjson, number of lines, [(name, result, lines)])."""
    nparts = 6 if tier == 'quick' else 12
    jobs = [('x', 0, 1)] + [('d', p, nparts) for p in range(nparts)]
    def one(j):
        g, p, n = j
        out = '%s/gen_%s%d.ndjson' % (w, g, p)
        r = lib.tlc('GenNumeric', 'GenNumeric.cfg', workers=1, timeout=850, xmx='3g',
                    env=dict(OUT=out, GROUPS=g, TIER=tier, PART=p, NPARTS=n, SEED=lib.seed()))
        return j, out, r
    total = 0
    res = []
    allp = w + '/cases.ndjson'
    with concurrent.futures.ThreadPoolExecutor(max_workers=7) as ex, open(allp, 'wb') as fo:
        for (g, p, n), out, r in ex.map(one, jobs):
            lines = 0
            if os.path.exists(out):
                with open(out, 'rb') as fi:
                    for ln in fi:
                        fo.write(ln); lines += 1
                os.unlink(out)
            res.append(('GenNumeric_%s%d' % (g, p), r, lines))
            total += lines
    return allp, total, res

def gen_report(rep, results):
    for name, r, lines in results:
        rep.add_tlc(name, r, 'emission of cases with expectations (ScpiNumeric!Expect)')
        if r.rc != 0 or lines != r.distinct or lines == 0:
            rep.broken.append('%s: rc=%s, %d states, %d lines' % (name, r.rc, r.distinct, lines))

def execute(rep, exe, cases, w, expect_cases=None, build='default', env=None):
    """Run the driver over a case file; classify mismatches.  Returns number of mismatches."""
    mis = w + '/mismatch.ndjson'
    d = lib.run_driver(exe, ['run', cases, mis], timeout=800, env=env)
    if d['rc'] != 0:
        rep.violation('driver-failure', dict(build=build, rc=d['rc'], stderr=d['stderr'].decode(errors='replace')[-3000:]))
        return -1
    info = json.loads(d['stdout'].decode().strip().splitlines()[-1])
    info['build'] = build
    rep.cov['driver_runs'].append(info)
    if expect_cases is not None and info['cases'] != expect_cases:
        rep.broken.append('driver executed %d of %d emitted cases' % (info['cases'], expect_cases))
    if info['selfcheck_failures']:
        rep.broken.append('%d cases where strtod(normalised literal) differs from strtod(exact triple): specification / trusted base disagree' % info['selfcheck_failures'])
    rep.cov['traces_validated_against_impl'] += info['cases']
    rep.cov['evaluations'] += info['judged']
    rep.cov['distinct_nontrivial'] += info['distinct_nontrivial']
    rep.cov['unjudged_out_of_range_reader_runs'] = rep.cov.get('unjudged_out_of_range_reader_runs', 0) + info['unjudged']
    if info.get('note_float_nondecimal_over_32_bits_differs'):
        rep.cov['note'] = ('%d nondecimal literals wider than 32 bits were truncated by SCPI_ParamFloat (it converts through a 32-bit integer); '
                           'outside the quantifier "up to the type width", recorded, not judged' % info['note_float_nondecimal_over_32_bits_differs'])
    wanted = collections.defaultdict(list)
    with open(mis) as f:
        for ln in f:
            m = json.loads(ln)
            wanted[m['line']].append(m)
    n = 0
    perkind = collections.Counter()
    if wanted:
        with open(cases) as f:
            for i, ln in enumerate(f, 1):
                if i not in wanted:
                    continue
                cs = json.loads(ln)
                for m in wanted[i]:
                    k = kind_of(cs, m)
                    perkind[k] += 1
                    n += 1
                    if perkind[k] <= 200:
                        det = dict(build=build, message='%s %s' % (m['rd'], text_of(cs['lit'])), reader=m['rd'], what=m['what'], observed_limbs=m['obs'], expected_limbs=m['exp'],
                                   errors=m['errs'], reader_returned=m['ret'])
                        if perkind[k] <= 25:
                            det['case'] = cs
                    else:
                        det = MORE              # counted, details only for the first 200 of a kind
                    rep.violation(k, det)
    os.unlink(mis)
    rep.cov['mismatches_by_kind'] = dict(perkind)
    return n

def run(pid, tier):
    rep = lib.Report(pid, tier)
    rep.cov['rule'] = ('case = one parameter text emitted by TLC (GenNumeric) with the expectations of ScpiNumeric!Expect, executed once per listed reader kind; '
                       'evaluations = judged reader executions; non-trivial (evaluated by the specification, ScpiNumeric!NonTrivial) = the literal has white space, an explicit sign, '
                       'a bare leading/trailing point, >= 16 digits, a non-decimal base or a suffix; distinct = different literal bytes (hashed in the driver)')
    rep.assumptions += [
        'IEEE-754 rounding is not specified in TLA+: the reference for double/float is glibc strtod/strtof applied to the NORMALISED white-space-free literal supplied by the specification (cross-checked on every decimal case against strtod of the exact triple digits*10^exp10); the library itself converts with the same glibc functions, so a common rounding defect of glibc would not be seen',
        'with a unit the reference is the correctly rounded product (one IEEE multiplication) of that double and the multiplier double; the multiplier double is numerator/denominator of the exact rational of the frozen table (one correctly rounded division of exactly representable values = the C constant 1e-6, 1./60.)',
        'spec/ScpiUnitTable.tla is a frozen transcription of scpi_units_def / scpi_special_numbers_def (default configuration, 101 rows / 9 mnemonics) made once by run/gen_c04_units.py; its internal coherence with the IEEE 488.2 prefix table is model-checked, its agreement with the standard\'s unit list is not',
        'integer readers are judged only on integer literals (sign and digits) whose value is in range of the reader\'s type, nondecimal literals only up to the reader\'s width (float: 32 bits, as implemented through a 32-bit integer; double and SCPI_ParamNumber: 64 bits); results for out-of-range literals are not constrained by the property',
        'the sign of a zero result is not compared (-0 and +0 denote the same value)',
        'SCPI_ParamBool is exercised on the literals 0 and 1 only; SCPI_ParamToXxx are reached through the SCPI_ParamXxx readers',
        'digit strings are over {0,1,9,5} with 1..%s digits per mantissa part plus runs of 1..25 digits of 8-12 patterns (seeded); the cross product of all part lengths is not exhausted' % ('2 (3 in one part)' if tier == 'thorough' else '2')]
    w = lib.workdir(pid)
    exe = lib.build('drv_numeric', ['drv_numeric.c'])
    with concurrent.futures.ThreadPoolExecutor(max_workers=2) as ex:
        fm = ex.submit(run_mc, tier)
        fg = ex.submit(generate, tier, w)
        cases, total, gres = fg.result()
        mres = fm.result()
    mc_report(rep, mres)
    gen_report(rep, gres)
    rep.cov['cases_emitted'] = total
    if total:
        with open(cases) as f:
            seen = set()
            for ln in f:
                cs = json.loads(ln)
                key = (cs['grp'], cs['g'], cs.get('ws', False))
                if key not in seen:
                    seen.add(key)
                    rep.sample(dict(text=text_of(cs['lit']), case=cs), cap=8)
                if len(seen) >= 8:
                    break
        execute(rep, exe, cases, w, total)
        # a user unit table in small letters (SI spelling): the same suffixes, multipliers and base units must come out
        execute(rep, exe, cases, w, total, build='default+unit-table-in-small-letters', env={'DRV_UNITS_LOWER': '1'})
        # the selection of the conversion functions depends on the build: the custom-formatter build and strict ISO C
        for cfg in ('dtostre', 'iso'):
            execute(rep, lib.build('drv_numeric', ['drv_numeric.c'], config=cfg), cases, w, total, build=cfg)
    rep.cov['exhaustive'] = True
    rep.cov['explanation'] = ('exhaustive over every sign / point / exponent / white-space placement with the listed digit strings, every unit-table row x 4 letter cases x separators, '
                              'every special mnemonic form, nondecimal literals of every digit count; the specification lemmas are exhaustive within their string / shape / width bounds; sampled beyond (long digit runs)')
    shutil.rmtree(w, ignore_errors=True)
    return rep.finish()

def replay(pid, path):
    """Re-execute the cases stored in a replay file on the real library and print the comparison."""
    rep = lib.Report(pid, 'quick')
    w = lib.workdir(pid + 'r')
    exe = lib.build('drv_numeric', ['drv_numeric.c'])
    d = json.load(open(path))
    seen = set()
    with open(w + '/r.ndjson', 'w') as f:
        for v in d.get('violations', []):
            cs = v['detail'].get('case')
            if cs and tuple(cs['lit']) not in seen:
                seen.add(tuple(cs['lit']))
                f.write(json.dumps(cs, separators=(',', ':')) + '\n')
    if not seen:
        print('REPLAY: no case stored in', path)
        return 2
    dv = lib.run_driver(exe, ['run', w + '/r.ndjson', w + '/v.ndjson', 'verbose'])
    print(dv['stdout'].decode(errors='replace'))
    n = execute(rep, exe, w + '/r.ndjson', w)
    for k, dd in rep.viol:
        print('REPLAY mismatch', k, lib.short({x: y for x, y in dd.items() if x != 'case'}, 600))
    for k, (cnt, kf, dd) in rep.known_hits.items():
        print('REPLAY mismatch (known finding %s) %s x%d' % (kf.get('id'), k, cnt))
    shutil.rmtree(w, ignore_errors=True)
    return 1 if (rep.viol or rep.known_hits) else 0

MANIFEST = dict(engine='tlc-mc+tlc-gen+harness', ref='DESIGN.md section 6 C04',
   technique='TLC model checking of the lemmas of ScpiNumeric.tla + TLC-generated cases with expected results replayed on the real library by a C driver',
   text='TLC checks on all strings / shapes within bounds that the 488.2 decimal grammar and a left-to-right scanner agree (maximal munch), that Denote(literal) = Denote(normalised literal) with an idempotent normal form, the limb arithmetic and integer range predicates on a small-width model and the coherence of the frozen unit table; TLC then enumerates literals (every sign / point / exponent / white-space placement, digit runs 1..25, nondecimal literals of every digit count and at the type limits, every unit row x letter cases x separators, every special form) with exact expected limbs / unit / multiplier / tag, and a C driver executes each through SCPI_Input and SCPI_ParamInt32/UInt32/Int64/UInt64/Float/Double/Number/Bool and compares. Exhaustive over placements and table rows, sampled over digit strings.',
   note='Trusted: TLC, glibc strtod/strtof on the normalised literal for the final IEEE-754 rounding (the specification supplies language, normal form and exact denotation only), the frozen transcription of the unit table, the driver\'s projection of results to limbs. Out-of-range integer literals and nondecimal literals wider than the reader are not judged.')
