"""Hook traces of the repository's own unmodified test programs, validated against the specification (TVSuite)."""
import json, os, shutil, subprocess, tempfile
import lib

TESTS = ['test_parser', 'test_fifo', 'test_scpi_utils', 'test_lexer_parser']

def record(rep):
    """Build the four CUnit programs with hooks + tracer + ASan/UBSan in a scratch copy, run them, group events."""
    key = lib._hash_files(lib.repo_sources() + [os.path.join(lib.repo(), 'libscpi', 'test', t + '.c') for t in TESTS] + [os.path.join(lib.HARNESS, 'tracer.c'), os.path.abspath(__file__)])
    cpath = os.path.join(lib.ensure(os.path.join(lib.WORK, 'cache')), 'suite-' + key + '.json')
    if os.path.exists(cpath):
        try:
            c = json.load(open(cpath))
            for v in c['viol']:
                rep.violation(v[0], v[1])
            return c['recs'], c['events']
        except (ValueError, KeyError):
            pass
    nviol0 = len(rep.viol)
    d = tempfile.mkdtemp(prefix='verif-suite.')
    recs, passed, events = [], True, 0
    try:
        shutil.copytree(os.path.join(lib.repo(), 'libscpi'), d + '/libscpi', ignore=shutil.ignore_patterns('obj', 'dist', '*.o', '*.test'))
        src = ' '.join('src/%s' % s for s in lib.LIBSRC)
        for t in TESTS:
            cmd = ('clang -g -O1 -w -DSCPI_PARSER_VERIF -fsanitize=address,undefined -fno-sanitize-recover=undefined -Iinc -Isrc test/%s.c %s %s/tracer.c -lcunit -lm -o %s/%s'
                   % (t, src, lib.HARNESS, d, t))
            p = subprocess.run(cmd, shell=True, cwd=d + '/libscpi', stdout=subprocess.PIPE, stderr=subprocess.STDOUT)
            if p.returncode != 0:
                rep.broken.append('suite build failed for %s: %s' % (t, p.stdout.decode(errors='replace')[-600:]))
                continue
            env = dict(os.environ, SCPI_VERIF_TRACE='%s/%s.ndjson' % (d, t), **lib.ASAN_ENV)
            p = subprocess.run([d + '/' + t], cwd=d, stdout=subprocess.PIPE, stderr=subprocess.STDOUT, env=env, timeout=600)
            out = p.stdout.decode(errors='replace')
            if p.returncode != 0 or 'Sanitizer' in out or 'runtime error' in out:
                rep.violation('suite:sanitizer-or-failure', dict(test=t, rc=p.returncode, tail=out[-1500:]))
            ev = [json.loads(l) for l in open('%s/%s.ndjson' % (d, t))] if os.path.exists('%s/%s.ndjson' % (d, t)) else []
            events += len(ev)
            recs += group(ev)
    finally:
        shutil.rmtree(d, ignore_errors=True)
    if not rep.broken:
        with open(cpath + '.tmp%d' % os.getpid(), 'w') as f:
            json.dump(dict(recs=recs, events=events, viol=[[k, dd] for k, dd in rep.viol[nviol0:]]), f)
        os.replace(cpath + '.tmp%d' % os.getpid(), cpath)
    return recs, events

def group(ev):
    out, cur, unit, table, push = [], None, None, None, None
    tainted = 0
    for e in ev:
        k = e['e']
        if k == 'table':
            table = e['pats']
        elif k == 'regset' and cur is None and e['name'] == 0:
            tainted = 1            # test code writes the status byte directly between calls
        elif k == 'regset' and cur is None and e['name'] != 0:
            tainted = 0 if tainted == 0 else tainted
        elif k == 'parse_begin':
            cur = dict(k='msg', table=table or [], msg=e['data'], units=[], tail=[], flush=0, errs=[])
            unit = None
        elif k == 'error_push':
            push = dict(k='push', code=e['code'], esr_before=e['regs'][2], qn_before=e['qn'], qsize=e['qsize'])
            if cur is not None:
                cur['errs'].append(e['code'])
        elif k == 'error_push_end' and push is not None:
            push['esr_after'] = e['regs'][2]
            out.append(push)
            push = None
        elif cur is not None:
            if k == 'unit_begin':
                unit = dict(hdr=e['hdr'], idx=e['idx'], w=[])
                cur['units'].append(unit)
            elif k == 'unit_end':
                unit = None
            elif k == 'write':
                (unit['w'] if unit is not None else cur['tail']).extend(e['data'])
            elif k == 'flush':
                cur['flush'] += 1
            elif k == 'parse_end':
                cur.update(res=e['res'], regs=e['regs'], qn=e['qn'], tainted=tainted)
                out.append(cur)
                cur = None
    return out

def validate(rep, fields_prefix):
    """fields_prefix e.g. 'C06:'; returns (records, mismatches of this property)."""
    recs, events = record(rep)
    if not recs:
        rep.broken.append('no suite trace records')
        return 0
    w = lib.workdir('suite')
    p = w + '/suite.ndjson'
    full = dict(table=[], msg=[], units=[], tail=[], flush=0, errs=[], res=1, regs=[0] * 10, qn=0, tainted=0,
                code=0, esr_before=0, esr_after=0, qn_before=0, qsize=1)
    with open(p, 'w') as f:
        for r in recs:
            x = dict(full); x.update(r)
            f.write(json.dumps(x, separators=(',', ':')) + '\n')
    r = lib.tlc('TVSuite', 'TVSuite.cfg', workers=4, env={'TRACE': p}, timeout=900)
    rep.add_tlc('TVSuite', r, "validation of hook traces of the repository's own test programs")
    if r.distinct != len(recs) and not r.errors:
        rep.broken.append('TVSuite: %d states for %d records' % (r.distinct, len(recs)))
    n = 0
    for pr in r.prints:
        if pr[0] != 'MISMATCH':
            continue
        rel = [x for x in pr[2] if x.startswith(fields_prefix)]
        if rel:
            n += 1
            rec = recs[pr[1] - 1]
            rep.violation('suite-trace:' + '+'.join(sorted(rel)), dict(record={k: (bytes(v).decode('latin1') if k in ('msg', 'tail') else v) for k, v in rec.items() if k != 'table'}))
    rep.cov['suite_trace_events'] = events
    rep.cov['suite_trace_records'] = len(recs)
    rep.cov['traces_validated_against_impl'] += len(recs)
    shutil.rmtree(w, ignore_errors=True)
    return len(recs)
