"""C02: each unit runs exactly the first command matching its effective header."""
import json
import lib, parser_common as pc, suite_traces, composition

def nontrivial(sc):
    hs = sc['meta']['hdrs']
    return len(hs) >= 2 and any(h[0] not in (58, 42) for h in hs[1:])

def run(pid, tier):
    rep = lib.Report('C02', tier)
    rep.cov['rule'] = ('cases = messages of 1..N units (N = 3 quick, 4 thorough) over a 28-spelling header vocabulary (short/long form, case, leading colon, optional '
                       'keyword present/absent, numeric suffix, relative headers, undefined, common) against an 11-entry table with overlapping patterns; enumerated by TLC '
                       '(GenParser InitC02), executed on the real library, validated by TLC (TVParser); non-trivial = >= 2 units and a header completed from the path')
    rep.assumptions += ['hook traces of the four unmodified CUnit programs (ASan+UBSan build) are validated by TVSuite; direct writes of test code to the status byte suspend the C11 clause until the next message',
                        'handlers are scripted (queries answer their tag); table patterns satisfy the side condition of C03',
                        'the device-dependent text of -113 must contain the header as written or the effective header']
    n = 3 if tier == 'quick' else 4
    scen = pc.gen(rep, 'C02', dict(MaxUnits=n), nparts=14)
    obs = pc.execute(rep, scen, 'default', 'C02')
    pc.validate(rep, 'C02', scen, obs, 'C02-default')
    # a C89 build of the library (no stdbool: scpi_bool_t is an unsigned char, every truth value passes through it)
    obs = pc.execute(rep, scen[::5], 'c89', 'C02c89')
    pc.validate(rep, 'C02', scen[::5], obs, 'C02-c89')
    if tier == 'thorough':
        obs = pc.execute(rep, scen[::7], 'noinfo', 'C02n')
        pc.validate(rep, 'C02', scen[::7], obs, 'C02-noinfo', info=0)
    suite_traces.validate(rep, 'C02:')
    composition.validate(rep, 'C02', tier)   # random messages of a minimal instrument against Scpi.tla      # hook traces of the repository's own test programs
    nt = [s for s in scen if nontrivial(s)]
    rep.cov['distinct_nontrivial'] = len(nt)
    rep.cov['exhaustive'] = True
    for s in nt[:3]:
        rep.sample(dict(message=bytes(s['chunks'][0]).decode('latin1')))
    return rep.finish()

def replay(pid, path):
    d = json.load(open(path))
    for v in d.get('violations', [])[:20]:
        print('REPLAY', v['kind'], lib.short(v['detail'], 1000))
    return 1 if d.get('violations') else 0

MANIFEST = dict(engine='tlc-gen+harness+tlc-trace', ref='DESIGN.md section 6 C02',
   technique='TLC enumerates messages and checks path/first-match lemmas on ScpiParser.tla; executions of the real parser validated by TLC (TVParser)',
   text='All messages of 1..3 (quick) / 1..4 (thorough) units over the header vocabulary are enumerated by TLC, which checks on the specification that the incrementally threaded path equals the declarative effective-header definition; each message is executed on the real library and the recorded handler invocations (tag, composed header, pattern test, numeric suffixes), -113 errors and their text are validated by TLC against the specification. Exhaustive within the vocabulary.',
   note='Also validated: hook traces of the repository test programs (TVSuite) and random messages of a minimal instrument against the composition Scpi.tla (TVScpi). Trusted: TLC, the scripted-handler driver. Table and header vocabulary are fixed (one overlapping table); longer messages and other tables only through C08/C09 streams.')
