"""C19: numeric and channel lists decode entry by entry exactly as written.
M: TLC model-checks the lemmas of ScpiExpr (declarative grammar = left-to-right reading, NO_MORE
exactly from the entry count on, index monotonicity, capacity, denotation of numbers) on every
body of bounded alphabets (MCExpr).  V: the driver runs the real readers on every body up to a
length over the nine byte classes and on grammar-generated / damaged longer lists, at every
index 0..9 and every capacity 0..4; TLC judges every recorded result with ScpiExpr!Verdict
(TVExpr)."""
import json, os, re, sys, shutil, collections, concurrent.futures, threading
import lib

TV_SLOTS = threading.Semaphore(4)      # at most 4 TVExpr processes (of 4 workers) at a time
LOCK = threading.Lock()

NIDX, NCAP = 10, 5
QUERIES_PER_BODY = NIDX * (3 + NCAP)

# complaint of the specification -> kind label (the trigger is computed by TVExpr / ScpiExpr!ValLabel)
SPECIAL = {'value-int-exponent-ignored': 'int-entry-exponent-ignored',
           'value-blank-inside-number': 'double-entry-blank-inside-number'}
APINAME = {'tok': 'numlist-token', 'int': 'numlist-int', 'dbl': 'numlist-double', 'chan': 'chanlist'}
APIFUNC = {'tok': 'SCPI_ExprNumericListEntry', 'int': 'SCPI_ExprNumericListEntryInt',
           'dbl': 'SCPI_ExprNumericListEntryDouble', 'chan': 'SCPI_ExprChannelListEntry'}

def kind_of(api, complaint):
    return SPECIAL.get(complaint) or (APINAME.get(api, api) + ':' + complaint)

NUM = r'[+-]?(?:\d+\.?\d*|\.\d+)(?:[ \t]*[eE][ \t]*[+-]?\d+)?'
TRIVIAL = re.compile(r'@?' + NUM)

def nontrivial(body):
    """DESIGN.md 5.2: >= 2 entries, a range, >= 2 dimensions, or malformed = anything but one plain number"""
    return TRIVIAL.fullmatch(body) is None

def tla_prints(out):
    """PrintT values of a TLC run, including those TLC wraps over several lines."""
    res, buf, depth = [], None, 0
    for line in out.splitlines():
        s = line.strip()
        if buf is None:
            if not s.startswith('<<'):
                continue
            buf, depth = '', 0
        buf += ' ' + s
        depth += s.count('<<') - s.count('>>')
        if depth <= 0:
            v = lib.parse_tla(buf.strip())
            if v is not None and v and isinstance(v[0], str):
                res.append(v)
            buf = None
    return res

def pick(seq, i):
    return seq[min(i, len(seq) - 1)] if seq else None

def observed(rec, api, idx, cap):
    try:
        if api == 'chan':
            o = pick(pick(rec['C'], idx), cap)
            return dict(code=o[0], isRange=o[1], dims=o[2], values_from=o[3], values_to=o[4], errors=o[5], canaries_intact=o[6])
        o = pick(rec['N'], idx)[['tok', 'int', 'dbl'].index(api)]
        return dict(code=o[0], isRange=o[1], value_from=o[2], value_to=o[3], errors=o[4])
    except Exception:
        return None

def validate(rep, path, label, stats):
    """TVExpr over a record file in chunks of <= 60000 lines, <= 4 TLC processes of 4 workers."""
    lines = open(path).read().splitlines()
    n = len(lines)
    if n == 0:
        rep.broken.append('no records for ' + label)
        return 0
    # chunks of <= 60000 lines and <= ~12 MB (JSON loading dominates), at least 4 chunks for the 4 processes
    CH = max(1000, min(60000, (n + 3) // 4))
    chunks, cur, size = [], [], 0
    for ln in lines:
        if cur and (len(cur) >= CH or size + len(ln) > 12000000):
            chunks.append(cur)
            cur, size = [], 0
        cur.append(ln)
        size += len(ln)
    chunks.append(cur)
    def one(i):
        p = '%s.c%d' % (path, i)
        with open(p, 'w') as f:
            f.write('\n'.join(chunks[i]) + '\n')
        with TV_SLOTS:
            r = lib.tlc('TVExpr', 'TVExpr.cfg', workers=4, env={'TRACE': p}, xmx='3g', timeout=900)
        os.unlink(p)
        return i, r
    mism = 0
    with concurrent.futures.ThreadPoolExecutor(max_workers=4) as ex:
        results = list(ex.map(one, range(len(chunks))))
    with LOCK:
        for i, r in results:
            rep.add_tlc('TVExpr:%s:%d' % (label, i), r, 'every recorded query judged by ScpiExpr!Verdict')
            if r.distinct != 2 * len(chunks[i]) and not r.errors:
                rep.broken.append('TVExpr %s chunk %d: %d states for %d lines' % (label, i, r.distinct, len(chunks[i])))
            for p in tla_prints(r.out):
                if p[0] == 'UNJUDGED':
                    stats['unjudged'] += 1
                elif p[0] == 'NOTE':
                    stats['junk_after_entry_tolerated_bodies'] += 1
                elif p[0] == 'MISMATCH':
                    rec = json.loads(chunks[i][p[1] - 1])
                    body = bytes(rec['b']).decode('latin-1')
                    for api, complaint, idx, cap in p[2]:
                        mism += 1
                        rep.violation(kind_of(api, complaint),
                                      dict(source=label, expression='(' + body + ')', body=rec['b'], function=APIFUNC.get(api, api),
                                           index=idx, capacity=cap if api == 'chan' else None, complaint=complaint,
                                           observed=observed(rec, api, idx, cap)))
        rep.cov['traces_validated_against_impl'] += n
        rep.cov['evaluations'] += n
        stats['queries'] += n * QUERIES_PER_BODY
    return mism

def drive(rep, exe, args, out, label, after=()):
    d = lib.run_driver(exe, args + [out] + list(after), timeout=850)
    if d['rc'] != 0:
        err = d['stderr'].decode(errors='replace')
        q = re.search(r'CURRENT-QUERY: index=(-?\d+) capacity=(-?\d+) body=([\d ]*)', err)
        det = dict(source=label, rc=d['rc'], stderr=err[-1500:])
        if q:
            det.update(index=int(q.group(1)), capacity=int(q.group(2)), body=[int(x) for x in q.group(3).split()],
                       expression='(' + bytes(int(x) for x in q.group(3).split()).decode('latin-1') + ')')
        if 'AddressSanitizer' in err and 'overflow' in err and q and int(q.group(2)) >= 0:
            rep.violation('chanlist:stored-beyond-capacity', det)
        else:
            rep.violation('driver-failure', det)
        return None
    return json.loads(d['stdout'].decode().strip().splitlines()[-1])

def model_check(tier):
    """The M part; returns [(name, what, result)]."""
    if tier == 'quick':
        plan = [('full', 5, 8, 0), ('chan', 6, 4, 0), ('num', 4, 2, 0)]
    else:       # the nine-class space split by first byte into nine TLC processes
        plan = [('full', 6, 4, k) for k in range(1, 10)] + [('chan', 7, 4, 0), ('num', 6, 4, 0)]
    what = ('lemmas of ScpiExpr on every body <= %d bytes over alphabet %s%s: GreedyIsLongest, WellFormedAgree, SplitAgreesWithScan, '
            'Tolerance, NoIntroNoEntries, Monotone, NoMoreFromCount, Capacity, Exclusive, Denotation, VerdictAcceptsEntry, VerdictMalformed')
    def one(p):
        a, n, w, first = p
        r = lib.tlc('MCExpr', 'MCExpr.cfg', workers=w, env={'MAXLEN': n, 'ALPHA': a, 'FIRST': first}, timeout=900, xmx='4g')
        return 'MCExpr_%s_%d%s' % (a, n, '_first%d' % first if first else ''), what % (n, a, ' (first byte = class %d)' % first if first else ''), r
    with concurrent.futures.ThreadPoolExecutor(max_workers=3) as ex:
        return list(ex.map(one, plan))

def run(pid, tier):
    rep = lib.Report(pid, tier)
    stats = collections.Counter()
    seed = lib.seed()
    maxlen = 5 if tier == 'quick' else 6
    ngen = 6000 if tier == 'quick' else 30000
    rep.cov['rule'] = ('case = one expression body, queried through SCPI_Input + SCPI_Parameter at every index 0..9 with the three numeric-list '
                       'readers and, for every capacity 0..4, the channel-list reader (80 queries per body); bodies = all byte strings up to the '
                       'length bound over {digit, -, ., :, comma, !, @, blank, E} plus seeded grammar-generated lists (1..8 entries, 1..5 dimensions) '
                       'of which 40% are damaged by one or two byte edits; non-trivial = the body has >= 2 entries, a range, >= 2 dimensions or is '
                       'malformed (i.e. it is not a single plain number, with or without @); distinct = different body bytes')
    rep.cov['bounds'] = dict(exhaustive_body_length=maxlen, extra='all 7-byte bodies starting with @' if tier != 'quick' else None,
                             generated_lists=ngen, indexes='0..9', capacities='0..4', digit_seed=seed % 10)
    rep.assumptions += [
        'in content that is not a well-formed list the entries are those of the left-to-right reading: bytes that follow the requested entry and are '
        'not a comma are not examined, so OK for that entry is accepted (DESIGN.md C19 scouting note); such bodies are counted in junk_after_entry_tolerated_bodies',
        'int32 results are compared exactly for literals that denote an integer of at most 9 digits; for a literal with a fraction either neighbouring integer is accepted; '
        'doubles are compared through their 9 significant decimal digits ("%.8e") for literals of at most 9 significant digits and magnitude 1e-300..1e300; beyond that C04 applies',
        'for a result other than OK, and for array slots between the dimension count and the capacity, the content of the value arrays is not constrained',
        'an error queued by a call on a well-formed list is a mismatch; for malformed numeric lists only "OK is not allowed" is required (NO_MORE or ERROR both accepted)',
        'glibc printf("%.8e") is trusted to render the returned double']
    w = lib.workdir(pid)
    exe = lib.build('drv_expr', ['drv_expr.c'])
    pool = concurrent.futures.ThreadPoolExecutor(max_workers=4)
    mc = pool.submit(model_check, tier)

    def account(path, dedupe):
        seen = set()
        with open(path) as f:
            for ln in f:
                b = ln[ln.index('[') + 1:ln.index(']')]
                if dedupe:
                    if b in seen:
                        continue
                    seen.add(b)
                body = bytes(int(x) for x in b.split(',')).decode('latin-1') if b else ''
                if nontrivial(body):
                    with LOCK:
                        stats['nontrivial'] += 1
                        if stats['nontrivial'] % 9973 == 1:
                            rep.sample(json.loads(ln) if len(ln) < 3000 else dict(b=json.loads(ln)['b'], note='record too long to quote'))

    def job(label, args, after, dedupe):
        out = os.path.join(w, 'rec-%s.ndjson' % re.sub(r'\W', '_', label))
        info = drive(rep, exe, args, out, label, after)
        if info is None:
            return
        account(out, dedupe)
        m = validate(rep, out, label, stats)
        with LOCK:
            rep.cov['driver_runs'].append(dict(run=label, bodies=info['bodies'], mismatches_listed=m))
        os.unlink(out)

    jobs = [('gen', ['gen', seed, ngen], [], True), ('enum<=%d' % maxlen, ['enum', 0, maxlen, seed % 10], [], False)]
    if tier != 'quick':
        jobs.append(('enum7@', ['enum', 7, 7, seed % 10], [6], False))      # first byte class 6 = @
    for f in [pool.submit(job, *j) for j in jobs]:
        f.result()

    for name, what, r in mc.result():
        rep.add_tlc(name, r, what)
        if r.violations:
            rep.broken.append('specification lemma %s fails in %s' % (r.violations, name))
        elif not r.finished:
            rep.broken.append('%s did not finish' % name)
    pool.shutdown()
    if stats['unjudged']:
        rep.broken.append('%d bodies did not reach the command handler' % stats['unjudged'])
    rep.cov['distinct_nontrivial'] = stats['nontrivial']
    rep.cov['queries'] = stats['queries']
    rep.cov['junk_after_entry_tolerated_bodies'] = stats['junk_after_entry_tolerated_bodies']
    rep.cov['exhaustive'] = True
    rep.cov['explanation'] = ('exhaustive for every body up to %d bytes over the nine byte classes (one digit per position)%s, every index 0..9 and capacity 0..4; '
                              'sampled beyond (seeded generated lists)' % (maxlen, ' and every 7-byte body that starts with @' if tier != 'quick' else ''))
    shutil.rmtree(w, ignore_errors=True)
    return rep.finish()

def replay(pid, path):
    """Re-run the bodies of a replay file on the current tree and print what the specification says."""
    rep = lib.Report(pid, 'quick')
    stats = collections.Counter()
    w = lib.workdir(pid + 'r')
    d = json.load(open(path))
    bodies = []
    for v in d.get('violations', []):
        b = v['detail'].get('body')
        if b is not None and b not in bodies:
            bodies.append(b)
    with open(w + '/bodies.txt', 'w') as f:
        for b in bodies:
            f.write(' '.join(str(x) for x in b) + '\n')
    exe = lib.build('drv_expr', ['drv_expr.c'])
    rc = 0
    if drive(rep, exe, ['file', w + '/bodies.txt'], w + '/r.ndjson', 'replay') is not None:
        validate(rep, w + '/r.ndjson', 'replay', stats)
    for k, dd in rep.viol:
        print('REPLAY mismatch', k, lib.short(dd, 800))
        rc = 1
    for k, (n, kf, dd) in rep.known_hits.items():
        print('REPLAY known finding', k, n, lib.short(dd, 400))
    print('REPLAY %d bodies, %d mismatching' % (len(bodies), len(rep.viol) + sum(v[0] for v in rep.known_hits.values())))
    shutil.rmtree(w, ignore_errors=True)
    return rc

MANIFEST = dict(engine='tlc-mc+tlc-trace', ref='DESIGN.md section 6 C19',
   technique='TLC model checking of ScpiExpr.tla (grammar = reading, entry count, monotonicity, capacity, denotation) + TLC validation of every result the real list readers return',
   text='TLC checks the lemmas of ScpiExpr.tla on every body up to 5 (quick) / 6 (thorough) bytes over the nine byte classes and on longer bodies of two smaller alphabets; '
        'the real SCPI_ExprNumericListEntry/Int/Double and SCPI_ExprChannelListEntry are run through SCPI_Input on every body up to 5 / 6 bytes (thorough: plus all 7-byte bodies '
        'starting with @) and on seeded grammar-generated and damaged lists up to 8 entries x 5 dimensions, at every index 0..9 and capacity 0..4 (canaries + exact-size ASan blocks), '
        'and TLC judges every recorded result (code, range flag, dimension count, values, queued errors) with the specification. Exhaustive within those bounds, sampled beyond.',
   note='Trusted: TLC, the driver recording (popping the error queue, "%.8e" rendering of doubles), ASan. Bytes after the requested entry of a malformed body are tolerated '
        '(counted, not reported); numbers beyond 9 significant digits are left to C04; one digit per position in the exhaustive part.')
