"""C06: responses are framed: ';' between units, ',' between items, one terminator."""
import json
import lib, parser_common as pc, suite_traces, composition

def kind(rec, rel, hints):
    h = set(hints)
    if 'h:query-without-items' in h and not ({'h:failing-query-with-items'} & h):
        return 'framing:query-without-items'
    if 'h:failing-query-with-items' in h and 'h:query-without-items' not in h:
        return 'framing:failing-query-with-items'
    return None

def nontrivial(sc):
    hs = [bytes(h).decode() for h in sc['meta']['hdrs']]
    resp = [h for h in hs if h.endswith('?') and h not in ('Q0?', 'QP?')]
    return len(resp) >= 2 or any(h in ('QE?', 'QF?', 'Q0?', 'QP?', 'QX?') for h in hs)

def run(pid, tier):
    rep = lib.Report('C06', tier)
    rep.cov['rule'] = ('cases = messages of 1..N units (N = 3 quick, 4 thorough) over 14 scripted unit kinds (queries emitting 0..3 items of type int/text/bool/mnemonic/block/streamed block, '
                       'succeeding, failing silently, failing with own error, commands) after no / a responding / a failing previous message; enumerated by TLC, executed, validated by TLC; '
                       'non-trivial = >= 2 units respond, or a unit fails after emitting, or a query emits nothing')
    rep.assumptions += ['hook traces of the four unmodified CUnit programs (ASan+UBSan build) are validated by TVSuite; direct writes of test code to the status byte suspend the C11 clause until the next message',
                        'only query units emit result items (a non-query that emits output is outside the statement)']
    n = 3 if tier == 'quick' else 4
    scen = pc.gen(rep, 'C06', dict(MaxUnits=n), nparts=14)
    obs = pc.execute(rep, scen, 'default', 'C06')
    pc.validate(rep, 'C06', scen, obs, 'C06-default', kindfn=kind)
    # the flush callback is optional: without it (and without the other optional callbacks) the bytes written are the same
    sub = scen[::5]
    obs2 = pc.execute(rep, sub, 'default', 'C06nullcb', env={'DRV_NULL_CALLBACKS': '1'})
    pc.validate(rep, 'C06', sub, obs2, 'C06-null-callbacks', kindfn=kind, fields={'out'})
    # a write callback that reports 0 bytes (a transport that queues): bytes, terminator and flush as before
    sub3 = scen[2::7]
    obs3 = pc.execute(rep, sub3, 'default', 'C06write0', env={'DRV_WRITE_ZERO': '1'})
    pc.validate(rep, 'C06', sub3, obs3, 'C06-write-returns-0', kindfn=kind)
    # the counting view of the rule for responses of tens of thousands of items (TVMany): separators, terminator, flush
    w = lib.workdir('C06m')
    d = lib.run_driver(lib.build('drv_many', ['drv_many.c']), [w + '/many.ndjson'], timeout=300)
    if d['rc'] != 0:
        rep.violation('driver-failure', dict(what='drv_many', rc=d['rc'], stderr=d['stderr'].decode(errors='replace')[-2000:]))
    else:
        lines = open(w + '/many.ndjson').read().splitlines()
        r = lib.tlc('TVMany', 'TVMany.cfg', workers=2, env={'TRACE': w + '/many.ndjson'}, timeout=300, xmx='2g')
        rep.add_tlc('TVMany', r, 'counting view of the framing rule on messages whose units answer 1 .. 70000 items')
        if r.distinct != len(lines) and not r.errors:
            rep.broken.append('TVMany: %d states for %d lines' % (r.distinct, len(lines)))
        for pr in r.prints:
            if pr[0] == 'MISMATCH':
                rep.violation('framing:counts:' + '+'.join(sorted(pr[2])), dict(source='many-items', diff=sorted(pr[2]), record=json.loads(lines[pr[1] - 1])))
        rep.cov['traces_validated_against_impl'] += len(lines)
        rep.cov['evaluations'] += len(lines)
        rep.cov['driver_runs'].append(dict(mode='many items', **json.loads(d['stdout'].decode().strip().splitlines()[-1])))
    import shutil
    shutil.rmtree(w, ignore_errors=True)
    suite_traces.validate(rep, 'C06:')
    composition.validate(rep, 'C06', tier)   # random messages of a minimal instrument against Scpi.tla      # hook traces of the repository's own test programs
    nt = [s for s in scen if nontrivial(s)]
    rep.cov['distinct_nontrivial'] = len(nt)
    rep.cov['exhaustive'] = True
    for s in nt[:3]:
        rep.sample(dict(chunks=[bytes(c).decode('latin1') for c in s['chunks']]))
    return rep.finish()

def replay(pid, path):
    d = json.load(open(path))
    for v in d.get('violations', [])[:20]:
        print('REPLAY', v['kind'], lib.short(v['detail'], 1000))
    return 1 if d.get('violations') else 0

MANIFEST = dict(engine='tlc-gen+harness+tlc-trace', ref='DESIGN.md section 6 C06',
   technique='TLC enumerates messages and checks framing lemmas on ScpiParser.tla; output bytes and flushes of the real parser validated by TLC (TVParser)',
   text='All messages of 1..3 (quick) / 1..4 (thorough) units over 14 scripted unit kinds, each after three kinds of previous message, are enumerated by TLC; the bytes written and the flush count of the real library are compared by TLC with the declarative framing of the specification (response units joined by single semicolons, items by single commas, terminator and flush iff something responded).',
   note='Also validated: hook traces of the repository test programs (TVSuite) and random messages of a minimal instrument against the composition Scpi.tla (TVScpi). Trusted: TLC, capture of write/flush callbacks. Units of 1 .. 70 000 items are checked in the counting view of the rule (TVMany: digits, commas, semicolons, terminator, flush). Result item encodings other than int/bool/text/mnemonic/block are covered by C07/C16/C17; the framing of units whose first item comes from a based-integer result function (SCPI_ResultUInt32Base/UInt64Base, base 2/8/16) after another responding unit is NOT yet in the scenario alphabet (seeded change C06-j1 is not detected).')
