"""C13: the tokenizer recognises exactly the IEEE 488.2 program-data token syntax.
M: TLC model-checks, on class alphabets, that every recogniser of ScpiLexer equals the longest prefix of its
declarative grammar, stays inside its input, that the program-data alternatives exclude each other and that a
string is a well-formed unit exactly when the unit detector accepts all of it (MCLexer), and that the
grammar-generated long tokens are tokens of both readings (GenLexLong).
V: drv_lexer runs the real recognisers / parseProgramData / parseAllProgramData / detectProgramMessageUnit on every
string over per-recogniser class alphabets (exact-size allocations under ASan, three embeddings, a garbage
pre-filled output token), on seeded random longer strings and on the long tokens emitted by TLC; TVLexer validates
every recorded result against ScpiLexer."""
import json, os, re, shutil, concurrent.futures, collections
import lib

NAMES = ['WhiteSpace', 'ProgramHeader', 'CharacterProgramData', 'DecimalNumericProgramData', 'SuffixProgramData',
         'NondecimalNumericData', 'StringProgramData', 'ArbitraryBlockProgramData', 'ProgramExpression', 'Comma',
         'Semicolon', 'Colon', 'NewLine', 'SpecificCharacter', 'parseProgramData', 'parseAllProgramData',
         'detectProgramMessageUnit']
MODES = {0: 'exact buffer, cursor 0', 1: 'exact buffer, cursor 1', 2: 'length limit inside a longer buffer', 3: 'garbage pre-filled output token'}
ALL_IDS = list(range(17))

# name, alphabet (class representatives), N quick, N thorough, recogniser ids, MC cfg (or None)
GROUPS = [
    ('ws',    [32, 9, 65, 10],                                   6, 8, [0]),
    ('hdr',   [42, 58, 63, 65, 49, 95, 32],                      5, 6, [1]),
    ('chr',   [65, 49, 95, 32],                                  6, 8, [2]),
    ('dec',   [49, 43, 46, 69, 32, 65, 197],                     5, 7, [3]),      # 197: 'E' with bit 7 set
    ('suf',   [47, 65, 45, 49, 46, 32],                          5, 7, [4]),
    ('ndc',   [35, 72, 81, 66, 49, 50, 55, 56, 57, 65, 71, 0, 200, 209], 4, 5, [5, 7]),      # 200, 209: 'H', 'Q' with bit 7 set
    ('str',   [34, 39, 65, 128],                                 6, 8, [6]),
    ('blk',   [35, 48, 49, 50, 65],                              6, 7, [7, 5]),
    ('exp',   [40, 41, 65, 34, 10],                              5, 7, [8]),
    ('sep',   [44, 59, 58, 13, 10, 65, 64],                      4, 5, [9, 10, 11, 12, 13]),
    ('pd',    [65, 49, 35, 72, 34, 40, 41, 44, 46, 47, 32, 69],  4, 5, [14, 15]),
    ('unit',  [65, 49, 35, 34, 40, 41, 44, 59, 58, 42, 63, 32, 10], 4, 5, [16, 1]),
    ('unit2', [65, 49, 69, 46, 47, 45, 44, 59, 32, 13, 10, 39],  4, 5, [16, 14, 15]),
    ('unit3', [65, 49, 69, 46, 32, 47],                          5, 7, [16, 14, 15]),
    ('all',   [65, 69, 72, 49, 50, 35, 34, 39, 40, 41, 43, 46, 47, 32, 128, 0, 95], 3, 4, ALL_IDS),
]
# MC bounds (quick, thorough) per cfg; the M part uses the same alphabets
MC = [('ws', 6, 8), ('hdr', 5, 6), ('chr', 6, 8), ('dec', 5, 6), ('suf', 5, 6), ('ndc', 4, 5), ('str', 6, 7), ('blk', 6, 7),
      ('exp', 5, 7), ('sep', 4, 5), ('pd', 4, 5), ('unit', 4, 5), ('unit2', 4, 5), ('unit3', 6, 7)]

KNOWN_DEVS = ['suffix-bare-slash', 'decimal-ws-uncounted']

def hexs(a):
    return ''.join('%02x' % x for x in a)

def kinds_of(rec, m, rid, label, ok0):
    """kind label(s) of one mismatching cell"""
    if m == 3 and ok0:
        # the same call with a clean output token conforms: the result depends on what the token held before
        if rid == 8 and (not rec['b'] or rec['b'][0] != 40):
            return ['expr-stale-token-len']
        return ['stale-token:' + NAMES[rid]]
    if label != 'unexplained':
        return label.split('+')
    return ['lex:' + NAMES[rid]]

def validate(rep, path, label, chunk=30000, par=4):
    """TVLexer over a record file (chunked, <=4 TLC processes x 4 workers); classify mismatches."""
    lines = open(path).read().splitlines()
    n = len(lines)
    if n == 0:
        rep.broken.append('no records for ' + label)
        return 0
    chunks = [lines[i:i + chunk] for i in range(0, n, chunk)]
    def one(i):
        p = '%s.c%d' % (path, i)
        with open(p, 'w') as f:
            f.write('\n'.join(chunks[i]) + '\n')
        r = lib.tlc('TVLexer', 'TVLexer.cfg', workers=4, env={'TRACE': p}, xmx='3g', timeout=850)
        os.unlink(p)
        return i, r
    mism = 0
    with concurrent.futures.ThreadPoolExecutor(max_workers=par) as ex:
        for i, r in ex.map(one, range(len(chunks))):
            rep.add_tlc('TVLexer:%s:%d' % (label, i), r, 'validation of recorded recogniser results against ScpiLexer')
            if r.distinct != len(chunks[i]) and not r.errors:
                rep.broken.append('TVLexer %s chunk %d: %d states for %d lines' % (label, i, r.distinct, len(chunks[i])))
            bad = collections.defaultdict(list)
            for p in r.prints:
                if p[0] == 'MISMATCH':
                    bad[p[1]].append(p[2:])
            for ln, cells in bad.items():
                rec = json.loads(chunks[i][ln - 1])
                bad0 = {c[1] for c in cells if c[0] == 0}
                for m, rid, lab in cells:
                    row = [x for x in rec['r'] if x[0] == m][0]
                    obs = row[2][rec['k'].index(rid)]
                    for kind in kinds_of(rec, m, rid, lab, rid not in bad0):
                        mism += 1
                        byk = rep.cov.setdefault('mismatches_by_kind', {})
                        byk[kind] = byk.get(kind, 0) + 1
                        if byk[kind] > 60:      # full detail for the first 60 cases of a kind, the rest is counted
                            continue
                        rep.violation(kind, dict(source=label, recogniser=NAMES[rid], embedding=MODES[m], cursor=row[1],
                                                 input=bytes(rec['b']).decode('latin-1'), observed=obs, why=lab,
                                                 record=dict(g=rec['g'], b=rec['b'], k=[rid], r=[[m, row[1], [obs]]])))
    rep.cov['traces_validated_against_impl'] += n
    return mism

def gen_long(rep, w, tier):
    """TLC emits grammar-generated long tokens (and checks them against both readings of the grammar)."""
    out = w + '/long.ndjson'
    r = lib.tlc('GenLexLong', 'GenLexLong_%s.cfg' % tier, workers=1, env={'OUT': out}, timeout=600, xmx='3g')
    rep.add_tlc('GenLexLong', r, 'emission of grammar-generated long tokens; LongOk: each is a token of its grammar and of its recogniser')
    if r.violations:
        rep.broken.append('specification rejects its own generated tokens: %s' % r.violations)
    files = {}
    if r.rc != 0 or not os.path.exists(out):
        rep.broken.append('GenLexLong failed')
        return files
    for ln in open(out):
        d = json.loads(ln)
        files.setdefault(d['g'], open('%s/long_%s.hex' % (w, d['g']), 'w')).write(hexs(d['b']) + '\n')
    for f in files.values():
        f.close()
    os.unlink(out)
    return {g: f.name for g, f in files.items()}

LONG_IDS = {'lhdr': [1, 16], 'ldec': [3, 14, 15], 'lsuf': [4, 14], 'lndc': [5, 14], 'lstr': [6, 14], 'lblk': [7, 14, 16], 'lexp': [8, 14], 'lunit': [16, 15]}

def run(pid, tier):
    rep = lib.Report(pid, tier)
    q = tier == 'quick'
    w = lib.workdir(pid)
    exe = lib.build('drv_lexer', ['drv_lexer.c'])
    # ---- M: model checking of the specification (runs beside the V pipeline)
    def mc(a):
        name, nq, nt = a
        return name, lib.tlc('MCLexer', 'MCLexer_%s_%s.cfg' % (name, tier), workers=4, timeout=850, xmx='3g')
    mcpool = concurrent.futures.ThreadPoolExecutor(max_workers=2)
    mcjobs = [mcpool.submit(mc, a) for a in sorted(MC, key=lambda a: -a[1 if q else 2])]
    # ---- plan: enumerated and random groups now, TLC-generated long tokens when the generator is done
    plan = []
    for name, alpha, nq, nt, ids in GROUPS:
        plan.append((name, 'enum', alpha, 0, nq if q else nt, ids, 0, '-'))
    nrand = 1000 if q else 10000
    for name, alpha, nq, nt, ids in GROUPS:
        n = nq if q else nt
        plan.append(('r' + name, 'rand', alpha, n + 1, n + 8, ids, nrand, '-'))
    def write_plan(path, pl):
        with open(path, 'w') as f:
            for name, kind, alpha, lo, hi, ids, cnt, fp in pl:
                f.write('%s %s %s %d %d %s %d %s\n' % (name, kind, hexs(alpha), lo, hi, ','.join(map(str, ids)), cnt, fp))
    write_plan(w + '/plan.txt', plan)
    stats = collections.Counter()
    def run_drivers(planfile, pl, idxs, outpath, exe=exe, tag=''):
        def drv(i):
            return i, lib.run_driver(exe, [planfile, i, lib.seed(), '%s/g%s%d.ndjson' % (w, tag, i)], timeout=800)
        ok_files = []
        with concurrent.futures.ThreadPoolExecutor(max_workers=6) as ex:
            for i, d in ex.map(drv, idxs):
                if d['rc'] != 0:
                    err = d['stderr'].decode(errors='replace')
                    case = [l for l in err.splitlines() if l.startswith('DRV-')]
                    det = dict(group=pl[i][0], rc=d['rc'], case=case[:3], stderr=err[-1500:])
                    mm = re.search(r'DRV-CASE id=(\d+) m=(\d+) hex=([0-9a-f]*)', err)
                    if mm:
                        det['recogniser'] = NAMES[int(mm.group(1))]
                        det['embedding'] = MODES[int(mm.group(2))]
                        det['input'] = bytes.fromhex(mm.group(3)).decode('latin-1')
                        det['record'] = dict(g='asan', b=list(bytes.fromhex(mm.group(3))), k=[int(mm.group(1))], r=[])
                    rep.violation('sanitizer-report' if d['rc'] in (97, 98) else 'driver-failure', det)
                    continue
                st = json.loads(d['stdout'].decode().strip().splitlines()[-1])
                if tag:
                    st['build'] = tag
                rep.cov['driver_runs'].append(st)
                for k in ('strings', 'evaluations', 'nontrivial', 'nt_prefix', 'nt_rollback', 'nt_end'):
                    stats[k] += st[k]
                ok_files.append('%s/g%s%d.ndjson' % (w, tag, i))
        with open(outpath, 'w') as o:
            for p in ok_files:
                with open(p) as f:
                    shutil.copyfileobj(f, o)
                os.unlink(p)
    def long_pipeline():
        longs = gen_long(rep, w, tier)
        pl = list(plan)
        for g, path in sorted(longs.items()):
            pl.append((g, 'file', [65], 0, 1090, LONG_IDS.get(g, [14, 16]), 0, path))
        write_plan(w + '/plan2.txt', pl)
        run_drivers(w + '/plan2.txt', pl, range(len(plan), len(pl)), w + '/long_rec.ndjson')
        # the same long tokens in a C89 build of the library (no stdbool: scpi_bool_t is an unsigned char there)
        run_drivers(w + '/plan2.txt', pl, range(len(plan), len(pl)), w + '/long_rec89.ndjson', exe=lib.build('drv_lexer', ['drv_lexer.c'], config='c89'), tag='c89')
        # strings with bytes above 127 and everything else of the 'str' / 'all' groups where plain char is unsigned (ARM, PowerPC)
        idx_u = [i for i, g in enumerate(plan) if g[0] in ('str', 'all', 'rstr')]
        run_drivers(w + '/plan.txt', plan, idx_u, w + '/uchar_rec.ndjson', exe=lib.build('drv_lexer', ['drv_lexer.c'], config='uchar'), tag='uchar')
        return len(pl) - len(plan)
    lpool = concurrent.futures.ThreadPoolExecutor(max_workers=1)
    ljob = lpool.submit(long_pipeline)
    # ---- V: run the real code, validate every record
    run_drivers(w + '/plan.txt', plan, range(len(plan)), w + '/all.ndjson')
    validate(rep, w + '/all.ndjson', 'records', par=3)
    if ljob.result() > 0:
        validate(rep, w + '/long_rec.ndjson', 'long-tokens', par=3)
        validate(rep, w + '/long_rec89.ndjson', 'long-tokens-c89', par=3)
        validate(rep, w + '/uchar_rec.ndjson', 'unsigned-char-build', par=3)
    lpool.shutdown()
    for j in mcjobs:
        name, r = j.result()
        rep.add_tlc('MCLexer_' + name, r, 'model checking of ScpiLexer: recogniser = longest prefix of its grammar, cursor/extent bounds, exclusive alternatives, unit grammar')
        if r.violations:
            rep.broken.append('ScpiLexer violates its own lemma in MCLexer_%s: %s' % (name, r.violations))
    mcpool.shutdown()
    with open(w + '/all.ndjson') as f:
        for i, ln in enumerate(f):
            if i in (700, 40000, 90000):
                rep.sample(json.loads(ln))
            if i == 0:
                first = json.loads(ln)
    if not rep.cov['samples']:
        rep.sample(first)
    rep.cov['evaluations'] = stats['evaluations']
    rep.cov['distinct_nontrivial'] = stats['nontrivial']
    rep.cov['nontrivial_breakdown'] = dict(proper_prefix=stats['nt_prefix'], fails_after_consuming=stats['nt_rollback'], reaches_end_of_input=stats['nt_end'])
    rep.cov['strings'] = stats['strings']
    rep.cov['bounds'] = dict(tier=tier, groups=[dict(group=g[0], alphabet=g[1], max_len=(g[2] if q else g[3]), recognisers=[NAMES[i] for i in g[4]]) for g in GROUPS],
                             random_per_group=nrand, model_checking=[dict(cfg=m[0], max_len=(m[1] if q else m[2])) for m in MC])
    rep.cov['rule'] = ('cases = (recogniser, byte string) executions of the real functions: every string up to the listed length over the class alphabet of the group '
                       '(one representative per character class the recogniser distinguishes plus outsiders), each in four embeddings (exact-size buffer cursor 0 / cursor 1, '
                       'length limit inside a longer buffer, garbage pre-filled token), seeded random strings up to 8 bytes longer and long tokens emitted by TLC from the grammar (incl. runs of 255 / 256 / 257 / 512 characters; also in a C89 build of the library); '
                       'non-trivial = in the exact-buffer cursor-0 run the recogniser consumes a non-empty proper prefix, or reports nothing although the first byte can start its token '
                       '(it consumed and rolled back), or its token/cursor reaches the end of the input; distinct = different (recogniser, string), a string of a later group that an '
                       'earlier group already enumerates for the same recogniser is not counted again; counted by the driver')
    rep.cov['exhaustive'] = True
    rep.cov['explanation'] = 'exhaustive over the listed class alphabets and lengths (per-recogniser alphabets instead of one 28-class alphabet to length 6-7), sampled beyond'
    rep.assumptions += [
        'white space is blank and tab only (the library\'s documented class); IEEE 488.2 also counts the other control characters 0-8, 11-31 as white space',
        'relaxed suffix syntax /?A+-?D?((/|.)A*-?D?)* (superset of the strict 488.2 syntax, checked), definite-length blocks only, flat expressions, CR / LF / CR LF as terminator, mnemonics of any length',
        'a string token ends at a delimiter that is not followed by another delimiter (two adjacent delimiters are an inserted delimiter, 488.2 7.7.5.2)',
        'header recogniser: exact when the longest header-like prefix is a complete header; for dangling "*", ":" and trailing colon the result may be nothing, the longest complete header, or an INCOMPLETE type whose extent is a header-like prefix',
        'a block cut by the end of input: nothing, or nothing with the cursor moved to the end of input (the library\'s documented "wait for more input")',
        'units that are not well formed: only "not reported as complete header with a valid parameter count" and the bounds are checked (consumed bytes for resynchronisation are not specified)',
        'parameter count: exact for a valid list; when no element of the list was consumed (no data, or the first element fails / is cut by the end of input) 0 or -1 are both accepted; when an element was consumed and a later one fails the count must be negative',
        'pointer arithmetic past the buffer inside scpiLex_ArbitraryBlockProgramData (pos += length before the bounds test) is not observable by ASan/UBSan and not judged',
    ]
    shutil.rmtree(w, ignore_errors=True)
    return rep.finish()

def replay(pid, path):
    """Re-validate the records stored in a replay file (and re-run the real code on their inputs)."""
    rep = lib.Report(pid, 'quick')
    w = lib.workdir(pid + 'r')
    d = json.load(open(path))
    exe = lib.build('drv_lexer', ['drv_lexer.c'])
    seen = set()
    byid = collections.defaultdict(list)
    for v in d.get('violations', []):
        rec = v['detail'].get('record')
        if rec and (tuple(rec['b']), rec['k'][0]) not in seen:
            seen.add((tuple(rec['b']), rec['k'][0]))
            byid[rec['k'][0]].append(rec['b'])
    with open(w + '/plan.txt', 'w') as pl:
        for rid, bs in sorted(byid.items()):
            with open('%s/i%d.hex' % (w, rid), 'w') as g:
                for b in bs:
                    g.write(hexs(b) + '\n')
            pl.write('replay file 41 0 190 %d 0 %s/i%d.hex\n' % (rid, w, rid))
    with open(w + '/r.ndjson', 'w') as o:
        for i in range(len(byid)):
            dr = lib.run_driver(exe, [w + '/plan.txt', i, 1, w + '/o.ndjson'])
            if dr['rc'] != 0:
                print('REPLAY driver failure rc=%d %s' % (dr['rc'], dr['stderr'].decode(errors='replace')[-800:]))
                shutil.rmtree(w, ignore_errors=True)
                return 1
            o.write(open(w + '/o.ndjson').read())
    if seen:
        validate(rep, w + '/r.ndjson', 'replay')
    for k, dd in rep.viol:
        print('REPLAY mismatch', k, lib.short(dd, 700))
    for k, (n, kf, dd) in rep.known_hits.items():
        print('REPLAY known-finding', k, lib.short(dd, 700))
    shutil.rmtree(w, ignore_errors=True)
    return 1 if rep.viol else 0

MANIFEST = dict(engine='tlc-mc+harness+tlc-trace', ref='DESIGN.md section 6 C13',
   technique='TLC model checking of ScpiLexer.tla (recogniser = longest prefix of its declarative grammar) + TLC validation of every result the real recognisers report on enumerated strings',
   text='ScpiLexer.tla gives every IEEE 488.2 section 7 token twice, as a declarative grammar and as a longest-prefix function of (buffer, cursor); TLC checks on class alphabets that they agree at every position, '
        'that cursor and extent stay inside the input, that the program-data alternatives exclude each other and that a string is a well-formed unit exactly when the detector accepts it. '
        'drv_lexer runs the real scpiLex_* functions, parseProgramData, parseAllProgramData and detectProgramMessageUnit on every string up to length 4-6 (quick) / 5-8 (thorough) over per-recogniser class alphabets '
        'in exact-size allocations under ASan (cursor 0 and 1, length-limited, garbage pre-filled token), on seeded random longer strings and on TLC-generated long tokens; TLC validates each recorded '
        '{return value, type, offset, length, cursor} against the specification. Exhaustive within the alphabets and lengths, sampled beyond.',
   note='Trusted: TLC, the driver\'s projection of token pointers to offsets. Class-representative alphabets per recogniser. Relational (not exact) for INCOMPLETE header forms, blocks cut by the end of input and malformed units; white space = blank/tab.')
