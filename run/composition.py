"""Composition check shared by several properties: a minimal instrument (full command table of ieee488.c /
minimal.c) driven by random program messages on the real library, every message validated by TLC against
Scpi.tla (parser + status + queue + library handlers); Scpi.tla itself is model-checked (MCScpi)."""
import json, os, shutil, concurrent.futures
import lib

FIELDS = {
    'C02': {'errs', 'out', 'ret'},
    'C05': {'errs', 'ret', 'malformed-without-command-error'},
    'C06': {'out'},
    'C10': {'queue'},
    'C11': {'STB', 'SRE', 'ESE', 'OPERE', 'QUESE', 'OPERC', 'QUESC', 'queue'},
    'C12': {'ESR', 'OPER', 'QUES', 'srq-missing', 'srq-without-mss'},
}

def validate(rep, pid, tier):
    r = lib.tlc('MCScpi', 'MCScpi.cfg' if tier == 'quick' else 'MCScpi_t.cfg', timeout=1500, xmx='8g')
    rep.add_tlc('MCScpi', r, 'model checking of the composition Scpi.tla: StbCoherent, QueueBounded, Framed, SrqIffRise over histories of library-command messages')
    if r.violations:
        rep.broken.append('composition violates %s (MCScpi)' % r.violations)
    exe = lib.build('drv_scpi', ['drv_scpi.c'], config='noinfo')
    w = lib.workdir('comp' + pid)
    n = 6000 if tier == 'quick' else 60000
    nm = 0
    for cap in (1, 2, 4):
        p = '%s/s%d.ndjson' % (w, cap)
        d = lib.run_driver(exe, [lib.seed() * 13 + cap, n // 3, cap, p], timeout=900)
        if d['rc'] != 0 or d['timeout']:
            rep.violation('composition:driver-failure', dict(rc=d['rc'], stderr=d['stderr'].decode(errors='replace')[-2500:]))
            continue
        lines = open(p).read().splitlines()
        chunks = [lines[i:i + 10000] for i in range(0, len(lines), 10000)]
        def one(i):
            cp = '%s.c%d' % (p, i)
            with open(cp, 'w') as f:
                f.write('\n'.join(chunks[i]) + '\n')
            rr = lib.tlc('TVScpi', 'TVScpi.cfg', workers=4, env={'TRACE': cp}, xmx='3g', timeout=1200)
            os.unlink(cp)
            return i, rr
        with concurrent.futures.ThreadPoolExecutor(max_workers=4) as ex:
            for i, rr in ex.map(one, range(len(chunks))):
                rep.add_tlc('TVScpi:cap%d:%d' % (cap, i), rr, 'validation of recorded messages of a minimal instrument against Scpi.tla')
                if rr.distinct != len(chunks[i]) and not rr.errors:
                    rep.broken.append('TVScpi cap %d chunk %d: %d states for %d records' % (cap, i, rr.distinct, len(chunks[i])))
                for pr in rr.prints:
                    if pr[0] == 'UNJUDGED':
                        rep.cov['composition_unjudged'] = rep.cov.get('composition_unjudged', 0) + 1
                    elif pr[0] == 'MISMATCH':
                        rel = set(pr[2]) & FIELDS[pid]
                        if rel:
                            nm += 1
                            rec = json.loads(chunks[i][pr[1] - 1])
                            rec['msg'] = bytes(rec['msg']).decode('latin1'); rec['out'] = bytes(rec['out']).decode('latin1')
                            rep.violation('composition:' + '+'.join(sorted(rel)), dict(diff=sorted(pr[2]), record=rec))
        rep.cov['traces_validated_against_impl'] += len(lines)
        rep.cov['composition_messages'] = rep.cov.get('composition_messages', 0) + len(lines)
    shutil.rmtree(w, ignore_errors=True)
    return nm
