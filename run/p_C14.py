from p_format import run, replay, MANIFEST_C14 as MANIFEST
