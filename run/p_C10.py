from p_errq import run, replay, MANIFEST_C10 as MANIFEST
