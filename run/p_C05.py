"""C05: wrong, missing or surplus parameters raise the right error, never mis-delivered."""
import json
import lib, parser_common as pc, suite_traces, composition

import re
INTK = ('i32', 'u32', 'i64', 'u64')
def kind(rec, rel, hints):
    msg = bytes(rec['chunks'][0]).decode('latin1')
    if 'malformed-unit-no-command-error' in rel and 'h:list-invalid-after-item-then-terminator' in hints:
        return 'malformed-list-after-item-executed'
    if rel <= {'errs', 'params.ok', 'params.count', 'ret'}:
        ops = rec['scripts'][0][3]
        items = [x.strip() for x in msg[3:].strip().split(',')] if msg[3:].strip() else []
        for i, o in enumerate(ops):
            if i < len(items) and o[1] in INTK and re.fullmatch(r'[+-]?\.[0-9]+', items[i]):
                return 'int-reader-literal-without-integer-digits'
    return None

def nontrivial(sc):
    msg = bytes(sc['chunks'][0]).decode('latin1')
    if len(sc['scripts']) > 1:
        return b';' in bytes(sc['chunks'][0])
    ops = sc['scripts'][0][3]
    body = msg[3:].strip()
    nitems = 0 if not body else body.count(',') + 1
    return nitems != len(ops) or ' ,' in msg or '\t,' in msg or any(x in msg for x in ('V', 'XYZ', '"', "'", '#', '(', 'FOO', '@'))

def run(pid, tier):
    rep = lib.Report('C05', tier)
    rep.cov['rule'] = ('cases = one unit CMD <list> against a handler signature: signatures of 0..S typed readers (11 kinds x mandatory/optional), lists of 0..L items from 22 item '
                       'texts (decimal, negative, real, with known / unknown suffix, #H, ON/OFF, choice names, unknown mnemonic, both string kinds, block, expression, exponent form) '
                       'with 3 white-space variants around commas, plus lists ending in a malformed fragment; (S,L) = (1,2)+(2,1) quick, (2,2)+(1,3) thorough; plus array readers of 6 kinds (capacity 0..3, mandatory or not, a reader before / after) on the same lists; enumerated by TLC, '
                       'executed, validated by TLC; non-trivial = list length differs from the signature, white space before a comma, or a non-plain-decimal item')
    rep.assumptions += ['hook traces of the four unmodified CUnit programs (ASan+UBSan build) are validated by TVSuite; direct writes of test code to the status byte suspend the C11 clause until the next message',
                        'values of numeric items are compared only for plain decimal integers (C04 covers decoding)',
                        'a Boolean reader given a number with suffix may report -104 or -138 (both fit the statement)',
                        'for text that is not well-formed program data only "a command error is queued and the input call fails" is required']
    plans = [dict(MaxSig=1, MaxItems=2, WsVariants='{0, 2}'), dict(MaxSig=2, MaxItems=1, WsVariants='{0}'),
             dict(MaxSig=2, MaxItems=2, WsVariants='{1}', KindIdx='{1, 10, 12}')]
    if tier == 'thorough':
        plans = [dict(MaxSig=2, MaxItems=2, WsVariants='{0, 1}'), dict(MaxSig=1, MaxItems=3, WsVariants='{0, 2}')]
    scen = []
    seen = set()
    for p in plans:
        for s in pc.gen(rep, 'C05', p, nparts=14, timeout=1500):
            k = json.dumps([s['scripts'], s['chunks']])
            if k not in seen:
                seen.add(k)
                scen.append(s)
    for s in pc.gen(rep, 'C05m', dict(MaxUnits=3), nparts=5, timeout=900):
        scen.append(s)
    # array readers SCPI_ParamArray<kind>: [reader] array(n, mandatory) [reader] against lists of items
    aplans = [dict(MaxSig=1, MaxItems=2, KindIdx='{1, 4, 6}', ItemIdx='{1, 2, 3, 5, 7, 8, 13, 17, 20}')]
    if tier == 'thorough':
        aplans = [dict(MaxSig=2, MaxItems=2), dict(MaxSig=0, MaxItems=3, ItemIdx='{1, 2, 3, 5, 7, 8, 13, 17, 20}')]
    for p in aplans:
        for s in pc.gen(rep, 'C05a', p, nparts=12, timeout=1500):
            k = json.dumps([s['scripts'], s['chunks']])
            if k not in seen:
                seen.add(k)
                scen.append(s)
    obs = pc.execute(rep, scen, 'default', 'C05')
    pc.validate(rep, 'C05', scen, obs, 'C05-default', kindfn=kind)
    # the error callback is optional: without it the same errors must be queued (they are read from the queue after each call)
    sub = [i for i in range(len(scen)) if i % 6 == 0 or len(scen[i]['scripts']) > 1]
    obs2 = pc.execute(rep, [scen[i] for i in sub], 'default', 'C05noerrcb', env={'DRV_NULL_ERROR': '1'})
    pc.validate(rep, 'C05', [scen[i] for i in sub], obs2, 'C05-no-error-callback', kindfn=kind)
    # a C89 build of the library (no stdbool: scpi_bool_t is an unsigned char, every truth value passes through it)
    sub89 = [i for i in range(len(scen)) if i % 5 == 1]
    obs3 = pc.execute(rep, [scen[i] for i in sub89], 'c89', 'C05c89')
    pc.validate(rep, 'C05', [scen[i] for i in sub89], obs3, 'C05-c89', kindfn=kind)
    suite_traces.validate(rep, 'C05:')
    composition.validate(rep, 'C05', tier)   # random messages of a minimal instrument against Scpi.tla      # hook traces of the repository's own test programs
    nt = [s for s in scen if nontrivial(s)]
    rep.cov['distinct_nontrivial'] = len(nt)
    rep.cov['exhaustive'] = True
    for s in nt[:3]:
        rep.sample(dict(message=bytes(s['chunks'][0]).decode('latin1'), signature=s['scripts'][0][3]))
    return rep.finish()

def replay(pid, path):
    d = json.load(open(path))
    for v in d.get('violations', [])[:20]:
        print('REPLAY', v['kind'], lib.short(v['detail'], 1000))
    return 1 if d.get('violations') else 0

MANIFEST = dict(engine='tlc-gen+harness+tlc-trace', ref='DESIGN.md section 6 C05',
   technique='TLC enumerates (signature, parameter list) pairs over ScpiParser.tla; reader outcomes, queued errors and return values of the real parser validated by TLC (TVParser)',
   text='TLC enumerates handler signatures against parameter lists (bounded exhaustively as stated in the evidence rule), the real library executes each, and TLC validates per reader call success / delivered bytes, the sequence of error callbacks (-109, -108, -104, -138, -131, -224, -200), and the value returned by the input call against the specification.',
   note='Also validated: hook traces of the repository test programs (TVSuite) and random messages of a minimal instrument against the composition Scpi.tla (TVScpi). Trusted: TLC, scripted-handler driver. SCPI_ParamNumber and array readers are not part of this check yet.')
