"""C16: floating-point text keeps the promised number of significant digits.
M: TLC checks the lemmas of ScpiGFormat (half-unit bound, re-parse, idempotence, no digit lost, style) on all
   short decimal expansions (MCGFormat).
V: harness/drv_gfmt.c formats structured and seeded random doubles / floats with the real library in the printf
   build and in the USE_CUSTOM_DTOSTRE build and logs the exact decimal expansion of every value (glibc
   "%.1100e"); TLC judges every line with the same ScpiGFormat definitions (TVGFormat)."""
import json, os, shutil, struct, concurrent.futures, threading
import lib

BUILDS = (('printf', 'default'), ('dtostre', 'dtostre'))
CHUNK = {'printf': 30000, 'dtostre': 5000}      # lines per TLC run (a line carries up to 767 digits and up to 17 texts)

def value_of(rec):
    b = rec['b']
    if rec['k'] == 'd':
        return struct.unpack('>d', struct.pack('>4H', *b))[0]
    return struct.unpack('>f', struct.pack('>2H', *b[2:]))[0]

def hex_of(rec):
    b = rec['b']
    return ''.join('%04x' % x for x in (b if rec['k'] == 'd' else b[2:]))

def text_of(rec, name, P):
    t = rec[name][P - 1] if name == 'tp' else rec[name]
    return bytes(t).decode('latin-1')

def band_of(rec, P):
    """Where the value sits relative to the branches a %g-style formatter has to take at precision P (trigger
    ingredient of the kind labels; computed from the exact expansion, not from the library's output)."""
    e, d = rec['e'], rec['d']
    if rec['d'] == [0]:
        return 'zero'
    head = (d + [0] * P)[:P]
    if -4 <= e <= -1 or (e == -5 and all(x == 9 for x in head)):
        return 'frac'            # the value or an admissible P-digit result lies in [1e-4, 1)
    if e >= P:
        return 'big'             # more integer digits than requested
    if e < -4:
        return 'tiny'
    return 'mid'

def kind_of(rec, P, whats, grade):
    """Trigger label for the findings on one text.  Everything that is not one of the recognised classes gets a
    generic label that spells out the findings, so nothing can hide under a registered kind."""
    cfg, band = rec['cfg'], band_of(rec, P)
    w = set(whats)
    if rec['c'] != 'fin':
        return cfg + '-nonfinite-spelling'
    if cfg == 'dtostre':
        if 'lost' in w and band == 'frac' and w <= {'lost', 'within'}:
            return 'dtostre-small-fraction-digits-lost'
        if 'within' in w and w <= {'within', 'lost'} and band in ('big', 'tiny'):
            if P == 15 and grade in (2, 3):
                return 'dtostre-precision15-accumulated-error'
            if P < 15 and band == 'big' and grade == 2:
                return 'dtostre-integer-digits-truncated'
    return '%s:%s:%s' % (cfg, '+'.join(sorted(w)), band)

def nontrivial(rec):
    if rec['c'] != 'fin' or rec['d'] == [0]:
        return False
    P = 15 if rec['k'] == 'd' else 6
    d = rec['d'][:P]
    while d and d[-1] == 0:
        d = d[:-1]
    b = rec['b']
    sub = (b[0] & 0x7ff0) == 0 if rec['k'] == 'd' else (b[2] & 0x7f80) == 0
    return rec['src'] == 'boundary' or 0 in d or -5 <= rec['e'] <= -1 or rec['e'] >= 15 or sub

def validate(rep, files):
    """TVGFormat over value files [(path, cfg, label)] (split into chunks, <= 3 TLC processes at a time);
    classify the findings."""
    jobs = []
    allrecs = []
    for path, cfg, label in files:
        lines = open(path).read().splitlines()
        if not lines:
            rep.broken.append('no values recorded for ' + label)
            continue
        ch = CHUNK[cfg]
        for i in range(0, len(lines), ch):
            jobs.append((path, cfg, label, i // ch, lines[i:i + ch]))
        allrecs.append((cfg, label, lines))
    jobs.sort(key=lambda j: -len(j[4]) * (9 if j[1] == 'dtostre' else 1))     # longest first
    def one(j):
        path, cfg, label, i, chunk = j
        p = '%s.c%d' % (path, i)
        with open(p, 'w') as f:
            f.write('\n'.join(chunk) + '\n')
        r = lib.tlc('TVGFormat', 'TVGFormat.cfg', workers=4, env={'TRACE': p}, xmx='3g', timeout=600)
        os.unlink(p)
        return j, r
    nviol = 0
    with concurrent.futures.ThreadPoolExecutor(max_workers=3) as ex:
        for (path, cfg, label, i, chunk), r in ex.map(one, jobs):
            rep.add_tlc('TVGFormat:%s:%d' % (label, i), r, 'validation of library texts against ScpiGFormat')
            if r.distinct != 2 * len(chunk) and not r.errors:
                rep.broken.append('TVGFormat %s chunk %d: %d states for %d lines' % (label, i, r.distinct, len(chunk)))
            groups = {}
            for p in r.prints:
                if p[0] != 'MISMATCH' or len(p) != 7:
                    continue
                _, l, what, name, P, X, g = p
                groups.setdefault((l, name, P), []).append((what, X, g))
            per_line = {}
            for (l, name, P), fs in sorted(groups.items()):
                rec = json.loads(chunk[l - 1])
                grade = max(f[2] for f in fs)
                k = kind_of(rec, P, [f[0] for f in fs], grade)
                per_line.setdefault((l, k), []).append(dict(text=name, precision=P, findings=sorted(f[0] for f in fs), units_bound=grade,
                                                            got=text_of(rec, name, P)))
            for (l, k), items in sorted(per_line.items()):
                rec = json.loads(chunk[l - 1])
                nviol += 1
                rep.violation(k, dict(source=label, cfg=rec['cfg'], type='double' if rec['k'] == 'd' else 'float', bits=hex_of(rec),
                                      value=repr(value_of(rec)), generator=rec['src'], exact_digits=''.join(map(str, rec['d'][:24])), exact_exp10=rec['e'],
                                      texts=items[:17]))
    for cfg, label, lines in allrecs:
        n = len(lines)
        rep.cov['traces_validated_against_impl'] += n
        by = {}
        nt = set()
        nd = 0
        want = {('boundary', 'd'), ('zero-run', 'f')}
        for ln in lines:
            r = json.loads(ln)
            rep.cov['evaluations'] += 2 + len(r.get('tp', []))
            by[r['src']] = by.get(r['src'], 0) + 1
            nd += r['k'] == 'd'
            if nontrivial(r):
                nt.add((r['k'], tuple(r['b'])))
            if (r['src'], r['k']) in want:
                want.discard((r['src'], r['k']))
                x = dict(cfg=r['cfg'], type=r['k'], bits=hex_of(r), value=repr(value_of(r)), exact_digits=''.join(map(str, r['d'][:20])), e=r['e'],
                         ts=text_of(r, 'ts', 1), tr=text_of(r, 'tr', 1))
                if 'tp' in r:
                    x['tp'] = [text_of(r, 'tp', p) for p in range(1, 16)]
                rep.sample(x, cap=4)
        rep.cov['distinct_nontrivial'] += len(nt)
        rep.cov['driver_runs'].append(dict(build=cfg, source=label, values=n, doubles=nd, floats=n - nd, by_generator=by))
    return nviol

def run(pid, tier):
    rep = lib.Report(pid, tier)
    rep.cov['rule'] = ('case = one value (bit pattern) formatted in one build; evaluations = texts judged (2 per value, 17 per double in the dtostre build); '
                       'non-trivial = the value comes from the d.ddd5 boundary generator (nearest double/float and both neighbours), or its first 15 (6) digits '
                       'contain an interior zero, or 1e-5 <= |v| < 1, or |v| >= 1e15, or it is subnormal; distinct = different (build, type, bits)')
    rep.assumptions += ['the exact decimal expansion of a bit pattern is taken from glibc printf("%.1100e") (trusted base, DESIGN.md section 9)',
                        'NaN with the sign bit set may be spelled "nan" or "-nan"; +-0 in the dtostre build may carry either sign',
                        'dtostre build: the style of the text (fixed / exponent, trailing zeros) is free, only its value and its written digits are judged',
                        'unit of the P-th significant digit = 10^(X-P+1) with X the decimal exponent of the exact value']
    w = lib.workdir(pid)
    mres = {}
    def mpart():
        def one(c):
            mres[c] = lib.tlc('MCGFormat', c, workers=6, timeout=850, xmx='5g')
        if tier == 'quick':
            one('MCGFormat_q.cfg')
        else:
            with concurrent.futures.ThreadPoolExecutor(max_workers=2) as ex:
                list(ex.map(one, ['MCGFormat_5p1.cfg', 'MCGFormat_5p2.cfg', 'MCGFormat_5p3.cfg', 'MCGFormat_5p456.cfg', 'MCGFormat_6p4.cfg', 'MCGFormat_6p5.cfg']))
    th = threading.Thread(target=mpart)
    th.start()
    nrand, estride = (1200, 13) if tier == 'quick' else (45000, 1)
    rep.cov['constants'] = dict(random_bit_patterns=nrand, exponent_stride_outside_central_window=estride, chunk_lines=CHUNK)
    files = []
    for cfg, build in BUILDS:
        exe = lib.build('drv_gfmt', ['drv_gfmt.c'], config=build)
        out = '%s/%s.ndjson' % (w, cfg)
        d = lib.run_driver(exe, ['gen', lib.seed(), nrand, estride, out], timeout=300)
        if d['rc'] != 0:
            rep.violation('driver-failure', dict(build=cfg, rc=d['rc'], stderr=d['stderr'].decode(errors='replace')[-2000:]))
            continue
        files.append((out, cfg, 'gen-' + cfg))
    # a C89 target (no stdbool, no isfinite / snprintf detected by cc.h): the library's own formatter again
    exe = lib.build('drv_gfmt', ['drv_gfmt.c'], config='c89dtostre')
    out = '%s/dtostre89.ndjson' % w
    d = lib.run_driver(exe, ['gen', lib.seed() + 1, nrand // 6, estride * 5, out], timeout=300)
    if d['rc'] != 0:
        rep.violation('driver-failure', dict(build='c89dtostre', rc=d['rc'], stderr=d['stderr'].decode(errors='replace')[-2000:]))
    else:
        files.append((out, 'dtostre', 'gen-dtostre-c89'))
    validate(rep, files)
    th.join()
    for c, r in mres.items():
        rep.add_tlc(c[:-4], r, 'model checking of ScpiGFormat lemmas: Reparses, HalfUnit, Idempotent, KeepsDigits, Stripped, Style, Monotone')
        fails = [p for p in r.prints if p[0] == 'LEMMA-FAILED']
        if r.violations or fails:
            rep.broken.append('specification violates its own lemma in %s: %s' % (c, lib.short(fails[:3] or r.violations)))
    rep.cov['exhaustive'] = True
    rep.cov['explanation'] = ('exhaustive for the specification lemmas on all expansions of <= %s digits, exponents -8..8, precisions 1..6; the library is checked on '
                              'the structured value set (all powers of ten, d.ddd5 boundaries, zero digits at every position, subnormals, specials) and sampled '
                              'on seeded random bit patterns' % ('4 (3 for precisions 4..6)' if tier == 'quick' else '5 (4 for precisions 5, 6), and of 6 digits for exponents -5, 4 and precisions 4, 5'))
    shutil.rmtree(w, ignore_errors=True)
    return rep.finish()

def replay(pid, path):
    """Re-run the library on the values stored in a replay file and print the comparison."""
    rep = lib.Report(pid, 'quick')
    w = lib.workdir(pid + 'r')
    d = json.load(open(path))
    vals = {}
    files = []
    for v in d.get('violations', []):
        det = v['detail']
        if 'bits' in det:
            vals.setdefault(det['cfg'], set()).add(('d' if det['type'] == 'double' else 'f', det['bits']))
    for cfg, build in BUILDS:
        if cfg not in vals:
            continue
        with open(w + '/vals.txt', 'w') as f:
            for k, h in sorted(vals[cfg]):
                f.write('%s %s\n' % (k, h))
        exe = lib.build('drv_gfmt', ['drv_gfmt.c'], config=build)
        r = lib.run_driver(exe, ['vals', w + '/vals.txt', w + '/r.ndjson'])
        if r['rc'] != 0:
            print('REPLAY driver failure', r['rc'], r['stderr'].decode(errors='replace')[-500:])
            return 2
        os.rename(w + '/r.ndjson', w + '/r-%s.ndjson' % cfg)
        files.append((w + '/r-%s.ndjson' % cfg, cfg, 'replay-' + cfg))
    validate(rep, files)
    for k, dd in rep.viol:
        print('REPLAY mismatch', k, lib.short(dd, 800))
    for k, (n, kf, dd) in rep.known_hits.items():
        print('REPLAY known finding', k, n, lib.short(dd, 400))
    shutil.rmtree(w, ignore_errors=True)
    return 1 if rep.viol else 0

MANIFEST = dict(engine='tlc+tlc-trace', ref='DESIGN.md section 6 C16',
   technique='TLC model checking of ScpiGFormat.tla (%g on exact decimal expansions) + TLC validation of the texts the real library produces in the printf and USE_CUSTOM_DTOSTRE builds',
   text='ScpiGFormat.tla defines %g formatting, decimal parsing, the k-unit bound and digit loss on exact digit sequences; TLC proves the half-unit bound, re-parse, idempotence, '
        'digit preservation and style lemmas for all short expansions. The driver formats all powers of ten, d.ddd5 boundaries with both neighbours, zero digits at every position, '
        'subnormals, specials and seeded random bit patterns (doubles and floats) through SCPI_DoubleToStr/FloatToStr/ResultDouble/ResultFloat and, in the dtostre build, SCPI_dtostre at '
        'precision 1..15; TLC requires text = GFormat(exact, 15|6) in the printf build and Within(1 unit) and NoDigitLost in the dtostre build.',
   note='Trusted: TLC, glibc printf("%.1100e") as the bridge from a bit pattern to its exact decimal expansion, the capture callback. In the printf build the check reduces to "the library asks printf for 15 / 6 digits in %g style". Sampled beyond the structured value set.')
