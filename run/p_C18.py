from p_errq import run, replay, MANIFEST_C18 as MANIFEST
