#!/bin/sh
# Runs the repository's own test suite (71 tests, 4 CUnit programs) with the verification guard OFF,
# in a scratch copy so that /repo is left untouched.
set -e
REPO=${VERIF_REPO:-/repo}
D=$(mktemp -d /tmp/verif-baseline.XXXXXX)
trap 'rm -rf "$D"' EXIT
cp -r "$REPO/libscpi" "$D/libscpi"
cd "$D/libscpi"
make clean >/dev/null
make test
