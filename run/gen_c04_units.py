#!/usr/bin/env python3
"""One-off generator of spec/ScpiUnitTable.tla (C04): transcribes the active rows of scpi_units_def
and scpi_special_numbers_def of $VERIF_REPO/libscpi/src/units.c (default configuration, after the
preprocessor) into a TLA+ module.  The generated module is COMMITTED AND FROZEN: the check never
regenerates it, so a later change of the table in the code is compared against this transcription.
Usage: python3 run/gen_c04_units.py > spec/ScpiUnitTable.tla"""
import os, re, subprocess, sys, fractions

R = os.path.join(os.environ.get('VERIF_REPO', '/repo'), 'libscpi')
src = subprocess.run(['clang', '-E', '-P', '-I' + R + '/inc', '-I' + R + '/src', R + '/src/units.c'],
                     stdout=subprocess.PIPE, check=True).stdout.decode()

def body(name):
    m = re.search(name + r'\[\]\s*=\s*\{(.*?)\n\};', src, re.S)
    return m.group(1)

def mult(txt):
    """exact rational of a C multiplier expression: 1e-9 | 1000 | 1. / 60. -> (n, d, e) with value n/d * 10^e"""
    def lit(t):
        t = t.strip().rstrip('.')
        m = re.fullmatch(r'(\d+)(?:[eE]([+-]?\d+))?', t)
        if not m:
            raise SystemExit('cannot transcribe multiplier ' + txt)
        return fractions.Fraction(int(m.group(1))) * fractions.Fraction(10) ** int(m.group(2) or 0)
    parts = txt.split('/')
    v = lit(parts[0])
    for p in parts[1:]:
        v /= lit(p)
    # a pure power of ten is (1, 1, e); any other multiplier is kept as the plain fraction (n, d, 0)
    n, d, e = v.numerator, v.denominator, 0
    while n % 10 == 0:
        n //= 10; e += 1
    while d % 10 == 0:
        d //= 10; e -= 1
    if (n, d) != (1, 1):
        n, d, e = v.numerator, v.denominator, 0
    if fractions.Fraction(n, d) * fractions.Fraction(10) ** e != v:
        raise SystemExit('normalisation error')
    return n, d, e

rows = []
for m in re.finditer(r'\{\s*"([A-Za-z]+)"\s*,\s*SCPI_UNIT_([A-Z_]+)\s*,\s*([^}]+?)\s*\}', body('scpi_units_def')):
    rows.append((m.group(1), m.group(2)) + mult(m.group(3)))
spec = []
for m in re.finditer(r'\{\s*"([A-Za-z]+)"\s*,\s*SCPI_NUM_([A-Z]+)\s*\}', body('scpi_special_numbers_def')):
    spec.append((m.group(1), m.group(2)))

def seq(s):
    return '<<' + ', '.join(str(ord(c)) for c in s) + '>>'

out = []
out.append('--------------------------- MODULE ScpiUnitTable ---------------------------')
out.append('(* FROZEN TRANSCRIPTION - generated once by run/gen_c04_units.py from           *)')
out.append('(* libscpi/src/units.c (default configuration: %d unit rows, %d special       *)' % (len(rows), len(spec)))
out.append('(* mnemonics).  Do not regenerate as part of a check: the property speaks      *)')
out.append('(* about "the unit table"; this module is the reference copy the code is       *)')
out.append('(* compared with.  A row is [name, unit, n, d, e]: the suffix (upper case byte *)')
out.append('(* sequence), the base unit tag, and the multiplier as the exact rational       *)')
out.append('(* n/d * 10^e.  A special is [pat, tag]: pattern with upper-case short form.    *)')
out.append('EXTENDS Integers')
out.append('UnitRows == <<')
for i, (nm, u, n, d, e) in enumerate(rows):
    es = str(e) if e >= 0 else '0 - %d' % -e
    out.append('  [name |-> %s, unit |-> "%s", n |-> %d, d |-> %d, e |-> %s]%s  \\* %s' % (seq(nm), u, n, d, es, ',' if i + 1 < len(rows) else ' ', nm))
out.append('>>')
out.append('SpecialRows == <<')
for i, (nm, t) in enumerate(spec):
    out.append('  [pat |-> %s, tag |-> "%s"]%s  \\* %s' % (seq(nm), t, ',' if i + 1 < len(spec) else ' ', nm))
out.append('>>')
out.append('=============================================================================')
print('\n'.join(out))
