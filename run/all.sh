#!/bin/sh
# runs every registered check of a tier on /repo and prints one summary line each
TIER=${1:-quick}
cd "$(dirname "$0")/.."; mkdir -p work
for p in ${ONLY:-C01 C02 C03 C04 C05 C06 C07 C08 C09 C10 C11 C12 C13 C14 C15 C16 C17 C18 C19 C20}; do
  s=$(date +%s)
  python3 run/check.py $p --tier $TIER > work/all_$p.log 2>&1
  rc=$?
  e=$(date +%s)
  echo "$p rc=$rc $((e-s))s $(tail -1 work/all_$p.log | cut -c1-160)"
done
