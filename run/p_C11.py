from p_status import run, replay, MANIFEST_C11 as MANIFEST
