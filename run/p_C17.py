"""C17: binary results are valid definite-length blocks in the requested byte order."""
import json, random
import lib, parser_common as pc

def kind(rec, rel, hints):
    ops = rec['scripts'][0][3]
    if ops and ops[0][0] == 'r' and len(ops[0]) == 5 and ops[0][3] == 0 and ops[0][2] != 0 and 'out' in rel:
        import sys
        native = 2 if sys.byteorder == 'little' else 1
        size = {'8': 1, '16': 2, '32': 4, '64': 8, 'lt': 4, 'bl': 8}[ops[0][1][-2:].lstrip('iu')] if ops[0][1][-2:] in ('lt', 'bl') or ops[0][1][-2:].lstrip('aiu') else 1
        if ops[0][2] != native and not ops[0][1].endswith('8'):
            return 'empty-array-nonnative-order-not-counted'
    return None

def run(pid, tier):
    rep = lib.Report('C17', tier)
    rep.cov['rule'] = ('cases = one query whose handler emits (a) an array of 0..N elements (N = 2 quick, 4 thorough) of each element type (u/i 8,16,32,64, float, double) from 4 byte patterns, '
                       'in NORMAL, SWAPPED and (8/16 bit) ASCII format, longer arrays with all-different elements (up to 17 quick, 300 thorough), seeded random arrays of 0..300 random elements, (b) blocks of length 0,1,2,9,10,11,99,100,101,255 with terminator bytes inside, (c) a streamed block of 1..4 bytes in every '
                       'split of the data calls, (d) over-length data at every point, (e) header-only calls for 9..999999999; each followed by an integer item so that item counting is visible; '
                       'enumerated by TLC, executed, output bytes and errors validated by TLC; non-trivial = streamed in >= 2 calls, empty, refused, or header digit count changes')
    rep.assumptions += ['elements are given to the specification most-significant-byte first and converted to host memory order by the orchestrator',
                        'the code of the error raised for over-length block data is not specified']
    n = 2 if tier == 'quick' else 4
    scen = pc.gen(rep, 'C17', dict(MaxUnits=n, MaxSig=1 if tier == 'quick' else 2), nparts=8, timeout=1500)
    # seeded random element values and lengths 0..300 (the specification computes the expected bytes)
    rng = random.Random(lib.seed())
    kinds = {1: ['au8', 'ai8'], 2: ['au16', 'ai16'], 4: ['au32', 'ai32', 'aflt'], 8: ['au64', 'ai64', 'adbl']}
    base = next(s for s in scen if len(s['table']) == 1)
    for _ in range(40 if tier == 'quick' else 400):
        sz = rng.choice([1, 2, 4, 8])
        cnt = rng.choice([0, 1, 2, 3, 5, 12, 13, 63, 64, 65, 127, 128, 129, 255, 256, 300, rng.randint(0, 300)])
        fmt = rng.choice([1, 2] if sz > 2 else [0, 1, 2])
        els = [[rng.randrange(256) for _ in range(sz)] for _ in range(cnt)]
        sc = dict(base)
        sc['scripts'] = [[1, 1, 0, [['r', rng.choice(kinds[sz]), fmt, cnt, els], ['r', 'i32', 7]]]]
        scen.append(sc)
    obs = pc.execute(rep, scen, 'default', 'C17')
    pc.validate(rep, 'C17', scen, obs, 'C17-default', kindfn=kind, fields=pc.FIELDS['C06'] | {'errs', 'out.block-header'})
    # a transport whose write callback reports a status (0) instead of a byte count: what is a complete block, and with it the
    # separator in front of the next item, must not depend on that
    sub0 = scen[::3]
    obs0 = pc.execute(rep, sub0, 'default', 'C17write0', env={'DRV_WRITE_ZERO': '1'})
    pc.validate(rep, 'C17', sub0, obs0, 'C17-write-returns-0', kindfn=kind, fields=pc.FIELDS['C06'] | {'errs', 'out.block-header'})
    # a C89 build of the library (no stdbool: scpi_bool_t is an unsigned char, truth values and what is passed for them go through it)
    sub89 = scen[1::2]
    obs89 = pc.execute(rep, sub89, 'c89', 'C17c89')
    pc.validate(rep, 'C17', sub89, obs89, 'C17-c89', kindfn=kind, fields=pc.FIELDS['C06'] | {'errs', 'out.block-header'})
    # the build without device-dependent error information has its own branches in the result functions
    small = [s for s in scen if sum(len(c) for c in s['chunks']) < 64 and not any(o[0] == 'r' and o[1] == 'blk' and len(o[2]) > 300 for sc_ in s['scripts'] for o in sc_[3])]
    obs2 = pc.execute(rep, small, 'noinfo', 'C17n')
    pc.validate(rep, 'C17', small, obs2, 'C17-noinfo', info=0, kindfn=kind, fields=pc.FIELDS['C06'] | {'errs', 'out.block-header'})
    def nontriv(sc):
        ops = sc['scripts'][0][3]
        return any(o[0] == 'bd' for o in ops) or (ops[0][0] == 'r' and len(ops[0]) == 5 and ops[0][3] == 0) or ops[0][0] == 'bh' or (ops[0][1] == 'blk' and len(ops[0][2]) in (0, 9, 10, 99, 100))
    nt = [s for s in scen if nontriv(s)]
    rep.cov['distinct_nontrivial'] = len(nt)
    rep.cov['exhaustive'] = True
    for s in nt[:3]:
        rep.sample(dict(script=s['scripts'][0][3]))
    return rep.finish()

def replay(pid, path):
    d = json.load(open(path))
    for v in d.get('violations', [])[:20]:
        print('REPLAY', v['kind'], lib.short(v['detail'], 1000))
    return 1 if d.get('violations') else 0

MANIFEST = dict(engine='tlc-gen+harness+tlc-trace', ref='DESIGN.md section 6 C17',
   technique='TLC enumerates array / block result scripts over ScpiParser.tla (block header, byte order, item counting); emitted bytes of the real library validated by TLC (TVParser)',
   text='TLC enumerates handler scripts that emit arrays of every element type in both byte orders and ASCII, blocks around every header-length change, streamed blocks in every split, over-length data at every point and header-only calls up to 10^9-1; the real library executes them and TLC compares the bytes written, the comma placement after the block and the errors with the specification (big-endian for NORMAL, little-endian for SWAPPED independent of the host).',
   note='Trusted: TLC, driver; the host is little-endian only (the other host order is not exercised). Element values come from 4 byte patterns per size.')
