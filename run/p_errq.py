"""C10 (error queue: bounded FIFO, overflow marker, text ownership) and C18 (error query response).
M: TLC model-checks ScpiErrQueue (queue state machine; response lemmas on small limits).
X/V: the real library's queue is explored (every abstract state incl. ring indices, re-created by replaying its
operation path; malloc'd texts, wrapped strndup/free, injected allocation failures) and walked randomly; every
recorded operation is validated by TLC against ScpiErrQueue (TVErrQueue). C18: recorded SYST:ERR? responses
are validated against ErrResponse (TVErrResp)."""
import json, os, shutil, concurrent.futures
import lib, composition

WRAP = ['-Wl,--wrap=strndup,--wrap=free']

def kind_of(rec, diff):
    op = rec.get('op', ['resp'])
    return 'errq:' + op[0] + ':' + '+'.join(sorted(diff))

def validate(rep, module, path, label, nontrivial, chunk=50000):
    lines = open(path).read().splitlines()
    n = len(lines)
    if n == 0:
        rep.broken.append('no records for ' + label)
        return
    chunks = [lines[i:i + chunk] for i in range(0, n, chunk)]
    def one(i):
        p = '%s.c%d' % (path, i)
        with open(p, 'w') as f:
            f.write('\n'.join(chunks[i]) + '\n')
        r = lib.tlc(module, module + '.cfg', workers=4, env={'TRACE': p}, xmx='3g', timeout=900)
        os.unlink(p)
        return i, r
    per_line_states = 2 if module == 'TVErrQueue' else 1
    with concurrent.futures.ThreadPoolExecutor(max_workers=4) as ex:
        for i, r in ex.map(one, range(len(chunks))):
            rep.add_tlc('%s:%s:%d' % (module, label, i), r, 'validation of recorded implementation steps')
            if r.distinct != per_line_states * len(chunks[i]) and not r.errors:
                rep.broken.append('%s %s chunk %d: %d states for %d lines' % (module, label, i, r.distinct, len(chunks[i])))
            for p in r.prints:
                if p[0] == 'UNJUDGED':
                    rep.cov['unjudged'] = rep.cov.get('unjudged', 0) + 1
                elif p[0] == 'MISMATCH':
                    rec = json.loads(chunks[i][p[1] - 1])
                    rep.violation(kind_of(rec, set(p[2])), dict(source=label, diff=sorted(p[2]), record=rec))
    rep.cov['traces_validated_against_impl'] += n
    rep.cov['evaluations'] += n
    nt = set(ln for ln in lines if nontrivial(json.loads(ln)))
    rep.cov['distinct_nontrivial'] += len(nt)
    for ln in sorted(nt)[:2]:
        rep.sample(json.loads(ln))

def nt_c10(d):
    op = d['op']
    full = len(d['f']['q']) >= d['cap']
    return (op[0] == 'push' and (full or op[2] == 1)) or (op[0] in ('pop', 'syst') and (not d['f']['q'] or d['f']['q'][0][1] == 1)) or (op[0] in ('clear', 'cls') and d['f']['live'])

def nt_c18(d):
    esc = len(d['text']) + d['text'].count(34)
    return d['has'] == 1 and (34 in d['text'] or abs(len(d['out']) - 2 - 255 - len(str(d['code'])) - 3) <= 3)

def driver(rep, exe, args, what, env=None):
    d = lib.run_driver(exe, args, timeout=900, env=env)
    if d['rc'] != 0 or d['timeout']:
        rep.violation('driver-failure', dict(what=what, rc=d['rc'], timeout=d['timeout'], stderr=d['stderr'].decode(errors='replace')[-3000:]))
        return None
    info = json.loads(d['stdout'].decode().strip().splitlines()[-1])
    if info.get('leaked'):
        rep.violation('errq:leak-at-end', dict(what=what, leaked=info['leaked']))
    return info

def run_c10(tier):
    rep = lib.Report('C10', tier)
    rep.cov['rule'] = ('cases = operations {from-queue, op, allocations, releases, to-queue, result} recorded from the real library: all abstract states '
                       '(queue content incl. texts + ring indices) reachable over push(2 codes x {no text, 3 texts} x {alloc ok, alloc fails}), pop, SYST:ERR?, clear, *CLS, count '
                       'for each capacity, plus seeded random histories; non-trivial = push onto a full queue or with text, pop/query of an entry with text or of the empty queue, clear with live texts')
    rep.assumptions += ['allocation ownership is observed through wrapped strndup/free (link-time --wrap) and LeakSanitizer/ASan',
                        'an empty device-dependent text may or may not be stored / shown (not decided by the statement)']
    if tier == 'thorough':
      lib.tlaps(rep, 'ScpiErrQueueProofs', ['ScpiErrQueueCore'], ['PushQLen (every capacity >= 1)', 'QSpec => PopIsOldest'])
    w = lib.workdir('C10')
    caps_mc = [1, 2, 3]
    for c in caps_mc:
        r = lib.tlc('MCErrQueue', 'MCErrQueue_%d.cfg' % c, timeout=600)
        rep.add_tlc('MCErrQueue_%d' % c, r, 'model checking of the queue state machine: Bounded, Ownership, DistinctIds, TextsIntact, OverflowMarks, PopIsOldest, ReleasedOnce')
        if r.violations:
            rep.broken.append('specification violates %s (MCErrQueue_%d)' % (r.violations, c))
    caps = [1, 2, 3] if tier == 'quick' else [1, 2, 3, 4]
    for cfg in ('default', 'noinfo'):
        exe = lib.build('drv_errq', ['drv_errq.c'], config=cfg, link=WRAP)
        for c in caps:
            if cfg == 'noinfo' and c > 2 and tier == 'quick':
                continue
            info = driver(rep, exe, ['explore', c, 200000, w + '/x.ndjson'], 'explore %s cap %d' % (cfg, c))
            if info is None:
                continue
            rep.cov['driver_runs'].append(dict(build=cfg, cap=c, **info))
            validate(rep, 'TVErrQueue', w + '/x.ndjson', 'explore-%s-cap%d' % (cfg, c), nt_c10)
        steps = 20000 if tier == 'quick' else 300000
        for c in ((1, 5) if tier == 'quick' else (1, 2, 5, 16)):
            info = driver(rep, exe, ['walk', lib.seed() * 31 + c, steps if cfg == 'default' else steps // 4, c, w + '/x.ndjson'], 'walk %s cap %d' % (cfg, c))
            if info is not None:
                validate(rep, 'TVErrQueue', w + '/x.ndjson', 'walk-%s-cap%d' % (cfg, c), nt_c10)
    # the same random histories with a write callback that reports 0 bytes written (what the transport says must not
    # change what happens to the popped entry and its text)
    exe = lib.build('drv_errq', ['drv_errq.c'], config='default', link=WRAP)
    info = driver(rep, exe, ['walk', lib.seed() * 31 + 9, 8000 if tier == 'quick' else 60000, 3, w + '/x.ndjson'], 'walk default cap 3, write returns 0', env={'DRV_WRITE_ZERO': '1'})
    if info is not None:
        validate(rep, 'TVErrQueue', w + '/x.ndjson', 'walk-write0-cap3', nt_c10)
    # the largest queues (the capacity is an int16_t): filled, the ring indices turned past 32767 - capacity, then overflow, pop, push ...;
    # each recorded step is the step ScpiStatus prescribes (TVStatus; queue content and responses are judged here)
    import p_status
    exs = lib.build('drv_status', ['drv_status.c'])
    for c in ((32767, 16385) if tier == 'quick' else (32767, 32766, 20000, 16385, 16384, 8191)):
        d = lib.run_driver(exs, ['bigq', c, w + '/big.ndjson'], timeout=300)
        if d['rc'] != 0:
            rep.violation('driver-failure', dict(what='bigq cap %d' % c, rc=d['rc'], stderr=d['stderr'].decode(errors='replace')[-3000:]))
            continue
        rep.cov['driver_runs'].append(dict(build='default', mode='largest queues', **json.loads(d['stdout'].decode().strip().splitlines()[-1])))
        p_status.validate(rep, 'C10', w + '/big.ndjson', 'bigq-cap%d' % c)
    composition.validate(rep, 'C10', tier)
    rep.cov['exhaustive'] = True
    shutil.rmtree(w, ignore_errors=True)
    return rep.finish()

def run_c18(tier):
    rep = lib.Report('C18', tier)
    rep.cov['rule'] = ('cases = (code, device-dependent text) pushed on a fresh context and read back with SYST:ERR?; codes with and without description; text lengths '
                       '0..20 and around the 255 limit (quick) / 0..400 (thorough), 1..3 double quotes placed around the cut position and at random positions; '
                       'non-trivial = the text contains a quote or the escaped content is within 3 bytes of the 255 limit; builds default (malloc) and heap; in the heap build also texts of 20..420 characters stored in two pieces around the heap end (an older entry alive in front), the cut before / at / behind the seam')
    rep.assumptions += ['the description table of the specification (ScpiErrTable.tla) is generated for every run from inc/scpi/error.h and the fallback text of error.c of the tree under test (full list): the texts are data of the library, their use is what is checked']
    w = lib.workdir('C18')
    r = lib.tlc('MCErrQueue', 'MCErrResp.cfg', timeout=600)
    rep.add_tlc('MCErrResp', r, 'response lemmas (escaped length <= limit, maximal cut, quotes doubled, unescape = prefix) for all texts <= 7 over {a, quote, ;} x limits 0..8')
    if r.violations:
        rep.broken.append('specification violates %s (MCErrResp)' % r.violations)
    for cfg in ('default', 'heap', 'usererr'):      # usererr: the documented user error list, with descriptions of our own (harness/usererr)
        exe = lib.build('drv_errq', ['drv_errq.c'], config=cfg, link=WRAP)
        info = driver(rep, exe, ['resp', lib.seed(), tier, w + '/r.ndjson'], 'resp ' + cfg)
        if info is None:
            continue
        rep.cov['driver_runs'].append(dict(build=cfg, **info))
        if cfg == 'heap' and info.get('stored_in_two_pieces', 0) < 100:
            rep.broken.append('heap build: only %s responses were composed from a text stored in two pieces' % info.get('stored_in_two_pieces'))
        validate(rep, 'TVErrResp', w + '/r.ndjson', 'resp-' + cfg, nt_c18, chunk=3000)
    shutil.rmtree(w, ignore_errors=True)
    return rep.finish()

def run(pid, tier):
    return run_c10(tier) if pid == 'C10' else run_c18(tier)

def replay(pid, path):
    rep = lib.Report(pid, 'quick')
    w = lib.workdir(pid + 'r')
    d = json.load(open(path))
    with open(w + '/r.ndjson', 'w') as f:
        for v in d.get('violations', []):
            if 'record' in v['detail']:
                f.write(json.dumps(v['detail']['record']) + '\n')
    validate(rep, 'TVErrQueue' if pid == 'C10' else 'TVErrResp', w + '/r.ndjson', 'replay', lambda d: True)
    for k, dd in rep.viol:
        print('REPLAY mismatch', k, lib.short(dd, 800))
    shutil.rmtree(w, ignore_errors=True)
    return 1 if rep.viol else 0

MANIFEST_C10 = dict(engine='explore+tlc-trace', ref='DESIGN.md section 6 C10',
   technique='TLC model checking of ScpiErrQueue.tla + TLC validation of every operation of the explored implementation state graph and of random histories with injected allocation failures',
   text='TLC checks the queue state machine (bounded FIFO, overflow marker, ownership) for capacities 1..3; the real queue is driven through every abstract state incl. ring indices for capacities 1..3 (4 thorough) in the malloc and no-info builds with wrapped strndup/free and injected allocation failures, and every recorded operation (content, popped value, count, allocations, releases) is validated by TLC against the specification; random histories up to 3x10^5 operations.',
   note='Queues of up to 32767 entries are validated step by step against ScpiStatus (drv_status bigq). Trusted: TLC, link-time wrapping of strndup/free, ASan/LSan. Texts in the exploration alphabet are short (<= 2 bytes); long texts are covered by C18.')
MANIFEST_C18 = dict(engine='tlc-trace', ref='DESIGN.md section 6 C18',
   technique='TLC model checking of the response lemmas + TLC validation of recorded SYST:ERR? responses against ErrResponse',
   text='TLC checks the response composition (escaping, 255-character cut, maximality) on small limits exhaustively and validates every recorded response of the real library for codes with/without description and texts of length 0..400 with quotes around the cut position, in the malloc and static-heap builds.',
   note='Trusted: TLC; the description table is generated for every run from error.h of the tree under test (plus the user error list of the usererr verification build). An empty text may or may not show the semicolon.')
