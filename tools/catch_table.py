#!/usr/bin/env python3
"""Regenerates DESIGN.md section 13.5 (seeded changes and what catches them) from seeded/*/meta.json and seeded/notes.json."""
import json, glob, os
ROOT = os.path.dirname(os.path.dirname(os.path.abspath(__file__)))
notes = json.load(open(ROOT + '/seeded/notes.json'))
rows = []
for f in sorted(glob.glob(ROOT + '/seeded/*/meta.json')):
    m = json.load(open(f))
    caught = [c for c, v in m['checks'].items() if v['exit'] == 1 and v['violation_line']]
    kinds = []
    for c in caught:
        kinds += [k for k, _ in m['checks'][c]['kinds'][:2]]
    m['initially_missed'] = notes.get(m['id'], '')
    json.dump(m, open(f, 'w'), indent=1)
    rows.append('| %s | %s | %s | %s | %s |' % (m['id'], 'yes' if m['confirmed'] else 'NO', ', '.join(caught) or '**none**', ', '.join(kinds)[:80], notes.get(m['id'], '')))
txt = '''
### 13.5 Seeded changes (independent sub-agents, property text + scratch worktree only) and what catches them

%d changes in eleven rounds (the eleventh a short round of two, C06-j1 and C16-j1; the fifth asked for slips that need a non-default build configuration, history or a boundary value; the sixth for well-meant optimisations, portability clean-ups, error-handling changes and edits in neighbouring helpers; the seventh for slips in tables and constants, in the second or later of something, under unusual but legal set-ups such as NULL callbacks, and in comparison operators; the eighth for the hardest slips the agent could think of: re-entrant callbacks, several contexts, the largest legal sizes, types narrowed by one step, C89 builds; the ninth for slips a reviewer would approve: non-default but legal API use, module boundaries, type width and signedness, order of statements, state that survives; the tenth the same for the properties left out of the ninth, plus supported non-default builds), each confirmed by `run/seedcheck.py`: applies to /repo HEAD, the unedited 71-test suite
still passes, the agent's demonstration fails with the change and passes without. The registered quick check of the
property was then run with `VERIF_REPO=<scratch copy with the change>`. Changes that were missed at first led to the
strengthening named in the last column (scenario families, alphabets or oracle clauses were added; nothing was
special-cased). All are detected now EXCEPT C06-j1 (row marked **none**): it was produced in the last minutes of the budget and the item alphabet of the framing scenarios has not yet been extended with the based-integer result functions it needs; C06 therefore does not yet decide framing for SCPI_ResultUInt32Base/UInt64Base items. Details, patches and demonstrations: `seeded/<id>/`.

| change | confirmed | detected by | first violation kinds | initially missed -> strengthening |
|---|---|---|---|---|
''' % len(rows) + '\n'.join(rows) + '\n'
d = open(ROOT + '/DESIGN.md').read()
d = d[:d.index('\n### 13.5')] + txt
open(ROOT + '/DESIGN.md', 'w').write(d)
print(len(rows), 'changes;', sum(1 for r in rows if '**none**' in r), 'undetected;', sum(1 for r in rows if '| NO |' in r), 'unconfirmed')
