/*
 * drv_heap - C20: drives the error queue of the allocation-free build (texts in a caller-supplied
 * ring heap, -DUSE_MEMORY_ALLOCATION_FREE=0) and records every transition as one ndjson line
 *   {size, cap, f:{q:[[code,[text bytes],ptr]...], wr, count, data:[...]}, op, t:{...}, oc, out:[...], pre:[...]}
 * followed by a TAB and a locator (state index in explore mode, step number in walk mode).
 * q is read without consuming: text through scpiheap_get_parts (what SYST:ERR? would print), ptr as
 * offset into the heap (-1 = no text).  The heap is an exact-size malloc block: ASan traps every
 * access outside it.
 *
 *   explore <size> <cap> <maxstates> <out> <code>...   breadth-first search of the implementation's own state
 *                                                      graph (snapshot/restore of context, queue array, heap);
 *                                                      <out>.tree gets "parent opindex" per state, <out>.ops the alphabet
 *   walk <seed> <steps> <size> <cap> <out> [dumpstep]  seeded random history; with dumpstep: print the operations
 *                                                      since the last re-initialisation up to that step and stop
 *   path <size> <cap> <opsfile> <out>                  operations of the file in sequence from the initial state
 * operation syntax in files: push <code> <shape> <len> <mode> | pop | clear | pop2
 */
#include <stdio.h>
#include <stdlib.h>
#include <string.h>
#include <stdint.h>
#include "scpi/scpi.h"
#include "utils_private.h"

#define MAXCAP 8
#define XHEAP 16            /* largest heap in explore mode */
static scpi_t ctx;
static char ibuf[64];
static scpi_error_t eq[MAXCAP];
static char * heap;
static int hsize = 4, cap = 1;

static char outb[2048];
static size_t outn;
static char curdesc[65536];  /* printed when a sanitizer stops the run */

static int on_error(scpi_t * c, int_fast16_t e) { (void) c; (void) e; return 0; }
static size_t on_write(scpi_t * c, const char * d, size_t l) {
    (void) c;
    if (outn + l < sizeof outb) { memcpy(outb + outn, d, l); outn += l; }
    return getenv("DRV_WRITE_ZERO") ? 0 : l;      /* a transport that reports nothing written: the heap must not care */
}
static scpi_result_t on_control(scpi_t * c, scpi_ctrl_name_t n, scpi_reg_val_t v) { (void) c; (void) n; (void) v; return SCPI_RES_OK; }
static scpi_result_t on_flush(scpi_t * c) { (void) c; return SCPI_RES_OK; }
static const scpi_command_t cmds[] = {
    {"SYSTem:ERRor[:NEXT]?", SCPI_SystemErrorNextQ, 0}, {"SYSTem:ERRor:COUNt?", SCPI_SystemErrorCountQ, 0},
    {"*CLS", SCPI_CoreCls, 0},
    SCPI_CMD_LIST_END
};
static scpi_interface_t itf = {on_error, on_write, on_control, on_flush, NULL};

void __asan_on_error(void) { fputs("\nDRV_HEAP_CONTEXT ", stderr); fputs(curdesc, stderr); fputs("\n", stderr); }
void __ubsan_on_report(void) { __asan_on_error(); }

static void fresh(void) {
    memset(eq, 0, sizeof eq);
    memset(ibuf, 0, sizeof ibuf);
    SCPI_Init(&ctx, cmds, &itf, scpi_units_def, "MF", "MD", NULL, "1", ibuf, sizeof ibuf, eq, (int16_t) cap);
    SCPI_InitHeap(&ctx, heap, (size_t) hsize);
}

typedef struct { int kind; int code; int shape; int len; int mode; } op_t;   /* kind: 0 push 1 pop 2 clear 3 pop2 */
static const char * kindname[] = {"push", "pop", "clear", "pop2"};

static int text_byte(int shape, int i) { return shape == 1 ? 'a' : shape == 2 ? 'b' : (i % 2 == 0 ? 'a' : 'b'); }

static void print_bytes(FILE * f, const char * p, size_t n) {
    size_t i;
    fputc('[', f);
    for (i = 0; i < n; i++) fprintf(f, "%s%d", i ? "," : "", (int) (unsigned char) p[i]);
    fputc(']', f);
}

/* text of a queued entry without consuming it */
static void print_text(FILE * f, char * info) {
    size_t l1 = 0, l2 = 0;
    const char * s2 = NULL;
    if (info && scpiheap_get_parts(&ctx.error_info_heap, info, &l1, &s2, &l2)) {
        size_t i;
        fputc('[', f);
        for (i = 0; i < l1; i++) fprintf(f, "%s%d", i ? "," : "", (int) (unsigned char) info[i]);
        for (i = 0; s2 && i < l2; i++) fprintf(f, "%s%d", (l1 + i) ? "," : "", (int) (unsigned char) s2[i]);
        fputc(']', f);
    } else fputs("[]", f);
}

static void print_state(FILE * f) {
    int i, n = ctx.error_queue.count, rd = ctx.error_queue.rd;
    fputs("{\"q\":[", f);
    for (i = 0; i < n; i++) {
        scpi_error_t * e = &eq[(rd + i) % ctx.error_queue.size];
        fprintf(f, "%s[%d,", i ? "," : "", (int) e->error_code);
        print_text(f, e->device_dependent_info);
        fprintf(f, ",%ld]", !e->device_dependent_info ? -1L :
                (e->device_dependent_info >= heap && e->device_dependent_info < heap + hsize) ? (long) (e->device_dependent_info - heap) : -2L);
    }
    fprintf(f, "],\"wr\":%ld,\"count\":%ld,\"data\":", (long) ctx.error_info_heap.wr, (long) ctx.error_info_heap.count);
    print_bytes(f, heap, (size_t) hsize);
    fputc('}', f);
}

static void print_op(FILE * f, const op_t * o) {
    if (o->kind == 0) {
        int i;
        fprintf(f, "[\"push\",%d,[", o->code);
        for (i = 0; i < o->len; i++) fprintf(f, "%s%d", i ? "," : "", text_byte(o->shape, i));
        fprintf(f, "],%d]", o->mode);
    } else fprintf(f, "[\"%s\"]", kindname[o->kind]);
}
static void print_op_plain(FILE * f, const op_t * o) {
    if (o->kind == 0) fprintf(f, "push %d %d %d %d\n", o->code, o->shape, o->len, o->mode);
    else fprintf(f, "%s\n", kindname[o->kind]);
}

static long oc;
static char pre[128];
static size_t pren;
static int nontrivial;      /* the allocation wraps the heap end, fails, or is released with rollback */

static void apply(const op_t * o) {
    outn = 0; oc = 0; pren = 0; nontrivial = 0;
    if (o->kind == 0) {
        int full = ctx.error_queue.count == ctx.error_queue.size;
        int lastslot = (ctx.error_queue.wr + ctx.error_queue.size - 1) % ctx.error_queue.size;
        int lasttext = ctx.error_queue.count > 0 && eq[lastslot].device_dependent_info != NULL;
        /* mode 0: NUL-terminated text, automatic length; mode 1: explicit length, other bytes follow the text;
           mode 2: NUL-terminated text in a longer field, the length of the field is given (other bytes behind the NUL) */
        char * src = malloc((size_t) o->len + 6);
        int i;
        for (i = 0; i < o->len; i++) src[i] = (char) text_byte(o->shape, i);
        if (o->mode == 2 && o->len > 0) {
            src[o->len] = 0; src[o->len + 1] = 'Z'; src[o->len + 2] = 'Z'; src[o->len + 3] = 'Z'; src[o->len + 4] = 'Z'; src[o->len + 5] = 0;
            SCPI_ErrorPushEx(&ctx, (int16_t) o->code, src, (size_t) o->len + 5);
        } else if (o->mode == 1 && o->len > 0) {
            src[o->len] = 'X'; src[o->len + 1] = 'Y'; src[o->len + 2] = 0;
            SCPI_ErrorPushEx(&ctx, (int16_t) o->code, src, (size_t) o->len);
        } else {
            src[o->len] = 0;
            SCPI_ErrorPushEx(&ctx, (int16_t) o->code, src, 0);
        }
        free(src);
        if (full) nontrivial = lasttext || o->len > 0;
        else {
            char * p = eq[(ctx.error_queue.wr + ctx.error_queue.size - 1) % ctx.error_queue.size].device_dependent_info;
            nontrivial = (o->len > 0 && !p) || (p && (p - heap) + o->len + 1 >= hsize);
        }
    } else if (o->kind == 1) {
        int head = ctx.error_queue.count > 0 ? eq[ctx.error_queue.rd].error_code : 0;
        pren = (size_t) snprintf(pre, sizeof pre, "%d,\"%s", head, SCPI_ErrorTranslate((int16_t) head));
        SCPI_Input(&ctx, "SYST:ERR?\n", 10);
        outb[outn] = 0;
        oc = strtol(outb, NULL, 10);
    } else if (o->kind == 2) {
        SCPI_ErrorClear(&ctx);
    } else {
        scpi_error_t e;
        size_t l1 = 0, l2 = 0;
        const char * s2 = NULL;
        SCPI_ErrorPop(&ctx, &e);
        oc = e.error_code;
        if (e.device_dependent_info && scpiheap_get_parts(&ctx.error_info_heap, e.device_dependent_info, &l1, &s2, &l2)) {
            memcpy(outb, e.device_dependent_info, l1);
            if (s2) memcpy(outb + l1, s2, l2);
            outn = l1 + (s2 ? l2 : 0);
        }
        scpiheap_free(&ctx.error_info_heap, e.device_dependent_info, FALSE);
    }
}

static void record(FILE * f, const char * from, const op_t * o, long loc) {
    fprintf(f, "{\"size\":%d,\"cap\":%d,\"f\":%s,\"op\":", hsize, cap, from);
    print_op(f, o);
    fputs(",\"t\":", f);
    print_state(f);
    fprintf(f, ",\"oc\":%ld,\"out\":", oc);
    print_bytes(f, outb, outn);
    fputs(",\"pre\":", f);
    print_bytes(f, pre, pren);
    fprintf(f, ",\"nt\":%d}\t%ld\n", nontrivial, loc);
}

static char * state_str(void) {
    static char buf[32768];
    FILE * m = fmemopen(buf, sizeof buf, "w");
    print_state(m);
    fclose(m);
    return buf;
}
static void describe(const char * from, const op_t * o, long loc) {
    FILE * m = fmemopen(curdesc, sizeof curdesc, "w");
    fprintf(m, "{\"loc\":%ld,\"size\":%d,\"cap\":%d,\"f\":%s,\"op\":", loc, hsize, cap, from);
    print_op(m, o);
    fputs("}", m);
    fclose(m);
}

/* ---- exploration with snapshot/restore ---- */
typedef struct { scpi_t c; scpi_error_t q[MAXCAP]; char h[XHEAP]; } snap_t;
typedef struct { short fwr, frd, fcount; short codes[MAXCAP]; short ptrs[MAXCAP]; short hwr, hcount; unsigned char data[XHEAP]; short pos; } skey_t;

static void take(snap_t * s) { s->c = ctx; memcpy(s->q, eq, sizeof eq); memcpy(s->h, heap, (size_t) hsize); }
static void restore(const snap_t * s) { ctx = s->c; memcpy(eq, s->q, sizeof eq); memcpy(heap, s->h, (size_t) hsize); }
static void mkkey(skey_t * k) {
    int i;
    memset(k, 0, sizeof *k);
    k->fwr = ctx.error_queue.wr; k->frd = ctx.error_queue.rd; k->fcount = ctx.error_queue.count;
    for (i = 0; i < ctx.error_queue.count; i++) {
        int slot = (ctx.error_queue.rd + i) % ctx.error_queue.size;
        k->codes[slot] = eq[slot].error_code;
        k->ptrs[slot] = eq[slot].device_dependent_info ? (short) (eq[slot].device_dependent_info - heap + 1) : 0;
    }
    k->hwr = (short) ctx.error_info_heap.wr; k->hcount = (short) ctx.error_info_heap.count;
    memcpy(k->data, heap, (size_t) hsize);
    k->pos = (short) ctx.buffer.position;
}

#define HSIZE (1u << 23)
static skey_t * hkeys;
static int * hidx;
static unsigned hash(const skey_t * k) {
    const unsigned char * p = (const unsigned char *) k;
    unsigned h = 2166136261u;
    size_t i;
    for (i = 0; i < sizeof *k; i++) { h ^= p[i]; h *= 16777619u; }
    return h;
}

static op_t * ops;
static int nops;
static void add_op(int kind, int code, int shape, int len, int mode) {
    op_t * o = &ops[nops++];
    o->kind = kind; o->code = code; o->shape = shape; o->len = len; o->mode = mode;
}
/* pushes of the three text shapes x lengths 0..size; pop via SYST:ERR?; clear; pop + manual free */
static void make_alphabet(int ncodes, char ** codes) {
    int c, len, shape;
    ops = calloc((size_t) (ncodes * 3 * (hsize + 1) + 4), sizeof(op_t));
    for (c = 0; c < ncodes; c++)
        for (len = 0; len <= hsize; len++)
            for (shape = 1; shape <= 3; shape++) {
                if (len == 0 && shape > 1) continue;
                if (len == 1 && shape == 3) continue;
                add_op(0, atoi(codes[c]), shape, len, shape == 3 ? 1 : shape == 2 ? 2 : 0);
            }
    add_op(1, 0, 0, 0, 0); add_op(2, 0, 0, 0, 0); add_op(3, 0, 0, 0, 0);
}

static int explore(long maxstates, const char * outpath, int ncodes, char ** codes) {
    FILE * f = fopen(outpath, "w"), * tree, * fo;
    char p2[1024];
    static snap_t * states;
    static int * parent, * pop;
    long nstates = 0, head = 0, ntrans = 0, i;
    skey_t k;
    int complete = 1;
    if (hsize > XHEAP) { fprintf(stderr, "explore: heap too large\n"); return 3; }
    make_alphabet(ncodes, codes);
    snprintf(p2, sizeof p2, "%s.ops", outpath);
    fo = fopen(p2, "w");
    for (i = 0; i < nops; i++) print_op_plain(fo, &ops[i]);
    fclose(fo);
    snprintf(p2, sizeof p2, "%s.tree", outpath);
    tree = fopen(p2, "w");
    fprintf(tree, "-1 -1\n");
    states = calloc((size_t) maxstates + 1, sizeof(snap_t));
    parent = calloc((size_t) maxstates + 1, sizeof(int));
    pop = calloc((size_t) maxstates + 1, sizeof(int));
    hkeys = calloc((size_t) maxstates + 1, sizeof(skey_t));
    hidx = malloc(HSIZE * sizeof(int));
    memset(hidx, -1, HSIZE * sizeof(int));
    fresh();
    take(&states[0]);
    mkkey(&k);
    hkeys[0] = k; hidx[hash(&k) % HSIZE] = 0; nstates = 1; parent[0] = -1; pop[0] = -1;
    while (head < nstates) {
        char from[2048];
        int j;
        restore(&states[head]);
        strcpy(from, state_str());
        for (j = 0; j < nops; j++) {
            unsigned h;
            restore(&states[head]);
            describe(from, &ops[j], head);
            apply(&ops[j]);
            record(f, from, &ops[j], head);
            ntrans++;
            mkkey(&k);
            h = hash(&k) % HSIZE;
            while (hidx[h] >= 0 && memcmp(&hkeys[hidx[h]], &k, sizeof k)) h = (h + 1) % HSIZE;
            if (hidx[h] < 0) {
                if (nstates >= maxstates) { complete = 0; continue; }
                hkeys[nstates] = k; hidx[h] = (int) nstates;
                parent[nstates] = (int) head; pop[nstates] = j;
                fprintf(tree, "%ld %d\n", head, j);
                take(&states[nstates]);
                nstates++;
            }
        }
        head++;
        fflush(f); fflush(tree);        /* what was recorded survives a sanitizer stop */
    }
    fclose(f);
    fclose(tree);
    printf("{\"concrete_states\":%ld,\"transitions\":%ld,\"complete\":%s,\"alphabet\":%d}\n", nstates, ntrans, complete ? "true" : "false", nops);
    return 0;
}

static uint64_t rng;
static unsigned rnd(void) { rng ^= rng << 13; rng ^= rng >> 7; rng ^= rng << 17; return (unsigned) (rng >> 11); }
static const int wcodes[] = {-100, -113, -222, -310, -350, -410, 1, 100, 32767, -32768, -1};

static int walk(unsigned long seedv, long steps, const char * outpath, long dumpstep) {
    FILE * f = fopen(outpath, "w");
    long i, since = 0;
    static op_t log[4096];
    rng = 0x9E3779B97F4A7C15ull ^ (seedv * 0x100000001B3ull);
    for (i = 0; i < 8; i++) rnd();
    fresh();
    for (i = 0; i < steps; i++) {
        op_t o;
        static char from[32768];
        unsigned r = rnd() % 100;
        int qn = ctx.error_queue.count;
        memset(&o, 0, sizeof o);
        strcpy(from, state_str());
        if (qn == 0 && r < 30) {
            /* the heap must be as good as new: the longest text that fits an empty heap */
            o.kind = 0; o.code = wcodes[rnd() % 11]; o.shape = 1 + rnd() % 3; o.len = hsize - 1; o.mode = rnd() % 3;
        } else if (r < 58) {
            unsigned m = rnd() % 8;
            o.kind = 0; o.code = wcodes[rnd() % 11]; o.shape = 1 + rnd() % 3; o.mode = rnd() % 3;
            if (m < 4) o.len = rnd() % (hsize / 3 + 2);
            else if (m < 6) o.len = rnd() % (hsize + 1);
            else if (m < 7) { long fr = (long) ctx.error_info_heap.count - 2 + (long) (rnd() % 3); o.len = fr < 0 ? 0 : (int) fr; }
            else { long rm = (long) hsize - (long) ctx.error_info_heap.wr - 2 + (long) (rnd() % 3); o.len = rm < 0 ? 0 : (int) rm; }
            if (o.len > hsize) o.len = hsize;
        } else if (r < 82) o.kind = 1;
        else if (r < 94) o.kind = 3;
        else o.kind = 2;
        /* heaps that hold texts of more than 255 characters: the automatic length stops there (explicit lengths do not),
           and SYST:ERR? cuts its response (C18), so entries are taken out with SCPI_ErrorPop */
        if (o.kind == 0 && o.mode == 0 && o.len > 255) o.mode = 1;
        if (o.kind == 1 && hsize > 255) o.kind = 3;
        if (since < 4096) log[since] = o;
        since++;
        if (dumpstep >= 0 && i == dumpstep) {
            long j;
            for (j = 0; j < since && j < 4096; j++) print_op_plain(stdout, &log[j]);
            return since <= 4096 ? 0 : 4;
        }
        describe(from, &o, i);
        apply(&o);
        record(f, from, &o, i);
        if (rnd() % 1500 == 0) { fresh(); since = 0; }
    }
    fclose(f);
    printf("{\"steps\":%ld}\n", steps);
    return 0;
}

static int path(const char * opsfile, const char * outpath) {
    FILE * f = fopen(outpath, "w"), * in = fopen(opsfile, "r");
    char line[128];
    long i = 0;
    if (!in) { perror(opsfile); return 3; }
    fresh();
    while (fgets(line, sizeof line, in)) {
        op_t o;
        char a[16] = "", from[32768];
        int k;
        memset(&o, 0, sizeof o);
        k = sscanf(line, "%15s %d %d %d %d", a, &o.code, &o.shape, &o.len, &o.mode);
        if (k < 1) continue;
        if (!strcmp(a, "push")) o.kind = 0; else if (!strcmp(a, "pop")) o.kind = 1;
        else if (!strcmp(a, "clear")) o.kind = 2; else if (!strcmp(a, "pop2")) o.kind = 3;
        else { fprintf(stderr, "bad op %s\n", a); return 3; }
        if (o.len > hsize + 8) o.len = hsize + 8;
        strcpy(from, state_str());
        describe(from, &o, i);
        apply(&o);
        record(f, from, &o, i++);
    }
    fclose(f);
    fclose(in);
    printf("{\"steps\":%ld}\n", i);
    return 0;
}

int main(int argc, char ** argv) {
    int rc = 3;
    if (argc >= 4 && !strcmp(argv[1], "path") && (atoi(argv[3]) < 1 || atoi(argv[3]) > MAXCAP)) return 3;
    if (argc >= 6 && !strcmp(argv[1], "walk") && (atoi(argv[5]) < 1 || atoi(argv[5]) > MAXCAP)) return 3;
    if (argc >= 4 && !strcmp(argv[1], "explore") && (atoi(argv[3]) < 1 || atoi(argv[3]) > MAXCAP)) return 3;
    if (argc >= 7 && !strcmp(argv[1], "explore")) {
        hsize = atoi(argv[2]); cap = atoi(argv[3]);
        heap = malloc((size_t) hsize);
        rc = explore(atol(argv[4]), argv[5], argc - 6, argv + 6);
    } else if (argc >= 7 && !strcmp(argv[1], "walk")) {
        hsize = atoi(argv[4]); cap = atoi(argv[5]);
        heap = malloc((size_t) hsize);
        rc = walk(strtoul(argv[2], 0, 10), atol(argv[3]), argv[6], argc >= 8 ? atol(argv[7]) : -1);
    } else if (argc >= 6 && !strcmp(argv[1], "path")) {
        hsize = atoi(argv[2]); cap = atoi(argv[3]);
        heap = malloc((size_t) hsize);
        rc = path(argv[4], argv[5]);
    } else fprintf(stderr, "usage: drv_heap explore|walk|path ...\n");
    free(heap);
    return rc;
}
