/*
 * tracer - records the verification hook events of any program that links the library compiled with
 * -DSCPI_PARSER_VERIF (used for the repository's own, unmodified test programs).
 * One ndjson line per event to the file named by $SCPI_VERIF_TRACE.
 */
#include <stdio.h>
#include <stdlib.h>
#include <string.h>
#include "scpi/scpi.h"
#include "scpi/verif.h"

static FILE * tf;
static long seq;
static const scpi_command_t * last_table;

static void bytes(const char * key, const void * p, long n) {
    long i;
    fprintf(tf, ",\"%s\":[", key);
    for (i = 0; p && i < n; i++) fprintf(tf, "%s%d", i ? "," : "", ((const unsigned char *) p)[i]);
    fprintf(tf, "]");
}
static void state(scpi_t * c) {
    int i;
    if (!c) return;
    fprintf(tf, ",\"regs\":[");
    for (i = 0; i < 10; i++) fprintf(tf, "%s%d", i ? "," : "", (int) c->registers[i]);
    fprintf(tf, "],\"qn\":%d,\"qsize\":%d,\"pos\":%d", (int) c->error_queue.count, (int) c->error_queue.size, (int) c->buffer.position);
}
static void hook(scpi_t * c, int ev, const void * p, long a, long b) {
    if (!tf) return;
    switch (ev) {
        case SCPI_VE_PARSE_BEGIN:
            if (c && c->cmdlist != last_table) {
                int i;
                last_table = c->cmdlist;
                fprintf(tf, "{\"n\":%ld,\"e\":\"table\",\"pats\":[", seq++);
                for (i = 0; c->cmdlist[i].pattern; i++) {
                    size_t k, n = strlen(c->cmdlist[i].pattern);
                    fprintf(tf, "%s[", i ? "," : "");
                    for (k = 0; k < n; k++) fprintf(tf, "%s%d", k ? "," : "", (unsigned char) c->cmdlist[i].pattern[k]);
                    fprintf(tf, "]");
                }
                fprintf(tf, "]}\n");
            }
            fprintf(tf, "{\"n\":%ld,\"e\":\"parse_begin\"", seq++); bytes("data", p, a); state(c); fprintf(tf, "}\n");
            break;
        case SCPI_VE_PARSE_END: fprintf(tf, "{\"n\":%ld,\"e\":\"parse_end\",\"res\":%ld", seq++, a); state(c); fprintf(tf, "}\n"); break;
        case SCPI_VE_UNIT_BEGIN: fprintf(tf, "{\"n\":%ld,\"e\":\"unit_begin\",\"idx\":%ld", seq++, b); bytes("hdr", p, a); fprintf(tf, "}\n"); break;
        case SCPI_VE_UNIT_END: fprintf(tf, "{\"n\":%ld,\"e\":\"unit_end\",\"res\":%ld}\n", seq++, a); break;
        case SCPI_VE_UNIT_INVALID: fprintf(tf, "{\"n\":%ld,\"e\":\"unit_invalid\"}\n", seq++); break;
        case SCPI_VE_WRITE: fprintf(tf, "{\"n\":%ld,\"e\":\"write\"", seq++); bytes("data", p, a); fprintf(tf, "}\n"); break;
        case SCPI_VE_FLUSH: fprintf(tf, "{\"n\":%ld,\"e\":\"flush\"}\n", seq++); break;
        case SCPI_VE_ERROR_PUSH: fprintf(tf, "{\"n\":%ld,\"e\":\"error_push\",\"code\":%ld", seq++, a); state(c); fprintf(tf, "}\n"); break;
        case SCPI_VE_ERROR_PUSH_END: fprintf(tf, "{\"n\":%ld,\"e\":\"error_push_end\",\"code\":%ld", seq++, a); state(c); fprintf(tf, "}\n"); break;
        case SCPI_VE_INPUT_BEGIN: fprintf(tf, "{\"n\":%ld,\"e\":\"input_begin\",\"len\":%ld", seq++, a); state(c); fprintf(tf, "}\n"); break;
        case SCPI_VE_INPUT_END: fprintf(tf, "{\"n\":%ld,\"e\":\"input_end\",\"res\":%ld", seq++, a); state(c); fprintf(tf, "}\n"); break;
        case SCPI_VE_INPUT_OVERRUN: fprintf(tf, "{\"n\":%ld,\"e\":\"input_overrun\"", seq++); state(c); fprintf(tf, "}\n"); break;
        case SCPI_VE_REGSET_BEGIN: fprintf(tf, "{\"n\":%ld,\"e\":\"regset\",\"name\":%ld,\"val\":%ld", seq++, a, b); state(c); fprintf(tf, "}\n"); break;
        case SCPI_VE_CONTROL: fprintf(tf, "{\"n\":%ld,\"e\":\"control\",\"ctrl\":%ld,\"val\":%ld}\n", seq++, a, b); break;
        default: break;
    }
}
__attribute__((constructor)) static void tracer_init(void) {
    const char * path = getenv("SCPI_VERIF_TRACE");
    if (path && (tf = fopen(path, "w"))) { setvbuf(tf, NULL, _IOLBF, 0); scpi_verif_hook = hook; }
}
__attribute__((destructor)) static void tracer_fini(void) { if (tf) fclose(tf); }
