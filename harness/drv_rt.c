/*
 * drv_rt - round trips on the real library (C07): a value is formatted with SCPI_Result*, the emitted
 * bytes are sent back as the parameter of a command and decoded with the matching SCPI_Param* reader.
 * One ndjson record per case for TVRoundTrip.tla.
 *   drv_rt <seed> <quick|thorough> <out>
 */
#include <stdio.h>
#include <stdlib.h>
#include <string.h>
#include <stdint.h>
#include <math.h>
#include "scpi/scpi.h"

static scpi_t ctx;
static char ibuf[16384];
static scpi_error_t eq[8];
static unsigned char wbuf[16384];
static size_t wlen;
static int errv[16], nerr;

static size_t on_write(scpi_t * c, const char * d, size_t l) { (void) c; if (wlen + l <= sizeof wbuf) { memcpy(wbuf + wlen, d, l); wlen += l; } return l; }
static int on_error(scpi_t * c, int_fast16_t e) { (void) c; if (e && nerr < 16) errv[nerr++] = (int) e; return 0; }
static scpi_result_t on_flush(scpi_t * c) { (void) c; return SCPI_RES_OK; }

/* what the handler decodes */
static int rd_kind;            /* 0 i32 1 u32 2 i64 3 u64 4 bool 5 text 6 block 7 i32 array(ascii) */
static uint64_t dec_val; static int dec_ok;
static double dec_dbl; static float dec_flt;
static int32_t dec_arr[1100]; static size_t dec_n;
static unsigned char dec_bytes[2048]; static size_t dec_len;

static scpi_result_t h_rt(scpi_t * c) {
    dec_ok = 0; dec_val = 0; dec_len = 0;
    switch (rd_kind) {
        case 0: { int32_t v = 0; dec_ok = SCPI_ParamInt32(c, &v, TRUE); dec_val = (uint64_t) (uint32_t) v; break; }
        case 1: { uint32_t v = 0; dec_ok = SCPI_ParamUInt32(c, &v, TRUE); dec_val = v; break; }
        case 2: { int64_t v = 0; dec_ok = SCPI_ParamInt64(c, &v, TRUE); dec_val = (uint64_t) v; break; }
        case 3: { uint64_t v = 0; dec_ok = SCPI_ParamUInt64(c, &v, TRUE); dec_val = v; break; }
        case 4: { scpi_bool_t v = 0; dec_ok = SCPI_ParamBool(c, &v, TRUE); dec_val = v ? 1 : 0; break; }
        case 5: { size_t l = 0; dec_ok = SCPI_ParamCopyText(c, (char *) dec_bytes, sizeof dec_bytes, &l, TRUE); dec_len = l; break; }
        case 7: { dec_n = 0; dec_ok = SCPI_ParamArrayInt32(c, dec_arr, 1100, &dec_n, SCPI_FORMAT_ASCII, TRUE); break; }
        case 8: { dec_dbl = 0; dec_ok = SCPI_ParamDouble(c, &dec_dbl, TRUE); break; }
        case 9: { dec_flt = 0; dec_ok = SCPI_ParamFloat(c, &dec_flt, TRUE); break; }
        case 6: { const char * p = NULL; size_t l = 0; dec_ok = SCPI_ParamArbitraryBlock(c, &p, &l, TRUE); if (dec_ok && l <= sizeof dec_bytes) { memcpy(dec_bytes, p, l); dec_len = l; } break; }
    }
    return dec_ok ? SCPI_RES_OK : SCPI_RES_ERR;
}
static const scpi_command_t cmds[] = {{"RT", h_rt, 0}, SCPI_CMD_LIST_END};
static scpi_interface_t itf = {on_error, on_write, NULL, on_flush, NULL};

static FILE * out;
static void pb(const unsigned char * p, size_t n) { size_t i; fputc('[', out); for (i = 0; i < n; i++) fprintf(out, "%s%d", i ? "," : "", p[i]); fputc(']', out); }
static void limbs(uint64_t v) { fprintf(out, "[%u,%u,%u,%u]", (unsigned) (v >> 48) & 0xFFFF, (unsigned) (v >> 32) & 0xFFFF, (unsigned) (v >> 16) & 0xFFFF, (unsigned) v & 0xFFFF); }

static void fresh(void) { SCPI_Init(&ctx, cmds, &itf, scpi_units_def, 0, 0, 0, 0, ibuf, sizeof ibuf, eq, 8); wlen = 0; nerr = 0; }

static void send_back(void) {
    static char msg[16500];
    size_t n = wlen;
    int i;
    memcpy(msg, "RT ", 3); memcpy(msg + 3, wbuf, n); msg[3 + n] = '\n';
    nerr = 0;
    SCPI_Input(&ctx, msg, (int) (n + 4));
    fprintf(out, ",\"ok\":%d,\"errs\":[", dec_ok ? 1 : 0);
    for (i = 0; i < nerr; i++) fprintf(out, "%s%d", i ? "," : "", errv[i]);
    fprintf(out, "]");
}

/* w = 8,16,32,64; sg = signed; base */
static void case_int(int w, int sg, int base, uint64_t v) {
    uint64_t mask = w == 64 ? ~0ull : ((1ull << w) - 1);
    static unsigned long nint;
    int lead = (int) (nint++ & 1);         /* every other value is the second item of its response (behind a boolean 1) */
    v &= mask;
    fresh();
    if (lead) SCPI_ResultBool(&ctx, 1);
    if (w == 8) { if (sg) SCPI_ResultInt8(&ctx, (int8_t) v); else SCPI_ResultUInt8Base(&ctx, (uint8_t) v, base); }
    else if (w == 16) { if (sg) SCPI_ResultInt16(&ctx, (int16_t) v); else SCPI_ResultUInt16Base(&ctx, (uint16_t) v, base); }
    else if (w == 32) { if (sg) SCPI_ResultInt32(&ctx, (int32_t) v); else SCPI_ResultUInt32Base(&ctx, (uint32_t) v, (int8_t) base); }
    else { if (sg) SCPI_ResultInt64(&ctx, (int64_t) v); else SCPI_ResultUInt64Base(&ctx, v, (int8_t) base); }
    if (lead && wlen >= 2 && wbuf[0] == '1' && wbuf[1] == ',') { memmove(wbuf, wbuf + 2, wlen - 2); wlen -= 2; }      /* otherwise the record shows what was sent */
    fprintf(out, "{\"t\":\"int\",\"w\":%d,\"sg\":%d,\"base\":%d,\"v\":", w, sg, base); limbs(v);
    fprintf(out, ",\"out\":"); pb(wbuf, wlen);
    /* 8/16-bit values are read back through the 32-bit readers and narrowed by the caller, as applications do */
    rd_kind = w == 64 ? (sg ? 2 : 3) : (sg ? 0 : 1);
    send_back();
    if (w < 32) { if (sg) dec_val = (uint64_t) (int64_t) (int32_t) (uint32_t) dec_val; dec_val &= mask; }
    else if (w == 32) dec_val &= mask;
    fprintf(out, ",\"dec\":"); limbs(dec_val);
    fprintf(out, "}\n");
}
static void case_bool(int v) {
    fresh(); SCPI_ResultBool(&ctx, v);
    fprintf(out, "{\"t\":\"bool\",\"w\":1,\"sg\":0,\"base\":10,\"v\":"); limbs((uint64_t) v); fprintf(out, ",\"out\":"); pb(wbuf, wlen);
    rd_kind = 4; send_back(); fprintf(out, ",\"dec\":"); limbs(dec_val); fprintf(out, "}\n");
}
static void case_text(const unsigned char * s, size_t n) {
    char z[2048];
    memcpy(z, s, n); z[n] = 0;
    fresh(); SCPI_ResultText(&ctx, z);
    fprintf(out, "{\"t\":\"text\",\"v\":"); pb(s, n); fprintf(out, ",\"out\":"); pb(wbuf, wlen);
    rd_kind = 5; send_back(); fprintf(out, ",\"dec\":"); pb(dec_bytes, dec_len); fprintf(out, "}\n");
}
static void case_block(const unsigned char * s, size_t n) {
    fresh(); SCPI_ResultArbitraryBlock(&ctx, s, n);
    fprintf(out, "{\"t\":\"block\",\"v\":"); pb(s, n); fprintf(out, ",\"out\":"); pb(wbuf, wlen);
    rd_kind = 6; send_back(); fprintf(out, ",\"dec\":"); pb(dec_bytes, dec_len); fprintf(out, "}\n");
}

/* exact decimal expansion of |v| from glibc (every finite double has at most 767 significant digits) */
static void expansion(const char * kd, const char * ke, double v) {
    static char buf[1400], digs[1300];
    char * p = buf, * e, * q;
    int ex, nd = 0, k;
    if (v == 0 || !isfinite(v)) { fprintf(out, ",\"%s\":[0],\"%s\":%d", kd, ke, isfinite(v) ? 0 : 9999); return; }
    snprintf(buf, sizeof buf, "%.1100e", fabs(v));
    e = strchr(p, 'e'); ex = atoi(e + 1); *e = 0;
    digs[nd++] = p[0];
    for (q = p + 2; *q; q++) digs[nd++] = *q;
    while (nd > 1 && digs[nd - 1] == '0') nd--;
    fprintf(out, ",\"%s\":[", kd);
    for (k = 0; k < nd; k++) { if (k) fputc(',', out); fputc(digs[k], out); }
    fprintf(out, "],\"%s\":%d", ke, ex);
}
static void case_dbl(double v) {
    fresh(); SCPI_ResultDouble(&ctx, v);
    fprintf(out, "{\"t\":\"dbl\",\"P\":15,\"neg\":%d", signbit(v) ? 1 : 0); expansion("d", "e", v);
    fprintf(out, ",\"out\":"); pb(wbuf, wlen);
    rd_kind = 8; send_back();
    fprintf(out, ",\"dneg\":%d", signbit(dec_dbl) ? 1 : 0); expansion("dd", "de", dec_dbl); fprintf(out, "}\n");
}
static void case_flt(float v) {
    fresh(); SCPI_ResultFloat(&ctx, v);
    fprintf(out, "{\"t\":\"flt\",\"P\":6,\"neg\":%d", signbit(v) ? 1 : 0); expansion("d", "e", (double) v);
    fprintf(out, ",\"out\":"); pb(wbuf, wlen);
    rd_kind = 9; send_back();
    fprintf(out, ",\"dneg\":%d", signbit(dec_flt) ? 1 : 0); expansion("dd", "de", (double) dec_flt); fprintf(out, "}\n");
}

/* ASCII-formatted array: element by element */
static void case_arr(const int32_t * a, size_t n) {
    size_t i;
    fresh(); SCPI_ResultArrayInt32(&ctx, a, n, SCPI_FORMAT_ASCII);
    fprintf(out, "{\"t\":\"arr\",\"v\":[");
    for (i = 0; i < n; i++) fprintf(out, "%s%d", i ? "," : "", (int) a[i]);
    fprintf(out, "],\"out\":"); pb(wbuf, wlen);
    rd_kind = 7; send_back();
    fprintf(out, ",\"dec\":[");
    for (i = 0; i < dec_n && dec_ok; i++) fprintf(out, "%s%d", i ? "," : "", (int) dec_arr[i]);
    fprintf(out, "]}\n");
}

static uint64_t rng;
static uint64_t rnd(void) { rng ^= rng << 13; rng ^= rng >> 7; rng ^= rng << 17; return rng; }

int main(int argc, char ** argv) {
    static const int bases[] = {10, 16, 8, 2};
    int thorough, w, b, sg;
    long i, nrand;
    uint64_t v;
    if (argc < 4) return 3;
    rng = 0x9E3779B97F4A7C15ull ^ (strtoull(argv[1], 0, 10) * 0x100000001B3ull);
    thorough = !strcmp(argv[2], "thorough");
    out = fopen(argv[3], "w");
    /* all 2^8 values, all 2^16 (thorough) / every 97th + boundaries (quick) */
    for (b = 0; b < 4; b++) for (v = 0; v < 256; v++) { case_int(8, 0, bases[b], v); if (b == 0) case_int(8, 1, 10, v); }
    for (b = 0; b < 4; b++) for (v = 0; v < 65536; v += (thorough ? 1 : 97)) { case_int(16, 0, bases[b], v); if (b == 0) case_int(16, 1, 10, v); }
    /* bases the library does not know are printed in decimal: small values against every kind of unusual base */
    {
        static const int odd[] = {0, 1, 3, 7, 9, 11, 12, 15, 17, 32, 36, 100, 127};
        static const uint64_t vals[] = {0, 1, 2, 7, 9, 10, 11, 12, 15, 16, 31, 35, 36, 99, 126, 255, 65535, 4294967295ull};
        int j;
        for (b = 0; b < 13; b++) for (j = 0; j < 18; j++) { case_int(32, 0, odd[b], vals[j]); case_int(64, 0, odd[b], vals[j]); case_int(8, 0, odd[b], vals[j] & 0xFF); case_int(16, 0, odd[b], vals[j] & 0xFFFF); }
    }
    /* structured boundary set for 32 and 64 bit */
    for (w = 32; w <= 64; w += 32) for (b = 0; b < 4; b++) {
        uint64_t p;
        int k;
        for (k = 0; k < w; k++) {
            uint64_t x = 1ull << k;
            uint64_t set[] = {x, x - 1, x + 1, ~x, (x << 1) - 1, x | 1, 0, ~0ull};
            int j;
            for (j = 0; j < 8; j++) { case_int(w, 0, bases[b], set[j]); if (b == 0) case_int(w, 1, 10, set[j]); }
        }
        for (p = 1; p && p <= (w == 64 ? ~0ull : 0xFFFFFFFFull) / bases[b]; p *= bases[b]) {
            case_int(w, 0, bases[b], p); case_int(w, 0, bases[b], p - 1); case_int(w, 0, bases[b], p + 1);
            if (b == 0) { case_int(w, 1, 10, p); case_int(w, 1, 10, (uint64_t) (-(int64_t) p)); case_int(w, 1, 10, p - 1); }
            if (p > (w == 64 ? ~0ull : 0xFFFFFFFFull) / bases[b] / bases[b]) break;
        }
    }
    nrand = thorough ? 300000 : 40000;
    for (i = 0; i < nrand; i++) {
        v = rnd();
        if (i % 3 == 0) v >>= (rnd() % 64);           /* boundary-biased: short values */
        if (i % 5 == 0) v = ~(v >> (rnd() % 60));
        w = (i & 1) ? 64 : 32;
        b = (int) (rnd() % 4);
        sg = (b == 0) && (rnd() & 1);
        case_int(w, sg, bases[b], v);
    }
    case_bool(0); case_bool(1);
    /* texts: all strings <= L over {a, ", ', space, ;} then random longer ones (7-bit content) */
    {
        static const unsigned char al[] = {'a', '"', '\'', ' ', ';', ','};
        int L = thorough ? 5 : 4, len;
        unsigned char s[256];
        for (len = 0; len <= L; len++) {
            long total = 1, c;
            int k;
            for (k = 0; k < len; k++) total *= 6;
            for (c = 0; c < total; c++) { long x = c; for (k = 0; k < len; k++) { s[k] = al[x % 6]; x /= 6; } case_text(s, (size_t) len); }
        }
        {
            /* texts longer than the 255 characters that bound error descriptions (not texts) */
            static unsigned char lt[800];
            static const int lens[] = {254, 255, 256, 257, 300, 511, 512, 700};
            int j, k;
            for (j = 0; j < 8; j++) {
                for (k = 0; k < lens[j]; k++) lt[k] = (unsigned char) ((k % 37 == 5) ? '"' : 'a' + k % 26);
                case_text(lt, (size_t) lens[j]);
            }
        }
        for (len = 1; len <= 127; len++) {          /* every 7-bit character alone and between letters */
            s[0] = (unsigned char) len; case_text(s, 1);
            s[0] = 'x'; s[1] = (unsigned char) len; s[2] = 'y'; case_text(s, 3);
        }
        for (i = 0; i < (thorough ? 3000 : 300); i++) {
            size_t n = 6 + rnd() % 195, k;
            for (k = 0; k < n; k++) { unsigned r = (unsigned) (rnd() % 20); s[k] = r == 0 ? '"' : r == 1 ? '\'' : (unsigned char) (1 + rnd() % 127); }
            case_text(s, n);
        }
    }
    /* blocks of every length with random bytes incl. terminators */
    {
        unsigned char s[1200];
        size_t n, k, maxn = thorough ? 1100 : 300;
        for (n = 0; n <= maxn; n++) { for (k = 0; k < n; k++) s[k] = (unsigned char) (rnd() % 6 == 0 ? "\n\r;\"#,"[rnd() % 6] : rnd()); case_block(s, n); }
    }
    {
        static const size_t ns[] = {1, 2, 3, 7, 255, 256, 257, 300, 512, 513, 1000};
        static int32_t a[1100];
        size_t k, j;
        for (k = 0; k < sizeof ns / sizeof ns[0]; k++) {
            for (j = 0; j < ns[k]; j++) a[j] = (int32_t) ((rnd() % 3 == 0) ? -(int32_t) (rnd() % 1000000000) : (int32_t) (rnd() % 1000));
            case_arr(a, ns[k]);
        }
    }
    /* finite doubles / floats: powers of ten, values next to them, random bit patterns over the full exponent range, subnormals */
    {
        int e10;
        long nf = thorough ? 4000 : 250;
        for (e10 = -307; e10 <= 308; e10 += (thorough ? 3 : 29)) { double p = pow(10.0, e10); case_dbl(p); case_dbl(nextafter(p, 0)); case_dbl(-nextafter(p, INFINITY)); }
        for (e10 = -37; e10 <= 38; e10 += (thorough ? 1 : 9)) { float p = powf(10.0f, (float) e10); case_flt(p); case_flt(nextafterf(p, 0)); case_flt(-nextafterf(p, INFINITY)); }
        case_dbl(0.0); case_dbl(5e-324); case_dbl(2.2250738585072014e-308); case_dbl(1.7976931348623e308); case_dbl(1.7976931348623157e308); case_dbl(-1.7976931348623157e308); case_dbl(0.1); case_dbl(123456789012345.6);
        case_flt(0.0f); case_flt(1e-45f); case_flt(3.40282e38f); case_flt(0.1f); case_flt(999999.5f);
        for (i = 0; i < nf; i++) {
            uint64_t b = rnd(); double x; float y; uint32_t b32 = (uint32_t) rnd();
            memcpy(&x, &b, 8); memcpy(&y, &b32, 4);
            if (isfinite(x)) case_dbl(x);
            if (isfinite(y)) case_flt(y);
        }
    }
    fclose(out);
    return 0;
}
