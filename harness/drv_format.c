/*
 * drv_format - C14 / C15: calls the formatting and copying functions of the real library that fill a
 * caller-supplied buffer and records one ndjson line per call for TVFormat.tla.
 *
 *   int <c> <seed> <nrandom> <all|near> <maxlen> <stride> <out> [only=i,j,..] [nofork]
 *        SCPI_Int32ToStr, SCPI_UInt32ToStrBase, SCPI_Int64ToStr, SCPI_UInt64ToStrBase and the
 *        UInt32/64ToStrBaseSign internals on the structured boundary set (every <stride>-th pair)
 *        and <nrandom> seeded random values; c = 14 | 15 is copied into the records
 *   fmt <seed> <nrandom> <maxlen> <out> [only=..] [nofork]
 *        SCPI_NumberToStr (every unit, every special number), SCPI_FloatToStr, SCPI_DoubleToStr,
 *        SCPI_dtostre, SCPI_ParamCopyText for every buffer length 0..maxlen
 *   sweep32 <part> <nparts>
 *        every 32-bit value through SCPI_Int32ToStr and SCPI_UInt32ToStrBase(2,8,10,16), compared
 *        with the driver's reference formatter (the one whose output TVFormat checks in the records)
 *
 * Every call is made twice: into an exact-size heap block (mode "x": ASan red zones directly in front
 * of and behind the buffer) and into the middle of a larger block (mode "a": canary bytes in front of
 * and behind the buffer are recorded after the call, so an overrun is observed as data).  The calls
 * run in a forked child; the descriptor of the call in progress and the output buffer live in shared
 * memory, so when the child dies (ASan / UBSan report, signal, watchdog) the parent writes a record
 * {descriptor, "crash": ...} for exactly that call and a new child continues with the next one.
 */
#define _GNU_SOURCE
#include <stdio.h>
#include <stdlib.h>
#include <string.h>
#include <stdint.h>
#include <unistd.h>
#include <signal.h>
#include <fcntl.h>
#include <math.h>
#include <float.h>
#include <errno.h>
#include <sys/mman.h>
#include <sys/wait.h>
#include "scpi/scpi.h"
#include "utils_private.h"

#if defined(__has_feature)
#if __has_feature(address_sanitizer)
#include <sanitizer/asan_interface.h>
#define HAVE_ASAN 1
#endif
#endif
#ifndef HAVE_ASAN
#define HAVE_ASAN 0
#define ASAN_POISON_MEMORY_REGION(a, n) ((void) (a), (void) (n))
#define ASAN_UNPOISON_MEMORY_REGION(a, n) ((void) (a), (void) (n))
#endif

#define PRE 8
#define POST 16
#define FILL 0xAA
#define BIG 96

typedef struct {
    volatile long cur;
    volatile int finished;
    volatile long ncalls;
    volatile size_t used;
    volatile int nbad;
    long bad[256];
    char desc[1024];
    char obuf[1 << 20];
} shared_t;

static shared_t * sh;
static int outfd = -1;
static long idx = -1, start = 0;
static long * only;
static int nonly;
static int c_tag = 14;

static uint64_t rng;
static uint64_t rnd64(void) { rng ^= rng << 13; rng ^= rng >> 7; rng ^= rng << 17; return rng * 0x2545F4914F6CDD1Dull; }
static unsigned rnd(unsigned n) { return (unsigned) ((rnd64() >> 33) % n); }

static void flush_obuf(void) {
    size_t off = 0, n = sh->used;
    while (off < n) {
        ssize_t w = write(outfd, sh->obuf + off, n - off);
        if (w <= 0) { if (errno == EINTR) continue; perror("write"); _exit(4); }
        off += (size_t) w;
    }
    sh->used = 0;
}

static void emit(const char * s, size_t n) {
    if (sh->used + n > sizeof sh->obuf) flush_obuf();
    memcpy(sh->obuf + sh->used, s, n);
    sh->used += n;
}

static unsigned char canary(long k, unsigned salt) { return (unsigned char) (0x80 | (((k + 64) * 29 + salt) & 0x7F)); }

/* ------------------------------------------------------------------ one call */

typedef struct {
    const char * api;
    int w; uint64_t v; int base; int sign;            /* integer formatters */
    double d; int unit; int special; int tag;         /* dbl / flt / num / dtostre */
    int prec, flags;
    const char * src;                                 /* copy: the quoted token */
    size_t len;
    char mode;                                        /* x exact, a arena, f full text (arena of BIG bytes) */
    const unsigned char * full; size_t fulln;         /* full text of the group (fmt apis) */
    const char * ref; size_t L; int bd;                                 /* reference length of the canonical text (integers); boundary-set member */
    int huge;                                         /* the length passed is 2^31 or more (a mapped region); recorded as len = 300 (every length above the text is equivalent) */
} call_t;

static scpi_t ctx;
static char ibuf[320];
static scpi_error_t eq[4];
static char * g_buf; static size_t g_len, g_copy; static int g_ok, g_called, g_mand = 1;

static scpi_result_t cb_txt(scpi_t * c) {
    g_called = 1;
    g_ok = SCPI_ParamCopyText(c, g_buf, g_len, &g_copy, g_mand ? TRUE : FALSE) ? 1 : 0;
    return SCPI_RES_OK;
}
static int on_error(scpi_t * c, int_fast16_t e) { (void) c; (void) e; return 0; }
static size_t on_write(scpi_t * c, const char * d, size_t l) { (void) c; (void) d; return l; }
static scpi_result_t on_control(scpi_t * c, scpi_ctrl_name_t n, scpi_reg_val_t v) { (void) c; (void) n; (void) v; return SCPI_RES_OK; }
static scpi_result_t on_flush(scpi_t * c) { (void) c; return SCPI_RES_OK; }
static const scpi_command_t cmds[] = { {"TXT", cb_txt, 0}, SCPI_CMD_LIST_END };
static scpi_interface_t itf = {on_error, on_write, on_control, on_flush, NULL};

static void fresh(void) {
    SCPI_Init(&ctx, cmds, &itf, scpi_units_def, "MF", "MD", NULL, "1", ibuf, sizeof ibuf, eq, 4);
}

static const char * unit_name(int unit) {
    int i;
    for (i = 0; scpi_units_def[i].name != NULL; i++)
        if ((int) scpi_units_def[i].unit == unit && scpi_units_def[i].mult == 1) return scpi_units_def[i].name;
    return "";
}

static int want(long i) {
    int k;
    if (i < start) return 0;
    if (!only) return 1;
    for (k = 0; k < nonly; k++) if (only[k] == i) return 1;
    return 0;
}

static int is_bad(long i) {
    int k;
    for (k = 0; k < sh->nbad && k < 256; k++) if (sh->bad[k] == i) return 1;
    return 0;
}

static size_t describe(char * p, size_t cap, const call_t * c, unsigned salt) {
    size_t n = (size_t) snprintf(p, cap, "{\"c\":%d,\"i\":%ld,\"a\":\"%s\",\"n\":%zu,\"m\":\"%c\",\"k\":%u", c_tag, idx, c->api, c->len, c->mode, salt);
    if (c->w) {
        if (c->w == 32) n += (size_t) snprintf(p + n, cap - n, ",\"w\":32,\"v\":[%u,%u]", (unsigned) ((c->v >> 16) & 0xFFFF), (unsigned) (c->v & 0xFFFF));
        else n += (size_t) snprintf(p + n, cap - n, ",\"w\":64,\"v\":[%u,%u,%u,%u]", (unsigned) ((c->v >> 48) & 0xFFFF), (unsigned) ((c->v >> 32) & 0xFFFF),
                                    (unsigned) ((c->v >> 16) & 0xFFFF), (unsigned) (c->v & 0xFFFF));
        n += (size_t) snprintf(p + n, cap - n, ",\"b\":%d,\"s\":%d,\"L\":%zu,\"bd\":%d,\"ref\":[", c->base, c->sign, c->L, c->bd);
        if (c->mode == 'x' && c->ref) { size_t i; for (i = 0; i < c->L; i++) n += (size_t) snprintf(p + n, cap - n, "%u%s", (unsigned char) c->ref[i], i + 1 < c->L ? "," : ""); }
        n += (size_t) snprintf(p + n, cap - n, "]");
    } else if (c->src) {
        const unsigned char * s = (const unsigned char *) c->src;
        n += (size_t) snprintf(p + n, cap - n, ",\"bd\":%d,\"src\":[", c->bd);
        for (; *s; s++) n += (size_t) snprintf(p + n, cap - n, "%u%s", *s, s[1] ? "," : "");
        n += (size_t) snprintf(p + n, cap - n, "]");
    } else {
        uint64_t bits;
        size_t i;
        memcpy(&bits, &c->d, 8);
        n += (size_t) snprintf(p + n, cap - n, ",\"bd\":%d,\"d\":\"%.17g/%016llx\",\"u\":\"%s\",\"sp\":%d,\"tag\":%d,\"p\":%d,\"fl\":%d", c->bd, c->d, (unsigned long long) bits,
                               c->special ? "" : (strcmp(c->api, "num") ? "" : unit_name(c->unit)), c->special, c->tag, c->prec, c->flags);
        if (c->mode != 'f') {
            n += (size_t) snprintf(p + n, cap - n, ",\"f\":[");
            for (i = 0; i < c->fulln; i++) n += (size_t) snprintf(p + n, cap - n, "%u%s", c->full[i], i + 1 < c->fulln ? "," : "");
            n += (size_t) snprintf(p + n, cap - n, "]");
        }
    }
    return n;
}

static unsigned char lastout[BIG + 1];
static size_t lastoutn;

/* returns 1 if the call was executed */
static int do_call(const call_t * c) {
    unsigned salt;
    unsigned char * base, * buf;
    size_t len = c->len, passlen = c->len, ret = 0, n, i, firstnul;
    int arena = c->mode != 'x', ok = 1, rp = 1;
    char rec[4096];
    size_t rn;

    idx++;
    if (!want(idx)) {
        /* the full text of a group is needed by the calls behind it: make that call even when its record is not wanted */
        if (!(c->mode == 'f' && !is_bad(idx) && (idx < start || only))) return 0;
    }
    salt = (unsigned) ((idx * 2654435761u) >> 7) & 0x7F;
    rn = describe(sh->desc, sizeof sh->desc, c, salt);
    sh->cur = idx;
    sh->ncalls++;

    if (c->huge) {
        static const size_t hl[3] = {(size_t) 1 << 31, (size_t) 1 << 32, ((size_t) 1 << 31) + 77};
        passlen = hl[idx % 3];
        base = mmap(NULL, passlen + 4096, PROT_READ | PROT_WRITE, MAP_PRIVATE | MAP_ANONYMOUS | MAP_NORESERVE, -1, 0);
        if (base == MAP_FAILED) return 0;
        buf = base;
        memset(buf, FILL, len);
        arena = 0;
    } else if (arena) {
        long k;
        base = malloc(PRE + len + POST + 1);
        buf = base + PRE;
        for (k = -PRE; k < 0; k++) buf[k] = canary(k, salt);
        memset(buf, FILL, len);
        for (k = 0; k < POST; k++) buf[len + k] = canary((long) len + k, salt);
        buf[len + POST] = 0;                                  /* stops a run-away strlen inside our own block */
    } else {
        /* ASan gives a malloc(0) block one addressable byte: for length 0 that byte is poisoned by hand, so that
           buf[0] and buf[-1] both trap */
        base = malloc(len ? len : 1);
        buf = base;
        if (len) memset(buf, FILL, len);
        else if (base) ASAN_POISON_MEMORY_REGION(base, 1);
    }
    if (!base) { fprintf(stderr, "malloc failed\n"); _exit(4); }

    if (c->w == 32) {
        if (!strcmp(c->api, "i32")) ret = SCPI_Int32ToStr((int32_t) (uint32_t) c->v, (char *) buf, passlen);
        else if (!strcmp(c->api, "u32")) ret = SCPI_UInt32ToStrBase((uint32_t) c->v, (char *) buf, passlen, (int8_t) c->base);
        else ret = UInt32ToStrBaseSign((uint32_t) c->v, (char *) buf, passlen, (int8_t) c->base, c->sign ? TRUE : FALSE);
    } else if (c->w == 64) {
        if (!strcmp(c->api, "i64")) ret = SCPI_Int64ToStr((int64_t) c->v, (char *) buf, passlen);
        else if (!strcmp(c->api, "u64")) ret = SCPI_UInt64ToStrBase(c->v, (char *) buf, passlen, (int8_t) c->base);
        else ret = UInt64ToStrBaseSign(c->v, (char *) buf, passlen, (int8_t) c->base, c->sign ? TRUE : FALSE);
    } else if (!strcmp(c->api, "dbl")) {
        ret = SCPI_DoubleToStr(c->d, (char *) buf, passlen);
    } else if (!strcmp(c->api, "flt")) {
        ret = SCPI_FloatToStr((float) c->d, (char *) buf, passlen);
    } else if (!strcmp(c->api, "num")) {
        scpi_number_t num;
        memset(&num, 0, sizeof num);
        num.special = c->special ? TRUE : FALSE;
        if (c->special) num.content.tag = c->tag; else num.content.value = c->d;
        num.unit = (scpi_unit_t) c->unit;
        num.base = (c->special || (idx % 3)) ? 10 : ((idx % 9 == 0) ? 16 : (idx % 9 == 3) ? 8 : 2);      /* the base a #H / #Q / #B parameter leaves in the number: the text stays decimal */
        ret = SCPI_NumberToStr(&ctx, scpi_special_numbers_def, &num, (char *) buf, passlen);
    } else if (!strcmp(c->api, "dtostre")) {
        char * r = SCPI_dtostre(c->d, (char *) buf, passlen, (unsigned char) c->prec, (unsigned char) c->flags);
        rp = (r == (char *) buf);
        for (ret = 0; ret < len && buf[ret]; ret++) {}        /* no length is returned: the text is what is in the buffer */
    } else if (!strcmp(c->api, "copyfail")) {
        /* a copy that fails (no parameter, or data that is no string): nothing outside the buffer may be touched */
        size_t sl = strlen(c->src);
        char line[320];
        memcpy(line, "TXT", 3); memcpy(line + 3, c->src, sl); line[3 + sl] = '\n';
        g_buf = (char *) buf; g_len = len; g_copy = 0; g_ok = 0; g_called = 0;
        g_mand = c->flags ? 0 : 1;           /* flags = 1: the text is optional (and absent) */
        fresh();
        SCPI_Input(&ctx, line, (int) (sl + 4));
        g_mand = 1;
        ret = 0;
        ok = g_called && !g_ok;
    } else if (!strcmp(c->api, "copy")) {
        size_t sl = strlen(c->src);
        char line[320];
        memcpy(line, "TXT ", 4); memcpy(line + 4, c->src, sl); line[4 + sl] = '\n';
        g_buf = (char *) buf; g_len = len; g_copy = 0; g_ok = 0; g_called = 0;
        fresh();
        SCPI_Input(&ctx, line, (int) (sl + 5));
        ret = g_copy;
        ok = g_called && g_ok;
    } else { fprintf(stderr, "bad api %s\n", c->api); _exit(3); }

    /* observation */
    for (firstnul = 0; firstnul < len && buf[firstnul]; firstnul++) {}
    n = ret + 1 > firstnul + 1 ? ret + 1 : firstnul + 1;
    if (n > len || n < ret) n = len;
    if (c->mode == 'f') {
        lastoutn = firstnul < BIG ? firstnul : BIG;
        memcpy(lastout, buf, lastoutn);
    }
    if (want(idx)) {
        memcpy(rec, sh->desc, rn);
        rn += (size_t) snprintf(rec + rn, sizeof rec - rn, ",\"r\":%zu,\"ok\":%d,\"o\":[", ret > 100000 ? (size_t) 100000 : ret, ok && rp);
        for (i = 0; i < n; i++) rn += (size_t) snprintf(rec + rn, sizeof rec - rn, "%u%s", buf[i], i + 1 < n ? "," : "");
        rn += (size_t) snprintf(rec + rn, sizeof rec - rn, "],\"pre\":[");
        if (arena) for (i = 0; i < PRE; i++) rn += (size_t) snprintf(rec + rn, sizeof rec - rn, "%u%s", buf[(long) i - PRE], i + 1 < PRE ? "," : "");
        rn += (size_t) snprintf(rec + rn, sizeof rec - rn, "],\"post\":[");
        if (arena) for (i = 0; i < POST; i++) rn += (size_t) snprintf(rec + rn, sizeof rec - rn, "%u%s", buf[len + i], i + 1 < POST ? "," : "");
        rn += (size_t) snprintf(rec + rn, sizeof rec - rn, "]}\n");
        emit(rec, rn);
    }
    if (c->huge) { munmap(base, passlen + 4096); return 1; }
    if (!arena && !len) ASAN_UNPOISON_MEMORY_REGION(base, 1);
    free(base);
    if ((sh->ncalls & 1023) == 0) alarm(6);       /* a single conversion takes microseconds: a call that runs for seconds hangs */
    return 1;
}

/* ------------------------------------------------------------------ reference formatter (case selection, sweep) */

static size_t ref_fmt(uint64_t v, int w, int base, int sign, char * out) {
    char tmp[80];
    size_t n = 0, k = 0;
    int b = (base == 2 || base == 8 || base == 16) ? base : 10;
    int neg = 0;
    if (w == 32) v &= 0xFFFFFFFFull;
    if (sign && b == 10 && ((v >> (w - 1)) & 1)) { neg = 1; v = (w == 32) ? ((~v + 1) & 0xFFFFFFFFull) : (~v + 1); }
    do { tmp[n++] = "0123456789ABCDEF"[v % (unsigned) b]; v /= (unsigned) b; } while (v);
    if (neg) out[k++] = '-';
    while (n) out[k++] = tmp[--n];
    out[k] = 0;
    return k;
}

/* ------------------------------------------------------------------ generators */

static int lens_all = 0;
static size_t maxlen = 70;

static void both_modes(call_t * c) {
    c->mode = 'x'; do_call(c);
    c->mode = 'a'; do_call(c);
}

static void over_lens(call_t * c, size_t L) {
    size_t l;
    static unsigned long nover;
    if (nover++ % 16 == 0) {          /* buffers of more than 255 bytes (a length kept in one byte would wrap) */
        static const size_t bigl[] = {255, 256, 257, 300, 512};
        for (l = 0; l < 5; l++) { c->len = bigl[l]; both_modes(c); }
    }
    if (nover % 48 == 7 && (c->w || !strcmp(c->api, "dbl") || !strcmp(c->api, "flt"))) {
        /* a buffer of 2 GiB and more (its length does not fit an int) */
        c->huge = 1; c->len = 300; c->mode = 'x'; do_call(c); c->huge = 0;
    }
    if (lens_all) {
        for (l = 0; l <= maxlen; l++) { c->len = l; both_modes(c); }
    } else {
        size_t cand[8], k, j, m = 0;
        cand[m++] = 0; cand[m++] = 1;
        if (L >= 1) cand[m++] = L - 1;
        cand[m++] = L; cand[m++] = L + 1;
        cand[m++] = maxlen;
        cand[m++] = rnd((unsigned) maxlen + 1);
        for (k = 0; k < m; k++) {
            int dup = 0;
            if (cand[k] > maxlen) continue;
            for (j = 0; j < k; j++) if (cand[j] == cand[k]) dup = 1;
            if (dup) continue;
            c->len = cand[k]; both_modes(c);
        }
    }
}

static long pairno = 0;
static int stride = 1;

static void int_case(int w, uint64_t v, int base, int sign, int pub) {
    call_t c;
    char ref[80];
    size_t L;
    if (w == 32) v &= 0xFFFFFFFFull;
    if ((pairno++ % stride) != 0) return;
    memset(&c, 0, sizeof c);
    c.w = w; c.v = v; c.base = base; c.sign = sign;
    if (pub && sign && base == 10) c.api = (w == 32) ? "i32" : "i64";
    else if (pub && !sign) c.api = (w == 32) ? "u32" : "u64";
    else c.api = (w == 32) ? "x32" : "x64";
    L = ref_fmt(v, w, base, sign, ref);
    c.L = L; c.bd = 1; c.ref = ref;
    over_lens(&c, L);
}

static void family(int w, uint64_t v, int b) {
    int_case(w, v, b, 0, 1);
    int_case(w, v, b, 1, b == 10);
}

static void common(int w, uint64_t v) {
    static const int odd[] = {0, 7, -1, 1, 3, 127, -128, 10};
    static int rot = 0;
    int b;
    static const int bases[] = {2, 8, 10, 16};
    for (b = 0; b < 4; b++) family(w, v, bases[b]);
    int_case(w, v, 10, 1, 0);
    int_case(w, v, odd[rot % 8], 0, 1); rot++;
    int_case(w, v, odd[rot % 8], 1, 0); rot++;
}

static void gen_int(long nrandom) {
    static const int bases[] = {2, 8, 10, 16};
    int wi, bi, k;
    long r;
    for (wi = 0; wi < 2; wi++) {
        int w = wi ? 64 : 32;
        uint64_t mask = (w == 32) ? 0xFFFFFFFFull : ~0ull;
        /* common values: 0, 1, all ones, MIN / MAX of every signed width, small negatives, negative powers of ten */
        common(w, 0); common(w, 1); common(w, mask); common(w, mask - 1);
        for (k = 8; k <= w; k *= 2) {
            uint64_t top = 1ull << (k - 1);
            common(w, top - 1); common(w, top); common(w, top + 1);
            common(w, (~top + 1) & mask); common(w, (~top) & mask); common(w, (~top + 2) & mask);
            common(w, ((k == 64) ? ~0ull : ((1ull << k) - 1)) & mask);
        }
        {
            uint64_t p = 1;
            for (k = 0; k < (w == 32 ? 10 : 19); k++) {
                int_case(w, (~p + 1) & mask, 10, 1, 1);
                int_case(w, (~p + 2) & mask, 10, 1, 1);
                int_case(w, (~p) & mask, 10, 1, 1);
                int_case(w, (~(p * 9) + 1) & mask, 10, 1, 1);
                p *= 10;
            }
        }
        /* per base: every power +-1, every single-non-zero-digit value */
        for (bi = 0; bi < 4; bi++) {
            int b = bases[bi], d;
            uint64_t p = 1;
            for (;;) {
                family(w, p - 1, b); family(w, p, b); family(w, p + 1, b);
                for (d = 2; d < b; d++) {
                    if (p > mask / (unsigned) d) break;
                    family(w, p * (unsigned) d, b);
                    if (d == b - 1 || d == 2) { family(w, p * (unsigned) d - 1, b); family(w, p * (unsigned) d + 1, b); }
                }
                if (p > mask / (unsigned) b) break;
                p *= (unsigned) b;
            }
        }
        /* all-ones prefixes and suffixes, alternating patterns */
        for (k = 1; k < w; k++) {
            uint64_t low = (1ull << k) - 1, high = (mask << (w - k)) & mask;
            family(w, low, 2); family(w, high, 2); family(w, high, 16); family(w, high, 8); family(w, high, 10);
        }
        family(w, 0xAAAAAAAAAAAAAAAAull & mask, 2); family(w, 0x5555555555555555ull & mask, 2);
        family(w, 0x0123456789ABCDEFull & mask, 16); family(w, 0xFEDCBA9876543210ull & mask, 16);
        family(w, 01234567012345670123ull & mask, 8); family(w, 1234567890123456789ull & mask, 10);
        family(w, 9876543210ull & mask, 10); family(w, 12345678901234567890ull & mask, 10);
    }
    /* seeded random values, stratified by magnitude */
    stride = 1;
    for (r = 0; r < nrandom; r++) {
        int w = rnd(2) ? 64 : 32;
        int bits = 1 + (int) rnd((unsigned) w);
        uint64_t v = rnd64();
        int base, sign = (int) rnd(2), pub = (int) rnd(2);
        call_t c;
        char ref[80];
        size_t L;
        if (bits < 64) v &= (1ull << bits) - 1;
        v |= 1ull << (bits - 1);
        if (rnd(4) == 0) v = ~v + 1;
        if (w == 32) v &= 0xFFFFFFFFull;
        base = bases[rnd(4)];
        if (rnd(8) == 0) base = (int) (int8_t) rnd(256);
        memset(&c, 0, sizeof c);
        c.w = w; c.v = v; c.base = base; c.sign = sign;
        if (pub && sign && base == 10) c.api = (w == 32) ? "i32" : "i64";
        else if (pub && !sign) c.api = (w == 32) ? "u32" : "u64";
        else c.api = (w == 32) ? "x32" : "x64";
        L = ref_fmt(v, w, base, sign, ref);
        c.L = L; c.bd = 0; c.ref = ref;
        if (rnd(2)) { long l = (long) L - 2 + (long) rnd(5); c.len = l < 0 ? 0 : (size_t) l; if (c.len > maxlen) c.len = maxlen; }
        else c.len = rnd((unsigned) maxlen + 1);
        both_modes(&c);
    }
}

/* one fmt group: the full text from a BIG buffer, then every length 0..maxlen in both modes */
static int cur_bd = 1;
static void fmt_group(call_t * c) {
    unsigned char full[BIG + 1];
    size_t fulln, l;
    c->bd = cur_bd;
    c->mode = 'f'; c->len = BIG; c->full = NULL; c->fulln = 0;
    if (!do_call(c)) return;                   /* the full-text call itself died earlier: nothing to relate to */
    fulln = lastoutn;
    memcpy(full, lastout, fulln);
    c->full = full; c->fulln = fulln;
    for (l = 0; l <= maxlen; l++) { c->len = l; both_modes(c); }
}

static double rnd_double(void) {
    unsigned k = rnd(10);
    if (k < 4) {                                /* decimal mantissa of 1..17 digits, decimal exponent */
        int nd = 1 + (int) rnd(17), e = (int) rnd(80) - 40, i;
        char t[64]; size_t n = 0;
        if (rnd(2)) t[n++] = '-';
        t[n++] = (char) ('1' + rnd(9));
        if (nd > 1) t[n++] = '.';
        for (i = 1; i < nd; i++) t[n++] = (char) ('0' + rnd(10));
        n += (size_t) snprintf(t + n, sizeof t - n, "e%d", rnd(6) == 0 ? e * 7 : e);
        return strtod(t, NULL);
    } else if (k < 7) {                         /* random bit pattern */
        uint64_t b = rnd64(); double d; memcpy(&d, &b, 8); return d;
    } else if (k < 9) {                         /* small integers and halves */
        return ((double) (long) rnd(2000000) - 1000000.0) / (rnd(2) ? 1.0 : 8.0);
    } else {
        uint64_t b = rnd64() & 0x800FFFFFFFFFFFFFull; double d; memcpy(&d, &b, 8); return d;   /* subnormal */
    }
}

static const double dvals[] = { 0.0, -0.0, 1.0, -1.0, 10.5, 0.1, -0.5, 1.0 / 3.0, 123456.0, 1234567.0, 999999.5, 0.0001, 0.00001234, 1e5, 1e6, 1e15, 1e16,
    123456789012345.0, 1234567890123456.0, 0.000123456789012345, 1.5e-7, -1.23456789012345e-100, 1.23456789012345e+100, 9.99999999999999e+22,
    1e22, 1e-22, DBL_MAX, -DBL_MAX, DBL_MIN, 4.9406564584124654e-324, FLT_MAX, FLT_MIN, 3.4028235e38, 1.17549435e-38, 16777216.0, 4294967296.0,
    -9223372036854775808.0, 2.2250738585072009e-308 };
#define NDVALS (sizeof dvals / sizeof dvals[0])

static void gen_fmt(long nrandom, int custom_dtostre) {
    call_t c;
    size_t i;
    long r;
    int u, t;
    static const double nvals[] = { 10.5, 0.0, -1.5e-7, 123456789012345.0, -1.23456789012345e-100, 1e22 };
    static const int flagsets[] = { 0, SCPI_DTOSTRE_UPPERCASE | SCPI_DTOSTRE_PLUS_SIGN, SCPI_DTOSTRE_ALWAYS_SIGN };
    double specials[3];
    specials[0] = INFINITY; specials[1] = -INFINITY; specials[2] = NAN;
    fresh();

    /* SCPI_NumberToStr: every unit of the table (and none, and an undefined one) x value classes */
    for (u = 0; u <= (int) SCPI_UNIT_LITER + 1; u += (custom_dtostre ? 4 : 1)) {   /* the units are build-independent: a quarter of them in the dtostre build */
        for (i = 0; i < sizeof nvals / sizeof nvals[0]; i++) {
            memset(&c, 0, sizeof c);
            c.api = "num"; c.d = nvals[i]; c.unit = u;
            fmt_group(&c);
        }
    }
    for (i = 0; i < 3; i++) {
        memset(&c, 0, sizeof c);
        c.api = "num"; c.d = specials[i]; c.unit = (int) SCPI_UNIT_VOLT;
        fmt_group(&c);
    }
    /* every special-number name, and a tag without a name */
    for (t = 0; t <= (int) SCPI_NUM_AUTO + 1; t++) {
        memset(&c, 0, sizeof c);
        c.api = "num"; c.special = 1; c.tag = t; c.unit = (int) SCPI_UNIT_VOLT;
        fmt_group(&c);
    }
    /* SCPI_DoubleToStr / SCPI_FloatToStr */
    for (i = 0; i < NDVALS + 3; i++) {
        double d = i < NDVALS ? dvals[i] : specials[i - NDVALS];
        memset(&c, 0, sizeof c); c.api = "dbl"; c.d = d; fmt_group(&c);
        memset(&c, 0, sizeof c); c.api = "flt"; c.d = (double) (float) d; fmt_group(&c);
    }
    /* SCPI_dtostre (the library's own formatter) */
    if (custom_dtostre) {
        for (i = 0; i < NDVALS + 3; i++) {
            int pi, fi;
            double d = i < NDVALS ? dvals[i] : specials[i - NDVALS];
            for (pi = 0; pi < 2; pi++) for (fi = 0; fi < 3; fi++) {
                if (fi && (i % 4)) continue;
                memset(&c, 0, sizeof c); c.api = "dtostre"; c.d = d; c.prec = pi ? 15 : 6; c.flags = flagsets[fi];
                fmt_group(&c);
            }
        }
    }
    /* SCPI_ParamCopyText: quoted texts with doubled quotes (build-independent: default build only) */
    if (!custom_dtostre) {
        static char texts[400][300];
        int nt = 0, q, n, k, nfixed;
        for (q = 0; q < 2; q++) {
            char Q = q ? '"' : '\'', O = q ? '\'' : '"';
            static const int plain[] = {0, 1, 2, 3, 7, 15, 20, 38, 39, 40, 41, 45};
            for (k = 0; k < 12; k++) {                                    /* plain texts */
                char * t0 = texts[nt++]; size_t p = 0;
                t0[p++] = Q; for (n = 0; n < plain[k]; n++) t0[p++] = (char) ('a' + n % 26); t0[p++] = Q; t0[p] = 0;
            }
            for (n = 1; n <= 5; n++) {                                    /* n doubled quotes only */
                char * t0 = texts[nt++]; size_t p = 0;
                t0[p++] = Q; for (k = 0; k < n; k++) { t0[p++] = Q; t0[p++] = Q; } t0[p++] = Q; t0[p] = 0;
            }
            for (n = 0; n <= 12; n += 3) for (k = 0; k <= n; k += (n ? n : 1)) {   /* one doubled quote at the start / end of n letters */
                char * t0 = texts[nt++]; size_t p = 0; int j;
                t0[p++] = Q;
                for (j = 0; j <= n; j++) { if (j == k) { t0[p++] = Q; t0[p++] = Q; } if (j < n) t0[p++] = (char) ('A' + j); }
                t0[p++] = Q; t0[p] = 0;
            }
            {                                                             /* the other quote character inside, mixed */
                char * t0 = texts[nt++]; size_t p = 0;
                t0[p++] = Q; t0[p++] = 'x'; t0[p++] = O; t0[p++] = O; t0[p++] = 'y'; t0[p++] = Q; t0[p++] = Q; t0[p++] = 'z'; t0[p++] = O; t0[p++] = Q; t0[p] = 0;
                t0 = texts[nt++]; p = 0;
                t0[p++] = Q; for (k = 0; k < 12; k++) { t0[p++] = (char) ('a' + k); t0[p++] = Q; t0[p++] = Q; } t0[p++] = Q; t0[p] = 0;
                t0 = texts[nt++]; p = 0;
                t0[p++] = Q; for (k = 0; k < 30; k++) t0[p++] = 'm'; t0[p++] = Q; t0[p++] = Q; for (k = 0; k < 12; k++) t0[p++] = 'n'; t0[p++] = Q; t0[p] = 0;
            }
        }
        nfixed = nt;
        for (r = 0; r < nrandom / 4 + 4; r++) {                           /* random texts */
            char * t0 = texts[nt++]; size_t p = 0;
            char Q = rnd(2) ? '"' : '\'', O = (Q == '"') ? '\'' : '"';
            int L = (int) rnd(46);
            t0[p++] = Q;
            for (k = 0; k < L; k++) {
                unsigned x = rnd(8);
                if (x == 0) { t0[p++] = Q; t0[p++] = Q; }
                else if (x == 1) t0[p++] = O;
                else if (x == 2) t0[p++] = ' ';
                else t0[p++] = (char) ('a' + rnd(26));
            }
            t0[p++] = Q; t0[p] = 0;
            if (nt >= 399) break;
        }
        {
            static const char * const bad[] = {" ", " 123", " ABC", " #13abc", " (1:2)", " 1.5 V"};    /* the space stands for "TXT " */
            size_t l;
            for (k = 0; k < 6; k++) {
                memset(&c, 0, sizeof c);
                c.api = "copyfail"; c.src = bad[k]; c.bd = 1;
                for (l = 0; l <= 3; l++) { c.len = l; both_modes(&c); }
            }
            /* an optional text that is absent: reported absent, nothing written anywhere - not even into a buffer of length 0 */
            memset(&c, 0, sizeof c);
            c.api = "copyfail"; c.src = ""; c.bd = 1; c.flags = 1;
            for (l = 0; l <= 3; l++) { c.len = l; both_modes(&c); }
        }
        for (k = 0; k < nt; k++) {
            size_t l;
            memset(&c, 0, sizeof c);
            c.api = "copy"; c.src = texts[k]; c.bd = k < nfixed;
            for (l = 0; l <= maxlen; l++) { c.len = l; both_modes(&c); }
            c.len = BIG; c.mode = 'a'; do_call(&c);
        }
    }
    /* seeded random values */
    cur_bd = 0;
    for (r = 0; r < nrandom; r++) {
        double d = rnd_double();
        unsigned k = rnd(custom_dtostre ? 5 : 3);
        memset(&c, 0, sizeof c);
        c.d = d;
        if (k == 0) c.api = "dbl";
        else if (k == 1) { c.api = "flt"; c.d = (double) (float) d; }
        else if (k == 2) { c.api = "num"; c.unit = (int) rnd((unsigned) SCPI_UNIT_LITER + 1); }
        else { c.api = "dtostre"; c.prec = rnd(2) ? 15 : 6; c.flags = flagsets[rnd(3)]; }
        fmt_group(&c);
    }
}

/* ------------------------------------------------------------------ supervisor */

static int supervise(void (*gen) (long, int), long a, int b, const char * outpath, int nofork, uint64_t seedv) {
    char errpath[512];
    long crashes = 0; int ntimeouts = 0;
    snprintf(errpath, sizeof errpath, "%s.err", outpath);
    outfd = open(outpath, O_WRONLY | O_CREAT | O_TRUNC | O_APPEND, 0644);
    if (outfd < 0) { perror(outpath); return 3; }
    sh = mmap(NULL, sizeof *sh, PROT_READ | PROT_WRITE, MAP_SHARED | MAP_ANONYMOUS, -1, 0);
    if (sh == MAP_FAILED) { perror("mmap"); return 3; }
    memset((void *) sh, 0, sizeof *sh);
    if (nofork) {
        rng = seedv; idx = -1; start = 0;
        gen(a, b);
        flush_obuf();
        return 0;
    }
    for (;;) {
        int st;
        pid_t p;
        fflush(NULL);
        p = fork();
        if (p < 0) { perror("fork"); return 3; }
        if (p == 0) {
            int efd = open(errpath, O_WRONLY | O_CREAT | O_TRUNC, 0644);
            if (efd >= 0) { dup2(efd, 2); close(efd); }
            rng = seedv; idx = -1;
            alarm(6);
            gen(a, b);
            flush_obuf();
            sh->finished = 1;
            _exit(0);
        }
        while (waitpid(p, &st, 0) < 0 && errno == EINTR) {}
        flush_obuf();
        if (sh->finished) break;
        {
            /* the child died inside call sh->cur */
            char san[600] = "", kind[32], line[1024], rec[2048];
            FILE * ef = fopen(errpath, "r");
            size_t n, k, j = 0;
            if (WIFSIGNALED(st)) snprintf(kind, sizeof kind, WTERMSIG(st) == SIGALRM ? "timeout" : "signal-%d", WTERMSIG(st));
            else if (WEXITSTATUS(st) == 97) strcpy(kind, "asan");
            else if (WEXITSTATUS(st) == 98) strcpy(kind, "ubsan");
            else snprintf(kind, sizeof kind, "exit-%d", WEXITSTATUS(st));
            if (ef) {
                while (fgets(line, sizeof line, ef)) {
                    char * e = strstr(line, "ERROR: AddressSanitizer:");
                    char * u = strstr(line, "runtime error:");
                    char * rw = (!strncmp(line, "READ of size", 12) || !strncmp(line, "WRITE of size", 13)) ? line : NULL;
                    char * pick = e ? e + 7 : (u ? line : rw);
                    if (!pick) continue;
                    for (k = 0; pick[k] && pick[k] != '\n' && j + 2 < sizeof san && k < 160; k++) {
                        char ch = pick[k];
                        san[j++] = (ch == '"' || ch == '\\' || (unsigned char) ch < 32) ? ' ' : ch;
                    }
                    san[j++] = ';'; san[j] = 0;
                    if (j > 400) break;
                }
                fclose(ef);
            }
            if (strstr(san, "AddressSanitizer")) strcpy(kind, "asan");
            else if (strstr(san, "runtime error")) strcpy(kind, "ubsan");
            n = strlen(sh->desc);
            if (!only || want(sh->cur)) {
                k = (size_t) snprintf(rec, sizeof rec, "%.*s,\"crash\":\"%s\",\"san\":\"%s\"}\n", (int) n, sh->desc, kind, san);
                if (write(outfd, rec, k) != (ssize_t) k) { perror("write"); return 4; }
            }
            if (strstr(sh->desc, "\"m\":\"f\"") && sh->nbad < 256) sh->bad[sh->nbad++] = sh->cur;
            crashes++;
            if (!strcmp(kind, "timeout") && ++ntimeouts >= 6) {
                /* every hang costs a watchdog period; six hanging calls are evidence enough */
                fprintf(stderr, "giving up after repeated watchdog timeouts\n");
                break;
            }
            start = sh->cur + 1;
            if (crashes > 200000) { fprintf(stderr, "too many crashes\n"); break; }
        }
    }
    unlink(errpath);
    printf("{\"calls\":%ld,\"crashes\":%ld}\n", (long) sh->ncalls, crashes);
    close(outfd);
    return 0;
}

static void gen_int_wrap(long n, int unused) { (void) unused; gen_int(n); }

static void parse_tail(int argc, char ** argv, int from, int * nofork) {
    int i;
    for (i = from; i < argc; i++) {
        if (!strncmp(argv[i], "only=", 5)) {
            char * p = argv[i] + 5;
            only = calloc(strlen(p) + 2, sizeof(long));
            while (*p) { only[nonly++] = strtol(p, &p, 10); if (*p == ',') p++; }
        } else if (!strcmp(argv[i], "nofork")) *nofork = 1;
    }
}

static int sweep32(unsigned part, unsigned nparts) {
    uint64_t lo = ((uint64_t) part << 32) / nparts, hi = ((uint64_t) (part + 1) << 32) / nparts, v;
    static const int bases[] = {10, 2, 8, 16, 10};
    unsigned long long calls = 0, bad = 0;
    char buf[40], ref[80];
    for (v = lo; v < hi; v++) {
        int k;
        for (k = 0; k < 5; k++) {
            size_t L = ref_fmt(v, 32, bases[k], k == 0, ref), r, len;
            /* a buffer with room, and one deterministic shorter length */
            for (len = 34;; len = (size_t) ((v * 2654435761ull + (unsigned) k) >> 7) % 34) {
                size_t n = L < len ? L : len;
                memset(buf, FILL, 36);
                r = k == 0 ? SCPI_Int32ToStr((int32_t) (uint32_t) v, buf, len) : SCPI_UInt32ToStrBase((uint32_t) v, buf, len, (int8_t) bases[k]);
                calls++;
                if (r != n || memcmp(buf, ref, n) || (n < len && buf[n] != 0) || (unsigned char) buf[len] != FILL) {
                    if (bad < 20) printf("{\"sweep_mismatch\":{\"v\":%llu,\"k\":%d,\"len\":%zu,\"ret\":%zu}}\n", (unsigned long long) v, k, len, r);
                    bad++;
                }
                if (len != 34 || (unsigned) (v % 5) != (unsigned) k) break;
            }
        }
    }
    printf("{\"sweep_calls\":%llu,\"sweep_bad\":%llu,\"lo\":%llu,\"hi\":%llu}\n", calls, bad, (unsigned long long) lo, (unsigned long long) hi);
    return bad ? 1 : 0;
}

int main(int argc, char ** argv) {
    int nofork = 0;
    if (argc >= 9 && !strcmp(argv[1], "int")) {
        uint64_t seedv;
        c_tag = atoi(argv[2]);
        seedv = 0x9E3779B97F4A7C15ull ^ (strtoull(argv[3], 0, 10) * 0x100000001B3ull);
        lens_all = !strcmp(argv[5], "all");
        maxlen = (size_t) atol(argv[6]);
        stride = atoi(argv[7]); if (stride < 1) stride = 1;
        parse_tail(argc, argv, 9, &nofork);
        return supervise(gen_int_wrap, atol(argv[4]), 0, argv[8], nofork, seedv);
    }
    if (argc >= 6 && !strcmp(argv[1], "fmt")) {
        uint64_t seedv = 0xD1B54A32D192ED03ull ^ (strtoull(argv[2], 0, 10) * 0x100000001B3ull);
        c_tag = 15;
        maxlen = (size_t) atol(argv[4]);
        parse_tail(argc, argv, 6, &nofork);
        return supervise(gen_fmt, atol(argv[3]), USE_CUSTOM_DTOSTRE, argv[5], nofork, seedv);
    }
    if (argc >= 4 && !strcmp(argv[1], "sweep32")) return sweep32((unsigned) atoi(argv[2]), (unsigned) atoi(argv[3]));
    fprintf(stderr, "usage: drv_format int|fmt|sweep32 ...\n");
    return 3;
}
