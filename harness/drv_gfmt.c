/*
 * drv_gfmt - floating-point text of the real library (C16).  One ndjson line per value:
 *
 *   {"k":"d"|"f",            double / float
 *    "cfg":"printf"|"dtostre" build of the library (USE_CUSTOM_DTOSTRE)
 *    "src":"...",            generator class
 *    "b":[l3,l2,l1,l0],      IEEE bit pattern, 16-bit limbs, most significant first (float: [0,0,h,l])
 *    "c":"fin"|"nan"|"inf", "neg":0|1,
 *    "d":[...], "e":X,       exact decimal expansion d1.d2d3... * 10^X of |value| (trailing zeros stripped;
 *                            [0], 0 for zero / nan / inf) taken from glibc printf("%.1100e")  [trusted base]
 *    "ts":[bytes],           SCPI_DoubleToStr / SCPI_FloatToStr
 *    "tr":[bytes],           SCPI_ResultDouble / SCPI_ResultFloat through a context with a capturing write
 *    "tp":[[bytes] x 15]}    dtostre build, doubles: SCPI_dtostre(v, buf, 64, P, 0) for P = 1..15
 *
 *   gen  <seed> <nrand> <estride> <out>   structured + random values (see gen_all)
 *   vals <file> <out>                     values listed in a file, one per line: "d <hex64>" or "f <hex32>"
 */
#include <stdio.h>
#include <stdlib.h>
#include <string.h>
#include <stdint.h>
#include <math.h>
#include <float.h>
#include "scpi/scpi.h"
#include "utils_private.h"

#if USE_CUSTOM_DTOSTRE
#define CFG "dtostre"
#else
#define CFG "printf"
#endif

static scpi_t ctx;
static char ibuf[64];
static scpi_error_t eq[4];
static char outb[256];
static size_t outn;
static FILE * out;
static long nlines;

static int on_error(scpi_t * c, int_fast16_t e) { (void) c; (void) e; return 0; }
/* a second, independent context (another port of the instrument): while `other_port_answers` is set it formats numbers
   of its own every time the first context writes - what one context sends is a function of its own history only */
static scpi_t ctx2;
static char ibuf2[64];
static scpi_error_t eq2[4];
static int other_port_answers;
static size_t on_write2(scpi_t * c, const char * d, size_t l) { (void) c; (void) d; return l; }
static size_t on_write(scpi_t * c, const char * d, size_t l) {
    (void) c;
    if (other_port_answers) {
        ctx2.output_count = 0;
        SCPI_ResultDouble(&ctx2, 1234567.96875);
        SCPI_ResultFloat(&ctx2, 123.4375f);
        SCPI_ResultDouble(&ctx2, -9.87654321012345e-300);
    }
    if (outn + l < sizeof outb) { memcpy(outb + outn, d, l); outn += l; }
    return l;
}
static scpi_result_t on_control(scpi_t * c, scpi_ctrl_name_t n, scpi_reg_val_t v) { (void) c; (void) n; (void) v; return SCPI_RES_OK; }
static scpi_result_t on_flush(scpi_t * c) { (void) c; return SCPI_RES_OK; }
static const scpi_command_t cmds[] = { {"*CLS", SCPI_CoreCls, 0}, SCPI_CMD_LIST_END };
static scpi_interface_t itf = {on_error, on_write, on_control, on_flush, NULL};
static scpi_interface_t itf2 = {on_error, on_write2, on_control, on_flush, NULL};

/* ------------------------------------------------------------------ prng (splitmix64) */
static uint64_t rs;
static uint64_t rnd(void) {
    uint64_t z = (rs += 0x9E3779B97F4A7C15ULL);
    z = (z ^ (z >> 30)) * 0xBF58476D1CE4E5B9ULL;
    z = (z ^ (z >> 27)) * 0x94D049BB133111EBULL;
    return z ^ (z >> 31);
}
static int rint_(int lo, int hi) { return lo + (int) (rnd() % (uint64_t) (hi - lo + 1)); }

/* ------------------------------------------------------------------ record */
static void bytes(const char * key, const char * s) {
    const char * q;
    fprintf(out, ",\"%s\":[", key);
    for (q = s; *q; q++) fprintf(out, "%s%d", q == s ? "" : ",", (int) (unsigned char) *q);
    fprintf(out, "]");
}

static void expansion(double v) {
    /* exact: every finite double has at most 767 significant decimal digits */
    static char buf[1400], digs[1300];
    char * p = buf, * e, * q;
    int ex, nd = 0, k;
    if (!isfinite(v) || v == 0) { fprintf(out, ",\"d\":[0],\"e\":0"); return; }
    snprintf(buf, sizeof buf, "%.1100e", fabs(v));
    e = strchr(p, 'e');
    ex = atoi(e + 1);
    *e = 0;
    digs[nd++] = p[0];
    for (q = p + 2; *q; q++) digs[nd++] = *q;
    while (nd > 1 && digs[nd - 1] == '0') nd--;
    fprintf(out, ",\"d\":[");
    for (k = 0; k < nd; k++) { if (k) fputc(',', out); fputc(digs[k], out); }
    fprintf(out, "],\"e\":%d", ex);
}

static void head(const char * k, const char * src, uint64_t bits, double v) {
    fprintf(out, "{\"k\":\"%s\",\"cfg\":\"" CFG "\",\"src\":\"%s\",\"b\":[%u,%u,%u,%u],\"c\":\"%s\",\"neg\":%d",
            k, src, (unsigned) (bits >> 48) & 0xffff, (unsigned) (bits >> 32) & 0xffff, (unsigned) (bits >> 16) & 0xffff, (unsigned) bits & 0xffff,
            isnan(v) ? "nan" : isinf(v) ? "inf" : "fin", signbit(v) ? 1 : 0);
    expansion(v);
}

static void rec_double(const char * src, double v) {
    uint64_t bits;
    char s[64];
    memcpy(&bits, &v, 8);
    head("d", src, bits, v);
    /* the same number was formatted as a float just before (a formatter must not remember anything) */
    SCPI_FloatToStr((float) v, s, sizeof s);
    memset(s, 0x55, sizeof s);
    SCPI_DoubleToStr(v, s, sizeof s);
    s[sizeof s - 1] = 0;
    bytes("ts", s);
    {
        /* the same helper with a buffer that the text fills exactly, and with one of 256 bytes */
        static char big[256];
        size_t need = strlen(s) + 1;
        char * fit = malloc(need);
        memset(fit, 0x55, need);
        SCPI_DoubleToStr(v, fit, need);
        fit[need - 1] = 0;
        bytes("tsx", fit);
        free(fit);
        memset(big, 0x55, sizeof big);
        SCPI_DoubleToStr(v, big, sizeof big);
        big[sizeof big - 1] = 0;
        bytes("tsb", big);
    }
    outn = 0;
    ctx.output_count = 0;
    SCPI_ResultDouble(&ctx, v);
    outb[outn] = 0;
    bytes("tr", outb);
    /* the same value as a later item of a response (after the separator) and through SCPI_NumberToStr */
    outn = 0;
    ctx.output_count = 0;
    other_port_answers = 1;
    SCPI_ResultInt32(&ctx, 0);
    SCPI_ResultDouble(&ctx, v);
    other_port_answers = 0;
    outb[outn] = 0;
    bytes("tr2", (outn >= 2 && outb[0] == '0' && outb[1] == ',') ? outb + 2 : outb);
    {
        scpi_number_t num;
        memset(&num, 0, sizeof num);
        num.special = FALSE; num.content.value = v; num.unit = SCPI_UNIT_NONE; num.base = 10;
        memset(s, 0x55, sizeof s);
        SCPI_NumberToStr(&ctx, scpi_special_numbers_def, &num, s, sizeof s);
        s[sizeof s - 1] = 0;
        bytes("tn", s);
    }
#if USE_CUSTOM_DTOSTRE
    {
        int p;
        fprintf(out, ",\"tp\":[");
        for (p = 1; p <= 15; p++) {
            const char * q;
            memset(s, 0x55, sizeof s);
            SCPI_dtostre(v, s, sizeof s, (unsigned char) p, 0);
            s[sizeof s - 1] = 0;
            fprintf(out, "%s[", p > 1 ? "," : "");
            for (q = s; *q; q++) fprintf(out, "%s%d", q == s ? "" : ",", (int) (unsigned char) *q);
            fprintf(out, "]");
        }
        fprintf(out, "]");
    }
#endif
    fprintf(out, "}\n");
    nlines++;
}

static void rec_float(const char * src, float f) {
    uint32_t bits;
    char s[64];
    memcpy(&bits, &f, 4);
    head("f", src, (uint64_t) bits, (double) f);
    SCPI_DoubleToStr((double) f, s, sizeof s);       /* and the other way round */
    memset(s, 0x55, sizeof s);
    SCPI_FloatToStr(f, s, sizeof s);
    s[sizeof s - 1] = 0;
    bytes("ts", s);
    {
        static char big[256];
        size_t need = strlen(s) + 1;
        char * fit = malloc(need);
        memset(fit, 0x55, need);
        SCPI_FloatToStr(f, fit, need);
        fit[need - 1] = 0;
        bytes("tsx", fit);
        free(fit);
        memset(big, 0x55, sizeof big);
        SCPI_FloatToStr(f, big, sizeof big);
        big[sizeof big - 1] = 0;
        bytes("tsb", big);
    }
    outn = 0;
    ctx.output_count = 0;
    SCPI_ResultFloat(&ctx, f);
    outb[outn] = 0;
    bytes("tr", outb);
    outn = 0;
    ctx.output_count = 0;
    other_port_answers = 1;
    SCPI_ResultInt32(&ctx, 0);
    SCPI_ResultFloat(&ctx, f);
    other_port_answers = 0;
    outb[outn] = 0;
    bytes("tr2", (outn >= 2 && outb[0] == '0' && outb[1] == ',') ? outb + 2 : outb);
    fprintf(out, "}\n");
    nlines++;
}

/* value, its two neighbours */
static void d3(const char * src, double v) {
    rec_double(src, nextafter(v, -INFINITY));
    rec_double(src, v);
    rec_double(src, nextafter(v, INFINITY));
}
static void f3(const char * src, float v) {
    rec_float(src, nextafterf(v, -INFINITY));
    rec_float(src, v);
    rec_float(src, nextafterf(v, INFINITY));
}

/* decimal literal m[0].m[1..n-1] e X -> nearest double / float (glibc strtod is correctly rounded) */
static double lit(const int * m, int n, int x, int neg) {
    char b[80];
    int i, k = 0;
    if (neg) b[k++] = '-';
    b[k++] = (char) ('0' + m[0]);
    b[k++] = '.';
    for (i = 1; i < n; i++) b[k++] = (char) ('0' + m[i]);
    if (n == 1) b[k++] = '0';
    snprintf(b + k, sizeof b - k, "e%d", x);
    return strtod(b, NULL);
}
static float litf(const int * m, int n, int x, int neg) {
    char b[80];
    int i, k = 0;
    if (neg) b[k++] = '-';
    b[k++] = (char) ('0' + m[0]);
    b[k++] = '.';
    for (i = 1; i < n; i++) b[k++] = (char) ('0' + m[i]);
    if (n == 1) b[k++] = '0';
    snprintf(b + k, sizeof b - k, "e%d", x);
    return strtof(b, NULL);
}

static void rand_mant(int * m, int n, int nonzero) {
    int i;
    m[0] = rint_(1, 9);
    for (i = 1; i < n; i++) m[i] = nonzero ? rint_(1, 9) : rint_(0, 9);
}

/* exponent selection: the central window always, every estride-th exponent (seeded phase) outside */
static int exp_selected(int x, int lo, int hi, int estride, int phase) {
    if (x >= lo && x <= hi) return 1;
    return ((x + 1000 + phase) % estride) == 0;
}

static void gen_all(uint64_t seed, long nrand, int estride) {
    int x, p, i, j, m[24];
    int phase;
    rs = seed * 0x2545F4914F6CDD1DULL + 12345;
    phase = rint_(0, 1000);

    /* --- specials */
    {
        static const double sp[] = {0.0, -0.0, 1.0, -1.0, 0.5, 0.1, 0.2896, 0.00010025, 123456789012345678.0, 999999999999999.5, 99999.95,
                                    0.999999999999999944, 9.5, 0.95, 0.095, 0.0095, 0.00095, 0.000095, 1234567890123456789e1};
        uint64_t pat[] = {0x7ff0000000000000ULL, 0xfff0000000000000ULL, 0x7ff8000000000000ULL, 0xfff8000000000000ULL, 0x7ff0000000000001ULL,
                          0x7fefffffffffffffULL, 0xffefffffffffffffULL, 0x0010000000000000ULL, 0x000fffffffffffffULL, 0x0000000000000001ULL,
                          0x8000000000000001ULL, 0x0000000000000002ULL, 0x8010000000000000ULL};
        uint32_t fpat[] = {0x00000000u, 0x80000000u, 0x7f800000u, 0xff800000u, 0x7fc00000u, 0xffc00000u, 0x7f7fffffu, 0xff7fffffu, 0x00800000u,
                           0x007fffffu, 0x00000001u, 0x80000001u, 0x3f800000u, 0x3dcccccdu, 0x4f000000u};
        for (i = 0; i < (int) (sizeof sp / sizeof *sp); i++) { rec_double("special", sp[i]); rec_float("special", (float) sp[i]); }
        for (i = 0; i < (int) (sizeof pat / sizeof *pat); i++) { double v; memcpy(&v, &pat[i], 8); rec_double("special", v); }
        for (i = 0; i < (int) (sizeof fpat / sizeof *fpat); i++) { float f; memcpy(&f, &fpat[i], 4); rec_float("special", f); }
    }

    /* --- all powers of ten (incl. subnormal ones), neighbours on a subset */
    m[0] = 1;
    for (x = -323; x <= 308; x++) {
        double v = lit(m, 1, x, 0);
        if (exp_selected(x, -6, 25, estride, phase)) d3("pow10", v); else rec_double("pow10", v);
        if (exp_selected(x, -6, 25, estride, phase + 3)) rec_double("pow10", -v);
    }
    for (x = -45; x <= 38; x++) {
        float f = litf(m, 1, x, 0);
        if (exp_selected(x, -6, 10, estride, phase)) f3("pow10", f); else rec_float("pow10", f);
    }

    /* --- rounding boundaries d.ddd5 for every precision: nearest double and both neighbours */
    for (p = 1; p <= 15; p++) {
        for (x = -323; x <= 308; x++) {
            if (!exp_selected(x, -6, p + 2, estride, phase + 7 * p)) continue;
            rand_mant(m, p, 0);
            m[p] = 5;
            d3("boundary", lit(m, p + 1, x, rint_(0, 7) == 0));
            if (x >= -6 && x <= p + 2) {            /* a second one with 9s so that rounding up carries */
                for (i = 0; i < p; i++) m[i] = 9;
                if (p > 2) m[rint_(1, p - 1)] = rint_(0, 9);
                d3("boundary", lit(m, p + 1, x, 0));
            }
        }
    }
    for (p = 1; p <= 8; p++) {
        for (x = -45; x <= 38; x++) {
            if (p != 6 && !exp_selected(x, -5, 8, estride, phase + 5 * p)) continue;
            if (p == 6 && !exp_selected(x, -6, 10, (estride + 1) / 2, phase)) continue;
            rand_mant(m, p, 0);
            m[p] = 5;
            f3("boundary", litf(m, p + 1, x, rint_(0, 7) == 0));
            if (p == 6) {
                for (i = 0; i < p; i++) m[i] = 9;
                m[rint_(1, p - 1)] = rint_(0, 9);
                f3("boundary", litf(m, p + 1, x, 0));
            }
        }
    }

    /* --- zero digits at every position: single zero, zero run to the end (short mantissa), interior zero run */
    for (x = -323; x <= 308; x++) {
        if (!exp_selected(x, -6, 3, estride * 2, phase + 11)) continue;
        for (i = 1; i <= 15; i++) {
            rand_mant(m, 16, 1);
            if (i < 15) { m[i] = 0; rec_double("zero-single", lit(m, 15, x, 0)); }
            rand_mant(m, 16, 1);
            rec_double("zero-tail", lit(m, i, x, rint_(0, 5) == 0));            /* i digits, then zeros */
            if (i >= 1 && i < 14) {
                rand_mant(m, 16, 1);
                j = rint_(i, 13);
                for (p = i; p <= j; p++) m[p] = 0;
                rec_double("zero-run", lit(m, rint_(j + 2, 15), x, 0));
            }
        }
    }
    for (x = -45; x <= 38; x++) {
        if (!exp_selected(x, -6, 3, estride, phase + 13)) continue;
        for (i = 1; i <= 8; i++) {
            rand_mant(m, 10, 1);
            if (i < 8) { m[i] = 0; rec_float("zero-single", litf(m, 8, x, 0)); }
            rand_mant(m, 10, 1);
            rec_float("zero-tail", litf(m, i, x, rint_(0, 5) == 0));
            if (i < 6) {
                rand_mant(m, 10, 1);
                j = rint_(i, 5);
                for (p = i; p <= j; p++) m[p] = 0;
                rec_float("zero-run", litf(m, rint_(j + 2, 8), x, 0));
            }
        }
    }

    /* --- subnormals */
    for (i = 0; i < 40 + nrand / 40; i++) {
        uint64_t b = rnd() & 0x000fffffffffffffULL;
        double v;
        if (i % 3 == 0) b >>= rint_(0, 51);
        if (rnd() & 1) b |= 0x8000000000000000ULL;
        memcpy(&v, &b, 8);
        rec_double("subnormal", v);
    }
    for (i = 0; i < 20 + nrand / 80; i++) {
        uint32_t b = (uint32_t) rnd() & 0x007fffffu;
        float f;
        if (i % 3 == 0) b >>= rint_(0, 22);
        if (rnd() & 1) b |= 0x80000000u;
        memcpy(&f, &b, 4);
        rec_float("subnormal", f);
    }

    /* --- short decimal literals (few digits, moderate exponents) */
    for (i = 0; i < 100 + nrand / 8; i++) {
        int n = rint_(1, 9);
        rand_mant(m, n, 0);
        rec_double("short", lit(m, n, rint_(-12, 26), rint_(0, 3) == 0));
    }
    for (i = 0; i < 50 + nrand / 16; i++) {
        int n = rint_(1, 5);
        rand_mant(m, n, 0);
        rec_float("short", litf(m, n, rint_(-10, 12), rint_(0, 3) == 0));
    }

    /* --- integers and binary fractions (exactly representable, many digits) */
    for (i = 0; i < 30 + nrand / 50; i++) {
        uint64_t n = rnd() >> rint_(0, 63);
        rec_double("integer", (double) n);
        rec_double("dyadic", ldexp((double) (rnd() >> rint_(11, 63)), -rint_(1, 60)));
    }

    /* --- random bit patterns over the full exponent range */
    for (i = 0; i < nrand; i++) {
        uint64_t b = rnd();
        double v;
        memcpy(&v, &b, 8);
        rec_double("random", v);
    }
    for (i = 0; i < nrand / 3; i++) {
        uint32_t b = (uint32_t) rnd();
        float f;
        memcpy(&f, &b, 4);
        rec_float("random", f);
    }
}

int main(int argc, char ** argv) {
    SCPI_Init(&ctx, cmds, &itf, scpi_units_def, "MF", "MD", NULL, "1", ibuf, sizeof ibuf, eq, 4);
    SCPI_Init(&ctx2, cmds, &itf2, scpi_units_def, "MF", "MD", NULL, "1", ibuf2, sizeof ibuf2, eq2, 4);
    if (argc == 6 && !strcmp(argv[1], "gen")) {
        out = fopen(argv[5], "w");
        if (!out) { perror(argv[5]); return 3; }
        gen_all(strtoull(argv[2], NULL, 10), atol(argv[3]), atoi(argv[4]) < 1 ? 1 : atoi(argv[4]));
    } else if (argc == 4 && !strcmp(argv[1], "vals")) {
        FILE * in = fopen(argv[2], "r");
        char k[8], hex[40];
        if (!in) { perror(argv[2]); return 3; }
        out = fopen(argv[3], "w");
        if (!out) { perror(argv[3]); return 3; }
        while (fscanf(in, "%7s %39s", k, hex) == 2) {
            if (k[0] == 'd') { uint64_t b = strtoull(hex, NULL, 16); double v; memcpy(&v, &b, 8); rec_double("replay", v); }
            else { uint32_t b = (uint32_t) strtoul(hex, NULL, 16); float f; memcpy(&f, &b, 4); rec_float("replay", f); }
        }
        fclose(in);
    } else {
        fprintf(stderr, "usage: drv_gfmt gen <seed> <nrand> <estride> <out> | vals <file> <out>\n");
        return 3;
    }
    fclose(out);
    printf("{\"lines\":%ld,\"cfg\":\"" CFG "\"}\n", nlines);
    return 0;
}
