/*
 * drv_parser - executes scenarios on the real parser and records what happened.
 *
 * Scenario file (text, one directive per line):
 *   S <bufsize> <qcap>                   start a scenario on a fresh context (exact-size heap buffers)
 *   T <tag> <pattern>                    command table entry (in table order)
 *   H <tag> <ret 0|1> <stop 0|1> ops...  handler script: p:<kind>:<mandatory>  r:<kind>:<payload>  bh:<n>  bd:<hex>  e:<code>
 *                                        kinds p: i32 u32 i64 u64 flt dbl bool choice chars text block
 *                                        kinds r: i32:<int> bool:<0|1> text:<hex> mnem:<hex> blk:<hex>
 *                                                 a<type>:<fmt>:<count>:<hex of elements, host order>  (binary / ascii arrays)
 *   I <hex>                              SCPI_Input(data)
 *   F                                    SCPI_Input(len 0)
 *   P <hex>                              SCPI_Parse on a NUL-terminated copy of the line
 *   E                                    end: print one JSON line with everything observed
 */
#include <stdio.h>
#include <stdlib.h>
#include <string.h>
#include <stdint.h>
#include <unistd.h>
#include "scpi/scpi.h"
#include "scpi/verif.h"
#include "utils_private.h"
#include "scpi/expression.h"
#if defined(__has_feature)
#if __has_feature(address_sanitizer)
#include <sanitizer/asan_interface.h>
#define HAVE_ASAN 1
#endif
#endif

#define MAXT 64
#define MAXOPS 16
typedef struct { char k; char kind[8]; int mand; long ival; unsigned char * bytes; size_t blen; int fmt; int count; } hop_t;
typedef struct { int tag; int ret; int stop; int nops; hop_t ops[MAXOPS]; } script_t;

static scpi_t ctx;
static scpi_command_t table[MAXT + 1];
static char * patterns[MAXT];
static int ntable;
static script_t scripts[MAXT];
static int nscripts;
static char * ibuf;
static size_t ibuf_len;
static scpi_error_t * equeue;
static int qcap;
static int heapsize = 96;
#if USE_DEVICE_DEPENDENT_ERROR_INFORMATION && !USE_MEMORY_ALLOCATION_FREE
static char * eheap;
#endif

static FILE * out;
static int first_in_call, first_call;

/* per input call capture */
static unsigned char wbuf[1 << 18];
static size_t wlen;
static int nflush;
static int errv[256], nerr;
static char logbuf[1 << 17];
static size_t loglen;
static char e113[1 << 12];
static size_t e113len;

static void logf_(const char * fmt, ...) __attribute__((format(printf, 1, 2)));
#include <stdarg.h>
static void logf_(const char * fmt, ...) {
    va_list ap;
    va_start(ap, fmt);
    if (loglen < sizeof logbuf - 512) loglen += vsnprintf(logbuf + loglen, sizeof logbuf - loglen, fmt, ap);
    va_end(ap);
}
static void log_bytes(const void * p, size_t n) {
    size_t i;
    logf_("[");
    for (i = 0; i < n && loglen < sizeof logbuf - 512; i++) logf_("%s%d", i ? "," : "", ((const unsigned char *) p)[i]);
    logf_("]");
}

static int write_zero;
static size_t on_write(scpi_t * c, const char * d, size_t l) {
    (void) c;
    if (wlen + l <= sizeof wbuf) { memcpy(wbuf + wlen, d, l); wlen += l; }
    return write_zero ? 0 : l;      /* what the transport reports must not change what the library does next */
}
static scpi_result_t on_flush(scpi_t * c) { (void) c; nflush++; return SCPI_RES_OK; }
static int on_error(scpi_t * c, int_fast16_t e) {
    if (e != 0 && nerr < 256) errv[nerr++] = (int) e;
#if USE_DEVICE_DEPENDENT_ERROR_INFORMATION
    if (e == SCPI_ERROR_UNDEFINED_HEADER && c->error_queue.count > 0) {
        /* text stored with the newest entry */
        int last = (c->error_queue.wr + c->error_queue.size - 1) % c->error_queue.size;
        const char * t = c->error_queue.data[last].device_dependent_info;
        const char * t2 = NULL;
        size_t i, n = 0, n2 = 0, k = 0;
#if !USE_MEMORY_ALLOCATION_FREE
        if (t) scpiheap_get_parts(&c->error_info_heap, t, &n, &t2, &n2);      /* the text may wrap around the heap end */
#else
        n = t ? strlen(t) : 0;
#endif
        if (c->error_queue.data[last].error_code == SCPI_ERROR_UNDEFINED_HEADER) {
            e113len += snprintf(e113 + e113len, sizeof e113 - e113len, "%s[", e113len ? "," : "");
            for (i = 0; i < n && e113len < sizeof e113 - 16; i++, k++) e113len += snprintf(e113 + e113len, sizeof e113 - e113len, "%s%d", k ? "," : "", (unsigned char) t[i]);
            for (i = 0; t2 && i < n2 && e113len < sizeof e113 - 16; i++, k++) e113len += snprintf(e113 + e113len, sizeof e113 - e113len, "%s%d", k ? "," : "", (unsigned char) t2[i]);
            e113len += snprintf(e113 + e113len, sizeof e113 - e113len, "]");
        }
    }
#else
    (void) c;
#endif
    return 0;
}
static scpi_result_t on_control(scpi_t * c, scpi_ctrl_name_t n, scpi_reg_val_t v) { (void) c; (void) n; (void) v; return SCPI_RES_OK; }
static scpi_interface_t itf = {on_error, on_write, on_control, on_flush, NULL};

static const scpi_choice_def_t choices[] = {{"BUS", 5}, {"IMMediate", 6}, {"EXTernal", 7}, SCPI_CHOICE_LIST_END};

/* event log of a scenario (DRV_EVENTS=1): the hook events that correspond to actions of ScpiInputLoop.tla */
static char * evbuf;
static size_t evlen, evcap;
static int evon, evfirst;
static void evf(const char * fmt, ...) __attribute__((format(printf, 1, 2)));
static void evf(const char * fmt, ...) {
    va_list ap;
    if (evlen + 4096 > evcap) { evcap = evcap ? evcap * 2 : (1 << 16); evbuf = realloc(evbuf, evcap); }
    va_start(ap, fmt);
    evlen += vsnprintf(evbuf + evlen, evcap - evlen, fmt, ap);
    va_end(ap);
}
static void evbytes(const void * p, long n) {
    long i;
    evf("[");
    for (i = 0; p && i < n && i < 900; i++) evf("%s%d", i ? "," : "", ((const unsigned char *) p)[i]);
    evf("]");
}
static void evlog(int ev, const void * p, long a, long b) {
    const char * sep = evfirst ? "" : ",";
    switch (ev) {
        case SCPI_VE_INPUT_BEGIN: evf("%s[\"ib\",%ld]", sep, a); break;
        case SCPI_VE_INPUT_OVERRUN: evf("%s[\"ovr\"]", sep); break;
        case SCPI_VE_INPUT_END: evf("%s[\"ie\",%ld,%ld]", sep, a, b); break;
        case SCPI_VE_PARSE_BEGIN: evf("%s[\"pb\",", sep); evbytes(p, a); evf("]"); break;
        case SCPI_VE_PARSE_END: evf("%s[\"pe\",%ld]", sep, a); break;
        case SCPI_VE_UNIT_BEGIN: evf("%s[\"ub\",%ld,", sep, b); evbytes(p, a); evf("]"); break;
        case SCPI_VE_UNIT_END: evf("%s[\"ue\",%ld]", sep, a); break;
        case SCPI_VE_UNIT_INVALID: evf("%s[\"ui\"]", sep); break;
        default: return;
    }
    evfirst = 0;
}

/* the input-buffer hook of C01: poison the unused tail of the input buffer after every append */
static void hook(scpi_t * c, int ev, const void * p, long a, long b) {
    if (evon && c == &ctx) evlog(ev, p, a, b);
#ifdef HAVE_ASAN
    if (c == &ctx && ibuf) {
        if (ev == SCPI_VE_INPUT_APPENDED && ctx.buffer.position + 1 < ibuf_len)
            ASAN_POISON_MEMORY_REGION(ibuf + ctx.buffer.position + 1, ibuf_len - ctx.buffer.position - 1);
        else if (ev == SCPI_VE_INPUT_BEGIN || ev == SCPI_VE_INPUT_END)
            ASAN_UNPOISON_MEMORY_REGION(ibuf, ibuf_len);
    }
#else
    (void) c; (void) ev;
#endif
}

static void put_dec(long long v) { char t[32]; int n = snprintf(t, sizeof t, "%lld", v); log_bytes(t, n); }

static scpi_result_t handler(scpi_t * c) {
    int tag = SCPI_CmdTag(c), i, k;
    script_t * s = NULL;
    int32_t nums[4];
    int idx = (int) (c->param_list.cmd - c->cmdlist);
    scpi_result_t res;
    int stopped = 0;
    for (i = 0; i < nscripts; i++) if (scripts[i].tag == tag) s = &scripts[i];
    logf_("%s{\"tag\":%d,\"raw\":", first_in_call ? "" : ",", tag);
    first_in_call = 0;
    log_bytes(c->param_list.cmd_raw.data, c->param_list.cmd_raw.length);
    {
        /* pattern test: the matched entry accepts the effective header itself; and a fixed probe header */
        char * z = malloc(c->param_list.cmd_raw.length + 1);
        memcpy(z, c->param_list.cmd_raw.data, c->param_list.cmd_raw.length);
        z[c->param_list.cmd_raw.length] = 0;
        logf_(",\"iscmd\":%d,\"probe\":%d", (int) SCPI_IsCmd(c, z), (int) SCPI_IsCmd(c, "A:B"));
        free(z);
        (void) idx;
    }
    nums[0] = nums[1] = nums[2] = nums[3] = -7;
    SCPI_CommandNumbers(c, nums, 4, -1);
    logf_(",\"nums\":[%d,%d,%d,%d],\"params\":[", (int) nums[0], (int) nums[1], (int) nums[2], (int) nums[3]);
    k = 0;
    for (i = 0; s && i < s->nops && !stopped; i++) {
        hop_t * o = &s->ops[i];
        if (o->k == 'p') {
            scpi_bool_t ok = FALSE;
            int nerr0 = nerr, cnt0 = (int) SCPI_ErrorCount(c);
            logf_("%s{\"k\":\"%s\",", k++ ? "," : "", o->kind);
            if (!strcmp(o->kind, "i32")) { int32_t v = 0; ok = SCPI_ParamInt32(c, &v, o->mand); logf_("\"v\":"); if (ok) put_dec(v); else logf_("[]"); }
            else if (!strcmp(o->kind, "u32")) { uint32_t v = 0; ok = SCPI_ParamUInt32(c, &v, o->mand); logf_("\"v\":"); if (ok) put_dec(v); else logf_("[]"); }
            else if (!strcmp(o->kind, "i64")) { int64_t v = 0; ok = SCPI_ParamInt64(c, &v, o->mand); logf_("\"v\":"); if (ok) put_dec(v); else logf_("[]"); }
            else if (!strcmp(o->kind, "u64")) { uint64_t v = 0; ok = SCPI_ParamUInt64(c, &v, o->mand); logf_("\"v\":"); if (ok) { char t[32]; int n = snprintf(t, sizeof t, "%llu", (unsigned long long) v); log_bytes(t, n); } else logf_("[]"); }
            else if (!strcmp(o->kind, "flt")) { float v = 0; ok = SCPI_ParamFloat(c, &v, o->mand); logf_("\"v\":"); if (ok && v == (double) (long long) v && v > -1e15 && v < 1e15) put_dec((long long) v); else logf_("[]"); }
            else if (!strcmp(o->kind, "dbl")) { double v = 0; ok = SCPI_ParamDouble(c, &v, o->mand); logf_("\"v\":"); if (ok && v == (double) (long long) v && v > -1e15 && v < 1e15) put_dec((long long) v); else logf_("[]"); }
            else if (!strcmp(o->kind, "bool")) { scpi_bool_t v = 0; ok = SCPI_ParamBool(c, &v, o->mand); logf_("\"v\":"); if (ok) put_dec(v ? 1 : 0); else logf_("[]"); }
            else if (!strcmp(o->kind, "choice")) { int32_t v = 0; ok = SCPI_ParamChoice(c, choices, &v, o->mand); logf_("\"v\":"); if (ok) put_dec(v); else logf_("[]"); }
            else if (!strcmp(o->kind, "num")) {
                scpi_number_t num;
                memset(&num, 0, sizeof num);
                ok = SCPI_ParamNumber(c, scpi_special_numbers_def, &num, o->mand);
                logf_("\"v\":[]");
                if (ok) { char t[64]; SCPI_NumberToStr(c, scpi_special_numbers_def, &num, t, sizeof t); }
            }
            else if (!strcmp(o->kind, "chars")) { const char * v = NULL; size_t l = 0; ok = SCPI_ParamCharacters(c, &v, &l, o->mand); logf_("\"v\":"); if (ok) log_bytes(v, l); else logf_("[]"); }
            else if (!strcmp(o->kind, "block")) { const char * v = NULL; size_t l = 0; ok = SCPI_ParamArbitraryBlock(c, &v, &l, o->mand); logf_("\"v\":"); if (ok) log_bytes(v, l); else logf_("[]"); }
            else if (!strcmp(o->kind, "tshort")) {
                size_t cap = 4, l = 0;                      /* a tight caller buffer (exact-size allocation) */
                char * buf = malloc(cap);
                ok = SCPI_ParamCopyText(c, buf, cap, &l, o->mand);
                logf_("\"v\":[]");
                free(buf);
            }
            else if (!strcmp(o->kind, "text")) {
                size_t cap = 512, l = 0;
                char * buf = malloc(cap);
                ok = SCPI_ParamCopyText(c, buf, cap, &l, o->mand);
                logf_("\"v\":"); if (ok) log_bytes(buf, l); else logf_("[]");
                free(buf);
            } else logf_("\"v\":[]");
            logf_(",\"ok\":%d}", ok ? 1 : 0);
            if (!ok && s->stop && (o->mand || nerr > nerr0 || (int) SCPI_ErrorCount(c) > cnt0)) stopped = 1;
        } else if (o->k == 'A') {
            /* SCPI_ParamArray<kind>: one log entry per delivered element, then {"k":"pa","v":<count>,"ok":<result>} */
            size_t cnt = 0, j, n = (size_t) o->ival;
            scpi_bool_t ok = FALSE;
            union { int32_t i32[4]; uint32_t u32[4]; int64_t i64[4]; uint64_t u64[4]; float f[4]; double d[4]; } *a = malloc(sizeof *a);
            memset(a, 0, sizeof *a);
            if (n > 4) n = 4;
            if (!strcmp(o->kind, "i32")) ok = SCPI_ParamArrayInt32(c, a->i32, n, &cnt, SCPI_FORMAT_ASCII, o->mand);
            else if (!strcmp(o->kind, "u32")) ok = SCPI_ParamArrayUInt32(c, a->u32, n, &cnt, SCPI_FORMAT_ASCII, o->mand);
            else if (!strcmp(o->kind, "i64")) ok = SCPI_ParamArrayInt64(c, a->i64, n, &cnt, SCPI_FORMAT_ASCII, o->mand);
            else if (!strcmp(o->kind, "u64")) ok = SCPI_ParamArrayUInt64(c, a->u64, n, &cnt, SCPI_FORMAT_ASCII, o->mand);
            else if (!strcmp(o->kind, "flt")) ok = SCPI_ParamArrayFloat(c, a->f, n, &cnt, SCPI_FORMAT_ASCII, o->mand);
            else if (!strcmp(o->kind, "dbl")) ok = SCPI_ParamArrayDouble(c, a->d, n, &cnt, SCPI_FORMAT_ASCII, o->mand);
            for (j = 0; j < cnt && j < 4; j++) {
                logf_("%s{\"k\":\"%s\",\"v\":", k++ ? "," : "", o->kind);
                if (!strcmp(o->kind, "i32")) put_dec(a->i32[j]);
                else if (!strcmp(o->kind, "u32")) put_dec(a->u32[j]);
                else if (!strcmp(o->kind, "i64")) put_dec(a->i64[j]);
                else if (!strcmp(o->kind, "u64")) { char t[32]; int tn = snprintf(t, sizeof t, "%llu", (unsigned long long) a->u64[j]); log_bytes(t, tn); }
                else {
                    double v = !strcmp(o->kind, "flt") ? (double) a->f[j] : a->d[j];
                    if (v == (double) (long long) v && v > -1e15 && v < 1e15) put_dec((long long) v); else logf_("[]");
                }
                logf_(",\"ok\":1}");
            }
            logf_("%s{\"k\":\"pa\",\"v\":", k++ ? "," : "");
            put_dec((long long) cnt);
            logf_(",\"ok\":%d}", ok ? 1 : 0);
            free(a);
            if (!ok && s->stop) stopped = 1;
        } else if (o->k == 'x') {
            scpi_parameter_t p;
            scpi_bool_t got = SCPI_Parameter(c, &p, FALSE);
            logf_("%s{\"k\":\"x\",\"v\":[],\"ok\":%d}", k++ ? "," : "", got ? 1 : 0);
            if (got) {
                int32_t i32 = 0; uint32_t u32 = 0; int64_t i64 = 0; uint64_t u64 = 0; float f = 0; double d = 0; int32_t ch = 0;
                int ei;
                scpi_bool_t isr; int32_t a = 0, b = 0; double da = 0, db = 0;
                int32_t vf[3], vt[3]; size_t dims = 0;
                (void) SCPI_ParamIsValid(&p);
                (void) SCPI_ParamIsNumber(&p, TRUE);
                if (SCPI_ParamToInt32(c, &p, &i32)) SCPI_ResultInt32(c, i32);
                if (SCPI_ParamToUInt32(c, &p, &u32)) SCPI_ResultUInt32Base(c, u32, 16);
                if (SCPI_ParamToInt64(c, &p, &i64)) SCPI_ResultInt64(c, i64);
                if (SCPI_ParamToUInt64(c, &p, &u64)) SCPI_ResultUInt64Base(c, u64, 2);
                if (SCPI_ParamToFloat(c, &p, &f)) SCPI_ResultFloat(c, f);
                if (SCPI_ParamToDouble(c, &p, &d)) SCPI_ResultDouble(c, d);
                if (p.type == SCPI_TOKEN_PROGRAM_MNEMONIC && SCPI_ParamToChoice(c, &p, choices, &ch)) { const char * nm; if (SCPI_ChoiceToName(choices, ch, &nm)) SCPI_ResultMnemonic(c, nm); }
                if (p.type == SCPI_TOKEN_PROGRAM_EXPRESSION) {
                    for (ei = 0; ei < 4; ei++) {
                        if (SCPI_ExprNumericListEntryInt(c, &p, ei, &isr, &a, &b) == SCPI_EXPR_OK) SCPI_ResultInt32(c, a);
                        if (SCPI_ExprNumericListEntryDouble(c, &p, ei, &isr, &da, &db) == SCPI_EXPR_OK) SCPI_ResultDouble(c, da);
                        if (SCPI_ExprChannelListEntry(c, &p, ei, &isr, vf, vt, 3, &dims) == SCPI_EXPR_OK) SCPI_ResultInt32(c, (int32_t) dims);
                    }
                }
                if (p.type == SCPI_TOKEN_ARBITRARY_BLOCK_PROGRAM_DATA || p.type == SCPI_TOKEN_DOUBLE_QUOTE_PROGRAM_DATA || p.type == SCPI_TOKEN_SINGLE_QUOTE_PROGRAM_DATA)
                    SCPI_ResultArbitraryBlock(c, p.ptr, (size_t) p.len);
                if (p.type == SCPI_TOKEN_PROGRAM_MNEMONIC) SCPI_ResultBool(c, p.len > 2);
            }
        } else if (o->k == 'q') {
            scpi_error_t e;
            SCPI_ErrorPop(c, &e);                           /* the application reads one error, as SYST:ERR? does */
#if USE_DEVICE_DEPENDENT_ERROR_INFORMATION
            SCPIDEFINE_free(&c->error_info_heap, e.device_dependent_info, false);
#endif
        } else if (o->k == 'r') {
            if (!strcmp(o->kind, "i32")) SCPI_ResultInt32(c, (int32_t) o->ival);
            else if (!strcmp(o->kind, "bool")) SCPI_ResultBool(c, o->ival != 0);
            else if (!strcmp(o->kind, "text")) { char * t = malloc(o->blen + 1); memcpy(t, o->bytes, o->blen); t[o->blen] = 0; SCPI_ResultText(c, t); free(t); }
            else if (!strcmp(o->kind, "mnem")) { char * t = malloc(o->blen + 1); memcpy(t, o->bytes, o->blen); t[o->blen] = 0; SCPI_ResultMnemonic(c, t); free(t); }
            else if (!strcmp(o->kind, "blk")) SCPI_ResultArbitraryBlock(c, o->bytes, o->blen);
            else if (!strcmp(o->kind, "ai8")) SCPI_ResultArrayInt8(c, (const int8_t *) o->bytes, o->count, (scpi_array_format_t) o->fmt);
            else if (!strcmp(o->kind, "au8")) SCPI_ResultArrayUInt8(c, (const uint8_t *) o->bytes, o->count, (scpi_array_format_t) o->fmt);
            else if (!strcmp(o->kind, "ai16")) SCPI_ResultArrayInt16(c, (const int16_t *) (const void *) o->bytes, o->count, (scpi_array_format_t) o->fmt);
            else if (!strcmp(o->kind, "au16")) SCPI_ResultArrayUInt16(c, (const uint16_t *) (const void *) o->bytes, o->count, (scpi_array_format_t) o->fmt);
            else if (!strcmp(o->kind, "ai32")) SCPI_ResultArrayInt32(c, (const int32_t *) (const void *) o->bytes, o->count, (scpi_array_format_t) o->fmt);
            else if (!strcmp(o->kind, "au32")) SCPI_ResultArrayUInt32(c, (const uint32_t *) (const void *) o->bytes, o->count, (scpi_array_format_t) o->fmt);
            else if (!strcmp(o->kind, "ai64")) SCPI_ResultArrayInt64(c, (const int64_t *) (const void *) o->bytes, o->count, (scpi_array_format_t) o->fmt);
            else if (!strcmp(o->kind, "au64")) SCPI_ResultArrayUInt64(c, (const uint64_t *) (const void *) o->bytes, o->count, (scpi_array_format_t) o->fmt);
            else if (!strcmp(o->kind, "aflt")) SCPI_ResultArrayFloat(c, (const float *) (const void *) o->bytes, o->count, (scpi_array_format_t) o->fmt);
            else if (!strcmp(o->kind, "adbl")) SCPI_ResultArrayDouble(c, (const double *) (const void *) o->bytes, o->count, (scpi_array_format_t) o->fmt);
        } else if (o->k == 'h') SCPI_ResultArbitraryBlockHeader(c, (size_t) o->ival);
        else if (o->k == 'd') SCPI_ResultArbitraryBlockData(c, o->bytes, o->blen);
        else if (o->k == 'e') SCPI_ErrorPush(c, (int16_t) o->ival);
    }
    res = (s && s->ret && !stopped) ? SCPI_RES_OK : SCPI_RES_ERR;
    logf_("],\"ret\":%d}", res == SCPI_RES_OK ? 1 : 0);
    return res;
}

static size_t unhex(const char * h, unsigned char ** outp) {
    size_t n = strlen(h) / 2, i;
    unsigned char * b = malloc(n + 8);      /* +8: element alignment slack, never read beyond count */
    for (i = 0; i < n; i++) { unsigned v; sscanf(h + 2 * i, "%2x", &v); b[i] = (unsigned char) v; }
    *outp = b;
    return n;
}

static void free_scenario(void) {
    int i, j;
    for (i = 0; i < ntable; i++) free(patterns[i]);
    for (i = 0; i < nscripts; i++) for (j = 0; j < scripts[i].nops; j++) free(scripts[i].ops[j].bytes);
    ntable = nscripts = 0;
    if (ibuf) {
#ifdef HAVE_ASAN
        ASAN_UNPOISON_MEMORY_REGION(ibuf, ibuf_len);
#endif
        SCPI_ErrorClear(&ctx);
        free(ibuf); free(equeue); ibuf = NULL; equeue = NULL;
#if USE_DEVICE_DEPENDENT_ERROR_INFORMATION && !USE_MEMORY_ALLOCATION_FREE
        free(eheap); eheap = NULL;
#endif
    }
}

static int started;
static void start_ctx(void) {
    if (started) return;
    started = 1;
    table[ntable].pattern = NULL; table[ntable].callback = NULL; table[ntable].tag = 0;
    SCPI_Init(&ctx, table, &itf, scpi_units_def, "MF", "MD", NULL, "1", ibuf, ibuf_len, equeue, (int16_t) qcap);
#if USE_DEVICE_DEPENDENT_ERROR_INFORMATION && !USE_MEMORY_ALLOCATION_FREE
    eheap = malloc((size_t) heapsize);
    SCPI_InitHeap(&ctx, eheap, (size_t) heapsize);
#endif
}

static void begin_call(void) {
    wlen = 0; nflush = 0; nerr = 0; loglen = 0; e113len = 0; first_in_call = 1; logbuf[0] = 0; e113[0] = 0;
}
static int drain_errors;        /* no error callback installed: the errors of a call are read from the queue after it */
static void end_call(int ret) {
    size_t i;
    if (drain_errors) {
        scpi_error_t e;
        while (SCPI_ErrorCount(&ctx) > 0 && nerr < 256) {
            SCPI_ErrorPop(&ctx, &e);
            errv[nerr++] = (int) e.error_code;
#if USE_DEVICE_DEPENDENT_ERROR_INFORMATION
            SCPIDEFINE_free(&ctx.error_info_heap, e.device_dependent_info, false);
#endif
        }
    }
    fprintf(out, "%s{\"ret\":%d,\"log\":[%s],\"out\":[", first_call ? "" : ",", ret, logbuf);
    first_call = 0;
    for (i = 0; i < wlen; i++) fprintf(out, "%s%d", i ? "," : "", wbuf[i]);
    fprintf(out, "],\"flush\":%d,\"errs\":[", nflush);
    for (i = 0; i < (size_t) nerr; i++) fprintf(out, "%s%d", i ? "," : "", errv[i]);
    fprintf(out, "],\"e113\":[%s],\"pos\":%d}", e113, (int) ctx.buffer.position);
}

int main(int argc, char ** argv) {
    FILE * in;
    static char line[1 << 20];
    long id = 0;
    if (argc < 3) { fprintf(stderr, "usage: drv_parser <scenarios> <out>\n"); return 3; }
    in = fopen(argv[1], "r");
    out = fopen(argv[2], "w");
    if (!in || !out) { perror("open"); return 3; }
    scpi_verif_hook = hook;
    evon = getenv("DRV_EVENTS") != NULL;
    write_zero = getenv("DRV_WRITE_ZERO") != NULL;
    if (getenv("DRV_NULL_ERROR")) { itf.error = NULL; drain_errors = 1; }
    if (getenv("DRV_NULL_CALLBACKS")) { itf.error = NULL; itf.control = NULL; itf.flush = NULL; itf.reset = NULL; }   /* the optional ones */
    while (fgets(line, sizeof line, in)) {
        size_t n = strlen(line);
        while (n && (line[n - 1] == '\n' || line[n - 1] == '\r')) line[--n] = 0;
        if (line[0] == 'S') {
            int bs = 256;
            free_scenario();
            qcap = 16;
            heapsize = 96;
            sscanf(line + 1, "%d %d %d", &bs, &qcap, &heapsize);
            ibuf_len = (size_t) bs; ibuf = malloc(ibuf_len); memset(ibuf, 0x55, ibuf_len);
            equeue = calloc((size_t) qcap, sizeof(scpi_error_t));
            started = 0; first_call = 1; id++; evlen = 0; evfirst = 1;
            fprintf(out, "{\"id\":%ld,\"calls\":[", id);
        } else if (line[0] == 'T' && ntable < MAXT) {
            int tag; char pat[256];
            sscanf(line + 1, "%d %255s", &tag, pat);
            patterns[ntable] = strdup(pat);
            table[ntable].pattern = patterns[ntable]; table[ntable].callback = (tag >= 1000) ? NULL : handler; table[ntable].tag = tag;     /* tag >= 1000: an entry without a callback */
            ntable++;
        } else if (line[0] == 'H' && nscripts < MAXT) {
            script_t * s = &scripts[nscripts++];
            char * tok, * save;
            int f = 0;
            memset(s, 0, sizeof *s);
            for (tok = strtok_r(line + 1, " ", &save); tok; tok = strtok_r(NULL, " ", &save), f++) {
                if (f == 0) s->tag = atoi(tok);
                else if (f == 1) s->ret = atoi(tok);
                else if (f == 2) s->stop = atoi(tok);
                else if (s->nops < MAXOPS) {
                    hop_t * o = &s->ops[s->nops++];
                    char * a = strchr(tok, ':'), * b = a ? strchr(a + 1, ':') : NULL;
                    if (a) *a++ = 0;
                    if (b) *b++ = 0;
                    if (!strcmp(tok, "p")) { o->k = 'p'; snprintf(o->kind, sizeof o->kind, "%s", a); o->mand = atoi(b); }
                    else if (!strcmp(tok, "pa")) { char * c2 = strchr(b, ':'); *c2++ = 0; o->k = 'A'; snprintf(o->kind, sizeof o->kind, "%s", a); o->ival = atol(b); o->mand = atoi(c2); }
                    else if (!strcmp(tok, "r")) {
                        o->k = 'r'; snprintf(o->kind, sizeof o->kind, "%s", a);
                        if (!strcmp(a, "i32") || !strcmp(a, "bool")) o->ival = atol(b);
                        else if (a[0] == 'a') { char * c2 = strchr(b, ':'), * c3; *c2++ = 0; c3 = strchr(c2, ':'); *c3++ = 0; o->fmt = atoi(b); o->count = atoi(c2); o->blen = unhex(c3, &o->bytes); }
                        else o->blen = unhex(b ? b : "", &o->bytes);
                    }
                    else if (!strcmp(tok, "bh")) { o->k = 'h'; o->ival = atol(a); }
                    else if (!strcmp(tok, "bd")) { o->k = 'd'; o->blen = unhex(a ? a : "", &o->bytes); }
                    else if (!strcmp(tok, "e")) { o->k = 'e'; o->ival = atol(a); }
                    else if (!strcmp(tok, "x")) { o->k = 'x'; }
                    else if (!strcmp(tok, "q")) { o->k = 'q'; }
                }
            }
        } else if (line[0] == 'I' || line[0] == 'F' || line[0] == 'P') {
            unsigned char * data = NULL;
            size_t dl = 0;
            int r;
            start_ctx();
            if (line[0] != 'F') dl = unhex(line[1] ? line + 2 : "", &data);
            begin_call();
            alarm(10);
            if (line[0] == 'P') {
                char * z = malloc(dl + 1);
                memcpy(z, data, dl); z[dl] = 0;
                r = SCPI_Parse(&ctx, z, (int) dl);
                free(z);
            } else {
                /* exact-size copy so that reads beyond the chunk trap */
                char * cpy = malloc(dl ? dl : 1);
                if (dl) memcpy(cpy, data, dl);
                r = SCPI_Input(&ctx, cpy, (int) dl);
                free(cpy);
            }
            alarm(0);
            end_call(r ? 1 : 0);
            free(data);
        } else if (line[0] == 'E') {
            int first = 1;
            start_ctx();
            fprintf(out, "],\"queue\":[");
            while (SCPI_ErrorCount(&ctx) > 0) {
                scpi_error_t e;
                SCPI_ErrorPop(&ctx, &e);
                fprintf(out, "%s%d", first ? "" : ",", (int) e.error_code);
                first = 0;
#if USE_DEVICE_DEPENDENT_ERROR_INFORMATION
                SCPIDEFINE_free(&ctx.error_info_heap, e.device_dependent_info, false);
#endif
            }
            fprintf(out, "]");
            if (evon) { fprintf(out, ",\"ev\":["); fwrite(evbuf, 1, evlen, out); fprintf(out, "]"); }
            fprintf(out, "}\n");
            fflush(out);
            free_scenario();
        }
    }
    free_scenario();
    fclose(out);
    fclose(in);
    return 0;
}
