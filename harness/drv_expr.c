/*
 * drv_expr - runs the list-expression readers of the real library (C19) and records what they
 * return, one ndjson line per expression body, for TVExpr.tla.
 *
 *   enum <minlen> <maxlen> <digitseed> <out> [firstclass]
 *        every body of minlen..maxlen bytes over the nine classes
 *        {digit - . : , ! @ blank E}; the digit at position p is '0'+(p+digitseed)%10 so that
 *        the numbers of one body differ; firstclass (0..8) restricts the first byte
 *   gen <seed> <count> <out>
 *        lists generated from the grammar (1..8 entries, 1..5 dimensions, numbers of several
 *        shapes) and lists damaged by one or two byte edits
 *   file <in> <out>
 *        bodies from a file, one per line as space separated byte values
 *
 * Each body goes through a real SCPI_Input("T (<body>)\n"); the command handler fetches the
 * parameter with SCPI_Parameter and asks for entry 0..9 with SCPI_ExprNumericListEntry, ...Int,
 * ...Double and, for every capacity 0..4, SCPI_ExprChannelListEntry.  Errors are popped from the
 * context's queue after every call.  The channel value arrays sit between canary words (4 on each
 * side); a channel call that left them intact is repeated on exact-size malloc blocks so that ASan
 * sees any other store beyond the capacity as well.
 *
 * line: {"b":[bytes],"h":1,"N":[per index],"C":[per index]}      (h: the handler ran)
 *   N[i] = [T,I,D]  T = [rc,isRange,[fromStart,fromLen],[toStart,toLen],errs]   (token API, 1-based)
 *                   I = [rc,isRange,from,to,errs]                                (int32)
 *                   D = [rc,isRange,[neg,m,e],[neg,m,e],errs]   (double as "%.8e": 9 digits m, exponent e)
 *   C[i] = per capacity [rc,isRange,dims,from[cap],to[cap],errs,canariesIntact]
 *   rc: 0 OK, 1 ERROR, 2 NO_MORE.  Unwritten slots keep the fill value 1515870810 / 7e77 / dims 77;
 *   trailing slots of from[] / to[] that still hold the fill value are not printed.
 *   Trailing elements of N, C and C[i] that repeat their predecessor are dropped (pure encoding:
 *   element k beyond the end equals the last one).
 */
#include <stdio.h>
#include <stdlib.h>
#include <string.h>
#include <stdint.h>
#include <math.h>
#include "scpi/scpi.h"
#include "scpi/expression.h"

#define NIDX 10
static long nbodies;      /* bodies executed so far */
#define NCAP 5
#define FILL 1515870810
#define CANARY 0x7C3AC5E1
#define NCAN 4
#define MAXBODY 1500

static scpi_t ctx;
static const unsigned char * cur_body;
static size_t cur_len;
static int cur_idx = -1, cur_cap = -1;
/* called by the ASan runtime before it prints a report: name the query that was running */
void __asan_on_error(void);
void __asan_on_error(void) {
    size_t i;
    fprintf(stderr, "CURRENT-QUERY: index=%d capacity=%d body=", cur_idx, cur_cap);
    for (i = 0; i < cur_len; i++) fprintf(stderr, "%s%d", i ? " " : "", cur_body[i]);
    fprintf(stderr, "\n");
}
static char ibuf[2048];
static scpi_error_t eq[16];
static FILE * out;
static int handler_ran;

/* ---- string builder ---- */
typedef struct { char * p; size_t n, cap; } sb_t;
static void sb_add(sb_t * s, const char * fmt, ...) __attribute__((format(printf, 2, 3)));
#include <stdarg.h>
static void sb_add(sb_t * s, const char * fmt, ...) {
    va_list ap;
    int k;
    if (s->cap - s->n < 256) { s->cap = s->cap * 2 + 512; s->p = realloc(s->p, s->cap); }
    va_start(ap, fmt);
    k = vsnprintf(s->p + s->n, s->cap - s->n, fmt, ap);
    va_end(ap);
    s->n += (size_t) k;
}
static void sb_reset(sb_t * s) { s->n = 0; if (s->p) s->p[0] = 0; }

static int rcmap(scpi_expr_result_t r) {
    return r == SCPI_EXPR_OK ? 0 : r == SCPI_EXPR_ERROR ? 1 : r == SCPI_EXPR_NO_MORE ? 2 : 3;
}
static void add_errs(sb_t * s) {
    scpi_error_t e;
    int first = 1, guard = 0;
    sb_add(s, "[");
    while (SCPI_ErrorCount(&ctx) > 0 && guard++ < 32) {
        SCPI_ErrorPop(&ctx, &e);
        sb_add(s, "%s%d", first ? "" : ",", (int) e.error_code);
        first = 0;
    }
    sb_add(s, "]");
}
static void add_dbl(sb_t * s, double v) {
    char t[48];
    char * e;
    long m = 0;
    int i;
    if (!isfinite(v)) { sb_add(s, "[0,-1,0]"); return; }
    snprintf(t, sizeof t, "%.8e", v);
    e = strchr(t, 'e');
    for (i = 0; t + i < e; i++) if (t[i] >= '0' && t[i] <= '9') m = m * 10 + (t[i] - '0');
    sb_add(s, "[%d,%ld,%d]", t[0] == '-' ? 1 : 0, m, m == 0 ? 0 : atoi(e + 1));
}
static void add_tok(sb_t * s, const scpi_parameter_t * expr, const scpi_parameter_t * t) {
    if (t->ptr && t->ptr >= expr->ptr && t->ptr <= expr->ptr + expr->len)
        sb_add(s, "[%ld,%ld]", (long) (t->ptr - expr->ptr), (long) t->len);
    else sb_add(s, "[-1,0]");
}

static void numeric_queries(sb_t * s, scpi_parameter_t * expr, int idx) {
    scpi_expr_result_t r;
    scpi_bool_t isr;
    scpi_parameter_t pf, pt;
    int32_t fi, ti;
    double fd, td;

    cur_idx = idx; cur_cap = -1;
    SCPI_ErrorClear(&ctx);
    isr = FALSE; memset(&pf, 0, sizeof pf); memset(&pt, 0, sizeof pt);
    r = SCPI_ExprNumericListEntry(&ctx, expr, idx, &isr, &pf, &pt);
    sb_add(s, "[[%d,%d,", rcmap(r), isr ? 1 : 0);
    add_tok(s, expr, &pf); sb_add(s, ","); add_tok(s, expr, &pt); sb_add(s, ",");
    add_errs(s);

    isr = FALSE; fi = ti = FILL;
    r = SCPI_ExprNumericListEntryInt(&ctx, expr, idx, &isr, &fi, &ti);
    sb_add(s, "],[%d,%d,%d,%d,", rcmap(r), isr ? 1 : 0, (int) fi, (int) ti);
    add_errs(s);

    isr = FALSE; fd = td = 7e77;
    r = SCPI_ExprNumericListEntryDouble(&ctx, expr, idx, &isr, &fd, &td);
    sb_add(s, "],[%d,%d,", rcmap(r), isr ? 1 : 0);
    add_dbl(s, fd); sb_add(s, ","); add_dbl(s, td); sb_add(s, ",");
    add_errs(s);
    sb_add(s, "]]");
}

static void channel_query(sb_t * s, scpi_parameter_t * expr, int idx, int cap) {
    scpi_expr_result_t r;
    scpi_bool_t isr = FALSE;
    size_t dims = 77;
    size_t words = (size_t) cap + 2 * NCAN;
    int32_t * bf = malloc(words * sizeof(int32_t)), * bt = malloc(words * sizeof(int32_t));
    int32_t * xf, * xt;
    size_t i, n;
    int intact = 1;

    cur_idx = idx; cur_cap = cap;
    for (i = 0; i < words; i++) bf[i] = bt[i] = (i < NCAN || i >= NCAN + (size_t) cap) ? (int32_t) CANARY : FILL;
    SCPI_ErrorClear(&ctx);
    /* capacity 0 with no arrays at all (every other body): a caller that only wants to know entries, ranges and dimensions */
    if (cap == 0 && (nbodies & 1)) r = SCPI_ExprChannelListEntry(&ctx, expr, idx, &isr, NULL, NULL, 0, &dims);
    else r = SCPI_ExprChannelListEntry(&ctx, expr, idx, &isr, bf + NCAN, bt + NCAN, (size_t) cap, &dims);
    for (i = 0; i < words; i++)
        if ((i < NCAN || i >= NCAN + (size_t) cap) && (bf[i] != (int32_t) CANARY || bt[i] != (int32_t) CANARY)) intact = 0;
    sb_add(s, "[%d,%d,%ld,[", rcmap(r), isr ? 1 : 0, (long) (dims > 100000 ? 100000 : dims));
    for (n = (size_t) cap; n > 0 && bf[NCAN + n - 1] == FILL; n--) ;
    for (i = 0; i < n; i++) sb_add(s, "%s%d", i ? "," : "", (int) bf[NCAN + i]);
    sb_add(s, "],[");
    for (n = (size_t) cap; n > 0 && bt[NCAN + n - 1] == FILL; n--) ;
    for (i = 0; i < n; i++) sb_add(s, "%s%d", i ? "," : "", (int) bt[NCAN + i]);
    sb_add(s, "],");
    add_errs(s);
    sb_add(s, ",%d]", intact);
    free(bf); free(bt);

    /* the same call on exact-size blocks: a store beyond the capacity is an ASan report
       (skipped when the canaries already show the overrun, so that the record is written) */
    if (!intact) return;
    xf = malloc((size_t) cap * sizeof(int32_t)); xt = malloc((size_t) cap * sizeof(int32_t));
    isr = FALSE; dims = 77;
    (void) SCPI_ExprChannelListEntry(&ctx, expr, idx, &isr, xf, xt, (size_t) cap, &dims);
    SCPI_ErrorClear(&ctx);
    free(xf); free(xt);
}

/* emit a JSON list of n items produced by item(k), dropping trailing repeats */
static sb_t items[NIDX > NCAP ? NIDX : NCAP];
static sb_t capitems[NCAP];
static void add_compressed(sb_t * s, sb_t * it, int n) {
    int k;
    while (n > 1 && it[n - 1].n == it[n - 2].n && !memcmp(it[n - 1].p, it[n - 2].p, it[n - 1].n)) n--;
    sb_add(s, "[");
    for (k = 0; k < n; k++) {
        if (s->cap - s->n < it[k].n + 16) { s->cap = s->cap * 2 + it[k].n + 512; s->p = realloc(s->p, s->cap); }
        if (k) s->p[s->n++] = ',';
        memcpy(s->p + s->n, it[k].p, it[k].n); s->n += it[k].n; s->p[s->n] = 0;
    }
    sb_add(s, "]");
}

static sb_t line;

static int query_order(int k) {
    int mode = (int) (nbodies % 3);
    if (mode == 0) return k;
    if (mode == 2) { static const int o[4] = {2, 1, 3, 0}; return k < 4 ? o[k] : k; }   /* entry 2 first, right after a body that ended with entry 1 */
    return (k + 1) % NIDX;                                         /* 1, 2, ..., NIDX-1, 0 (and entry 1 once more at the end) */
}

static scpi_result_t on_T(scpi_t * c) {
    scpi_parameter_t expr;
    int idx, cap, k;
    handler_ran = 1;
    if (!SCPI_Parameter(c, &expr, TRUE)) { handler_ran = 2; return SCPI_RES_ERR; }
    /* the entries are asked for in a different order from body to body (ascending, descending, from the middle): what an
       entry reports must not depend on which entries - of this or of an earlier list - were asked for before */
    for (k = 0; k < NIDX; k++) { idx = query_order(k); sb_reset(&items[idx]); numeric_queries(&items[idx], &expr, idx); }
    if (nbodies % 3 == 1) { sb_reset(&items[1]); numeric_queries(&items[1], &expr, 1); }     /* the last thing asked of this list is entry 1 */
    sb_add(&line, ",\"N\":");
    add_compressed(&line, items, NIDX);
    for (k = 0; k < NIDX; k++) {
        idx = query_order(k);
        for (cap = 0; cap < NCAP; cap++) { sb_reset(&capitems[cap]); channel_query(&capitems[cap], &expr, idx, cap); }
        sb_reset(&items[idx]);
        add_compressed(&items[idx], capitems, NCAP);
    }
    sb_add(&line, ",\"C\":");
    add_compressed(&line, items, NIDX);
    SCPI_ErrorClear(c);
    return SCPI_RES_OK;
}

static int on_error(scpi_t * c, int_fast16_t e) { (void) c; (void) e; return 0; }
static size_t on_write(scpi_t * c, const char * d, size_t l) { (void) c; (void) d; return l; }
static scpi_result_t on_control(scpi_t * c, scpi_ctrl_name_t n, scpi_reg_val_t v) { (void) c; (void) n; (void) v; return SCPI_RES_OK; }
static scpi_result_t on_flush(scpi_t * c) { (void) c; return SCPI_RES_OK; }
static const scpi_command_t cmds[] = { {"T", on_T, 0}, SCPI_CMD_LIST_END };
static scpi_interface_t itf = {on_error, on_write, on_control, on_flush, NULL};

static void run_body(const unsigned char * body, size_t n) {
    static char msg[MAXBODY + 16];
    size_t i;
    if (n > MAXBODY) return;
    cur_body = body; cur_len = n; cur_idx = cur_cap = -1;
    sb_reset(&line);
    sb_add(&line, "{\"b\":[");
    for (i = 0; i < n; i++) sb_add(&line, "%s%d", i ? "," : "", body[i]);
    sb_add(&line, "]");
    memcpy(msg, "T (", 3); memcpy(msg + 3, body, n); memcpy(msg + 3 + n, ")\n", 2);
    handler_ran = 0;
    SCPI_ErrorClear(&ctx);
    SCPI_Input(&ctx, msg, (int) (n + 5));
    SCPI_ErrorClear(&ctx);
    if (handler_ran != 1) sb_add(&line, ",\"N\":[],\"C\":[]");
    fprintf(out, "%s,\"h\":%d}\n", line.p, handler_ran);
    nbodies++;
}

/* ---- enumeration ---- */
static const char classes[9] = {'1', '-', '.', ':', ',', '!', '@', ' ', 'E'};
static void enumerate(int minlen, int maxlen, int dseed, int first) {
    int n;
    for (n = minlen; n <= maxlen; n++) {
        int d[16] = {0};
        unsigned char body[16];
        if (n == 0) { if (first <= 0) run_body(body, 0); continue; }
        for (;;) {
            int k;
            if (first < 0 || d[0] == first) {
                for (k = 0; k < n; k++) body[k] = d[k] == 0 ? (unsigned char) ('0' + (k + dseed) % 10) : (unsigned char) classes[d[k]];
                run_body(body, (size_t) n);
            }
            for (k = n - 1; k >= 0; k--) { if (++d[k] < 9) break; d[k] = 0; }
            if (k < 0) break;
        }
    }
}

/* ---- generation from the grammar ---- */
static uint64_t rng;
static unsigned rnd(void) { rng ^= rng << 13; rng ^= rng >> 7; rng ^= rng << 17; return (unsigned) (rng >> 11); }
static size_t gen_number(char * o, int intsonly) {
    unsigned r = rnd() % 100;
    char * p = o;
    if (!intsonly && rnd() % 40 == 0) {
        /* a numeral of 60..80 characters with one significant digit: zeros behind it, or a fraction of zeros and an exponent */
        int z = 58 + (int) (rnd() % 20), k;
        *p++ = (char) ('1' + rnd() % 9);
        if (rnd() & 1) { for (k = 0; k < z; k++) *p++ = '0'; }
        else { *p++ = '.'; for (k = 0; k < z; k++) *p++ = '0'; p += sprintf(p, "E%u", 1 + rnd() % 9); }
        return (size_t) (p - o);
    }
    if (r < 45) p += sprintf(p, "%u", rnd() % 10);
    else if (r < 65) p += sprintf(p, "%u", rnd() % 1000);
    else if (r < 72) p += sprintf(p, "-%u", rnd() % 100);
    else if (r < 76) p += sprintf(p, "+%u", rnd() % 100);
    else if (r < 80) p += sprintf(p, "%0*u", 2 + (int) (rnd() % 3), rnd() % 100);
    else if (r < 84) p += sprintf(p, "%u", rnd() % 1000000000u);
    else if (r < 88) p += sprintf(p, "%u", 100 * (1 + rnd() % 99));
    else if (intsonly && r < 97) p += sprintf(p, "%u", rnd() % 100);
    else if (r < 91) p += sprintf(p, "%u.%u", rnd() % 100, rnd() % 1000);
    else if (r < 93) p += sprintf(p, ".%u", rnd() % 100);
    else if (r < 95) p += sprintf(p, "%u.", rnd() % 100);
    else if (r < 97) p += sprintf(p, "-%u.%02u", rnd() % 10, rnd() % 100);
    else if (r < 98) p += sprintf(p, "%uE%u", 1 + rnd() % 9, rnd() % 4);
    else if (r < 99) p += sprintf(p, "%u.%ue-%u", rnd() % 10, rnd() % 10, rnd() % 3);
    else p += sprintf(p, "%u E%u", 1 + rnd() % 9, rnd() % 3);
    return (size_t) (p - o);
}
static size_t gen_list(char * o, int chan) {
    char * p = o;
    int n = 1 + (int) (rnd() % 8), i, k;
    if (chan) *p++ = '@';
    for (i = 0; i < n; i++) {
        int dims = chan ? 1 + (int) (rnd() % 5) : 1;
        int range = rnd() % 5 < 2, side;
        if (i) *p++ = ',';
        for (side = 0; side <= range; side++) {
            if (side) *p++ = ':';
            for (k = 0; k < dims; k++) { if (k) *p++ = '!'; p += gen_number(p, chan); }
        }
    }
    return (size_t) (p - o);
}
static size_t damage(char * b, size_t n) {
    static const char junk[] = "1-.:,!@ E07,:!x+9";
    unsigned kind = rnd() % 10;
    size_t pos = n ? rnd() % n : 0;
    if (kind < 3 && n > 0) { memmove(b + pos, b + pos + 1, n - pos - 1); return n - 1; }                 /* delete */
    if (kind < 6) { memmove(b + pos + 1, b + pos, n - pos); b[pos] = junk[rnd() % 17]; return n + 1; }    /* insert */
    if (kind < 8 && n > 0) { b[pos] = junk[rnd() % 17]; return n; }                                      /* replace */
    if (kind == 8) { b[n] = junk[rnd() % 17]; return n + 1; }                                            /* append */
    if (n > 1) { size_t q = rnd() % n; char t = b[pos]; b[pos] = b[q]; b[q] = t; }                        /* swap */
    return n;
}
static void generate(unsigned long seedv, long count) {
    static char b[MAXBODY + 64];
    long i;
    rng = 0x9E3779B97F4A7C15ull ^ (seedv * 0x100000001B3ull);
    for (i = 0; i < 16; i++) rnd();
    for (i = 0; i < count; i++) {
        size_t n = gen_list(b, rnd() % 3 != 0);
        unsigned r = rnd() % 10;
        if (r >= 6) n = damage(b, n);
        if (r >= 9) n = damage(b, n);
        run_body((unsigned char *) b, n);
    }
}

static void from_file(const char * path) {
    FILE * f = fopen(path, "r");
    static char ln[8 * MAXBODY];
    if (!f) { perror(path); exit(3); }
    while (fgets(ln, sizeof ln, f)) {
        unsigned char body[MAXBODY];
        size_t n = 0;
        char * p = ln, * e;
        for (;;) {
            long v = strtol(p, &e, 10);
            if (e == p) break;
            if (n < MAXBODY) body[n++] = (unsigned char) v;
            p = e;
        }
        run_body(body, n);
    }
    fclose(f);
}

int main(int argc, char ** argv) {
    SCPI_Init(&ctx, cmds, &itf, scpi_units_def, "MF", "MD", NULL, "1", ibuf, sizeof ibuf, eq, 16);
    if (argc >= 6 && !strcmp(argv[1], "enum")) {
        out = fopen(argv[5], "w");
        enumerate(atoi(argv[2]), atoi(argv[3]), atoi(argv[4]), argc >= 7 ? atoi(argv[6]) : -1);
    } else if (argc >= 5 && !strcmp(argv[1], "gen")) {
        out = fopen(argv[4], "w");
        generate(strtoul(argv[2], 0, 10), atol(argv[3]));
    } else if (argc >= 4 && !strcmp(argv[1], "file")) {
        out = fopen(argv[3], "w");
        from_file(argv[2]);
    } else { fprintf(stderr, "usage: drv_expr enum|gen|file ...\n"); return 3; }
    fclose(out);
    printf("{\"bodies\":%ld}\n", nbodies);
    return 0;
}
