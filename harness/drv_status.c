/*
 * drv_status - drives the status registers / error queue of the real library and records
 * every transition {from, op, to, srq, out} as one ndjson line for TVStatus.tla.
 *
 *   explore <opsfile> <cap> <maxstates> <out>   breadth-first search of the implementation's own
 *                                               state graph (snapshot/restore of the context)
 *   walk <seed> <steps> <cap> <out>             random walk, full 16-bit values
 *   twalk <seed> <steps> <out>                  random walk over every register of the tree (user registers included) and *CLS
 *   codes <out>                                 every error code -32768..32767 on a fresh context
 *   path <opsfile> <cap> <out>                  ops of the file in sequence from the initial state
 *   bigq <cap> <out>                            a queue of up to 32767 entries (the capacity is an int16_t): filled and
 *                                               turned so far that the ring indices pass 32767 - cap, then overflow, pop, push ...
 */
#include <stdio.h>
#include <stdlib.h>
#include <string.h>
#include <stdint.h>
#include "scpi/scpi.h"

#define MAXCAP 8
static scpi_t ctx;
static char ibuf[256];
#define BIGCAP 300                /* random walks may use a queue larger than the explorations do (capacity 256: one byte does not count it) */
static scpi_error_t eq_store[BIGCAP];
static scpi_error_t * eq = eq_store;     /* the queue array (bigq mode allocates the largest ones) */
static int cap = 1;

static int srqv[32], srqn;
static char outb[256];
static size_t outn;

/* srqmode = 1 / 2: the service-request handler re-enters the library, once per operation that began with MSS clear:
   1 clears the event registers whose summary bits it is shown, 2 takes the oldest error out and reports -300 of its own */
static int srqmode, srq_armed;
static scpi_result_t on_control(scpi_t * c, scpi_ctrl_name_t n, scpi_reg_val_t v) {
    if (n == SCPI_CTRL_SRQ && srqn < 32) srqv[srqn++] = v;
    if (n == SCPI_CTRL_SRQ && srqmode && srq_armed) {
        srq_armed = 0;
        if (srqmode == 1) {
            if (v & 0x20) SCPI_RegSet(c, SCPI_REG_ESR, 0);
            if (v & 0x80) SCPI_RegSet(c, SCPI_REG_OPER, 0);
            if (v & 0x08) SCPI_RegSet(c, SCPI_REG_QUES, 0);
        } else {
            scpi_error_t e;
            SCPI_ErrorPop(c, &e);
            SCPI_ErrorPush(c, -300);
        }
    }
    return SCPI_RES_OK;
}
/* nested = 1 / 2: the application takes an error out of the queue / empties the queue in every announcement of an error */
static int nested, in_callback;
static int on_error(scpi_t * c, int_fast16_t e) {
    (void) e;
    if (in_callback) return 0;      /* the "queue is empty" notification of the pop / clear below */
    in_callback = 1;
    if (nested == 1) { scpi_error_t x; SCPI_ErrorPop(c, &x); }
    else if (nested == 2) SCPI_ErrorClear(c);
    in_callback = 0;
    return 0;
}
static size_t on_write(scpi_t * c, const char * d, size_t l) {
    (void) c;
    if (outn + l < sizeof outb) { memcpy(outb + outn, d, l); outn += l; }
    return l;
}
static scpi_result_t on_flush(scpi_t * c) { (void) c; return SCPI_RES_OK; }

static const scpi_command_t cmds[] = {
    {"*CLS", SCPI_CoreCls, 0}, {"*ESE", SCPI_CoreEse, 0}, {"*ESE?", SCPI_CoreEseQ, 0}, {"*ESR?", SCPI_CoreEsrQ, 0},
    {"*IDN?", SCPI_CoreIdnQ, 0}, {"*OPC", SCPI_CoreOpc, 0}, {"*OPC?", SCPI_CoreOpcQ, 0}, {"*RST", SCPI_CoreRst, 0},
    {"*SRE", SCPI_CoreSre, 0}, {"*SRE?", SCPI_CoreSreQ, 0}, {"*STB?", SCPI_CoreStbQ, 0}, {"*TST?", SCPI_CoreTstQ, 0},
    {"*WAI", SCPI_CoreWai, 0},
    {"SYSTem:ERRor[:NEXT]?", SCPI_SystemErrorNextQ, 0}, {"SYSTem:ERRor:COUNt?", SCPI_SystemErrorCountQ, 0},
    {"SYSTem:VERSion?", SCPI_SystemVersionQ, 0},
    {"STATus:QUEStionable[:EVENt]?", SCPI_StatusQuestionableEventQ, 0},
    {"STATus:QUEStionable:CONDition?", SCPI_StatusQuestionableConditionQ, 0},
    {"STATus:QUEStionable:ENABle", SCPI_StatusQuestionableEnable, 0},
    {"STATus:QUEStionable:ENABle?", SCPI_StatusQuestionableEnableQ, 0},
    {"STATus:OPERation[:EVENt]?", SCPI_StatusOperationEventQ, 0},
    {"STATus:OPERation:CONDition?", SCPI_StatusOperationConditionQ, 0},
    {"STATus:OPERation:ENABle", SCPI_StatusOperationEnable, 0},
    {"STATus:OPERation:ENABle?", SCPI_StatusOperationEnableQ, 0},
    {"STATus:PRESet", SCPI_StatusPreset, 0},
    SCPI_CMD_LIST_END
};
static scpi_interface_t itf = {on_error, on_write, on_control, on_flush, NULL};

static const char * regnames[] = {"STB", "SRE", "ESR", "ESE", "OPER", "OPERE", "OPERC", "QUES", "QUESE", "QUESC",
#if USE_CUSTOM_REGISTERS
    VERIF_USER_REGNAMES         /* the user register tree of the verification build (harness/regtree/scpi_user_config.h) */
#endif
};
#define NREG ((int) SCPI_REG_COUNT)
typedef char regnames_cover_all_registers[(sizeof regnames / sizeof regnames[0] == SCPI_REG_COUNT) ? 1 : -1];
static int regindex(const char * n) {
    int i;
    for (i = 0; i < NREG; i++) if (!strcmp(regnames[i], n)) return i;
    fprintf(stderr, "bad register %s\n", n);
    exit(3);
}

typedef struct { char kind[12]; char name[24]; long val; int hasval; char wrap[8]; } op_t;      /* wrap: "" / srqclr / srqpp */

static void fresh(void) {
    memset(eq_store, 0, sizeof eq_store);
    memset(ibuf, 0, sizeof ibuf);
    SCPI_Init(&ctx, cmds, &itf, scpi_units_def, "MF", "MD", NULL, "1", ibuf, sizeof ibuf, eq, (int16_t) cap);
}

/* projected state: registers + queue content in FIFO order */
static void print_state(FILE * f) {
    int i, n = ctx.error_queue.count, rd = ctx.error_queue.rd;
    fprintf(f, "{\"r\":[");
    for (i = 0; i < NREG; i++) fprintf(f, "%s%d", i ? "," : "", (int) ctx.registers[i]);
    fprintf(f, "],\"q\":[");
    for (i = 0; i < n; i++) fprintf(f, "%s%d", i ? "," : "", (int) eq[(rd + i) % ctx.error_queue.size].error_code);
    fprintf(f, "]}");
}

static void print_op0(FILE * f, const op_t * o);
static void print_op(FILE * f, const op_t * o) {
    if (o->wrap[0]) {
        char tmp[160];
        FILE * m = fmemopen(tmp, sizeof tmp, "w");
        print_op0(m, o);
        fclose(m);
        fprintf(f, "[\"%s\",%s", o->wrap, tmp + 1);
    } else print_op0(f, o);
}
static void print_op0(FILE * f, const op_t * o) {
    if (!strcmp(o->kind, "set") || !strcmp(o->kind, "setbits") || !strcmp(o->kind, "clrbits"))
        fprintf(f, "[\"%s\",\"%s\",%ld]", o->kind, o->name, o->val);
    else if (!strncmp(o->kind, "push", 4)) fprintf(f, "[\"%s\",%ld]", o->kind, o->val);
    else if (!strcmp(o->kind, "cmd")) {
        if (o->hasval) fprintf(f, "[\"cmd\",\"%s\",%ld]", o->name, o->val);
        else fprintf(f, "[\"cmd\",\"%s\"]", o->name);
    } else fprintf(f, "[\"%s\"]", o->kind);
}

static long resp[4];
static int nresp;

static void apply(const op_t * o) {
    srqn = 0; outn = 0; nresp = 0;
    srqmode = !strcmp(o->wrap, "srqclr") ? 1 : !strcmp(o->wrap, "srqpp") ? 2 : 0;
    srq_armed = !(ctx.registers[SCPI_REG_STB] & 0x40);
    if (!strcmp(o->kind, "set")) SCPI_RegSet(&ctx, regindex(o->name), (scpi_reg_val_t) o->val);
    else if (!strcmp(o->kind, "setbits")) SCPI_RegSetBits(&ctx, regindex(o->name), (scpi_reg_val_t) o->val);
    else if (!strcmp(o->kind, "clrbits")) SCPI_RegClearBits(&ctx, regindex(o->name), (scpi_reg_val_t) o->val);
    else if (!strcmp(o->kind, "push")) SCPI_ErrorPush(&ctx, (int16_t) o->val);
    else if (!strcmp(o->kind, "pushpop")) { nested = 1; SCPI_ErrorPush(&ctx, (int16_t) o->val); nested = 0; }
    else if (!strcmp(o->kind, "pushclr")) { nested = 2; SCPI_ErrorPush(&ctx, (int16_t) o->val); nested = 0; }
    else if (!strcmp(o->kind, "pop")) { scpi_error_t e; SCPI_ErrorPop(&ctx, &e); resp[nresp++] = e.error_code; }
    else if (!strcmp(o->kind, "clear")) SCPI_ErrorClear(&ctx);
    else if (!strcmp(o->kind, "cls")) SCPI_CoreCls(&ctx);
    else if (!strcmp(o->kind, "count")) resp[nresp++] = SCPI_ErrorCount(&ctx);
    else if (!strcmp(o->kind, "cmd")) {
        char line[96];
        int n;
        if (o->hasval) n = snprintf(line, sizeof line, "%s %ld\n", o->name, o->val);
        else n = snprintf(line, sizeof line, "%s\n", o->name);
        SCPI_Input(&ctx, line, n);
        outb[outn] = 0;
        if (outn > 0) resp[nresp++] = strtol(outb, NULL, 10);
    } else { fprintf(stderr, "bad op %s\n", o->kind); exit(3); }
    srqmode = 0;
}

static void record(FILE * f, const char * from, const op_t * o) {
    int i;
    fprintf(f, "{\"cap\":%d,\"f\":%s,\"op\":", cap, from);
    print_op(f, o);
    fprintf(f, ",\"t\":");
    print_state(f);
    fprintf(f, ",\"srq\":[");
    for (i = 0; i < srqn; i++) fprintf(f, "%s%d", i ? "," : "", srqv[i]);
    fprintf(f, "],\"out\":[");
    for (i = 0; i < nresp; i++) fprintf(f, "%s%ld", i ? "," : "", resp[i]);
    fprintf(f, "]}\n");
}

static char * state_str(void) {
    static char buf[512];
    FILE * m = fmemopen(buf, sizeof buf, "w");
    print_state(m);
    fclose(m);
    return buf;
}

static op_t * ops;
static int nops;
static void load_ops(const char * path) {
    FILE * f = fopen(path, "r");
    char line[128];
    if (!f) { perror(path); exit(3); }
    ops = calloc(100000, sizeof(op_t));
    while (fgets(line, sizeof line, f)) {
        op_t * o = &ops[nops];
        char a[32] = "", b[32] = "", c[32] = "", d[32] = "";
        int k = sscanf(line, "%31s %31s %31s %31s", a, b, c, d);
        if (k < 1) continue;
        if (!strcmp(a, "srqclr") || !strcmp(a, "srqpp")) { strcpy(o->wrap, a); strcpy(a, b); strcpy(b, c); strcpy(c, d); k--; }
        strcpy(o->kind, a);
        if (!strncmp(a, "push", 4)) { o->val = atol(b); }
        else if (k >= 2) { strcpy(o->name, b); if (k == 3) { o->val = atol(c); o->hasval = 1; } }
        nops++;
    }
    fclose(f);
}

/* ---- exploration with snapshot/restore ---- */
typedef struct { scpi_t c; scpi_error_t q[MAXCAP]; } snap_t;
typedef struct { unsigned short regs[40]; short wr, rd, count; short codes[MAXCAP]; size_t pos; } skey_t;

static void take(snap_t * s) { s->c = ctx; memcpy(s->q, eq, sizeof s->q); }
static void restore(const snap_t * s) { ctx = s->c; memcpy(eq, s->q, sizeof s->q); }
static void mkkey(skey_t * k) {
    int i;
    memset(k, 0, sizeof *k);
    for (i = 0; i < NREG; i++) k->regs[i] = ctx.registers[i];
    k->wr = ctx.error_queue.wr; k->rd = ctx.error_queue.rd; k->count = ctx.error_queue.count;
    for (i = 0; i < ctx.error_queue.count; i++) k->codes[i] = eq[(ctx.error_queue.rd + i) % ctx.error_queue.size].error_code;
    k->pos = ctx.buffer.position;
}

#define HSIZE (1u << 22)
static skey_t * hkeys;
static int * hidx;
static unsigned hash(const skey_t * k) {
    const unsigned char * p = (const unsigned char *) k;
    unsigned h = 2166136261u;
    size_t i;
    for (i = 0; i < sizeof *k; i++) { h ^= p[i]; h *= 16777619u; }
    return h;
}

static int explore(const char * opsfile, long maxstates, const char * outpath) {
    FILE * f = fopen(outpath, "w");
    snap_t * states = calloc(maxstates + 1, sizeof(snap_t));
    long nstates = 0, head = 0, ntrans = 0;
    skey_t k;
    int complete = 1;
    load_ops(opsfile);
    hkeys = calloc(maxstates + 1, sizeof(skey_t));
    hidx = malloc(HSIZE * sizeof(int));
    memset(hidx, -1, HSIZE * sizeof(int));
    fresh();
    take(&states[nstates]);
    mkkey(&k);
    hkeys[0] = k; hidx[hash(&k) % HSIZE] = 0; nstates = 1;
    while (head < nstates) {
        int i;
        char from[512];
        restore(&states[head]);
        strcpy(from, state_str());
        for (i = 0; i < nops; i++) {
            unsigned h;
            restore(&states[head]);
            /* srqclr around a push onto a full queue is left out (see ScpiStatusNested: the order of two writes would show) */
            if (!strcmp(ops[i].wrap, "srqclr") && !strcmp(ops[i].kind, "push") && ctx.error_queue.count >= ctx.error_queue.size) continue;
            apply(&ops[i]);
            record(f, from, &ops[i]);
            ntrans++;
            mkkey(&k);
            h = hash(&k) % HSIZE;
            while (hidx[h] >= 0 && memcmp(&hkeys[hidx[h]], &k, sizeof k)) h = (h + 1) % HSIZE;
            if (hidx[h] < 0) {
                if (nstates >= maxstates) { complete = 0; continue; }
                hkeys[nstates] = k; hidx[h] = (int) nstates;
                take(&states[nstates]);
                nstates++;
            }
        }
        head++;
    }
    fclose(f);
    free(states); free(hkeys); free(hidx); free(ops);
    printf("{\"concrete_states\":%ld,\"transitions\":%ld,\"complete\":%s}\n", nstates, ntrans, complete ? "true" : "false");
    return 0;
}

static uint64_t rng;
static unsigned rnd(void) { rng ^= rng << 13; rng ^= rng >> 7; rng ^= rng << 17; return (unsigned) (rng >> 11); }

static const char * cmd0[] = {"*CLS", "*ESR?", "*OPC", "*STB?", "*ESE?", "*SRE?", "*OPC?", "STAT:QUES?", "STAT:PRES", "STAT:QUES:COND?",
    "STAT:QUES:ENAB?", "STAT:OPER?", "STAT:OPER:COND?", "STAT:OPER:ENAB?", "SYST:ERR?", "SYST:ERR:COUN?", "*WAI", "*TST?"};
static const char * cmd1[] = {"*ESE", "*SRE", "STAT:QUES:ENAB", "STAT:OPER:ENAB"};
static const int codes[] = {-100, -113, -199, -200, -222, -299, -300, -350, -399, -400, -410, -499, -500, -600, -700, -800, -899, -900, -99, 1, 100, 32767, -1, -32768, 0};

static long rndval(void) {
    /* sparse 16-bit values so that summaries flip often */
    unsigned r = rnd() % 8;
    long v = 0;
    if (r == 0) return 0;
    if (r == 1) return rnd() & 0xFFFF;
    v = 1L << (rnd() % 16);
    if (r > 4) v |= 1L << (rnd() % 16);
    if (r > 6) v |= 1L << (rnd() % 8);
    return v;
}

static int walk(unsigned long seedv, long steps, const char * outpath) {
    FILE * f = fopen(outpath, "w");
    long i;
    rng = 0x9E3779B97F4A7C15ull ^ (seedv * 0x100000001B3ull);
    fresh();
    for (i = 0; i < steps; i++) {
        op_t o;
        char from[512];
        unsigned r = rnd() % 100;
        memset(&o, 0, sizeof o);
        strcpy(from, state_str());
        if (r < 40) {
            const char * kinds[] = {"set", "setbits", "clrbits"};
            strcpy(o.kind, kinds[rnd() % 3]);
            strcpy(o.name, regnames[1 + rnd() % 9]);
            o.val = rndval(); o.hasval = 1;
        } else if (r < 43) {
            /* the application acknowledges / re-raises the request bit itself: MSS must stay a function of the rest */
            strcpy(o.kind, (rnd() & 1) ? "clrbits" : "setbits"); strcpy(o.name, "STB"); o.val = 64; o.hasval = 1;
        } else if (r < 55) {
            unsigned m = rnd() % 8;      /* one push in four is drained by the error callback */
            strcpy(o.kind, m == 0 ? "pushpop" : m == 1 ? "pushclr" : "push"); o.val = codes[rnd() % (sizeof codes / sizeof codes[0])];
        }
        else if (r < 62) strcpy(o.kind, "pop");
        else if (r < 64) strcpy(o.kind, "clear");
        else if (r < 66) strcpy(o.kind, "count");
        else if (r < 88) { strcpy(o.kind, "cmd"); strcpy(o.name, cmd0[rnd() % (sizeof cmd0 / sizeof cmd0[0])]); }
        else { strcpy(o.kind, "cmd"); strcpy(o.name, cmd1[rnd() % 4]); o.val = rndval(); o.hasval = 1; }
        /* one operation in six runs under a re-entering service-request handler (not the nested pushes; not srqclr around
           a push onto a full queue, where the order of two writes inside the library would show) */
        if (rnd() % 6 == 0 && strcmp(o.kind, "pushpop") && strcmp(o.kind, "pushclr")) {
            strcpy(o.wrap, (rnd() & 1) ? "srqclr" : "srqpp");
            if (!strcmp(o.wrap, "srqclr") && !strcmp(o.kind, "push") && ctx.error_queue.count >= ctx.error_queue.size) o.wrap[0] = 0;
        }
        apply(&o);
        record(f, from, &o);
        if (rnd() % 5000 == 0) fresh();
    }
    fclose(f);
    printf("{\"steps\":%ld}\n", steps);
    return 0;
}

/* random walk over the whole register tree: register writes of every kind on every register, and *CLS */
static int twalk(unsigned long seedv, long steps, const char * outpath) {
    FILE * f = fopen(outpath, "w");
    long i;
    rng = 0x9E3779B97F4A7C15ull ^ (seedv * 0x100000001B3ull);
    fresh();
    for (i = 0; i < steps; i++) {
        op_t o;
        char from[512];
        unsigned r = rnd() % 100;
        memset(&o, 0, sizeof o);
        strcpy(from, state_str());
        if (r < 94) {
            const char * kinds[] = {"set", "setbits", "clrbits"};
            strcpy(o.kind, kinds[rnd() % 3]);
            strcpy(o.name, regnames[(r < 3) ? 0 : 1 + rnd() % (NREG - 1)]);
            o.val = rndval(); o.hasval = 1;
            if (rnd() % 3 == 0) o.val = 1L << (rnd() % 16);
        } else strcpy(o.kind, "cls");
        apply(&o);
        record(f, from, &o);
        if (rnd() % 4000 == 0) fresh();
    }
    fclose(f);
    printf("{\"steps\":%ld}\n", steps);
    return 0;
}

static int allcodes(const char * outpath) {
    FILE * f = fopen(outpath, "w");
    long c;
    for (c = -32768; c <= 32767; c++) {
        op_t o;
        char from[512];
        memset(&o, 0, sizeof o);
        fresh();
        strcpy(from, state_str());
        strcpy(o.kind, "push"); o.val = c;
        apply(&o);
        record(f, from, &o);
    }
    fclose(f);
    printf("{\"codes\":65536}\n");
    return 0;
}

static int path(const char * opsfile, const char * outpath) {
    FILE * f = fopen(outpath, "w");
    int i;
    load_ops(opsfile);
    fresh();
    for (i = 0; i < nops; i++) {
        char from[512];
        strcpy(from, state_str());
        apply(&ops[i]);
        record(f, from, &ops[i]);
    }
    fclose(f);
    free(ops);
    return 0;
}

/* the largest queues: records carry the whole queue, so only the interesting steps are recorded */
static int bigq(const char * outpath) {
    FILE * f = fopen(outpath, "w");
    static const char * seq[] = {"push", "push", "pop", "push", "push", "pop", "count", "cmd", "push", "clear", "push", "pop", "pop"};
    long i, k, nrec = 0;
    char * from = NULL;
    size_t fromn = 0;
    eq = calloc((size_t) cap, sizeof *eq);
    memset(ibuf, 0, sizeof ibuf);
    SCPI_Init(&ctx, cmds, &itf, scpi_units_def, "MF", "MD", NULL, "1", ibuf, sizeof ibuf, eq, (int16_t) cap);
    for (i = 0; i < cap; i++) SCPI_ErrorPush(&ctx, (int16_t) (-100 - (i % 97)));
    k = 32770L - cap;                       /* turn the ring: the write index ends at k (mod cap) */
    if (k < 2) k = 2;
    if (k >= cap) k = cap - 1;
    for (i = 0; i < k; i++) { scpi_error_t e; SCPI_ErrorPop(&ctx, &e); }
    for (i = 0; i < k; i++) SCPI_ErrorPush(&ctx, (int16_t) (-200 - (i % 89)));
    for (i = 0; i < (long) (sizeof seq / sizeof seq[0]); i++) {
        op_t o;
        FILE * m = open_memstream(&from, &fromn);
        print_state(m);
        fclose(m);
        memset(&o, 0, sizeof o);
        strcpy(o.kind, seq[i]);
        if (!strcmp(seq[i], "push")) o.val = -300 - (int) i;
        if (!strcmp(seq[i], "cmd")) strcpy(o.name, "SYST:ERR?");
        apply(&o);
        record(f, from, &o);
        free(from); from = NULL;
        nrec++;
    }
    fclose(f);
    free(eq); eq = eq_store;
    printf("{\"records\":%ld,\"cap\":%d,\"turned\":%ld}\n", nrec, cap, k);
    return 0;
}

int main(int argc, char ** argv) {
    if (getenv("DRV_NO_ERROR_CALLBACK")) itf.error = NULL;      /* the error callback is optional: the status byte must not depend on it */
    if (argc >= 6 && !strcmp(argv[1], "explore")) { cap = atoi(argv[3]); return explore(argv[2], atol(argv[4]), argv[5]); }
    if (argc >= 6 && !strcmp(argv[1], "walk")) { cap = atoi(argv[4]); return walk(strtoul(argv[2], 0, 10), atol(argv[3]), argv[5]); }
    if (argc >= 5 && !strcmp(argv[1], "twalk")) { cap = 2; return twalk(strtoul(argv[2], 0, 10), atol(argv[3]), argv[4]); }
    if (argc >= 3 && !strcmp(argv[1], "codes")) { cap = 2; return allcodes(argv[2]); }
    if (argc >= 4 && !strcmp(argv[1], "bigq")) { cap = atoi(argv[2]); if (cap < 2 || cap > 32767) return 3; return bigq(argv[3]); }
    if (argc >= 5 && !strcmp(argv[1], "path")) { cap = atoi(argv[3]); return path(argv[2], argv[4]); }
    fprintf(stderr, "usage\n");
    return 3;
}
