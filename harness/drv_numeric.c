/*
 * drv_numeric - C04: executes the cases emitted by spec/GenNumeric.tla (ScpiNumeric!Expect) on the
 * real library and compares.
 *
 *   run <cases.ndjson> <mismatch.ndjson> [verbose]
 *        every line is one parameter text with the expectations of the specification; for every
 *        reader kind listed in "rd" the message "<KIND> <text>\n" is sent through SCPI_Input to a
 *        handler that calls the reader (SCPI_ParamInt32/UInt32/Int64/UInt64/Float/Double/Number/Bool).
 *        Result bit patterns (16-bit limbs, little endian), the return values and every queued error
 *        are compared with:
 *          integers        exact limbs of the specification ([] = literal out of range: unjudged)
 *          double / float  glibc strtod / strtof of the NORMALISED literal of the specification
 *                          (cross-checked against strtod of the exact triple digits*10^e10)
 *          with a unit     that double times the multiplier (mn * 10^me / md, one correctly rounded
 *                          division of exact doubles = what the C compiler makes of the table entry),
 *                          one rounding for the product, plus the base unit tag
 *          nondecimal      strtod / strtof of the decimal digits of the exact natural
 *          special         special flag and tag
 *        One JSON line per mismatch is written to <mismatch.ndjson>; a JSON summary to stdout.
 *   one <KIND> <text>      run one message and print what the library returned (minimal repro)
 */
#include <stdio.h>
#include <stdlib.h>
#include <string.h>
#include <stdint.h>
#include <math.h>
#include "scpi/scpi.h"

/* ---------------------------------------------------------------- library side */
static scpi_t ctx;
static char ibuf[1024];
static scpi_error_t eq[8];
static int errs[16], nerrs;

static int on_error(scpi_t * c, int_fast16_t e) { (void) c; if (nerrs < 16) errs[nerrs++] = (int) e; return 0; }
static size_t on_write(scpi_t * c, const char * d, size_t l) { (void) c; (void) d; return l; }
static scpi_result_t on_control(scpi_t * c, scpi_ctrl_name_t n, scpi_reg_val_t v) { (void) c; (void) n; (void) v; return SCPI_RES_OK; }
static scpi_result_t on_flush(scpi_t * c) { (void) c; return SCPI_RES_OK; }

static struct {
    int called, ret;
    int32_t i32; uint32_t u32; int64_t i64; uint64_t u64; float f; double d;
    scpi_number_t num; scpi_bool_t b;
} res;

/* every typed reader has three public entry points that must decode alike: SCPI_Param<T>, SCPI_Parameter + SCPI_ParamTo<T>,
   and SCPI_ParamArray<T> with room for one element; the case number selects one (variant 0, 1, 2) */
static int variant;
#define READER(name, T, field) \
static scpi_result_t name(scpi_t * c) { \
    scpi_parameter_t p; size_t cnt = 0; \
    res.called++; \
    if (variant == 1) res.ret = SCPI_Parameter(c, &p, TRUE) && SCPI_ParamTo##T(c, &p, &res.field); \
    else if (variant == 2) res.ret = SCPI_ParamArray##T(c, &res.field, 1, &cnt, SCPI_FORMAT_ASCII, TRUE) && cnt == 1; \
    else res.ret = SCPI_Param##T(c, &res.field, TRUE); \
    return res.ret ? SCPI_RES_OK : SCPI_RES_ERR; }
READER(h_i32, Int32, i32)
READER(h_u32, UInt32, u32)
READER(h_i64, Int64, i64)
READER(h_u64, UInt64, u64)
READER(h_flt, Float, f)
READER(h_dbl, Double, d)
static scpi_result_t h_num(scpi_t * c) { res.called++; res.ret = SCPI_ParamNumber(c, scpi_special_numbers_def, &res.num, TRUE); return res.ret ? SCPI_RES_OK : SCPI_RES_ERR; }
static scpi_result_t h_bool(scpi_t * c) { res.called++; res.ret = SCPI_ParamBool(c, &res.b, TRUE); return res.ret ? SCPI_RES_OK : SCPI_RES_ERR; }

static const scpi_command_t cmds[] = {
    {"I32", h_i32, 0}, {"U32", h_u32, 0}, {"I64", h_i64, 0}, {"U64", h_u64, 0},
    {"FLT", h_flt, 0}, {"DBL", h_dbl, 0}, {"NUM", h_num, 0}, {"BOOL", h_bool, 0},
    SCPI_CMD_LIST_END
};
static scpi_interface_t itf = {on_error, on_write, on_control, on_flush, NULL};

static int input_ret;
static void execute(const char * kind, const unsigned char * lit, int n) {
    char msg[600];
    int k = (int) strlen(kind);
    memset(&res, 0, sizeof res);
    res.num.content.value = -7.25; res.num.unit = (scpi_unit_t) 0x55; res.num.base = 77;
    res.i32 = 0x5A5A5A5A; res.u32 = 0x5A5A5A5Au; res.i64 = 0x5A5A5A5A5A5A5A5ALL; res.u64 = 0x5A5A5A5A5A5A5A5AULL;
    res.f = -7.25f; res.d = -7.25; res.b = 0;
    nerrs = 0;
    memset(eq, 0, sizeof eq);
    {
        /* DRV_UNITS_LOWER: the unit table handed to SCPI_Init is a copy of the default one spelled in small letters
           (a user table in SI spelling): suffixes are matched without regard to letter case, in the table as in the input */
        const scpi_unit_def_t * units = scpi_units_def;
        if (getenv("DRV_UNITS_LOWER")) {
            static scpi_unit_def_t low[256];
            static char names[256][12];
            size_t i, k;
            for (i = 0; i < 255 && scpi_units_def[i].name; i++) {
                for (k = 0; k < 11 && scpi_units_def[i].name[k]; k++) {
                    char ch = scpi_units_def[i].name[k];
                    names[i][k] = (char) ((ch >= 'A' && ch <= 'Z' && (i % 3 || k == 0)) ? ch + 32 : ch);   /* every third row keeps capitals behind its first letter */
                }
                names[i][k] = 0;
                low[i] = scpi_units_def[i];
                low[i].name = names[i];
            }
            low[i].name = NULL; low[i].unit = SCPI_UNIT_NONE; low[i].mult = 0;
            units = low;
        }
        SCPI_Init(&ctx, cmds, &itf, units, "MF", "MD", NULL, "1", ibuf, sizeof ibuf, eq, 8);
    }
    memcpy(msg, kind, k); msg[k] = ' ';
    memcpy(msg + k + 1, lit, n); msg[k + 1 + n] = '\n';
    input_ret = SCPI_Input(&ctx, msg, k + 2 + n);
}

/* ---------------------------------------------------------------- unit / special names (from the headers) */
#define U(x) {#x, SCPI_UNIT_##x}
static const struct { const char * name; int val; } unit_names[] = {
    U(NONE), U(VOLT), U(AMPER), U(OHM), U(HERTZ), U(CELSIUS), U(SECOND), U(METER), U(GRAY), U(BECQUEREL), U(MOLE), U(DEGREE),
    U(GRADE), U(RADIAN), U(REVOLUTION), U(STERADIAN), U(SIEVERT), U(FARAD), U(COULOMB), U(SIEMENS), U(ELECTRONVOLT), U(JOULE),
    U(NEWTON), U(LUX), U(HENRY), U(ASTRONOMIC_UNIT), U(INCH), U(FOOT), U(PARSEC), U(MILE), U(NAUTICAL_MILE), U(LUMEN), U(CANDELA),
    U(WEBER), U(TESLA), U(ATOMIC_MASS), U(KILOGRAM), U(WATT), U(DBM), U(ATMOSPHERE), U(INCH_OF_MERCURY), U(MM_OF_MERCURY),
    U(PASCAL), U(TORT), U(BAR), U(DECIBEL), U(UNITLESS), U(FAHRENHEIT), U(KELVIN), U(DAY), U(YEAR), U(STROKES), U(POISE), U(LITER),
    {NULL, 0}
};
#define S(x) {#x, SCPI_NUM_##x}
static const struct { const char * name; int val; } special_names[] = {
    S(MIN), S(MAX), S(DEF), S(UP), S(DOWN), S(NAN), S(INF), S(NINF), S(AUTO), {NULL, 0}
};
static int unit_of(const char * n) { int i; for (i = 0; unit_names[i].name; i++) if (!strcmp(unit_names[i].name, n)) return unit_names[i].val; return -1000; }
static const char * unit_name(int v) { int i; for (i = 0; unit_names[i].name; i++) if (unit_names[i].val == v) return unit_names[i].name; return "?"; }
static int special_of(const char * n) { int i; for (i = 0; special_names[i].name; i++) if (!strcmp(special_names[i].name, n)) return special_names[i].val; return -1000; }

/* ---------------------------------------------------------------- tiny reader of the generator's JSON lines */
static const char * find_key(const char * line, const char * key) {
    char pat[40];
    const char * p;
    snprintf(pat, sizeof pat, "\"%s\":", key);
    p = strstr(line, pat);
    return p ? p + strlen(pat) : NULL;
}
static int get_arr(const char * line, const char * key, int * out, int max) {   /* -1 if absent */
    const char * p = find_key(line, key);
    int n = 0;
    if (!p || *p != '[') return -1;
    p++;
    while (*p && *p != ']') {
        char * e;
        long v = strtol(p, &e, 10);
        if (e == p) break;
        if (n < max) out[n++] = (int) v;
        p = e;
        if (*p == ',') p++;
    }
    return n;
}
static int get_strs(const char * line, const char * key, char out[][8], int max) {
    const char * p = find_key(line, key);
    int n = 0;
    if (!p || *p != '[') return -1;
    p++;
    while (*p && *p != ']') {
        if (*p == '"') {
            const char * q = strchr(p + 1, '"');
            int l = (int) (q - p - 1);
            if (n < max && l < 8) { memcpy(out[n], p + 1, l); out[n][l] = 0; n++; }
            p = q + 1;
        } else p++;
    }
    return n;
}
static int get_str(const char * line, const char * key, char * out, int max) {
    const char * p = find_key(line, key), * q;
    if (!p || *p != '"') return -1;
    q = strchr(p + 1, '"');
    if (q - p - 1 >= max) return -1;
    memcpy(out, p + 1, q - p - 1); out[q - p - 1] = 0;
    return (int) (q - p - 1);
}
static long get_int(const char * line, const char * key, long dflt) {
    const char * p = find_key(line, key);
    if (!p) return dflt;
    if (!strncmp(p, "true", 4)) return 1;
    if (!strncmp(p, "false", 5)) return 0;
    return strtol(p, NULL, 10);
}

/* ---------------------------------------------------------------- comparison helpers */
static void limbs_of(uint64_t v, int n, int * out) { int i; for (i = 0; i < n; i++) out[i] = (int) ((v >> (16 * i)) & 0xFFFF); }
static uint64_t dbits(double d) { uint64_t u; memcpy(&u, &d, 8); return u; }
static uint32_t fbits(float f) { uint32_t u; memcpy(&u, &f, 4); return u; }
static int same_double(double a, double b) { return dbits(a) == dbits(b) || (a == 0.0 && b == 0.0); }   /* the sign of zero is not a value */
static int same_float(float a, float b) { return fbits(a) == fbits(b) || (a == 0.0f && b == 0.0f); }

static FILE * mf;
static long n_cases, n_runs, n_judged, n_unjudged, n_mismatch, n_selfcheck, n_nontrivial, n_note_f32;
static long by_group[8];
static int verbose;

static void print_arr(FILE * f, const int * a, int n) { int i; fputc('[', f); for (i = 0; i < n; i++) fprintf(f, "%s%d", i ? "," : "", a[i]); fputc(']', f); }
static void mismatch(long line, const char * rd, const char * what, const int * obs, int nobs, const int * exp, int nexp, int dev, const char * extra) {
    int i;
    n_mismatch++;
    fprintf(mf, "{\"line\":%ld,\"rd\":\"%s\",\"what\":\"%s\",\"obs\":", line, rd, what);
    print_arr(mf, obs, nobs);
    fprintf(mf, ",\"exp\":");
    print_arr(mf, exp, nexp);
    fprintf(mf, ",\"ret\":%d,\"input\":%d,\"called\":%d,\"errs\":[", res.ret, input_ret, res.called);
    for (i = 0; i < nerrs; i++) fprintf(mf, "%s%d", i ? "," : "", errs[i]);
    fprintf(mf, "],\"dev\":%s%s%s}\n", dev ? "true" : "false", extra ? "," : "", extra ? extra : "");
}

/* distinct non-trivial literals */
#define HBITS 23
static uint64_t * htab;
static int seen(const unsigned char * s, int n) {
    uint64_t h = 1469598103934665603ULL;
    size_t i, k;
    for (i = 0; i < (size_t) n; i++) { h ^= s[i]; h *= 1099511628211ULL; }
    h ^= (uint64_t) n << 56;
    if (h == 0) h = 1;
    k = (size_t) (h >> 7) & ((1u << HBITS) - 1);
    while (htab[k]) { if (htab[k] == h) return 1; k = (k + 1) & ((1u << HBITS) - 1); }
    htab[k] = h;
    return 0;
}

static void bytes_to_str(const int * b, int n, char * out) { int i; for (i = 0; i < n; i++) out[i] = (char) b[i]; out[n] = 0; }

/* multiplier of a unit row as the double the table entry denotes: exact numerator / exact denominator */
static double mult_of(long mn, long md, long me) {
    volatile double num = (double) mn, den = (double) md;
    long i;
    if (me > 22 || me < -22) return NAN;
    for (i = 0; i < me; i++) num *= 10.0;      /* exact: integers below 2^53 resp. powers of ten up to 10^22 */
    for (i = 0; i < -me; i++) den *= 10.0;
    return num / den;
}

static int check_plain(long line, const char * rd, int want_ret) {
    /* common: the handler ran once, the reader succeeded, nothing was queued */
    int z = 0;
    if (res.called != 1 || res.ret != want_ret || !input_ret) { mismatch(line, rd, "ret", &z, 0, &z, 0, 0, NULL); return 0; }
    if (nerrs) { mismatch(line, rd, "err", &z, 0, &z, 0, 0, NULL); return 0; }
    return 1;
}

static void run_case(long line, const char * js) {
    static int lit[600], norm[600], cut[600], dig[600], dec[600], lim[8];
    static unsigned char lb[600];
    char g[16], rds[12][8], s_norm[600], s_cut[600], s_trip[700], s_dec[600], unit[32], tag[16];
    int nlit, nnorm, ncut, ndig, ndec, nrd, i, r, ws, huge, neg;
    long e10;
    nlit = get_arr(js, "lit", lit, 590);
    nrd = get_strs(js, "rd", rds, 12);
    if (nlit <= 0 || nrd < 0 || get_str(js, "g", g, sizeof g) < 0) { fprintf(stderr, "bad case line %ld\n", line); exit(3); }
    for (i = 0; i < nlit; i++) lb[i] = (unsigned char) lit[i];
    n_cases++;
    if (get_int(js, "nt", 0) && !seen(lb, nlit)) n_nontrivial++;
    nnorm = get_arr(js, "norm", norm, 590); if (nnorm < 0) nnorm = 0;
    ncut = get_arr(js, "cut", cut, 590); if (ncut < 0) ncut = 0;
    ndig = get_arr(js, "dig", dig, 590); if (ndig < 0) ndig = 0;
    ndec = get_arr(js, "dec", dec, 590); if (ndec < 0) ndec = 0;
    ws = (int) get_int(js, "ws", 0); huge = (int) get_int(js, "huge", 0); neg = (int) get_int(js, "neg", 0);
    e10 = get_int(js, "e10", 0);
    bytes_to_str(norm, nnorm, s_norm);
    bytes_to_str(cut, ncut, s_cut);
    for (i = 0; i < ndec; i++) s_dec[i] = (char) ('0' + dec[i]);
    s_dec[ndec] = 0;
    {   /* exact triple as text: [-]digits e exp10 */
        int k = 0;
        if (neg) s_trip[k++] = '-';
        if (ndig == 0) s_trip[k++] = '0';
        for (i = 0; i < ndig; i++) s_trip[k++] = (char) ('0' + dig[i]);
        snprintf(s_trip + k, sizeof s_trip - k, "e%ld", e10);
    }
    if (!strcmp(g, "dec")) by_group[0]++; else if (!strcmp(g, "unit")) by_group[1]++; else if (!strcmp(g, "nondec")) by_group[2]++;
    else if (!strcmp(g, "special")) by_group[3]++; else by_group[4]++;

    for (r = 0; r < nrd; r++) {
        const char * rd = rds[r];
        int isint = !strcmp(rd, "I32") || !strcmp(rd, "U32") || !strcmp(rd, "I64") || !strcmp(rd, "U64");
        n_runs++;
        variant = (int) ((line + r) % 3);
        execute(rd, lb, nlit);
        if (verbose) {
            printf("  %-4s input=%d called=%d ret=%d errs=%d", rd, input_ret, res.called, res.ret, nerrs);
            for (i = 0; i < nerrs; i++) printf(" %d", errs[i]);
        }
        if (isint) {
            int w = (rd[1] == '3') ? 2 : 4, obs[4], nexp;
            uint64_t v = !strcmp(rd, "I32") ? (uint64_t) (uint32_t) res.i32 : !strcmp(rd, "U32") ? res.u32 : !strcmp(rd, "I64") ? (uint64_t) res.i64 : res.u64;
            nexp = get_arr(js, rd, lim, 8);
            limbs_of(v, w, obs);
            if (verbose) { printf(" value=0x%llx expected limbs ", (unsigned long long) v); print_arr(stdout, lim, nexp < 0 ? 0 : nexp); printf("%s\n", nexp <= 0 ? " (out of range: unjudged)" : ""); }
            if (nexp <= 0) { n_unjudged++; continue; }        /* out of range: outside the property */
            n_judged++;
            if (nexp != w) { fprintf(stderr, "bad limb count line %ld\n", line); exit(3); }
            if (!check_plain(line, rd, 1)) continue;
            if (memcmp(obs, lim, w * sizeof(int))) mismatch(line, rd, "value", obs, w, lim, w, 0, NULL);
        } else if (!strcmp(rd, "DBL") || !strcmp(rd, "FLT")) {
            int isd = rd[0] == 'D', obs[4], exp[4], dev = 0;
            const char * src = !strcmp(g, "nondec") ? s_dec : s_norm;
            if (!strcmp(g, "nondec")) {
                /* the float reader has 32 bits, the double reader 64: wider literals are not constrained */
                if (!get_int(js, isd ? "f64" : "f32", 0)) {
                    n_unjudged++;
                    if (!isd && get_int(js, "f64", 0) && !same_float(res.f, strtof(s_dec, NULL))) n_note_f32++;
                    if (verbose) printf(" (wider than the reader: unjudged)\n");
                    continue;
                }
            }
            n_judged++;
            if (isd) {
                double ref = strtod(src, NULL);
                if (!strcmp(g, "dec") && !huge && !same_double(ref, strtod(s_trip, NULL))) { n_selfcheck++; fprintf(stderr, "selfcheck: %s vs %s\n", s_norm, s_trip); }
                limbs_of(dbits(res.d), 4, obs); limbs_of(dbits(ref), 4, exp);
                if (verbose) printf(" value=%.17g reference strtod(\"%s\")=%.17g\n", res.d, src, ref);
                if (!check_plain(line, rd, 1)) continue;
                if (ws) dev = same_double(res.d, strtod(s_cut, NULL));
                if (!same_double(res.d, ref)) mismatch(line, rd, "value", obs, 4, exp, 4, dev, NULL);
            } else {
                float ref = strtof(src, NULL);
                if (!strcmp(g, "dec") && !huge && !same_float(ref, strtof(s_trip, NULL))) { n_selfcheck++; fprintf(stderr, "selfcheck(float): %s vs %s\n", s_norm, s_trip); }
                limbs_of(fbits(res.f), 2, obs); limbs_of(fbits(ref), 2, exp);
                if (verbose) printf(" value=%.9g reference strtof(\"%s\")=%.9g\n", (double) res.f, src, (double) ref);
                if (!check_plain(line, rd, 1)) continue;
                if (ws) dev = same_float(res.f, strtof(s_cut, NULL));
                if (!same_float(res.f, ref)) mismatch(line, rd, "value", obs, 2, exp, 2, dev, NULL);
            }
        } else if (!strcmp(rd, "NUM")) {
            int obs[4], exp[4], z = 0;
            n_judged++;
            if (!strcmp(g, "special")) {
                int want;
                if (get_str(js, "tag", tag, sizeof tag) < 0) { fprintf(stderr, "no tag line %ld\n", line); exit(3); }
                want = special_of(tag);
                if (verbose) printf(" special=%d tag=%d expected tag %s=%d\n", (int) res.num.special, (int) res.num.content.tag, tag, want);
                if (!check_plain(line, rd, 1)) continue;
                obs[0] = res.num.content.tag; exp[0] = want;
                if (!res.num.special) mismatch(line, rd, "special", &z, 0, &z, 0, 0, NULL);
                else if (res.num.content.tag != want) mismatch(line, rd, "tag", obs, 1, exp, 1, 0, NULL);
            } else {
                volatile double ref, devv = 0;
                int wantunit = SCPI_UNIT_NONE, dev = 0;
                const char * src = !strcmp(g, "nondec") ? s_dec : s_norm;
                if (!strcmp(g, "nondec") && !get_int(js, "f64", 0)) { n_judged--; n_unjudged++; if (verbose) printf(" (wider than 64 bits: unjudged)\n"); continue; }
                ref = strtod(src, NULL);
                if (ws) devv = strtod(s_cut, NULL);
                if (!strcmp(g, "unit")) {
                    double m;
                    if (get_str(js, "unit", unit, sizeof unit) < 0) { fprintf(stderr, "no unit line %ld\n", line); exit(3); }
                    wantunit = unit_of(unit);
                    m = mult_of(get_int(js, "mn", 1), get_int(js, "md", 1), get_int(js, "me", 0));
                    ref = ref * m;
                    devv = devv * m;
                }
                limbs_of(dbits(res.num.content.value), 4, obs); limbs_of(dbits(ref), 4, exp);
                if (verbose) printf(" special=%d value=%.17g unit=%s reference=%.17g unit=%s\n", (int) res.num.special, res.num.special ? 0.0 : res.num.content.value,
                                    unit_name(res.num.unit), (double) ref, unit_name(wantunit));
                if (!check_plain(line, rd, 1)) continue;
                if (ws) dev = same_double(res.num.content.value, devv);
                if (res.num.special) mismatch(line, rd, "special", &z, 0, &z, 0, 0, NULL);
                else {
                    if (!same_double(res.num.content.value, ref)) mismatch(line, rd, "value", obs, 4, exp, 4, dev, NULL);
                    if ((int) res.num.unit != wantunit) { obs[0] = res.num.unit; exp[0] = wantunit; mismatch(line, rd, "unit", obs, 1, exp, 1, 0, NULL); }
                }
            }
        } else if (!strcmp(rd, "BOOL")) {
            int obs[1], exp[1];
            n_judged++;
            exp[0] = (int) get_int(js, "b", -1); obs[0] = res.b;
            if (verbose) printf(" value=%d expected %d\n", (int) res.b, exp[0]);
            if (!check_plain(line, rd, 1)) continue;
            if (obs[0] != exp[0]) mismatch(line, rd, "value", obs, 1, exp, 1, 0, NULL);
        } else { fprintf(stderr, "bad reader %s line %ld\n", rd, line); exit(3); }
    }
}

int main(int argc, char ** argv) {
    if (argc >= 4 && !strcmp(argv[1], "run")) {
        FILE * f = fopen(argv[2], "r");
        static char line[16384];
        long ln = 0;
        if (!f) { perror(argv[2]); return 3; }
        mf = fopen(argv[3], "w");
        if (!mf) { perror(argv[3]); return 3; }
        verbose = argc >= 5 && !strcmp(argv[4], "verbose");
        htab = calloc((size_t) 1 << HBITS, sizeof(uint64_t));
        while (fgets(line, sizeof line, f)) {
            ln++;
            if (line[0] != '{') continue;
            if (verbose) {
                static int lit[600]; int n = get_arr(line, "lit", lit, 590), i;
                printf("case %ld: \"", ln);
                for (i = 0; i < n; i++) if (lit[i] == 9) printf("\\t"); else putchar(lit[i]);
                printf("\"\n");
            }
            run_case(ln, line);
        }
        fclose(f); fclose(mf);
        printf("{\"cases\":%ld,\"runs\":%ld,\"judged\":%ld,\"unjudged\":%ld,\"mismatches\":%ld,\"selfcheck_failures\":%ld,\"distinct_nontrivial\":%ld,"
               "\"note_float_nondecimal_over_32_bits_differs\":%ld,\"dec\":%ld,\"unit\":%ld,\"nondec\":%ld,\"special\":%ld,\"other\":%ld}\n",
               n_cases, n_runs, n_judged, n_unjudged, n_mismatch, n_selfcheck, n_nontrivial, n_note_f32, by_group[0], by_group[1], by_group[2], by_group[3], by_group[4]);
        return 0;
    }
    if (argc >= 4 && !strcmp(argv[1], "one")) {
        int i;
        execute(argv[2], (const unsigned char *) argv[3], (int) strlen(argv[3]));
        printf("%s \"%s\": input=%d called=%d ret=%d errs=[", argv[2], argv[3], input_ret, res.called, res.ret);
        for (i = 0; i < nerrs; i++) printf("%s%d", i ? "," : "", errs[i]);
        printf("] ");
        if (!strcmp(argv[2], "I32")) printf("value=%d\n", (int) res.i32);
        else if (!strcmp(argv[2], "U32")) printf("value=%u\n", (unsigned) res.u32);
        else if (!strcmp(argv[2], "I64")) printf("value=%lld\n", (long long) res.i64);
        else if (!strcmp(argv[2], "U64")) printf("value=%llu\n", (unsigned long long) res.u64);
        else if (!strcmp(argv[2], "FLT")) printf("value=%.9g\n", (double) res.f);
        else if (!strcmp(argv[2], "DBL")) printf("value=%.17g\n", res.d);
        else if (!strcmp(argv[2], "BOOL")) printf("value=%d\n", (int) res.b);
        else if (res.num.special) printf("special tag=%d\n", (int) res.num.content.tag);
        else printf("value=%.17g unit=%s base=%d\n", res.num.content.value, unit_name(res.num.unit), (int) res.num.base);
        return 0;
    }
    fprintf(stderr, "usage: drv_numeric run <cases> <mismatches> [verbose] | one <KIND> <text>\n");
    return 3;
}
