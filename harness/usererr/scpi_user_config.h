/* user configuration of the verification build 'usererr': the documented user error list (USE_USER_ERROR_LIST),
   with descriptions that contain what a description may contain - a double quote, a semicolon, 60 characters */
#ifndef VERIF_SCPI_USER_CONFIG_H
#define VERIF_SCPI_USER_CONFIG_H
#define USE_USER_ERROR_LIST 1
#define LIST_OF_USER_ERRORS \
    X(SCPI_ERROR_USER_RELAY, 310, "Relay \"K1\" stuck") \
    X(SCPI_ERROR_USER_FAN, 311, "Fan stalled; check filter") \
    X(SCPI_ERROR_USER_QUOTES, 312, "\"\"") \
    X(SCPI_ERROR_USER_LONG, -1310, "A user description of sixty characters, no more and no less.")
#endif
