/*
 * drv_errq - error queue histories on the real library (C10) and error-query responses (C18).
 * Link with -Wl,--wrap=strndup,--wrap=free : allocation ids are logged and a strndup can be made to fail.
 *
 *   explore <cap> <maxstates> <out>    every abstract state (queue content + ring indices) reachable over the
 *                                      alphabet, found breadth-first; each state is re-created by replaying its
 *                                      operation path on a fresh context (malloc'd texts cannot be snapshotted)
 *   walk <seed> <steps> <cap> <out>    random history with injected allocation failures
 *   resp <seed> <tier> <out>           SYST:ERR? responses for (code, text) cases around the 255 limit
 */
#include <stdio.h>
#include <stdlib.h>
#include <string.h>
#include <stdint.h>
#include "scpi/scpi.h"
#include "utils_private.h"

#define MAXCAP 16
static scpi_t ctx;
static char ibuf[64];
static scpi_error_t eq[MAXCAP];
static int cap = 1;
#if USE_DEVICE_DEPENDENT_ERROR_INFORMATION && !USE_MEMORY_ALLOCATION_FREE
static char heapbuf[2048];
#endif

/* ---- allocation tracking ---- */
#define MAXLIVE 64
static void * liveptr[MAXLIVE];
static int liveid[MAXLIVE];
static int nlive, nextid = 1;
static int allocs[16], nallocs, frees[32], nfrees;
static int fail_next, alloc_attempts, alloc_failed;
static int tracking;

char * __real_strndup(const char * s, size_t n);
void __real_free(void * p);
char * __wrap_strndup(const char * s, size_t n);
void __wrap_free(void * p);

char * __wrap_strndup(const char * s, size_t n) {
    char * r;
    if (!tracking) return __real_strndup(s, n);
    alloc_attempts++;
    if (fail_next) { fail_next = 0; alloc_failed++; return NULL; }
    r = __real_strndup(s, n);
    if (r && nlive < MAXLIVE) {
        liveptr[nlive] = r; liveid[nlive] = nextid; nlive++;
        if (nallocs < 16) allocs[nallocs++] = nextid;
        nextid++;
    }
    return r;
}
void __wrap_free(void * p) {
    int i;
    if (tracking && p) {
        for (i = 0; i < nlive; i++) if (liveptr[i] == p) {
            if (nfrees < 32) frees[nfrees++] = liveid[i];
            liveptr[i] = liveptr[nlive - 1]; liveid[i] = liveid[nlive - 1]; nlive--;
            break;
        }
    }
    __real_free(p);
}
static int idof(const void * p) {
    int i;
    for (i = 0; i < nlive; i++) if (liveptr[i] == p) return liveid[i];
    return p ? -1 : 0;   /* -1: a text pointer that is not a live allocation (use after free / foreign) */
}

/* ---- callbacks ---- */
static char outb[2048];
static size_t outn;
static size_t on_write(scpi_t * c, const char * d, size_t l) {
    (void) c;
    if (outn + l < sizeof outb) { memcpy(outb + outn, d, l); outn += l; }
    return getenv("DRV_WRITE_ZERO") ? 0 : l;       /* a transport that reports nothing written: the queue must not care */
}
static int on_error(scpi_t * c, int_fast16_t e) { (void) c; (void) e; return 0; }
static scpi_result_t on_flush(scpi_t * c) { (void) c; return SCPI_RES_OK; }
static const scpi_command_t cmds[] = {
    {"SYSTem:ERRor[:NEXT]?", SCPI_SystemErrorNextQ, 0}, {"SYSTem:ERRor:COUNt?", SCPI_SystemErrorCountQ, 0},
    {"*CLS", SCPI_CoreCls, 0},
    SCPI_CMD_LIST_END
};
static scpi_interface_t itf = {on_error, on_write, NULL, on_flush, NULL};

static void release_all(void) {
    /* end of an execution: drop whatever the queue still owns */
    SCPI_ErrorClear(&ctx);
}
static void fresh(void) {
    memset(eq, 0, sizeof eq);
    SCPI_Init(&ctx, cmds, &itf, scpi_units_def, "MF", "MD", NULL, "1", ibuf, sizeof ibuf, eq, (int16_t) cap);
#if USE_DEVICE_DEPENDENT_ERROR_INFORMATION && !USE_MEMORY_ALLOCATION_FREE
    SCPI_InitHeap(&ctx, heapbuf, sizeof heapbuf);
#endif
    tracking = 1;
}

static void print_bytes(FILE * f, const char * s, size_t n) {
    size_t i;
    fputc('[', f);
    for (i = 0; i < n; i++) fprintf(f, "%s%d", i ? "," : "", (unsigned char) s[i]);
    fputc(']', f);
}

static void print_state(FILE * f) {
    int i, n = ctx.error_queue.count, rd = ctx.error_queue.rd;
    fprintf(f, "{\"q\":[");
    for (i = 0; i < n; i++) {
        scpi_error_t * e = &eq[(rd + i) % ctx.error_queue.size];
        fprintf(f, "%s[%d,", i ? "," : "", (int) e->error_code);
#if USE_DEVICE_DEPENDENT_ERROR_INFORMATION
        if (e->device_dependent_info) {
            fprintf(f, "1,");
            print_bytes(f, e->device_dependent_info, strlen(e->device_dependent_info));
            fprintf(f, ",%d]", idof(e->device_dependent_info));
        } else
#endif
            fprintf(f, "0,[],0]");
    }
    fprintf(f, "],\"live\":[");
    for (i = 0; i < nlive; i++) fprintf(f, "%s%d", i ? "," : "", liveid[i]);
    fprintf(f, "]}");
}
static char * state_str(void) {
    static char buf[65536];
    FILE * m = fmemopen(buf, sizeof buf, "w");
    print_state(m);
    fclose(m);
    return buf;
}

typedef struct { char kind; int code; int hasinfo; char text[400]; int tlen; int fail; } op_t;
/* kinds: P push, O pop(+release), S SYST:ERR?, C clear, N count, L *CLS */

static int res_code, res_has, res_cnt;
static char res_text[600];
static size_t res_tlen;

static void apply(const op_t * o) {
    nallocs = nfrees = 0; outn = 0; res_code = 0; res_has = 0; res_tlen = 0; res_cnt = -1;
    alloc_attempts = alloc_failed = 0;
    switch (o->kind) {
        case 'P':
            fail_next = o->fail;
            if (o->hasinfo && o->tlen > 30) {
                /* a long counted text (more than the 255 characters a response shows): stored and given back whole */
                char * t = malloc((size_t) o->tlen);
                memcpy(t, o->text, (size_t) o->tlen);
                SCPI_ErrorPushEx(&ctx, (int16_t) o->code, t, (size_t) o->tlen);
                __real_free(t);
            } else if (o->hasinfo) {
                char tmp[32];
                memcpy(tmp, o->text, o->tlen); tmp[o->tlen] = 0;
                SCPI_ErrorPushEx(&ctx, (int16_t) o->code, tmp, 0);
            } else SCPI_ErrorPush(&ctx, (int16_t) o->code);
            fail_next = 0;
            break;
        case 'O': {
            scpi_error_t e;
            SCPI_ErrorPop(&ctx, &e);
            res_code = e.error_code;
#if USE_DEVICE_DEPENDENT_ERROR_INFORMATION
            if (e.device_dependent_info) {
                res_has = 1; res_tlen = strlen(e.device_dependent_info);
                memcpy(res_text, e.device_dependent_info, res_tlen);
#if USE_MEMORY_ALLOCATION_FREE
                free(e.device_dependent_info);      /* the caller owns what it popped */
#endif
            }
#endif
            break;
        }
        case 'S': SCPI_Input(&ctx, "SYST:ERR?\n", 10); break;
        case 'C': SCPI_ErrorClear(&ctx); break;
        case 'L': SCPI_Input(&ctx, "*CLS\n", 5); break;
        case 'N': res_cnt = SCPI_ErrorCount(&ctx); break;
        case 'B':       /* the application rewrites the status byte without the error-available bit, then counts: the queue is not the status byte */
            SCPI_RegClearBits(&ctx, SCPI_REG_STB, 4);
            res_cnt = SCPI_ErrorCount(&ctx);
            break;
    }
}

static void print_op(FILE * f, const op_t * o) {
    switch (o->kind) {
        case 'P': fprintf(f, "[\"push\",%d,%d,", o->code, o->hasinfo); print_bytes(f, o->text, o->tlen); fprintf(f, ",%d]", o->fail); break;
        case 'O': fprintf(f, "[\"pop\"]"); break;
        case 'S': fprintf(f, "[\"syst\"]"); break;
        case 'C': fprintf(f, "[\"clear\"]"); break;
        case 'L': fprintf(f, "[\"cls\"]"); break;
        case 'N': case 'B': fprintf(f, "[\"count\"]"); break;
    }
}

static int infobuild(void) {
#if USE_DEVICE_DEPENDENT_ERROR_INFORMATION
    return 1;
#else
    return 0;
#endif
}

static void record(FILE * f, const char * from, const op_t * o) {
    int i;
    fprintf(f, "{\"cap\":%d,\"info\":%d,\"f\":%s,\"op\":", cap, infobuild(), from);
    print_op(f, o);
    fprintf(f, ",\"allocs\":[");
    for (i = 0; i < nallocs; i++) fprintf(f, "%s%d", i ? "," : "", allocs[i]);
    fprintf(f, "],\"frees\":[");
    for (i = 0; i < nfrees; i++) fprintf(f, "%s%d", i ? "," : "", frees[i]);
    fprintf(f, "],\"att\":%d,\"t\":", alloc_attempts);
    print_state(f);
    fprintf(f, ",\"res\":[%d,%d,", res_code, res_has);
    print_bytes(f, res_text, res_tlen);
    fprintf(f, "],\"cnt\":%d,\"out\":", res_cnt);
    print_bytes(f, outb, outn);
    fprintf(f, "}\n");
}

/* ---- alphabet for exploration ---- */
static op_t alpha[64];
static int nalpha;
static void mkalpha(void) {
    static const int codes[] = {-100, 5};
    static const char * texts[] = {"a", "b\"", ""};
    int c, t;
    for (c = 0; c < 2; c++) {
        op_t o; memset(&o, 0, sizeof o); o.kind = 'P'; o.code = codes[c]; alpha[nalpha++] = o;
        for (t = 0; t < 3; t++) {
            int fl;
            for (fl = 0; fl < 2; fl++) {
                memset(&o, 0, sizeof o); o.kind = 'P'; o.code = codes[c]; o.hasinfo = 1;
                o.tlen = (int) strlen(texts[t]); memcpy(o.text, texts[t], o.tlen); o.fail = fl;
                if (c == 1 && t == 2) continue;   /* keep the alphabet small */
                alpha[nalpha++] = o;
            }
        }
    }
    { const char * k = "OSCNL"; for (; *k; k++) { op_t o; memset(&o, 0, sizeof o); o.kind = *k; alpha[nalpha++] = o; } }
}

typedef struct { char key[256]; int parent; int op; } node_t;
static node_t * nodes;
static long nnodes;
#define HSZ (1u << 20)
static int htab[HSZ];

static void mkkey(char * k, size_t n) {
    /* abstract state incl. ring indices; allocation ids are normalised away */
    int i, c = ctx.error_queue.count, rd = ctx.error_queue.rd;
    size_t p = 0;
    p += snprintf(k + p, n - p, "%d/%d/%d:", (int) ctx.error_queue.wr, rd, c);
    for (i = 0; i < c; i++) {
        scpi_error_t * e = &eq[(rd + i) % ctx.error_queue.size];
        p += snprintf(k + p, n - p, "%d", (int) e->error_code);
#if USE_DEVICE_DEPENDENT_ERROR_INFORMATION
        if (e->device_dependent_info) p += snprintf(k + p, n - p, "'%s'", e->device_dependent_info);
#endif
        p += snprintf(k + p, n - p, ",");
    }
}

static void replay_to(long node) {
    int path[64], n = 0, i;
    long x = node;
    while (nodes[x].parent >= 0) { path[n++] = nodes[x].op; x = nodes[x].parent; }
    release_all();
    fresh();
    for (i = n - 1; i >= 0; i--) apply(&alpha[path[i]]);
}

static int explore(long maxstates, const char * outpath) {
    FILE * f = fopen(outpath, "w");
    long head = 0, ntrans = 0;
    int complete = 1;
    mkalpha();
    nodes = calloc(maxstates + 1, sizeof(node_t));
    fresh();
    memset(htab, -1, sizeof htab);
    mkkey(nodes[0].key, sizeof nodes[0].key); nodes[0].parent = -1; nnodes = 1;
    { unsigned h = 2166136261u; const char * p; for (p = nodes[0].key; *p; p++) { h ^= (unsigned char) *p; h *= 16777619u; } htab[h % HSZ] = 0; }
    while (head < nnodes) {
        int i;
        for (i = 0; i < nalpha; i++) {
            static char from[65536]; char key[256];
            long j;
            replay_to(head);
            strcpy(from, state_str());
            apply(&alpha[i]);
            record(f, from, &alpha[i]);
            ntrans++;
            mkkey(key, sizeof key);
            {
                unsigned h = 2166136261u;
                const char * p;
                for (p = key; *p; p++) { h ^= (unsigned char) *p; h *= 16777619u; }
                h %= HSZ;
                while (htab[h] >= 0 && strcmp(nodes[htab[h]].key, key)) h = (h + 1) % HSZ;
                j = htab[h] >= 0 ? htab[h] : nnodes;
                if (j == nnodes) {
                    if (nnodes >= maxstates) { complete = 0; continue; }
                    htab[h] = (int) nnodes;
                    strcpy(nodes[nnodes].key, key); nodes[nnodes].parent = (int) head; nodes[nnodes].op = i; nnodes++;
                }
            }
        }
        head++;
    }
    release_all();
    fclose(f);
    printf("{\"abstract_states\":%ld,\"transitions\":%ld,\"complete\":%s,\"leaked\":%d}\n", nnodes, ntrans, complete ? "true" : "false", nlive);
    return 0;
}

static uint64_t rng;
static unsigned rnd(void) { rng ^= rng << 13; rng ^= rng >> 7; rng ^= rng << 17; return (unsigned) (rng >> 11); }

static int walk(unsigned long seedv, long steps, const char * outpath) {
    FILE * f = fopen(outpath, "w");
    long i;
    static const int codes[] = {-100, -113, -200, -222, -350, -410, 1, 100, 32767, -32768, 0, -800};
    rng = 0x9E3779B97F4A7C15ull ^ (seedv * 0x100000001B3ull);
    fresh();
    for (i = 0; i < steps; i++) {
        op_t o;
        static char from[65536];
        unsigned r = rnd() % 100;
        memset(&o, 0, sizeof o);
        strcpy(from, state_str());
        if (r < 55) {
            o.kind = 'P'; o.code = codes[rnd() % 12];
            if (rnd() % 3) {
                int k;
                o.hasinfo = 1; o.tlen = rnd() % 13;
                for (k = 0; k < o.tlen; k++) o.text[k] = "ab\"; ,x"[rnd() % 7];
                o.fail = (rnd() % 5 == 0);
                if (rnd() % 40 == 0) {
                    o.tlen = 250 + (int) (rnd() % 130);
                    for (k = 0; k < o.tlen; k++) o.text[k] = (char) ('a' + (k % 26));
                    if (rnd() & 1) o.text[rnd() % o.tlen] = '"';
                }
            }
        } else if (r < 70) o.kind = 'O';
        else if (r < 88) o.kind = 'S';
        else if (r < 91) o.kind = 'C';
        else if (r < 93) o.kind = 'L';
        else o.kind = (rnd() % 2) ? 'N' : 'B';
        apply(&o);
        record(f, from, &o);
    }
    release_all();
    fclose(f);
    printf("{\"steps\":%ld,\"leaked\":%d}\n", steps, nlive);
    return 0;
}

/* ---- C18: responses ---- */
static void resp_case(FILE * f, int code, int hasinfo, const char * text, size_t tlen) {
    fresh();
    if (hasinfo) {
        /* a counted text in a buffer of exactly its length (one byte for the empty text, whose length 0 means "up to the NUL") */
        char * tmp = malloc(tlen ? tlen : 1);
        if (tlen) memcpy(tmp, text, tlen); else tmp[0] = 0;
        SCPI_ErrorPushEx(&ctx, (int16_t) code, tmp, tlen);
        __real_free(tmp);
    } else SCPI_ErrorPush(&ctx, (int16_t) code);
    outn = 0;
    SCPI_Input(&ctx, "SYST:ERR?\n", 10);
    fprintf(f, "{\"code\":%d,\"has\":%d,\"text\":", code, hasinfo);
    print_bytes(f, text, tlen);
    fprintf(f, ",\"info\":%d,\"cnt\":%d,\"out\":", infobuild(), (int) SCPI_ErrorCount(&ctx));
    print_bytes(f, outb, outn);
    fprintf(f, "}\n");
    release_all();
}

#if USE_DEVICE_DEPENDENT_ERROR_INFORMATION && !USE_MEMORY_ALLOCATION_FREE
/* static heap: the text and its terminator fill the heap exactly to its last byte; the source is not NUL-terminated there */
static void resp_case_exact(FILE * f, int code, const char * text, size_t tlen) {
    char * tmp = malloc(tlen);                 /* a counted text: exactly tlen bytes, nothing behind them may be read */
    fresh();
    SCPI_InitHeap(&ctx, heapbuf, tlen + 1);
    memcpy(tmp, text, tlen);
    SCPI_ErrorPushEx(&ctx, (int16_t) code, tmp, tlen);
    __real_free(tmp);
    outn = 0;
    SCPI_Input(&ctx, "SYST:ERR?\n", 10);
    fprintf(f, "{\"code\":%d,\"has\":1,\"text\":", code);
    print_bytes(f, text, tlen);
    fprintf(f, ",\"info\":%d,\"cnt\":%d,\"out\":", infobuild(), (int) SCPI_ErrorCount(&ctx));
    print_bytes(f, outb, outn);
    fprintf(f, "}\n");
    release_all();
}
static long nwrapped;
/* static heap: the text is stored in two pieces (it wraps the heap end because an older entry is still alive in front
   of it), so the response is composed of three parts; first = number of text characters in the first piece */
static void resp_case_wrapped(FILE * f, int code, const char * text, size_t tlen, size_t first) {
    static char pad[2048];
    size_t hs = tlen + 24, a = hs - first - 5;        /* layout: A (a chars + NUL), "bbb" + NUL, then the text */
    char * tmp = malloc(tlen);
    int savecap = cap;
    if (first >= tlen || first + 5 >= hs || hs > sizeof heapbuf) { __real_free(tmp); return; }
    cap = 4;
    fresh();
    cap = savecap;
    SCPI_InitHeap(&ctx, heapbuf, hs);
    memset(pad, 'p', sizeof pad);
    SCPI_ErrorPushEx(&ctx, -100, pad, a);
    SCPI_ErrorPushEx(&ctx, -101, pad, 3);
    outn = 0; SCPI_Input(&ctx, "SYST:ERR?\n", 10);    /* A leaves: its room at the start of the heap is free again */
    memcpy(tmp, text, tlen);
    SCPI_ErrorPushEx(&ctx, (int16_t) code, tmp, tlen);
    __real_free(tmp);
    {
        size_t l1 = 0, l2 = 0;
        const char * s2 = NULL;
        char * info = eq[(ctx.error_queue.wr + ctx.error_queue.size - 1) % ctx.error_queue.size].device_dependent_info;
        if (info && scpiheap_get_parts(&ctx.error_info_heap, info, &l1, &s2, &l2) && s2 && l1 == first && l1 + l2 == tlen) nwrapped++;
    }
    outn = 0; SCPI_Input(&ctx, "SYST:ERR?\n", 10);
    outn = 0; SCPI_Input(&ctx, "SYST:ERR?\n", 10);
    fprintf(f, "{\"code\":%d,\"has\":1,\"text\":", code);
    print_bytes(f, text, tlen);
    fprintf(f, ",\"info\":%d,\"cnt\":%d,\"out\":", infobuild(), (int) SCPI_ErrorCount(&ctx));
    print_bytes(f, outb, outn);
    fprintf(f, "}\n");
    release_all();
}
#endif

static int resp(unsigned long seedv, const char * tier, const char * outpath) {
    FILE * f = fopen(outpath, "w");
    static const int codes[] = {-113, 0, -100, -350, -363, -200, 1, 12345, -1, -32768, 32767, -321, -440};
    static char text[600];
    int thorough = !strcmp(tier, "thorough");
    long n = 0;
    size_t len;
    int c, q;
    rng = 0x9E3779B97F4A7C15ull ^ (seedv * 0x100000001B3ull);
    for (c = 0; c < 13; c++) { resp_case(f, codes[c], 0, "", 0); n++; }
    /* every code around the description table, with and without a short text */
    for (c = -900; c <= 40; c++) { resp_case(f, c, 0, "", 0); resp_case(f, c, 1, "t\"x", 3); n += 2; }
#if USE_DEVICE_DEPENDENT_ERROR_INFORMATION && !USE_MEMORY_ALLOCATION_FREE
    for (len = 1; len <= 40; len++) { memset(text, 'a' + (len % 20), len); if (len > 3) text[2] = '"'; resp_case_exact(f, -113, text, len); n++; }
#endif
    /* texts much longer than the limit, with their length given explicitly (and a quote near the cut) */
    {
        static const size_t longs[] = {255, 256, 257, 300, 400, 511, 512, 513, 590};
        for (c = 0; c < 2; c++) for (q = 0; q < 9; q++) {
            memset(text, 'k' + c, longs[q]);
            resp_case(f, codes[c], 1, text, longs[q]); n++;
            text[230] = '"';
            resp_case(f, codes[c], 1, text, longs[q]); n++;
        }
    }
#if USE_DEVICE_DEPENDENT_ERROR_INFORMATION && !USE_MEMORY_ALLOCATION_FREE
    /* texts stored in two pieces, the cut of the response falling before, at and behind the seam, quotes around both */
    for (c = 0; c < (thorough ? 6 : 2); c++) {
        size_t dl = strlen(SCPI_ErrorTranslate((int16_t) codes[c])), cut = 255 - dl - 1, first;
        for (len = 20; len <= 420; len += (len < 230 || len > 300) ? (thorough ? 17 : 50) : (thorough ? 3 : 13)) {
            for (first = 1; first < len; first += (first + 12 > cut && first < cut + 12) ? 1 : (thorough ? 19 : 61)) {
                for (q = 0; q < (thorough ? 4 : 2); q++) {
                    int k, nq = q == 0 ? 0 : 1 + rnd() % 3;
                    memset(text, 'a' + (q % 20), len);
                    for (k = 0; k < nq; k++) {
                        long pos = (rnd() % 3 == 0) ? (long) (rnd() % len) : (rnd() % 2) ? (long) first - 2 + (long) (rnd() % 4) : (long) cut - 4 + (long) (rnd() % 6);
                        if (pos >= 0 && (size_t) pos < len) text[pos] = '"';
                    }
                    resp_case_wrapped(f, codes[c], text, len, first); n++;
                }
            }
        }
    }
#endif
#if USE_USER_ERROR_LIST
    /* the user error list of this build: descriptions with a double quote, a semicolon, only quotes, sixty characters */
    {
        static const int ucodes[] = {310, 311, 312, -1310, 313};      /* 313 is not in the list */
        for (c = 0; c < 5; c++) {
            size_t dl = strlen(SCPI_ErrorTranslate((int16_t) ucodes[c]));
            resp_case(f, ucodes[c], 0, "", 0); n++;
            resp_case(f, ucodes[c], 1, "slot \"3\"", 8); n++;
            for (len = 255 - dl - 12; len <= 255 - dl + 4; len++) {
                memset(text, 'u', len);
                resp_case(f, ucodes[c], 1, text, len); n++;
                text[len - 2] = '"';
                resp_case(f, ucodes[c], 1, text, len); n++;
            }
        }
    }
#endif
    /* every length around the boundary, quotes at every position relative to it */
    for (c = 0; c < (thorough ? 13 : 4); c++) {
        size_t dl = strlen(SCPI_ErrorTranslate((int16_t) codes[c]));
        size_t lo = thorough ? 0 : 255 - dl - 8, hi = thorough ? 400 : 255 - dl + 6;
        for (len = 0; len <= (thorough ? 400 : 20); len++) {
            memset(text, 'x', len);
            resp_case(f, codes[c], 1, text, len); n++;
        }
        for (len = lo; len <= hi; len++) {
            for (q = 0; q < (thorough ? 24 : 10); q++) {
                size_t k;
                int nq = 1 + rnd() % 3;
                if (len == 0) break;
                memset(text, 'a' + (q % 20), len);
                /* quotes placed near the cut position (255 - description - ';') or anywhere */
                for (k = 0; k < (size_t) nq; k++) {
                    long pos = (rnd() % 2) ? (long) (255 - dl - 1) - (long) (rnd() % 6) + (long) (rnd() % 3) : (long) (rnd() % len);
                    if (pos >= 0 && (size_t) pos < len) text[pos] = '"';
                }
                resp_case(f, codes[c], 1, text, len); n++;
            }
        }
    }
    fclose(f);
#if USE_DEVICE_DEPENDENT_ERROR_INFORMATION && !USE_MEMORY_ALLOCATION_FREE
    printf("{\"cases\":%ld,\"stored_in_two_pieces\":%ld}\n", n, nwrapped);
#else
    printf("{\"cases\":%ld}\n", n);
#endif
    return 0;
}

int main(int argc, char ** argv) {
    if (argc >= 5 && !strcmp(argv[1], "explore")) { cap = atoi(argv[2]); return explore(atol(argv[3]), argv[4]); }
    if (argc >= 6 && !strcmp(argv[1], "walk")) { cap = atoi(argv[4]); return walk(strtoul(argv[2], 0, 10), atol(argv[3]), argv[5]); }
    if (argc >= 5 && !strcmp(argv[1], "resp")) { cap = 2; return resp(strtoul(argv[2], 0, 10), argv[3], argv[4]); }
    fprintf(stderr, "usage\n");
    return 3;
}
