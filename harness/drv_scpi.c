/*
 * drv_scpi - "a minimal instrument" on the real library: the complete command table of ieee488.c / minimal.c,
 * random program messages of 1..3 units (every command in several spellings, setters with good / missing / wrong /
 * surplus parameters, relative headers, undefined headers), with random direct register / queue operations between
 * messages so that many status states are visited.  One ndjson record per message for TVScpi.tla.
 * Build in the noinfo configuration (error texts are C18's subject).
 *   drv_scpi <seed> <messages> <cap> <out>
 */
#include <stdio.h>
#include <stdlib.h>
#include <string.h>
#include <stdint.h>
#include "scpi/scpi.h"

static scpi_t ctx;
static char ibuf[256];
static scpi_error_t eq[8];
static int cap;
static unsigned char wbuf[1024]; static size_t wlen;
static int errv[64], nerr, srqv[32], nsrq;

static size_t on_write(scpi_t * c, const char * d, size_t l) { (void) c; if (wlen + l <= sizeof wbuf) { memcpy(wbuf + wlen, d, l); wlen += l; } return l; }
static int on_error(scpi_t * c, int_fast16_t e) { (void) c; if (e && nerr < 64) errv[nerr++] = (int) e; return 0; }
static scpi_result_t on_flush(scpi_t * c) { (void) c; return SCPI_RES_OK; }
static scpi_result_t on_control(scpi_t * c, scpi_ctrl_name_t n, scpi_reg_val_t v) { (void) c; if (n == SCPI_CTRL_SRQ && nsrq < 32) srqv[nsrq++] = v; return SCPI_RES_OK; }
static scpi_result_t on_reset(scpi_t * c) { (void) c; return SCPI_RES_OK; }
static const scpi_command_t cmds[] = {
#include "libtable.inc"
    SCPI_CMD_LIST_END
};
static scpi_interface_t itf = {on_error, on_write, on_control, on_flush, on_reset};

static const char * units[] = {
    "*CLS", "*cls", "*ESE 32", "*ESE 0", "*ese 60", "*ESE 255", "*ESE", "*ESE A", "*ESE 1,2", "*ESE 1 V", "*ESE?", "*ESR?", "*esr?", "*ESR? 1",
    "*IDN?", "*OPC", "*OPC?", "*RST", "*SRE 32", "*SRE 36", "*SRE 0", "*SRE 255", "*SRE 4", "*SRE", "*SRE?", "*STB?", "*TST?", "*WAI",
    "SYST:ERR?", "SYSTem:ERRor:NEXT?", "syst:err:next?", ":SYST:ERR?", "SYST:ERR:COUN?", "SYST:VERS?",
    "STAT:QUES?", "STATus:QUEStionable:EVENt?", "STAT:QUES:COND?", "STAT:QUES:ENAB 513", "STAT:QUES:ENAB 0", "STAT:QUES:ENAB", "STAT:QUES:ENAB?",
    "STAT:OPER?", "STAT:OPER:EVEN?", "STAT:OPER:COND?", "STAT:OPER:ENAB 8", "STAT:OPER:ENAB 65535", "STAT:OPER:ENAB \"x\"", "STAT:OPER:ENAB?", "STAT:PRES",
    "COND?", "ENAB 1", "ENAB?", "EVEN?", "COUN?", "NEXT?", "FOO", "STAT:FOO?", "*FOO", "STAT:QUES:ENAB 1,", "*ESE 7 ,8", "STAT:PRES 1", ""
};
#define NUNITS (sizeof units / sizeof units[0])

static uint64_t rng;
static unsigned rnd(void) { rng ^= rng << 13; rng ^= rng >> 7; rng ^= rng << 17; return (unsigned) (rng >> 11); }

static void pstate(FILE * f) {
    int i, n = ctx.error_queue.count, rd = ctx.error_queue.rd;
    fprintf(f, "{\"r\":[");
    for (i = 0; i < 10; i++) fprintf(f, "%s%d", i ? "," : "", (int) ctx.registers[i]);
    fprintf(f, "],\"q\":[");
    for (i = 0; i < n; i++) fprintf(f, "%s%d", i ? "," : "", (int) eq[(rd + i) % ctx.error_queue.size].error_code);
    fprintf(f, "]}");
}
static void pb(FILE * f, const void * p, size_t n) { size_t i; fputc('[', f); for (i = 0; i < n; i++) fprintf(f, "%s%d", i ? "," : "", ((const unsigned char *) p)[i]); fputc(']', f); }
static void pi(FILE * f, const int * p, int n) { int i; fputc('[', f); for (i = 0; i < n; i++) fprintf(f, "%s%d", i ? "," : "", p[i]); fputc(']', f); }

int main(int argc, char ** argv) {
    long nmsg, m;
    FILE * f;
    if (argc < 5) return 3;
    rng = 0x9E3779B97F4A7C15ull ^ (strtoull(argv[1], 0, 10) * 0x100000001B3ull);
    nmsg = atol(argv[2]); cap = atoi(argv[3]);
    f = fopen(argv[4], "w");
    SCPI_Init(&ctx, cmds, &itf, scpi_units_def, "MF", "MD", NULL, "1", ibuf, sizeof ibuf, eq, (int16_t) cap);
    for (m = 0; m < nmsg; m++) {
        char msg[200];
        size_t n = 0;
        int k, nu = 1 + rnd() % 3, r;
        /* perturb the state through the API between messages */
        for (k = rnd() % 3; k > 0; k--) {
            unsigned w = rnd() % 6;
            scpi_reg_val_t v = (scpi_reg_val_t) ((rnd() % 3 == 0) ? 0 : (1u << (rnd() % 16)) | ((rnd() & 1) ? 8 : 0));
            if (w == 0) SCPI_RegSet(&ctx, SCPI_REG_QUESC, v);
            else if (w == 1) SCPI_RegSet(&ctx, SCPI_REG_OPERC, v);
            else if (w == 2) SCPI_RegSetBits(&ctx, SCPI_REG_OPER, v);
            else if (w == 3) SCPI_RegSetBits(&ctx, SCPI_REG_QUES, v);
            else if (w == 4) SCPI_ErrorPush(&ctx, (int16_t) (rnd() & 1 ? -222 : 5));
            else if (rnd() % 4 == 0) { SCPI_Init(&ctx, cmds, &itf, scpi_units_def, "MF", "MD", NULL, "1", ibuf, sizeof ibuf, eq, (int16_t) cap); }
        }
        for (k = 0; k < nu; k++) {
            const char * u = units[rnd() % NUNITS];
            if (k) msg[n++] = ';';
            memcpy(msg + n, u, strlen(u)); n += strlen(u);
        }
        msg[n++] = (rnd() & 1) ? '\n' : '\r';
        if (msg[n - 1] == '\r') msg[n++] = '\n';
        fprintf(f, "{\"cap\":%d,\"f\":", cap); pstate(f);
        fprintf(f, ",\"msg\":"); pb(f, msg, n);
        wlen = 0; nerr = 0; nsrq = 0;
        r = SCPI_Input(&ctx, msg, (int) n);
        fprintf(f, ",\"t\":"); pstate(f);
        fprintf(f, ",\"out\":"); pb(f, wbuf, wlen);
        fprintf(f, ",\"errs\":"); pi(f, errv, nerr);
        fprintf(f, ",\"srq\":"); pi(f, srqv, nsrq);
        fprintf(f, ",\"ret\":%d}\n", r ? 1 : 0);
    }
    fclose(f);
    return 0;
}
