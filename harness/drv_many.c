/*
 * drv_many - C06 beyond the sizes a byte-for-byte comparison is practical for: response units with tens of
 * thousands of result items.  Each item is the single digit 7, so the separators can be counted in the output:
 * one ndjson line per message {"units":[items per unit...],"commas":..,"semis":..,"cr":..,"lf":..,"flush":..,"len":..,"digits":..}
 * for TVMany.tla (the counting view of the framing rule).
 *
 *   drv_many <out>
 */
#include <stdio.h>
#include <stdlib.h>
#include <string.h>
#include <stdint.h>
#include "scpi/scpi.h"

static scpi_t ctx;
static char ibuf[256];
static scpi_error_t eq[4];
static long commas, semis, crs, lfs, digits, other, total, flushes;
static long want[4];
static int nwant, cur;
static uint8_t * sevens;

static size_t on_write(scpi_t * c, const char * d, size_t l) {
    size_t i;
    (void) c;
    for (i = 0; i < l; i++) {
        if (d[i] == ',') commas++; else if (d[i] == ';') semis++; else if (d[i] == '\r') crs++; else if (d[i] == '\n') lfs++;
        else if (d[i] == '7') digits++; else other++;
    }
    total += (long) l;
    return l;
}
static scpi_result_t on_flush(scpi_t * c) { (void) c; flushes++; return SCPI_RES_OK; }
static int on_error(scpi_t * c, int_fast16_t e) { (void) c; (void) e; return 0; }
static scpi_result_t on_control(scpi_t * c, scpi_ctrl_name_t n, scpi_reg_val_t v) { (void) c; (void) n; (void) v; return SCPI_RES_OK; }

/* U? answers the next number of items of the plan: as one ASCII array, or item by item (every other unit) */
static scpi_result_t on_U(scpi_t * c) {
    long n = want[cur], i;
    if (cur % 2 == 0) SCPI_ResultArrayUInt8(c, sevens, (size_t) n, SCPI_FORMAT_ASCII);
    else for (i = 0; i < n; i++) SCPI_ResultInt32(c, 7);
    cur++;
    return SCPI_RES_OK;
}
static const scpi_command_t cmds[] = { {"U?", on_U, 0}, SCPI_CMD_LIST_END };
static scpi_interface_t itf = {on_error, on_write, on_control, on_flush, NULL};

int main(int argc, char ** argv) {
    static const long sizes[] = {1, 2, 255, 256, 257, 32766, 32767, 32768, 32769, 40000, 65535, 65536, 65537, 70000};
    FILE * f;
    size_t a, b;
    long lines = 0;
    if (argc < 2) return 3;
    f = fopen(argv[1], "w");
    sevens = malloc(70000);
    memset(sevens, 7, 70000);
    for (a = 0; a < sizeof sizes / sizeof sizes[0]; a++) {
        for (b = 0; b < 4; b++) {
            /* shapes: U? | U?;U? (large, 1) | U?;U? (1, large) | U?;U?;U? (large, 3, large) */
            const char * msg = b == 0 ? "U?\n" : b == 3 ? "U?;U?;U?\n" : "U?;U?\n";
            int k;
            nwant = b == 0 ? 1 : b == 3 ? 3 : 2;
            if (b == 0) want[0] = sizes[a];
            else if (b == 1) { want[0] = sizes[a]; want[1] = 1; }
            else if (b == 2) { want[0] = 1; want[1] = sizes[a]; }
            else { want[0] = sizes[a]; want[1] = 3; want[2] = sizes[a]; }
            cur = 0; commas = semis = crs = lfs = digits = other = total = flushes = 0;
            SCPI_Init(&ctx, cmds, &itf, scpi_units_def, "MF", "MD", NULL, "1", ibuf, sizeof ibuf, eq, 4);
            SCPI_Input(&ctx, msg, (int) strlen(msg));
            fprintf(f, "{\"units\":[");
            for (k = 0; k < nwant; k++) fprintf(f, "%s%ld", k ? "," : "", want[k]);
            fprintf(f, "],\"commas\":%ld,\"semis\":%ld,\"cr\":%ld,\"lf\":%ld,\"digits\":%ld,\"other\":%ld,\"len\":%ld,\"flush\":%ld,\"errs\":%d}\n",
                    commas, semis, crs, lfs, digits, other, total, flushes, (int) SCPI_ErrorCount(&ctx));
            lines++;
        }
    }
    fclose(f);
    free(sevens);
    printf("{\"messages\":%ld}\n", lines);
    return 0;
}
