/*
 * drv_match - C03: executes (pattern, header) cases on the real matcher and compares with
 * the verdicts and numeric-suffix vectors the specification (ScpiMatch.tla, via GenMatch) demands.
 *
 *   replay <cases>          cases file (written by run/p_C03.py from TLC's output):
 *                               P <pattern> <number of numeric keywords>
 *                               H <header> <0|1> [<n1> .. <nk>]       (MARK = caller's default)
 *                           every pair is run through
 *                             matchCommand(p, h, len, NULL, 0, 0)                      "match"
 *                             matchCommand(p, h, len, numbers, k, d)  d = -1, 1        "match+numbers"
 *                             matchCommand(p, h, len, numbers, k-1, d)                 "match+short-array"
 *                             SCPI_Match(p, h, len)                                    "SCPI_Match"
 *                             SCPI_IsCmd / SCPI_CommandNumbers on a context whose
 *                               param_list.cmd / cmd_raw are set by hand               "SCPI_IsCmd", "SCPI_CommandNumbers"
 *                             SCPI_Input(ctx, "<h>\n") with the one-pattern table; the
 *                               handler calls SCPI_IsCmd / SCPI_CommandNumbers          "parser", "parser+numbers"
 *                           headers are passed in exact-size heap buffers without NUL and number
 *                           arrays are exact-size heap arrays (ASan sees any access beyond them).
 *                           One ndjson line per mismatch (at most MAXREPORT), then a summary line.
 *   record <seed> <n> <kw> <mn> <out>
 *                           seeded random patterns of 1..kw lexicon keywords against random headers
 *                           of 1..mn mnemonics; records {p, h, r, rn, n} lines for TVMatch.tla.
 */
#include <stdio.h>
#include <stdlib.h>
#include <string.h>
#include <stdint.h>
#include "scpi/scpi.h"
#include "utils_private.h"

#define MARK (-1)                 /* in a cases file: "the caller's default" */
#define CANARY 1515870810         /* 0x5A5A5A5A: slot never written */
#define MAXNUM 8
#define MAXREPORT 200000

static long npairs, ncalls, nmismatch;

static void put_vec(FILE * f, const int32_t * v, int n) {
    int i;
    fprintf(f, "[");
    for (i = 0; i < n; i++) fprintf(f, "%s%ld", i ? "," : "", (long) v[i]);
    fprintf(f, "]");
}

static void mismatch(const char * pat, const char * hdr, const char * api, int d, int alen, int exp, const int32_t * expn, int nn, int got,
        const int32_t * gotn, int gn) {
    nmismatch++;
    if (nmismatch > MAXREPORT) return;
    printf("{\"p\":\"%s\",\"h\":\"%s\",\"api\":\"%s\",\"d\":%d,\"alen\":%d,\"nn\":%d,\"exp\":%d,\"expn\":", pat, hdr, api, d, alen, nn, exp);
    put_vec(stdout, expn, exp ? nn : 0);
    printf(",\"got\":%d,\"gotn\":", got);
    put_vec(stdout, gotn, gn);
    printf("}\n");
}

/* ---- context for the public API ---- */
static scpi_t ctx;
static char ibuf[256];
static scpi_error_t eq[4];
static int handler_runs, handler_iscmd, handler_numres, handler_d, handler_alen;
static int32_t * handler_nums;
static const char * handler_hz;

static int on_error(scpi_t * c, int_fast16_t e) { (void) c; (void) e; return 0; }
static size_t on_write(scpi_t * c, const char * d, size_t l) { (void) c; (void) d; return l; }
static scpi_result_t on_flush(scpi_t * c) { (void) c; return SCPI_RES_OK; }
static scpi_result_t on_control(scpi_t * c, scpi_ctrl_name_t n, scpi_reg_val_t v) { (void) c; (void) n; (void) v; return SCPI_RES_OK; }
static scpi_interface_t itf = {on_error, on_write, on_control, on_flush, NULL};

static scpi_result_t handler(scpi_t * c) {
    handler_runs++;
    handler_iscmd = SCPI_IsCmd(c, handler_hz) ? 1 : 0;
    handler_numres = SCPI_CommandNumbers(c, handler_nums, (size_t) handler_alen, handler_d) ? 1 : 0;
    return SCPI_RES_OK;
}

static scpi_command_t table[2];

static void set_pattern(const char * pat) {
    memset(table, 0, sizeof table);
    table[0].pattern = pat;
    table[0].callback = handler;
    memset(ibuf, 0, sizeof ibuf);
    SCPI_Init(&ctx, table, &itf, scpi_units_def, "MF", "MD", NULL, "1", ibuf, sizeof ibuf, eq, 4);
}

static int32_t * fresh_nums(int alen) {
    int32_t * v = malloc(sizeof(int32_t) * (size_t) alen);
    int i;
    for (i = 0; i < alen; i++) v[i] = CANARY;
    return v;
}

/* expected vector with the caller's default substituted */
static void expected(const int32_t * expn, int nn, int d, int32_t * out) {
    int i;
    for (i = 0; i < nn; i++) out[i] = expn[i] == MARK ? d : expn[i];
}

#define ANYVAL (-2)               /* in a cases file: a suffix too long for the slot, its value is not compared */
static int same_prefix(const int32_t * a, const int32_t * b, int n) {
    int i;
    for (i = 0; i < n; i++) if (a[i] != b[i] && a[i] != ANYVAL) return 0;
    return 1;
}

static void check_numbers(const char * pat, const char * hz, const char * api, int d, int alen, int exp, const int32_t * expn, int nn, int got, const int32_t * gotn) {
    int32_t e[MAXNUM];
    int cmp = alen < nn ? alen : nn;          /* slots the property speaks about and the caller provided */
    expected(expn, nn, d, e);
    ncalls++;
    if ((got != 0) != (exp != 0) || (exp && !same_prefix(e, gotn, cmp)))
        mismatch(pat, hz, api, d, alen, exp, e, nn, got, gotn, cmp);
}

static int is_al(char c) { return (c >= 'A' && c <= 'Z') || (c >= 'a' && c <= 'z'); }
static int is_alnum_(char c) { return is_al(c) || (c >= '0' && c <= '9') || c == '_'; }
/* [*]mnemonic[?]  |  [:]mnemonic(:mnemonic)*[?]   with mnemonic = letter (letter|digit|_)* */
static int valid_header(const char * h) {
    int common = 0;
    if (*h == '*') { common = 1; h++; } else if (*h == ':') h++;
    for (;;) {
        if (!is_al(*h)) return 0;
        while (is_alnum_(*h)) h++;
        if (*h == ':' && !common) { h++; continue; }
        break;
    }
    if (*h == '?') h++;
    return *h == 0;
}

static void run_pair(const char * pat, int nn, const char * hz, int exp, const int32_t * expn) {
    size_t hlen = strlen(hz);
    char * hb = malloc(hlen ? hlen : 1);      /* exact size, no terminator */
    char * hbt = malloc(hlen + 1);            /* header followed by the message terminator, as it lies in the parser's buffer:
                                                 with a number array the library converts the suffix with strtol, which stops
                                                 only at a non-digit */
    static const int defaults[2] = {-1, 1};
    int got, k;
    char * pb = malloc(strlen(pat) + 1);      /* the pattern in a block of exactly its size: a look-ahead behind its NUL is an ASan report */
    int32_t none[1] = {0};
    strcpy(pb, pat);
    memcpy(hb, hz, hlen);
    memcpy(hbt, hz, hlen);
    hbt[hlen] = '\n';
    npairs++;

    got = matchCommand(pb, hb, hlen, NULL, 0, 0) ? 1 : 0;
    ncalls++;
    if (got != exp) mismatch(pat, hz, "match", 0, 0, exp, none, 0, got, none, 0);

    got = SCPI_Match(pb, hb, hlen) ? 1 : 0;
    ncalls++;
    if (got != exp) mismatch(pat, hz, "SCPI_Match", 0, 0, exp, none, 0, got, none, 0);

    {
        /* the length given to SCPI_Match is an upper bound: the header may end earlier, at a NUL (a fixed-size field) */
        char * hp = calloc(hlen + 4, 1);
        memcpy(hp, hz, hlen);
        got = SCPI_Match(pb, hp, hlen + 3) ? 1 : 0;
        ncalls++;
        if (got != exp) mismatch(pat, hz, "SCPI_Match+padded", 0, 0, exp, none, 0, got, none, 0);
        free(hp);
    }

    ctx.param_list.cmd = &table[0];
    ctx.param_list.cmd_raw.data = hb;
    ctx.param_list.cmd_raw.position = 0;
    ctx.param_list.cmd_raw.length = hlen;
    got = SCPI_IsCmd(&ctx, hz) ? 1 : 0;
    ncalls++;
    if (got != exp) mismatch(pat, hz, "SCPI_IsCmd", 0, 0, exp, none, 0, got, none, 0);

    for (k = 0; k < 2; k++) {
        int d = defaults[k];
        int alen = nn + 2;
        int32_t * v = fresh_nums(alen);
        got = matchCommand(pat, hbt, hlen, v, (size_t) alen, d) ? 1 : 0;
        check_numbers(pat, hz, "match+numbers", d, alen, exp, expn, nn, got, v);
        free(v);

        if (nn >= 1) {
            alen = nn - 1;
            v = fresh_nums(alen);
            got = matchCommand(pat, hbt, hlen, v, (size_t) alen, d) ? 1 : 0;
            check_numbers(pat, hz, "match+short-array", d, alen, exp, expn, nn, got, v);
            free(v);
        }

        alen = nn;
        v = fresh_nums(alen);
        ctx.param_list.cmd = &table[0];
        ctx.param_list.cmd_raw.data = hbt;
        ctx.param_list.cmd_raw.position = 0;
        ctx.param_list.cmd_raw.length = hlen;
        got = SCPI_CommandNumbers(&ctx, v, (size_t) alen, d) ? 1 : 0;
        check_numbers(pat, hz, "SCPI_CommandNumbers", d, alen, exp, expn, nn, got, v);
        free(v);
    }
    ctx.param_list.cmd = NULL;
    ctx.param_list.cmd_raw.data = NULL;
    ctx.param_list.cmd_raw.length = 0;

    /* through the parser: the handler runs iff the header is accepted (only for texts that are one
       <PROGRAM HEADER> token of IEEE 488.2; how other texts are tokenised is not this property's subject) */
    if (valid_header(hz)) {
        char line[300];
        int n = snprintf(line, sizeof line, "%s\n", hz);
        int alen = nn + 1;
        int32_t * v = fresh_nums(alen);
        handler_runs = 0; handler_iscmd = -1; handler_numres = -1;
        handler_nums = v; handler_alen = alen; handler_d = 1; handler_hz = hz;
        SCPI_Input(&ctx, line, n);
        ncalls++;
        if ((handler_runs == 1) != (exp != 0) || handler_runs > 1) mismatch(pat, hz, "parser", 0, 0, exp, none, 0, handler_runs, none, 0);
        if (handler_runs == 1) {
            if (handler_iscmd != 1) mismatch(pat, hz, "parser+SCPI_IsCmd", 0, 0, 1, none, 0, handler_iscmd, none, 0);
            if (exp) check_numbers(pat, hz, "parser+numbers", 1, alen, exp, expn, nn, handler_numres, v);
        }
        SCPI_ErrorClear(&ctx);
        free(v);
    }
    free(hb); free(pb);
    free(hbt);
}

static int replay(const char * path) {
    FILE * f = fopen(path, "r");
    static char line[1 << 16];
    char pat[256] = "";
    int nn = 0;
    if (!f) { perror(path); return 3; }
    while (fgets(line, sizeof line, f)) {
        char * tok = strtok(line, " \n");
        if (!tok) continue;
        if (!strcmp(tok, "P")) {
            char * p = strtok(NULL, " \n");
            char * n = strtok(NULL, " \n");
            if (!p || !n || strlen(p) >= sizeof pat) { fprintf(stderr, "bad P line\n"); return 3; }
            strcpy(pat, p);
            nn = atoi(n);
            if (nn > MAXNUM - 2) { fprintf(stderr, "too many numeric keywords\n"); return 3; }
            set_pattern(pat);
        } else if (!strcmp(tok, "H")) {
            char * h = strtok(NULL, " \n");
            char * e = strtok(NULL, " \n");
            int32_t expn[MAXNUM];
            int i, exp;
            if (!h || !e || !pat[0]) { fprintf(stderr, "bad H line\n"); return 3; }
            exp = atoi(e);
            for (i = 0; i < nn; i++) expn[i] = MARK;
            if (exp) for (i = 0; i < nn; i++) {
                char * t = strtok(NULL, " \n");
                if (!t) { fprintf(stderr, "missing number in H line\n"); return 3; }
                expn[i] = (int32_t) atol(t);
            }
            run_pair(pat, nn, h, exp, expn);
        }
    }
    fclose(f);
    printf("{\"summary\":1,\"pairs\":%ld,\"calls\":%ld,\"mismatches\":%ld}\n", npairs, ncalls, nmismatch);
    return 0;
}

/* ---- seeded random cases, recorded for TVMatch ---- */
static uint64_t rng;
static unsigned rnd(void) { rng ^= rng << 13; rng ^= rng >> 7; rng ^= rng << 17; return (unsigned) (rng >> 11); }
static const char * lexicon[] = {"ABCd", "ABcd", "EFgh", "XY", "MEASure", "VOLTage", "DC", "OUTPut", "Ab", "ABCdef"};
#define NLEX (sizeof lexicon / sizeof lexicon[0])

typedef struct { const char * name; int opt, num; } kw_t;

static size_t short_len(const char * n) { size_t i = 0; while (n[i] && !(n[i] >= 'a' && n[i] <= 'z')) i++; return i; }

static void rnd_mnemonic(char * out, const kw_t * k, int noise) {
    size_t sl = short_len(k->name), ll = strlen(k->name), n = (rnd() & 1) ? sl : ll, i;
    unsigned r = noise ? rnd() % 14 : 99;
    if (r == 0 && n > 1) n--;                       /* one letter less */
    else if (r == 1 && n < ll) n++;                 /* one letter more than the short form */
    memcpy(out, k->name, n); out[n] = 0;
    if (r == 2) strcat(out, "Z");                   /* one letter more than the long form */
    if ((k->num && rnd() % 3) || r == 3) {           /* digits (where allowed, or not) */
        char d[8];
        snprintf(d, sizeof d, rnd() % 4 ? "%u" : "0%u", rnd() % (rnd() & 1 ? 10 : 1000));
        strcat(out, d);
    }
    if (r == 4) strcat(out, "Z");                   /* letter after the digits */
    if (r == 5) out[0] = 0;                         /* empty mnemonic */
    for (i = 0; out[i]; i++) {                      /* letter case */
        unsigned c = rnd() % 3;
        if (c == 0 && out[i] >= 'A' && out[i] <= 'Z') out[i] += 32;
        else if (c == 1 && out[i] >= 'a' && out[i] <= 'z') out[i] -= 32;
    }
}

static int record(unsigned long seedv, long n, int maxkw, int maxmn, const char * outpath) {
    FILE * f = fopen(outpath, "w");
    long i;
    if (!f) { perror(outpath); return 3; }
    rng = 0x9E3779B97F4A7C15ull ^ (seedv * 0x100000001B3ull);
    for (i = 0; i < 10; i++) rnd();
    for (i = 0; i < n; ) {
        kw_t kws[8];
        char pat[256] = "";
        int nk = 1 + rnd() % maxkw, j, query = rnd() & 1, nn = 0, mand = 0, h;
        for (j = 0; j < nk; j++) {
            kws[j].name = lexicon[rnd() % (rnd() % 4 ? 4 : NLEX)];
            kws[j].opt = rnd() % 3 == 0;
            kws[j].num = rnd() % 3 == 0;
            if (!kws[j].opt) mand = 1;
            nn += kws[j].num;
        }
        if (!mand) kws[rnd() % nk].opt = 0;
        for (j = 0; j < nk; j++) {
            if (kws[j].opt) strcat(pat, "[");
            if (j > 0 || kws[j].opt) strcat(pat, ":");
            strcat(pat, kws[j].name);
            if (kws[j].num) strcat(pat, "#");
            if (kws[j].opt) strcat(pat, "]");
        }
        if (query) strcat(pat, "?");
        set_pattern(pat);
        for (h = 0; h < 40 && i < n; h++, i++) {
            char hz[256] = "", m[64];
            int noisy = rnd() % 3 == 0, first = 1, r0, r1, extra = rnd() % 12 == 0;
            size_t hl;
            char * hb;
            int32_t * v = fresh_nums(nn + 1);
            int mn = 0;
            if (rnd() % 4 == 0) strcat(hz, ":");
            for (j = 0; j < nk && mn < maxmn; j++) {
                if (kws[j].opt && (rnd() & 1)) continue;            /* optional keyword left out */
                if (!kws[j].opt && noisy && rnd() % 10 == 0) continue; /* mandatory keyword dropped */
                rnd_mnemonic(m, &kws[j], noisy && rnd() % 3 == 0);
                if (!first) strcat(hz, ":");
                strcat(hz, m); first = 0; mn++;
            }
            if (extra && mn < maxmn) { kw_t k = {lexicon[rnd() % 4], 0, 0}; rnd_mnemonic(m, &k, 0); if (!first) strcat(hz, ":"); strcat(hz, m); }
            if (query ? rnd() % 8 != 0 : rnd() % 8 == 0) strcat(hz, "?");
            hl = strlen(hz);
            if (hl == 0) { free(v); continue; }
            hb = malloc(hl + 1);                    /* header + terminator, as in the parser's buffer */
            memcpy(hb, hz, hl);
            hb[hl] = '\n';
            r0 = matchCommand(pat, hb, hl, NULL, 0, 0) ? 1 : 0;
            r1 = matchCommand(pat, hb, hl, v, (size_t) nn + 1, MARK) ? 1 : 0;
            fprintf(f, "{\"p\":\"%s\",\"h\":\"%s\",\"pb\":[", pat, hz);
            for (j = 0; pat[j]; j++) fprintf(f, "%s%d", j ? "," : "", pat[j]);
            fprintf(f, "],\"hb\":[");
            for (j = 0; hz[j]; j++) fprintf(f, "%s%d", j ? "," : "", hz[j]);
            fprintf(f, "],\"r\":%d,\"rn\":%d,\"n\":", r0, r1);
            put_vec(f, v, nn);
            fprintf(f, "}\n");
            free(hb); free(v);
            npairs++;
        }
    }
    fclose(f);
    printf("{\"summary\":1,\"pairs\":%ld}\n", npairs);
    return 0;
}

/* one pair from the command line, recorded in the TVMatch format (used by the replay command) */
static int single(const char * pat, const char * hz, const char * outpath) {
    FILE * f = fopen(outpath, "a");
    size_t hl = strlen(hz), j;
    char * hb = malloc(hl + 1);
    int nn = 0, r0, r1;
    int32_t * v;
    if (!f) { perror(outpath); return 3; }
    for (j = 0; pat[j]; j++) nn += pat[j] == '#';
    v = fresh_nums(nn + 1);
    memcpy(hb, hz, hl);
    hb[hl] = '\n';
    r0 = matchCommand(pat, hb, hl, NULL, 0, 0) ? 1 : 0;
    r1 = matchCommand(pat, hb, hl, v, (size_t) nn + 1, MARK) ? 1 : 0;
    fprintf(f, "{\"p\":\"%s\",\"h\":\"%s\",\"pb\":[", pat, hz);
    for (j = 0; pat[j]; j++) fprintf(f, "%s%d", j ? "," : "", pat[j]);
    fprintf(f, "],\"hb\":[");
    for (j = 0; hz[j]; j++) fprintf(f, "%s%d", j ? "," : "", hz[j]);
    fprintf(f, "],\"r\":%d,\"rn\":%d,\"n\":", r0, r1);
    put_vec(f, v, nn);
    fprintf(f, "}\n");
    fclose(f);
    free(hb); free(v);
    return 0;
}

int main(int argc, char ** argv) {
    if (argc >= 3 && !strcmp(argv[1], "replay")) return replay(argv[2]);
    if (argc >= 7 && !strcmp(argv[1], "record")) return record(strtoul(argv[2], 0, 10), atol(argv[3]), atoi(argv[4]), atoi(argv[5]), argv[6]);
    if (argc >= 5 && !strcmp(argv[1], "single")) return single(argv[2], argv[3], argv[4]);
    fprintf(stderr, "usage: drv_match replay <cases> | record <seed> <n> <maxkw> <maxmn> <out> | single <pattern> <header> <out>\n");
    return 3;
}
