/*
 * drv_lexer - runs the token recognisers of the real library (lexer.c) and the program-data /
 * message-unit functions of parser.c on enumerated, random or given byte strings and records
 * what each of them reported, one ndjson line per string, for TVLexer.tla.
 *
 *   drv_lexer <plan> <index> <seed> <out>
 *
 * plan: one group per line:  name kind alphabet-hex lo hi ids count file
 *   kind enum : every string of length lo..hi over the alphabet
 *   kind rand : <count> seeded random strings of length lo..hi over the alphabet
 *   kind file : strings (hex, one per line) read from <file>
 *   ids       : comma separated recogniser numbers (see names[])
 *
 * Every string s is run in these embeddings (m):
 *   0  buffer = exactly s in an exact-size malloc (ASan traps any over-read), cursor at 0
 *   1  same buffer, cursor at 1 (the recogniser must not look left of the cursor)
 *   2  buffer = s followed by three more token-continuing bytes, length limit = |s|
 *      (the recogniser must honour the length, not the allocation or a NUL)
 *   3  as 0 but the output token is pre-filled with garbage; recorded only if it differs from 0
 *
 * line: {"g":name,"b":[bytes],"k":[ids],"r":[[m,pos,[result per id]],...]}
 * result: lexers and ProgramData [ret,type,off,len,cur]; AllProgramData [ret,type,off,len,cur,nparams];
 *         unit detector [ret,htype,hoff,hlen,dtype,doff,dlen,nparams,termination]; offsets 0-based
 *         from the start of the buffer, -1 = pointer outside the buffer.
 */
#include <stdio.h>
#include <stdlib.h>
#include <string.h>
#include <stdint.h>
#include <ctype.h>
#include "scpi/scpi.h"
#include "lexer_private.h"
#include "parser_private.h"

enum { R_WS, R_HDR, R_CHR, R_DEC, R_SUF, R_NDC, R_STR, R_BLK, R_EXP, R_COMMA, R_SEMI, R_COLON, R_NL, R_SPEC, R_PD, R_APD, R_UNIT, R_COUNT };
#define SPEC_CHR '@'
#define MAXG 64
#define MAXL 1100

typedef struct {
    char name[24], kind[8], file[256];
    unsigned char alpha[64];
    int na, lo, hi, ids[R_COUNT], nids;
    long count;
} group_t;
static group_t G[MAXG];
static int ng;

static unsigned char cur_s[MAXL + 8];
static int cur_n = -1, cur_id = -1, cur_m = -1;
void __asan_on_error(void);
void __asan_on_error(void) {
    int i;
    fprintf(stderr, "DRV-CASE id=%d m=%d hex=", cur_id, cur_m);
    for (i = 0; i < cur_n; i++) fprintf(stderr, "%02x", cur_s[i]);
    fprintf(stderr, "\n");
}

static int tt(int t) {
    switch (t) {
        case SCPI_TOKEN_COMMA: return 0; case SCPI_TOKEN_SEMICOLON: return 1; case SCPI_TOKEN_COLON: return 2;
        case SCPI_TOKEN_SPECIFIC_CHARACTER: return 3; case SCPI_TOKEN_QUESTION: return 4; case SCPI_TOKEN_NL: return 5;
        case SCPI_TOKEN_HEXNUM: return 6; case SCPI_TOKEN_OCTNUM: return 7; case SCPI_TOKEN_BINNUM: return 8;
        case SCPI_TOKEN_PROGRAM_MNEMONIC: return 9; case SCPI_TOKEN_DECIMAL_NUMERIC_PROGRAM_DATA: return 10;
        case SCPI_TOKEN_DECIMAL_NUMERIC_PROGRAM_DATA_WITH_SUFFIX: return 11; case SCPI_TOKEN_SUFFIX_PROGRAM_DATA: return 12;
        case SCPI_TOKEN_ARBITRARY_BLOCK_PROGRAM_DATA: return 13; case SCPI_TOKEN_SINGLE_QUOTE_PROGRAM_DATA: return 14;
        case SCPI_TOKEN_DOUBLE_QUOTE_PROGRAM_DATA: return 15; case SCPI_TOKEN_PROGRAM_EXPRESSION: return 16;
        case SCPI_TOKEN_COMPOUND_PROGRAM_HEADER: return 17; case SCPI_TOKEN_INCOMPLETE_COMPOUND_PROGRAM_HEADER: return 18;
        case SCPI_TOKEN_COMMON_PROGRAM_HEADER: return 19; case SCPI_TOKEN_INCOMPLETE_COMMON_PROGRAM_HEADER: return 20;
        case SCPI_TOKEN_COMPOUND_QUERY_PROGRAM_HEADER: return 21; case SCPI_TOKEN_COMMON_QUERY_PROGRAM_HEADER: return 22;
        case SCPI_TOKEN_WS: return 23; case SCPI_TOKEN_ALL_PROGRAM_DATA: return 24; case SCPI_TOKEN_INVALID: return 25;
        case SCPI_TOKEN_UNKNOWN: return 26;
        default: return 27; /* garbage */
    }
}
#define T_UNKNOWN 26
#define T_INVALID 25
static int term_of(int t) {
    switch (t) { case SCPI_MESSAGE_TERMINATION_NONE: return 0; case SCPI_MESSAGE_TERMINATION_NL: return 1; case SCPI_MESSAGE_TERMINATION_SEMICOLON: return 2; default: return 3; }
}

static char junk[4];
static int off_of(const char * p, const char * base, int total) {
    if (p != NULL && p >= base && p <= base + total) return (int) (p - base);
    return -1;
}

/* run recogniser id on (base, total) with the cursor at pos; o[] receives the result, returns its length */
static int run_one(int id, char * base, int total, int pos, int poison, int * o) {
    lex_state_t st;
    scpi_token_t t;
    int ret = 0, np = -77;
    if (id == R_UNIT) {
        scpi_parser_state_t ps;
        memset(&ps, poison ? 0x5a : 0, sizeof ps);
        if (!poison) { ps.programHeader.type = SCPI_TOKEN_UNKNOWN; ps.programData.type = SCPI_TOKEN_UNKNOWN; }
        else { ps.programHeader.ptr = junk; ps.programData.ptr = junk; ps.programHeader.len = 77; ps.programData.len = 77; ps.numberOfParameters = 77; }
        ret = scpiParser_detectProgramMessageUnit(&ps, base + pos, total - pos);
        o[0] = ret; o[1] = tt(ps.programHeader.type); o[2] = off_of(ps.programHeader.ptr, base, total); o[3] = ps.programHeader.len;
        o[4] = tt(ps.programData.type); o[5] = off_of(ps.programData.ptr, base, total); o[6] = ps.programData.len;
        o[7] = ps.numberOfParameters; o[8] = term_of(ps.termination);
        return 9;
    }
    st.buffer = base; st.pos = base + pos; st.len = total;
    if (poison) { t.type = SCPI_TOKEN_INVALID; t.ptr = junk; t.len = 77; }
    else { t.type = SCPI_TOKEN_UNKNOWN; t.ptr = NULL; t.len = 0; }
    switch (id) {
        case R_WS: ret = scpiLex_WhiteSpace(&st, &t); break;
        case R_HDR: ret = scpiLex_ProgramHeader(&st, &t); break;
        case R_CHR: ret = scpiLex_CharacterProgramData(&st, &t); break;
        case R_DEC: ret = scpiLex_DecimalNumericProgramData(&st, &t); break;
        case R_SUF: ret = scpiLex_SuffixProgramData(&st, &t); break;
        case R_NDC: ret = scpiLex_NondecimalNumericData(&st, &t); break;
        case R_STR: ret = scpiLex_StringProgramData(&st, &t); break;
        case R_BLK: ret = scpiLex_ArbitraryBlockProgramData(&st, &t); break;
        case R_EXP: ret = scpiLex_ProgramExpression(&st, &t); break;
        case R_COMMA: ret = scpiLex_Comma(&st, &t); break;
        case R_SEMI: ret = scpiLex_Semicolon(&st, &t); break;
        case R_COLON: ret = scpiLex_Colon(&st, &t); break;
        case R_NL: ret = scpiLex_NewLine(&st, &t); break;
        case R_SPEC: ret = scpiLex_SpecificCharacter(&st, &t, SPEC_CHR); break;
        case R_PD: ret = scpiParser_parseProgramData(&st, &t); break;
        case R_APD: ret = scpiParser_parseAllProgramData(&st, &t, &np); break;
        default: fprintf(stderr, "bad id %d\n", id); exit(3);
    }
    o[0] = ret; o[1] = tt(t.type); o[2] = off_of(t.ptr, base, total); o[3] = t.len;
    o[4] = (st.pos >= base - 8 && st.pos <= base + total + 8) ? (int) (st.pos - base) : -99;
    if (id == R_APD) { o[5] = np; return 6; }
    return 5;
}

static FILE * out;
static long n_strings, n_evals, nt_total, nt_prefix, nt_rollback, nt_end, n_poison_diff;

static int in_first(int id, int c) {
    int al = (c >= 'A' && c <= 'Z') || (c >= 'a' && c <= 'z'), dg = c >= '0' && c <= '9';
    switch (id) {
        case R_HDR: return al || c == '*' || c == ':';
        case R_DEC: return dg || c == '+' || c == '-' || c == '.';
        case R_SUF: return al || c == '/';
        case R_NDC: case R_BLK: return c == '#';
        case R_STR: return c == '"' || c == '\'';
        case R_EXP: return c == '(';
        case R_NL: return c == '\r' || c == '\n';
        case R_PD: case R_APD: return al || dg || c == '+' || c == '-' || c == '.' || c == '#' || c == '"' || c == '\'' || c == '(' || c == ' ' || c == '\t';
        case R_UNIT: return 1;
        default: return 0;
    }
}

/* is (string, recogniser) already a case of an earlier enum group?  (keeps distinct_nontrivial distinct) */
static int covered_earlier(int gi, const unsigned char * s, int n, int id) {
    int g, i, j, ok;
    for (g = 0; g < gi; g++) {
        if (strcmp(G[g].kind, "enum") || n < G[g].lo || n > G[g].hi) continue;
        for (ok = 0, i = 0; i < G[g].nids; i++) if (G[g].ids[i] == id) ok = 1;
        if (!ok) continue;
        for (i = 0; i < n && ok; i++) {
            for (ok = 0, j = 0; j < G[g].na; j++) if (G[g].alpha[j] == s[i]) ok = 1;
        }
        if (ok) return 1;
    }
    return 0;
}

#define HB 22
static uint64_t * seen;
static int seen_before(const unsigned char * s, int n) {
    uint64_t h = 1469598103934665603ull;
    unsigned k;
    int i;
    if (!seen) seen = calloc((size_t) 1 << HB, sizeof *seen);
    for (i = 0; i < n; i++) { h ^= s[i]; h *= 1099511628211ull; }
    h ^= (uint64_t) n << 56; if (h == 0) h = 1;
    for (k = (unsigned) (h >> 20) & ((1u << HB) - 1); seen[k]; k = (k + 1) & ((1u << HB) - 1)) if (seen[k] == h) return 1;
    seen[k] = h;
    return 0;
}

static void print_res(const int * o, int n) {
    int i;
    fputc('[', out);
    for (i = 0; i < n; i++) fprintf(out, i ? ",%d" : "%d", o[i]);
    fputc(']', out);
}

static void do_string(int gi, const unsigned char * s, int n) {
    const group_t * g = &G[gi];
    int m, i, k, first = 1;
    int res0[R_COUNT][9], len0[R_COUNT];
    if (!strcmp(g->kind, "enum") ? 0 : seen_before(s, n)) return;
    n_strings++;
    memcpy(cur_s, s, n); cur_n = n;
    fprintf(out, "{\"g\":\"%s\",\"b\":[", g->name);
    for (i = 0; i < n; i++) fprintf(out, i ? ",%d" : "%d", s[i]);
    fprintf(out, "],\"k\":[");
    for (i = 0; i < g->nids; i++) fprintf(out, i ? ",%d" : "%d", g->ids[i]);
    fprintf(out, "],\"r\":[");
    for (m = 0; m < 4; m++) {
        int pos = (m == 1) ? 1 : 0, total = n, alloc = n, anydiff = 0;
        int res[R_COUNT][9], len[R_COUNT];
        if (m == 1 && n < 1) continue;
        if (m == 2) alloc = n + 3;
        for (k = 0; k < g->nids; k++) {
            /* fresh exact-size allocation for every call */
            char * base = malloc(alloc);
            if (!base) base = malloc(1);
            memcpy(base, s, n);
            if (m == 2) {
                base[n] = n ? (char) s[n - 1] : 'A'; base[n + 1] = n ? (char) s[n - 1] : '1'; base[n + 2] = n ? (char) s[0] : ' ';
            }
            cur_id = g->ids[k]; cur_m = m;
            len[k] = run_one(g->ids[k], base, total, pos, m == 3, res[k]);
            n_evals++;
            if (memcmp(base, s, n)) { fprintf(stderr, "DRV-WRITE recogniser %d modified its input\n", g->ids[k]); exit(4); }
            free(base);
            if (m == 0) { memcpy(res0[k], res[k], sizeof res[k]); len0[k] = len[k]; }
            if (m == 3 && memcmp(res0[k], res[k], len[k] * sizeof(int))) anydiff = 1;
        }
        if (m == 3) { if (!anydiff) continue; n_poison_diff++; }
        fprintf(out, first ? "[%d,%d,[" : ",[%d,%d,[", m, pos);
        first = 0;
        for (k = 0; k < g->nids; k++) { if (k) fputc(',', out); print_res(res[k], len[k]); }
        fprintf(out, "]]");
        if (m == 0) {
            for (k = 0; k < g->nids; k++) {
                int id = g->ids[k], * o = res[k], consumed, nothing, a, b, c;
                if (id == R_UNIT) { consumed = o[0]; nothing = o[1] == T_INVALID; }
                else { consumed = o[4]; nothing = o[1] == T_UNKNOWN; }
                a = !nothing && consumed > 0 && consumed < n;
                b = nothing && n >= 1 && in_first(id, s[0]);
                c = consumed == n && n > 0;
                if ((a || b || c) && !covered_earlier(gi, s, n, id)) { nt_total++; nt_prefix += a; nt_rollback += b; nt_end += c; }
            }
        }
    }
    fprintf(out, "]}\n");
    (void) len0;
}

static uint64_t rng;
static unsigned rnd(void) { rng ^= rng << 13; rng ^= rng >> 7; rng ^= rng << 17; return (unsigned) (rng >> 11); }

static void run_group(int gi, unsigned long seedv) {
    group_t * g = &G[gi];
    unsigned char s[MAXL];
    if (!strcmp(g->kind, "enum")) {
        int n, i, idx[MAXL];
        for (n = g->lo; n <= g->hi; n++) {
            memset(idx, 0, sizeof idx);
            for (;;) {
                for (i = 0; i < n; i++) s[i] = g->alpha[idx[i]];
                do_string(gi, s, n);
                for (i = n - 1; i >= 0; i--) { if (++idx[i] < g->na) break; idx[i] = 0; }
                if (i < 0) break;
            }
        }
    } else if (!strcmp(g->kind, "rand")) {
        long c;
        int i, n;
        rng = 0x9E3779B97F4A7C15ull ^ (seedv * 0x100000001B3ull) ^ ((uint64_t) (gi + 1) << 40);
        for (i = 0; i < 8; i++) rnd();
        for (c = 0; c < g->count; c++) {
            n = g->lo + (int) (rnd() % (unsigned) (g->hi - g->lo + 1));
            for (i = 0; i < n; i++) s[i] = g->alpha[rnd() % (unsigned) g->na];
            do_string(gi, s, n);
        }
    } else if (!strcmp(g->kind, "file")) {
        FILE * f = fopen(g->file, "r");
        char line[4 * MAXL];
        if (!f) { perror(g->file); exit(3); }
        while (fgets(line, sizeof line, f)) {
            int n = 0;
            char * p = line;
            unsigned v;
            while (n < MAXL - 4 && isxdigit((unsigned char) p[0]) && isxdigit((unsigned char) p[1]) && sscanf(p, "%2x", &v) == 1) { s[n++] = (unsigned char) v; p += 2; }
            do_string(gi, s, n);
        }
        fclose(f);
    } else { fprintf(stderr, "bad kind %s\n", g->kind); exit(3); }
}

static void load_plan(const char * path) {
    FILE * f = fopen(path, "r");
    char line[1024];
    if (!f) { perror(path); exit(3); }
    while (ng < MAXG && fgets(line, sizeof line, f)) {
        group_t * g = &G[ng];
        char ahex[160], ids[128], * p;
        unsigned v;
        if (sscanf(line, "%23s %7s %159s %d %d %127s %ld %255s", g->name, g->kind, ahex, &g->lo, &g->hi, ids, &g->count, g->file) != 8) continue;
        for (p = ahex; sscanf(p, "%2x", &v) == 1 && g->na < 64; p += 2) g->alpha[g->na++] = (unsigned char) v;
        for (p = strtok(ids, ","); p && g->nids < R_COUNT; p = strtok(NULL, ",")) g->ids[g->nids++] = atoi(p);
        if (g->hi > MAXL - 4) g->hi = MAXL - 4;
        ng++;
    }
    fclose(f);
}

int main(int argc, char ** argv) {
    int gi;
    if (argc < 5) { fprintf(stderr, "usage: drv_lexer plan index seed out\n"); return 3; }
    load_plan(argv[1]);
    gi = atoi(argv[2]);
    if (gi < 0 || gi >= ng) { fprintf(stderr, "bad group index\n"); return 3; }
    out = fopen(argv[4], "w");
    if (!out) { perror(argv[4]); return 3; }
    run_group(gi, strtoul(argv[3], NULL, 10));
    fclose(out);
    printf("{\"group\":\"%s\",\"strings\":%ld,\"evaluations\":%ld,\"nontrivial\":%ld,\"nt_prefix\":%ld,\"nt_rollback\":%ld,\"nt_end\":%ld,\"poison_diff\":%ld}\n",
           G[gi].name, n_strings, n_evals, nt_total, nt_prefix, nt_rollback, nt_end, n_poison_diff);
    return 0;
}
